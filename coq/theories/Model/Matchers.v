(* Executable model of pkg/labels/matcher.go match semantics: Matcher.Matches, Matchers.Matches (AND),
   MatcherSet.Matches (OR of ANDs). Shared by C02 C03 C07 C16.
   Go's regexp is an oracle: [re pattern value] must be Go's regexp.MatchString("^(?:"+pattern+")$", value).
   The harness supplies it per case as a finite table (computed with the real regexp package, anchored by the
   harness itself), so a dropped anchoring in the code shows up as a mismatch. Theorems hold for every [re]. *)
From AM Require Import Base.Prelude.

Inductive mtype := MEq | MNeq | MRe | MNre.
Global Instance mtype_eq_dec : EqDecision mtype. Proof. solve_decision. Defined.
Record matcher := mkM { m_type : mtype; m_name : string; m_value : string }.
Global Instance matcher_eq_dec : EqDecision matcher. Proof. solve_decision. Defined.

(* label sets: association lists with unique names (the harness emits them sorted by name);
   a missing label reads as the empty string, as indexing a model.LabelSet does *)
Notation labels := (list (string * string)) (only parsing).
Fixpoint lget (ls : labels) (n : string) : string :=
  match ls with
  | [] => ""
  | (k, v) :: r => if String.eqb k n then v else lget r n
  end.

Section Match.
  Variable re : string -> string -> bool.

  Definition m_matches (m : matcher) (v : string) : bool :=
    match m_type m with
    | MEq => String.eqb v (m_value m)
    | MNeq => negb (String.eqb v (m_value m))
    | MRe => re (m_value m) v
    | MNre => negb (re (m_value m) v)
    end.

  Definition ms_matches (ms : list matcher) (ls : labels) : bool :=
    forallb (fun m => m_matches m (lget ls (m_name m))) ms.

  Definition mset_matches (mss : list (list matcher)) (ls : labels) : bool :=
    existsb (fun ms => ms_matches ms ls) mss.
End Match.

(* regexp oracle as a finite table of (pattern, value, result); unknown pairs read as false and are reported by
   the harness generators as a bug in the harness (every pair a case can ask about must be in its table) *)
Definition re_table := list (string * string * bool).
Fixpoint re_of_table (t : re_table) (p v : string) : bool :=
  match t with
  | [] => false
  | (p', v', b) :: r => if String.eqb p p' && String.eqb v v' then b else re_of_table r p v
  end.
