(* Executable model of silence/silence.go (+ the silence handlers of api/v2/api.go, api/v2/compat.go).
   Definitions only (no proofs) so that the model still runs when a proof breaks. Shared by C12, C09, C02.

   What is modelled, piece by piece, with the SAME separate pieces the code keeps:
     st  : id -> MeshSilence                  (Silences.st, type state)
     mi  : id -> compiled matcher sets        (Silences.mi, matcherIndex; written ONLY by indexSilence/loadSnapshot)
     vi  : ordered list of (version, id)      (Silences.vi, versionIndex; appended by indexSilence/loadSnapshot, and by
                                               reindexSilence when a MERGE replaces a known id: entry moved to the tail)
     ver : the version counter                (Silences.version; bumped by indexSilence/loadSnapshot/reindexSilence)
   A Set / Expire that replaces the stored version of an id leaves mi, vi, ver untouched (setSilence indexes only new ids).
   state.merge, setSilence, indexSilence, Set, canUpdate, expire/Expire, GC, Query (QIDs/QSince/QState/QMatches,
   filters applied in parameter order), Merge (decodeState: last record per id wins; `added` vs `changed`),
   loadSnapshot (snapshot reload into a NEW Silences object), checkSizeLimits / MaxSilences, validateSilence,
   postSilencesHandler / deleteSilenceHandler / getSilenceHandler.

   Time: Z nanoseconds on the instance's clock. A nil / zero protobuf timestamp is 0; every real instant is > 0.
   The code reads the clock up to three times inside one Set (Set, the state test before expiring the previous
   silence, expire); the model uses one instant per call (they coincide under virtual time).
   Ids: strings. uuid.NewRandom is the explicit argument [fresh] of Set (assumed not in the store by the theorems).
   External code is the oracle record [ext] (regexp, label-name and UTF-8 validity): universally quantified in the
   theorems, instantiated per case by tables computed by the harness with the real libraries.
   Go map iteration order (Merge over the decoded batch, loadSnapshot over the decoded state) is an explicit
   [order] argument: ids listed there are visited first, in that order; the theorems hold for every order.
   Not modelled: unknown matcher type enum values, nil ExpiresAt / nil Silence.{Starts,Ends}At inside gossiped or
   snapshotted records (nil reads as instant 0), receiver_matcher_sets (never read by the package), the legacy
   `comments`/`matchers` fields on the Set path (they are modelled on the Merge / snapshot path), metrics, logs,
   event recorder, tracing. *)
From AM Require Import Base.Prelude Gen.Consts Model.Matchers.

(* ---------- records ---------- *)

Inductive sstate := SPending | SActive | SExpired.
Global Instance sstate_eq_dec : EqDecision sstate. Proof. solve_decision. Defined.

Record silence := mkSil {
  s_id : string;
  s_ms : list (list matcher);          (* MatcherSets: OR of ANDs *)
  s_start : Z; s_end : Z; s_upd : Z;   (* StartsAt, EndsAt, UpdatedAt *)
  s_by : string; s_comment : string;
  s_ann : list (string * string) }.    (* annotations, sorted by key by the harness *)
Global Instance silence_eq_dec : EqDecision silence. Proof. solve_decision. Defined.

Record msil := mkMsil { m_sil : silence; m_exp : Z }.   (* MeshSilence: silence + ExpiresAt *)
Global Instance msil_eq_dec : EqDecision msil. Proof. solve_decision. Defined.

Definition m_id (e : msil) : string := s_id (m_sil e).
Definition m_upd (e : msil) : Z := s_upd (m_sil e).

(* a record as it travels in gossip / snapshots: with the two legacy fields *)
Record wire := mkWire {
  w_sil : silence; w_exp : Z;
  w_lms : list matcher;                    (* legacy Silence.matchers *)
  w_comments : list (string * string) }.   (* legacy Silence.comments: (author, comment) *)
Global Instance wire_eq_dec : EqDecision wire. Proof. solve_decision. Defined.

Notation smap := (gmap string msil) (only parsing).
Notation mimap := (gmap string (list (list matcher))) (only parsing).

Record store := mkStore { st : smap; mi : mimap; vi : list (Z * string); ver : Z }.
Definition empty_store : store := mkStore ∅ ∅ [] 0.

(* configuration: retention, Limits.MaxSilences, Limits.MaxSilenceSizeBytes (<= 0 or unset: no limit) *)
Record cfg := mkCfg { c_ret : Z; c_maxsil : Z; c_maxsize : Z }.

(* external functions *)
Record ext := mkExt {
  x_re : string -> string -> bool;   (* regexp.MatchString("^(?:"+p+")$", v) *)
  x_re_ok : string -> bool;          (* regexp.Compile(p) succeeds; ASSUMED equal to: Compile("^(?:"+p+")$") succeeds
                                        (validateMatcher uses the former, matcherIndex.add the latter; the harness
                                        asserts the equality for every pattern it uses) *)
  x_re_empty : string -> bool;       (* regexp.MatchString(p, "") *)
  x_name_ok : string -> bool;        (* compat.IsValidLabelName *)
  x_utf8 : string -> bool }.         (* utf8.ValidString: LabelValue.IsValid, and protobuf refuses to marshal others *)

(* ---------- small helpers ---------- *)

Definition second : Z := 1000000000.

(* getState *)
Definition sil_state (s : silence) (ts : Z) : sstate :=
  if ts <? s_start s then SPending else if s_end s <? ts then SExpired else SActive.

(* silence.CurrentState (used by the API to print the status): half-open at the end *)
Definition current_state (s : silence) (now : Z) : sstate :=
  if now <? s_start s then SPending else if now <? s_end s then SActive else SExpired.

Definition with_times (s : silence) (start end_ upd : Z) : silence :=
  mkSil (s_id s) (s_ms s) start end_ upd (s_by s) (s_comment s) (s_ann s).
Definition with_id (s : silence) (id : string) : silence :=
  mkSil id (s_ms s) (s_start s) (s_end s) (s_upd s) (s_by s) (s_comment s) (s_ann s).

(* toMeshSilence *)
Definition mesh (c : cfg) (s : silence) : msil := mkMsil s (s_end s + c_ret c).

Definition is_re (m : matcher) : bool := match m_type m with MRe | MNre => true | _ => false end.

(* matcherIndex.add succeeds: every regex matcher compiles *)
Definition compiles (x : ext) (mss : list (list matcher)) : bool :=
  forallb (forallb (fun m => if is_re m then x_re_ok x (m_value m) else true)) mss.

(* protobuf marshalling fails on strings that are not valid UTF-8 *)
Definition marshal_ok (x : ext) (s : silence) : bool :=
  x_utf8 x (s_id s) && x_utf8 x (s_by s) && x_utf8 x (s_comment s) &&
  forallb (fun kv => x_utf8 x (fst kv) && x_utf8 x (snd kv)) (s_ann s) &&
  forallb (forallb (fun m => x_utf8 x (m_name m) && x_utf8 x (m_value m))) (s_ms s).

(* ---------- validateSilence ---------- *)

Definition valid_matcher (x : ext) (m : matcher) : bool :=
  x_name_ok x (m_name m) && (if is_re m then x_re_ok x (m_value m) else x_utf8 x (m_value m)).

Definition matches_empty (x : ext) (m : matcher) : bool :=
  match m_type m with
  | MEq => String.eqb (m_value m) ""
  | MRe => x_re_empty x (m_value m)
  | _ => false
  end.

Definition valid_set (x : ext) (ms : list matcher) : bool :=
  match ms with [] => false | _ => forallb (valid_matcher x) ms && negb (forallb (matches_empty x) ms) end.

Definition validate (x : ext) (s : silence) : bool :=
  match s_ms s with [] => false | _ => forallb (valid_set x) (s_ms s) end &&
  negb (s_start s =? 0) && negb (s_end s =? 0) && negb (s_end s <? s_start s).

(* ---------- state.merge / indexSilence / setSilence ---------- *)

(* state.merge: (state, changed, added) *)
Definition st_merge (now : Z) (s : smap) (e : msil) : smap * bool * bool :=
  if m_exp e <? now then (s, false, false) else
  match s !! m_id e with
  | None => (<[m_id e := e]> s, true, true)
  | Some p => if m_upd p <? m_upd e then (<[m_id e := e]> s, true, false) else (s, false, false)
  end.

Definition with_st (S : store) (s : smap) : store := mkStore s (mi S) (vi S) (ver S).

Definition index_silence (x : ext) (S : store) (s : silence) : store :=
  mkStore (st S)
          (if compiles x (s_ms s) then <[s_id s := s_ms s]> (mi S) else mi S)
          (vi S ++ [(ver S + 1, s_id s)])
          (ver S + 1).

(* reindexSilence (repo fix 5c143bd, DESIGN F1): the id gets the next version and moves to the tail of the version
   index; an id that is not in the index (its matchers did not compile on snapshot load) only bumps the version *)
Fixpoint vi_remove (id : string) (l : list (Z * string)) : option (list (Z * string)) :=
  match l with
  | [] => None
  | sv :: r => if String.eqb (snd sv) id then Some r
               else match vi_remove id r with Some r' => Some (sv :: r') | None => None end
  end.
Definition reindex_silence (S : store) (id : string) : store :=
  mkStore (st S) (mi S)
          (match vi_remove id (vi S) with Some l => l ++ [(ver S + 1, id)] | None => vi S end)
          (ver S + 1).

(* setSilence: None = marshalling failed (nothing done); otherwise the new store, changed, added.
   The caller's broadcast is [e] when changed. *)
Definition set_silence (x : ext) (now : Z) (S : store) (e : msil) : option (store * bool * bool) :=
  if negb (marshal_ok x (m_sil e)) then None else
  let '(s', changed, added) := st_merge now (st S) e in
  let S1 := with_st S s' in
  Some (if added then index_silence x S1 (m_sil e) else S1, changed, added).

(* ---------- outputs ---------- *)

Inductive out :=
| RSetOk (id : string) (bc : list msil)   (* Set returned nil; id = sil.Id afterwards; broadcast payloads *)
| RErr (code : string)
| RExpireOk (bc : list msil)
| RMerged (nbc : nat)                     (* Merge returned nil; number of times the batch was re-broadcast *)
| RGC (n : nat) (err : bool)
| RQuery (sils : list silence) (version : Z)
| RPanic
| RReloaded
| RApiGet (sil : silence) (status : sstate).
Global Instance out_eq_dec : EqDecision out. Proof. solve_decision. Defined.

(* ---------- canUpdate / expire / Set ---------- *)

Definition can_update (a b : silence) (now : Z) : bool :=
  beq (s_ms a) (s_ms b) &&
  match sil_state a now with
  | SActive => (s_start a / second =? s_start b / second) && negb (s_end b <? now)
  | SPending => negb (s_start b <? now)
  | SExpired => false
  end.

(* the silence expire() writes for a stored silence that is not yet expired *)
Definition expired_version (s : silence) (now : Z) : silence :=
  match sil_state s now with
  | SExpired => s
  | SActive => with_times s (s_start s) now now
  | SPending => with_times s now now now
  end.

(* expire(id): Err code, or the new store and what was broadcast *)
Definition expire (c : cfg) (x : ext) (now : Z) (S : store) (id : string) : res (store * list msil) :=
  match st S !! id with
  | None => Err "notfound"
  | Some p =>
      match sil_state (m_sil p) now with
      | SExpired => Ok (S, [])
      | _ =>
          let e := mesh c (expired_version (m_sil p) now) in
          match set_silence x now S e with
          | None => Err "marshal"
          | Some (S', changed, _) => Ok (S', if changed then [e] else [])
          end
      end
  end.

Definition over_count (c : cfg) (S : store) : bool :=
  (0 <? c_maxsil c) && (c_maxsil c <? Z.of_nat (size (st S)) + 1).
Definition over_size (c : cfg) (sz : Z) : bool := (0 <? c_maxsize c) && (c_maxsize c <? sz).

(* the silence Set stores on its create / replace path *)
Definition created_version (s : silence) (fresh : string) (now : Z) : silence :=
  mkSil fresh (s_ms s) (Z.max (s_start s) now) (s_end s) now (s_by s) (s_comment s) (s_ann s).

(* Silences.Set. [fresh] is the uuid it would draw; [sz] is proto.Size of the MeshSilence it measures. *)
Definition set_op (c : cfg) (x : ext) (now : Z) (S : store) (s0 : silence) (fresh : string) (sz : Z)
  : store * out :=
  let s := if s_start s0 =? 0 then with_times s0 now (s_end s0) (s_upd s0) else s0 in
  if negb (validate x s) then (S, RErr "invalid") else
  let prev := st S !! s_id s in
  if negb (String.eqb (s_id s) "") && negb (bool_decide (is_Some prev)) then (S, RErr "notfound") else
  let create (_ : unit) : store * out :=
    if over_count c S then (S, RErr "toomany") else
    let e := mesh c (created_version s fresh now) in
    if over_size c sz then (S, RErr "toobig") else
    if negb (marshal_ok x (m_sil e)) then (S, RErr "marshal") else   (* checked before the previous one is expired *)
    let r1 := match prev with
              | Some p => match sil_state (m_sil p) now with
                          | SExpired => Ok (S, [])
                          | _ => expire c x now S (m_id p)
                          end
              | None => Ok (S, [])
              end in
    match r1 with
    | Ok (S1, bc1) =>
        match set_silence x now S1 e with
        | None => (S1, RErr "marshal")
        | Some (S2, changed, _) => (S2, RSetOk fresh (bc1 ++ if changed then [e] else []))
        end
    | _ => (S, RErr "marshal")
    end in
  match prev with
  | Some p =>
      if can_update (m_sil p) s now then
        let e := mesh c (with_times s (s_start s) (s_end s) now) in
        if over_size c sz then (S, RErr "toobig") else
        match set_silence x now S e with
        | None => (S, RErr "marshal")
        | Some (S', changed, _) => (S', RSetOk (s_id s) (if changed then [e] else []))
        end
      else create tt
  | None => create tt
  end.

Definition expire_op (c : cfg) (x : ext) (now : Z) (S : store) (id : string) : store * out :=
  match expire c x now S id with
  | Ok (S', bc) => (S', RExpireOk bc)
  | Err code => (S, RErr code)
  | Panic => (S, RPanic)
  end.

(* ---------- GC ---------- *)

Definition gc_acc : Type := smap * mimap * list (Z * string) * nat * bool.
Definition gc_step (now : Z) (acc : gc_acc) (sv : Z * string) : gc_acc :=
  let '(s, m, v, n, err) := acc in
  match s !! snd sv with
  | None => (s, m, v, n, true)                (* in the version index but not in the state: dropped, error *)
  | Some e => if now <? m_exp e then (s, m, v ++ [sv], n, err)
              else (delete (m_id e) s, delete (m_id e) m, v, S n, err)
  end.

Definition gc_op (now : Z) (S : store) : store * out :=
  let '(s, m, v, n, err) := foldl (gc_step now) (st S, mi S, [], O, false) (vi S) in
  (mkStore s m v (ver S), RGC n err).

(* ---------- Query ---------- *)

Inductive qparam := QIDs (ids : list string) | QSince (v : Z) | QState (sts : list sstate) | QMatches (ls : labels).
Inductive qfilter := FState (sts : list sstate) | FMatches (ls : labels).
Record query := mkQ { q_ids : list string; q_since : option Z; q_filters : list qfilter }.

Fixpoint build_query (ps : list qparam) (q : query) : option query :=
  match ps with
  | [] => Some q
  | QIDs ids :: r =>
      match ids, q_since q with
      | [], _ => None
      | _, Some _ => None
      | _, None => build_query r (mkQ (q_ids q ++ ids) None (q_filters q))
      end
  | QSince v :: r =>
      match q_ids q with
      | [] => build_query r (mkQ [] (Some v) (q_filters q))
      | _ => None
      end
  | QState sts :: r => build_query r (mkQ (q_ids q) (q_since q) (q_filters q ++ [FState sts]))
  | QMatches ls :: r => build_query r (mkQ (q_ids q) (q_since q) (q_filters q ++ [FMatches ls]))
  end.

(* does the silence pass all filters, in order; Err = a filter failed (matcher index miss) *)
Fixpoint passes (x : ext) (S : store) (now : Z) (fs : list qfilter) (s : silence) : res bool :=
  match fs with
  | [] => Ok true
  | FState sts :: r => if bool_decide (sil_state s now ∈ sts) then passes x S now r s else Ok false
  | FMatches ls :: r =>
      match mi S !! s_id s with
      | None => Err "notfound"
      | Some mss => if mset_matches (x_re x) mss ls then passes x S now r s else Ok false
      end
  end.

(* scan a list of candidate ids (in order): missing ids are skipped when [skip] (QIDs), a panic otherwise
   (an id in the version index without a state entry: nil dereference) *)
Fixpoint scan (x : ext) (S : store) (now : Z) (fs : list qfilter) (skip : bool) (ids : list string)
  : res (list silence) :=
  match ids with
  | [] => Ok []
  | id :: r =>
      match st S !! id with
      | None => if skip then scan x S now fs skip r else Panic
      | Some e =>
          match passes x S now fs (m_sil e) with
          | Ok b => match scan x S now fs skip r with
                    | Ok l => Ok (if b then m_sil e :: l else l)
                    | o => o
                    end
          | Err code => Err code
          | Panic => Panic
          end
      end
  end.

(* versionIndex.findVersionGreaterThan + slicing: the suffix whose versions exceed v (the index is sorted) *)
Fixpoint vi_since (v : Z) (l : list (Z * string)) : list (Z * string) :=
  match l with
  | [] => []
  | sv :: r => if fst sv <=? v then vi_since v r else l
  end.

Definition query_op (x : ext) (now : Z) (S : store) (ps : list qparam) : out :=
  match build_query ps (mkQ [] None []) with
  | None => RErr "param"
  | Some q =>
      let r := match q_ids q with
               | [] => scan x S now (q_filters q) false
                         (map snd (match q_since q with Some v => vi_since v (vi S) | None => vi S end))
               | ids => scan x S now (q_filters q) true ids
               end in
      match r with
      | Ok l => RQuery l (ver S)
      | Err code => RErr code
      | Panic => RPanic
      end
  end.

(* ---------- decodeState / Merge / loadSnapshot ---------- *)

(* postprocessUnmarshalledSilence + the Comments upgrade of state.merge / loadSnapshot *)
Definition decode_rec (w : wire) : msil :=
  let s := w_sil w in
  let ms := match s_ms s, w_lms w with [], _ :: _ => [w_lms w] | _, _ => s_ms s end in
  let '(by_, cm) := match w_comments w with (a, c) :: _ => (a, c) | [] => (s_by s, s_comment s) end in
  mkMsil (mkSil (s_id s) ms (s_start s) (s_end s) (s_upd s) by_ cm (s_ann s)) (w_exp w).

(* marshalMeshSilence (prepareSilenceForMarshalling copies the first matcher set into the legacy field) *)
Definition encode_rec (e : msil) : wire :=
  mkWire (m_sil e) (m_exp e) (match s_ms (m_sil e) with ms :: _ => ms | [] => [] end) [].

(* decodeState: a record without Silence makes the whole batch invalid; later records replace earlier ones *)
Fixpoint decode_batch (b : list (option wire)) (acc : smap) : option smap :=
  match b with
  | [] => Some acc
  | None :: _ => None
  | Some w :: r => decode_batch r (<[m_id (decode_rec w) := decode_rec w]> acc)
  end.

(* iteration order of a Go map: the ids named in [order] first (each once, if present), then the rest *)
Fixpoint dedup (l : list string) : list string :=
  match l with
  | [] => []
  | a :: r => if bool_decide (a ∈ r) then dedup r else a :: dedup r
  end.
Definition ordered_ids {A} (order : list string) (m : gmap string A) : list string :=
  let first := filter (fun k => is_Some (m !! k)) (dedup order) in
  first ++ filter (fun k => k ∉ first) (map fst (map_to_list m)).
Definition ordered_vals {A} (order : list string) (m : gmap string A) : list A :=
  omap (fun k => m !! k) (ordered_ids order m).

(* one iteration of the loop in Merge: (store, broadcasts so far) *)
Definition merge_one (x : ext) (now : Z) (oversized : bool) (acc : store * nat) (e : msil) : store * nat :=
  let '(T, n) := acc in
  let '(s', merged, added) := st_merge now (st T) e in
  let S1 := with_st T s' in
  if merged then (if added then index_silence x S1 (m_sil e) else reindex_silence S1 (m_id e),
                  if oversized then n else S n)
  else (S1, n).

Definition oversized (blen : Z) : bool := MaxGossipPacketSize / 2 <? blen.

Definition merge_op (x : ext) (now : Z) (S : store) (batch : list (option wire)) (order : list string) (blen : Z)
  : store * out :=
  match decode_batch batch ∅ with
  | None => (S, RErr "decode")
  | Some m =>
      let '(S', n) := foldl (merge_one x now (oversized blen)) (S, O) (ordered_vals order m) in
      (S', RMerged n)
  end.

(* loadSnapshot into a Silences object whose version is [ver S0] (a new object: 0). Every decoded record is
   kept in st; only those whose matchers compile enter mi and vi, all with version ver+1. *)
Definition load_one (x : ext) (v : Z) (acc : mimap * list (Z * string)) (e : msil) : mimap * list (Z * string) :=
  let '(m, l) := acc in
  if compiles x (s_ms (m_sil e)) then (<[m_id e := s_ms (m_sil e)]> m, l ++ [(v, m_id e)]) else (m, l).

Definition load_snapshot (x : ext) (S0 : store) (recs : list (option wire)) (order : list string) : option store :=
  match decode_batch recs ∅ with
  | None => None
  | Some m =>
      let '(mi', vi') := foldl (load_one x (ver S0 + 1)) (∅, []) (ordered_vals order m) in
      Some (mkStore m mi' vi' (ver S0 + 1))
  end.

(* state.MarshalBinary *)
Definition snapshot (S : store) : list (option wire) := map (fun kv => Some (encode_rec (snd kv))) (map_to_list (st S)).

(* restart: Snapshot, then silence.New with that snapshot *)
Definition reload_op (x : ext) (S : store) (order : list string) : store * out :=
  match load_snapshot x empty_store (snapshot S) order with
  | Some S' => (S', RReloaded)
  | None => (S, RErr "decode")
  end.

(* ---------- api/v2 handlers ---------- *)

Definition api_post (c : cfg) (x : ext) (now : Z) (S : store) (s : silence) (fresh : string) (sz : Z) : store * out :=
  if s_end s <=? s_start s then (S, RErr "badrange")
  else if s_end s <? now then (S, RErr "pastend")
  else set_op c x now S s fresh sz.

Definition api_get (x : ext) (now : Z) (S : store) (id : string) : out :=
  match query_op x now S [QIDs [id]] with
  | RQuery [] _ => RErr "notfound"
  | RQuery (s :: _) _ =>
      match s_ms s with
      | _ :: _ :: _ => RErr "multi"
      | _ => RApiGet s (current_state s now)
      end
  | o => o
  end.

(* ---------- operations and histories ---------- *)

Inductive op :=
| OSet (s : silence) (fresh : string) (sz : Z)
| OExpire (id : string)
| OMerge (batch : list (option wire)) (order : list string) (blen : Z)
| OGC
| OQuery (ps : list qparam)
| OReload (order : list string)
| OApiPost (s : silence) (fresh : string) (sz : Z)
| OApiDelete (id : string)
| OApiGet (id : string).

Definition step (c : cfg) (x : ext) (S : store) (now : Z) (o : op) : store * out :=
  match o with
  | OSet s fresh sz => set_op c x now S s fresh sz
  | OExpire id => expire_op c x now S id
  | OMerge b order blen => merge_op x now S b order blen
  | OGC => gc_op now S
  | OQuery ps => (S, query_op x now S ps)
  | OReload order => reload_op x S order
  | OApiPost s fresh sz => api_post c x now S s fresh sz
  | OApiDelete id => expire_op c x now S id
  | OApiGet id => (S, api_get x now S id)
  end.

Fixpoint run (c : cfg) (x : ext) (S : store) (h : list (Z * op)) : store * list out :=
  match h with
  | [] => (S, [])
  | (now, o) :: r => let '(S1, y) := step c x S now o in let '(S2, ys) := run c x S1 r in (S2, y :: ys)
  end.

Definition run_store (c : cfg) (x : ext) (S : store) (h : list (Z * op)) : store := fst (run c x S h).

(* what the internals look like from outside (the harness reads them through a verif-tagged accessor) *)
Definition dump (S : store) : list string * list string * list (Z * string) * Z :=
  (map fst (map_to_list (st S)), map fst (map_to_list (mi S)), vi S, ver S).

(* ---------- oracle tables (how the harness instantiates [ext]) ---------- *)

Record ext_table := mkExtT {
  t_re : re_table; t_bad_re : list string; t_re_empty : list string; t_bad_name : list string; t_bad_utf8 : list string }.
Definition mem (s : string) (l : list string) : bool := existsb (String.eqb s) l.
Definition ext_of_table (t : ext_table) : ext :=
  mkExt (re_of_table (t_re t)) (fun p => negb (mem p (t_bad_re t))) (fun p => mem p (t_re_empty t))
        (fun n => negb (mem n (t_bad_name t))) (fun s => negb (mem s (t_bad_utf8 t))).
