(* Executable model of the mute path of silences: silence.Silencer (silence/silence.go Mutes, PostGC; silence/cache.go),
   notify.MuteStage.Exec (notify/mute.go) and the alert status the API computes (api/v2/api.go predictAlertStatus /
   alertFilter: a fresh marker in the context + the same Mutes). Built on the store model Model/Silence.v.
   Definitions only (no proofs). Used by C02.

   Cache: silence/cache.go keeps  fingerprint -> (version, silence ids). A fingerprint is modelled by the label set
   itself (injective, DESIGN 1.1); a missing entry reads as (0, []) exactly as cache.get returns &cacheEntry{}.
   So the cache is a total function labels -> centry; delete = reset to (0, []).

   Mutes, one instant [now] per call (the code reads the clock in each Query and once for getState; they coincide
   under virtual time):
     e := cache.get(fp); upto := e.version == Silences.Version()
     upto && no ids                  -> false, cache untouched                     (very fast path)
     ids non-empty                   -> old := Query(QIDs ids, QState active|pending)        (error -> no silences)
     not upto                        -> new, nv := Query(QSince e.version, QState active|pending, QMatches lset)
                                        (error -> no silences, nv := the CURRENT store version, as query() returns it)
     upto                            -> nv := e.version
     old ++ new = []                 -> cache.set(fp, (nv, [])); false
     otherwise: dedup by id (first occurrence), active ones mark + mute, active and pending ones are cached:
                                        cache.set(fp, (nv, allIDs)); muted := activeIDs <> []
   The marker receives activeIDs when muted and nil otherwise.

   Store: Model/Silence.v, which follows the repair of DESIGN F1 (/repo commit 5c143bd): Silences.Merge re-indexes a
   REPLACED id (reindex_silence: version+1, the id's versionIndex entry moves to the tail with the new version; mi
   untouched), so a newer replicated version of a silence that a cache entry already dropped is seen by QSince. *)
From AM Require Import Base.Prelude Gen.Consts Model.Matchers Model.Silence.

(* ---------- the cache ---------- *)

Record centry := mkCE { ce_ver : Z; ce_ids : list string }.
Global Instance centry_eq_dec : EqDecision centry. Proof. solve_decision. Defined.

Definition cache : Type := list (string * string) -> centry.
Definition empty_cache : cache := fun _ => mkCE 0 [].
Definition cache_set (C : cache) (ls : labels) (e : centry) : cache :=
  fun k => if decide (k = ls) then e else C k.
(* Silencer.PostGC: delete the entries of the collected alerts *)
Definition alert_gc (C : cache) (fps : list labels) : cache :=
  fun k => if bool_decide (k ∈ fps) then mkCE 0 [] else C k.

(* ---------- Mutes ---------- *)

Definition ap_states : list sstate := [SActive; SPending].

Inductive mout := MOk (muted : bool) (marked : list string) | MPanic.
Global Instance mout_eq_dec : EqDecision mout. Proof. solve_decision. Defined.

(* the `seen` map of Mutes: keep the first occurrence of every id *)
Fixpoint dedup_id (seen : list string) (l : list silence) : list silence :=
  match l with
  | [] => []
  | s :: r => if bool_decide (s_id s ∈ seen) then dedup_id seen r else s :: dedup_id (s_id s :: seen) r
  end.

Definition is_active (now : Z) (s : silence) : bool := beq (sil_state s now) SActive.
Definition not_expired_b (now : Z) (s : silence) : bool := negb (beq (sil_state s now) SExpired).

(* the two reads of the store; None = the query panicked (version index entry without state) *)
Definition read_old (x : ext) (S : store) (now : Z) (ids : list string) : option (list silence) :=
  match ids with
  | [] => Some []
  | _ => match query_op x now S [QIDs ids; QState ap_states] with
         | RQuery l _ => Some l
         | RPanic => None
         | _ => Some []
         end
  end.

Definition read_new (x : ext) (S : store) (now : Z) (v : Z) (ls : labels) : option (list silence * Z) :=
  match query_op x now S [QSince v; QState ap_states; QMatches ls] with
  | RQuery l nv => Some (l, nv)
  | RPanic => None
  | _ => Some ([], ver S)
  end.

(* what Mutes computes from the two results: the entry it writes and its verdict *)
Definition decide_mutes (now : Z) (olds news : list silence) (nv : Z) : centry * mout :=
  match olds ++ news with
  | [] => (mkCE nv [], MOk false [])
  | _ =>
      let all := dedup_id [] (olds ++ news) in
      let act := map s_id (filter (fun s => is_active now s = true) all) in
      let ids := map s_id (filter (fun s => not_expired_b now s = true) all) in
      (mkCE nv ids, MOk (match act with [] => false | _ => true end) act)
  end.

(* Mutes, with the store as each of its atomic steps sees it. Between the steps the Silencer holds no lock, so store
   operations of other goroutines may land there:  cache read (Cr) | Version() read (Sv) | Query of the cached ids (So) |
   QSince query (Sn) | state evaluation + cache write (Cw, the cache as it is by then).  One clock value [now] for the
   reads and the evaluation. *)
Definition mutes_at (x : ext) (now : Z) (Cr : cache) (Sv So Sn : store) (Cw : cache) (ls : labels) : cache * mout :=
  let e := Cr ls in
  let upto := ce_ver e =? ver Sv in
  match ce_ids e, upto with
  | [], true => (Cw, MOk false [])
  | ids, _ =>
      match read_old x So now ids with
      | None => (Cw, MPanic)
      | Some olds =>
          match (if upto then Some ([], ce_ver e) else read_new x Sn now (ce_ver e) ls) with
          | None => (Cw, MPanic)
          | Some (news, nv) =>
              let '(e', r) := decide_mutes now olds news nv in
              (cache_set Cw ls e', r)
          end
      end
  end.

(* the uninterrupted call *)
Definition mutes (x : ext) (S : store) (now : Z) (C : cache) (ls : labels) : cache * mout :=
  mutes_at x now C S S S C ls.

(* where store operations are injected into one Mutes call (the yield points of silence.go, by the step they precede) *)
Inductive ipoint :=
| IAfterCacheRead      (* "mutes:after-cache-read": before the Version() read *)
| IAfterVersionRead    (* "mutes:after-version-read" / "mutes:before-old-query" *)
| IAfterOldQuery       (* "mutes:after-old-query" / "mutes:before-new-query" *)
| IAfterNewQuery.      (* "mutes:after-new-query" / "mutes:before-cache-write" *)

(* ---------- MuteStage.Exec with the Silencer as muter: Mutes for every alert in order, muted ones dropped ---------- *)

Fixpoint mute_stage (x : ext) (S : store) (now : Z) (C : cache) (alerts : list labels) : cache * option (list labels) :=
  match alerts with
  | [] => (C, Some [])
  | a :: r =>
      match mutes x S now C a with
      | (C1, MOk muted _) =>
          match mute_stage x S now C1 r with
          | (C2, Some kept) => (C2, Some (if muted then kept else a :: kept))
          | o => o
          end
      | (C1, MPanic) => (C1, None)
      end
  end.

(* ---------- alert status as the API computes it: fresh marker, Mutes, read the marker ---------- *)

Definition marker : Type := list (string * string) -> list string.
Definition fresh_marker : marker := fun _ => [].
Definition set_silenced (M : marker) (ls : labels) (ids : list string) : marker :=
  fun k => if decide (k = ls) then ids else M k.

Definition api_silenced_by (x : ext) (S : store) (now : Z) (C : cache) (ls : labels) : cache * option (list string) :=
  match mutes x S now C ls with
  | (C', MOk _ ids) => (C', Some (set_silenced fresh_marker ls ids ls))
  | (C', MPanic) => (C', None)
  end.

(* ---------- specification: direct evaluation of the stored silences ---------- *)

(* getState = active: start <= now <= end *)
Definition mutes_now (x : ext) (now : Z) (ls : labels) (e : msil) : bool :=
  is_active now (m_sil e) && mset_matches (x_re x) (s_ms (m_sil e)) ls.

Definition brute_ids (x : ext) (S : store) (ls : labels) (now : Z) : list string :=
  map fst (filter (fun kv => mutes_now x now ls (snd kv) = true) (map_to_list (st S))).
Definition brute (x : ext) (S : store) (ls : labels) (now : Z) : bool :=
  match brute_ids x S ls now with [] => false | _ => true end.

(* ---------- operations and histories of one instance ---------- *)

Inductive cop :=
| CStore (o : op)                 (* Set / Expire / Merge / GC / Query / API calls on the store *)
| CReload (order : list string)   (* restart: snapshot -> silence.New + a NEW Silencer (empty cache), as app.Run does *)
| CMutes (ls : labels)
| CMutesI (ls : labels) (pt : ipoint) (ops : list op)   (* Mutes with store operations landing inside the call *)
| CApi (ls : labels)              (* status for GET /alerts: fresh marker + Mutes *)
| CStage (alerts : list labels)   (* MuteStage.Exec on a batch *)
| CAlertGC (fps : list labels)    (* provider GC -> Silencer.PostGC *)
| CDump.                          (* observation only: bookkeeping + unfiltered Query *)

Inductive cout :=
| XStore (o : out)
| XMutes (r : mout) (cver : Z) (cids : list string)   (* verdict + the cache entry of that label set afterwards *)
| XMutesI (r : mout) (cver : Z) (cids : list string) (outs : list out)
| XApi (ids : option (list string))
| XStage (kept : option (list labels))
| XEntries (es : list (Z * list string))   (* the cache entries of the collected alerts after the eviction *)
| XDump (d : list string * list string * list (Z * string) * Z) (q : out).
Global Instance cout_eq_dec : EqDecision cout. Proof. solve_decision. Defined.

Definition cstep (c : cfg) (x : ext) (SC : store * cache) (now : Z) (o : cop) : (store * cache) * cout :=
  let S := fst SC in
  let C := snd SC in
  match o with
  | CStore so => let '(S', y) := step c x S now so in ((S', C), XStore y)
  | CReload order =>
      match reload_op x S order with
      | (S', RReloaded) => ((S', empty_cache), XStore RReloaded)
      | (S', y) => ((S', C), XStore y)
      end
  | CMutes ls => let '(C', r) := mutes x S now C ls in ((S, C'), XMutes r (ce_ver (C' ls)) (ce_ids (C' ls)))
  | CMutesI ls pt ops =>
      let '(S1, outs) := run c x S (map (fun o => (now, o)) ops) in
      let '(C', r) :=
        match pt with
        | IAfterCacheRead => mutes_at x now C S1 S1 S1 C ls
        | IAfterVersionRead => mutes_at x now C S S1 S1 C ls
        | IAfterOldQuery => mutes_at x now C S S S1 C ls
        | IAfterNewQuery => mutes_at x now C S S S C ls
        end in
      ((S1, C'), XMutesI r (ce_ver (C' ls)) (ce_ids (C' ls)) outs)
  | CApi ls => let '(C', r) := api_silenced_by x S now C ls in ((S, C'), XApi r)
  | CStage alerts => let '(C', r) := mute_stage x S now C alerts in ((S, C'), XStage r)
  | CAlertGC fps => ((S, alert_gc C fps), XEntries (map (fun k => (ce_ver (alert_gc C fps k), ce_ids (alert_gc C fps k))) fps))
  | CDump => ((S, C), XDump (dump S) (query_op x now S []))
  end.

Fixpoint crun (c : cfg) (x : ext) (SC : store * cache) (h : list (Z * cop)) : (store * cache) * list cout :=
  match h with
  | [] => (SC, [])
  | (now, o) :: r => let '(SC1, y) := cstep c x SC now o in let '(SC2, ys) := crun c x SC1 r in (SC2, y :: ys)
  end.
