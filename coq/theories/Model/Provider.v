(* Executable model of the alert ingestion path:
     api/v2/api.go   postAlertsHandler, getAlertsHandler, alertFilter (time test), removeEmptyLabels
     api/v2/compat.go OpenAPIAlertsToAlerts / AlertToOpenAPIAlert (field copies)
     alert/validate.go + Alert.Validate
     provider/mem/mem.go Put, gc (callbacks PostDelete/PostGC), GetPending, listeners (Subscribe)
     store/store.go  Get/Set/GC/List  (per-alert-name limit off: that is C18)
   Definitions only.

   The store is keyed by the fingerprint = the label list (AlertMerge.v).
   External predicates (arguments, never axioms):
     vname  n = matcher/compat.IsValidLabelName(n)   (depends on the feature-flag mode; table from the real function)
     vvalue v = model.LabelValue(v).IsValid()        (utf8.ValidString)
     route ls = receivers of dispatch.Route.Match(ls)  (C07's subject; constant for the single-route config)
     status ls = state string computed by setAlertStatus + marker (C02/C03's subject; "active" here)
   All instants read during one request (handler's now, time.Now() inside Merge/Resolved) are the same instant. *)
From AM Require Import Base.Prelude.
From AM Require Export Model.AlertMerge.

Notation store := (gmap (list (string * string)) alert) (only parsing).

(* ---- provider/mem Put, one alert ---- *)

(* "Merge alerts if there is an overlap in activity range":
   (alert.EndsAt.After(old.StartsAt) && alert.EndsAt.Before(old.EndsAt)) ||
   (alert.StartsAt.After(old.StartsAt) && alert.StartsAt.Before(old.EndsAt)) *)
Definition overlaps (old new : alert) : bool :=
  ((a_starts old <? a_ends new) && (a_ends new <? a_ends old)) ||
  ((a_starts old <? a_starts new) && (a_starts new <? a_ends old)).

(* what is stored for one label set, given what it held *)
Definition put_opt (now : Z) (cur : option alert) (a : alert) : alert :=
  match cur with
  | Some old => if overlaps old a then merge now old a else a
  | None => a
  end.

(* store.Get(fp); merge; PreStore (no-op); store.Set; PostStore; send to listeners *)
Definition put1 (now : Z) (s : store) (a : alert) : store * alert :=
  let a' := put_opt now (s !! a_labels a) a in
  (<[a_labels a' := a']> s, a').

(* Put(alerts...): in order; second component = what the listeners (Subscribe) receive, in order *)
Fixpoint put_all (now : Z) (s : store) (l : list alert) : store * list alert :=
  match l with
  | [] => (s, [])
  | a :: r => let '(s1, x) := put1 now s a in let '(s2, xs) := put_all now s1 r in (s2, x :: xs)
  end.

(* ---- gc: store.GC deletes alerts with Resolved(); mem.gc calls PostDelete per alert, then PostGC(fps) ---- *)
Definition gc (now : Z) (s : store) : store * list alert :=
  (filter (fun kv => resolved_at now (snd kv) = false) s,
   map snd (map_to_list (filter (fun kv => resolved_at now (snd kv) = true) s))).

(* ---- POST /api/v2/alerts ---- *)
Record palert := mkP { p_labels : lset; p_annots : lset; p_starts : Z; p_ends : Z; p_gen : string }.

(* first loop of postAlertsHandler: UpdatedAt, StartsAt, EndsAt/Timeout *)
Definition defaulted (now rt : Z) (p : palert) : alert :=
  let s := if p_starts p =? 0 then (if p_ends p =? 0 then now else p_ends p) else p_starts p in
  let e := if p_ends p =? 0 then now + rt else p_ends p in
  mkAlert (p_labels p) (p_annots p) s e (p_gen p) now (p_ends p =? 0).

Definition remove_empty (ls : lset) : lset := List.filter (fun kv => negb (String.eqb (snd kv) "")) ls.

(* second loop: removeEmptyLabels(a.Labels) *)
Definition prep (now rt : Z) (p : palert) : alert :=
  let a := defaulted now rt p in
  mkAlert (remove_empty (a_labels a)) (a_annots a) (a_starts a) (a_ends a) (a_gen a) (a_updated a) (a_timeout a).

Section Validate.
  Variable vname vvalue : string -> bool.

  Definition valid_ls (ls : lset) : bool := forallb (fun kv => vname (fst kv) && vvalue (snd kv)) ls.

  (* Alert.Validate *)
  Definition validate (a : alert) : bool :=
    negb (a_starts a =? 0) &&
    negb (negb (a_ends a =? 0) && (a_ends a <? a_starts a)) &&
    negb (beq (a_labels a) []) &&
    valid_ls (a_labels a) && valid_ls (a_annots a).

  Definition valid_p (now rt : Z) (p : palert) : bool := validate (prep now rt p).

  (* response: 500 if Put fails (mem.Put never does), 400 if any alert failed validation, else 200 *)
  Definition post (now rt : Z) (s : store) (batch : list palert) : store * (Z * list alert) :=
    let alerts := map (prep now rt) batch in
    let valid := List.filter validate alerts in
    let '(s', sent) := put_all now s valid in
    (s', (if forallb validate alerts then 200 else 400, sent)).
End Validate.

(* ---- GET /api/v2/alerts (no filter parameters; silenced=inhibited=active=true) ---- *)
Record galert := mkG {
  g_labels : lset; g_annots : lset; g_starts : Z; g_ends : Z; g_gen : string; g_updated : Z;
  g_receivers : list string; g_state : string }.
Global Instance galert_eq_dec : EqDecision galert. Proof. solve_decision. Defined.

(* alertFilter: if !a.EndsAt.IsZero() && a.EndsAt.Before(now) { return false } *)
Definition visible (now : Z) (a : alert) : bool := negb (negb (a_ends a =? 0) && (a_ends a <? now)).

Section Get.
  Variable route : lset -> list string.
  Variable status : lset -> string.
  Definition to_g (a : alert) : galert :=
    mkG (a_labels a) (a_annots a) (a_starts a) (a_ends a) (a_gen a) (a_updated a) (route (a_labels a)) (status (a_labels a)).
  (* GetPending lists the whole store; the handler filters and converts *)
  Definition get (now : Z) (s : store) : list galert :=
    map to_g (List.filter (visible now) (map snd (map_to_list s))).
End Get.

Definition dump (s : store) : list alert := map snd (map_to_list s).

(* ---- histories ---- *)
Inductive op :=
| OPost (batch : list palert)     (* POST /api/v2/alerts *)
| OPut (l : list alert)           (* provider Put called directly (exercises Merge with arbitrary UpdatedAt/Timeout) *)
| OGC                             (* one run of mem.Alerts.gc *)
| OGet                            (* GET /api/v2/alerts *)
| ODump.                          (* provider GetPending: every stored alert with its Timeout flag *)

Inductive out :=
| RPost (code : Z) (sent : list alert)   (* status class; alerts handed to subscribers, in order *)
| RPut (sent : list alert)
| RGC (deleted : list alert)             (* PostDelete calls = PostGC fingerprints *)
| RGet (l : list galert)
| RDump (l : list alert).
Global Instance out_eq_dec : EqDecision out. Proof. solve_decision. Defined.

Record env := mkEnv {
  e_vname : string -> bool; e_vvalue : string -> bool;
  e_rt : Z;                                   (* global.resolve_timeout *)
  e_route : lset -> list string; e_status : lset -> string }.

Definition step (E : env) (s : store) (now : Z) (o : op) : store * out :=
  match o with
  | OPost batch => let '(s', (c, sent)) := post (e_vname E) (e_vvalue E) now (e_rt E) s batch in (s', RPost c sent)
  | OPut l => let '(s', sent) := put_all now s l in (s', RPut sent)
  | OGC => let '(s', d) := gc now s in (s', RGC d)
  | OGet => (s, RGet (get (e_route E) (e_status E) now s))
  | ODump => (s, RDump (dump s))
  end.

Fixpoint run (E : env) (s : store) (h : list (Z * op)) : store * list out :=
  match h with
  | [] => (s, [])
  | (now, o) :: r => let '(s1, x) := step E s now o in let '(s2, xs) := run E s1 r in (s2, x :: xs)
  end.

Definition run_state (E : env) (s : store) (h : list (Z * op)) : store := fst (run E s h).
