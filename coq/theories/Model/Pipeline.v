(* The product of the two models that meet in the notification pipeline of one aggregation group:
     Model/Silencer.v  (silence store + Silencer cache: Set / Expire / Merge / GC / restart, Mutes, MuteStage)  and
     Model/Group.v     (the group's timer, flushes, per-integration chains, notification log),
   glued where the code glues them: a flush hands the group's alerts, in the flush's order, to MuteStage.Exec with the
   Silencer as muter (notify.go: RoutingStage -> ... -> MuteStage(silencer) -> receiver stage), at the flush's own clock
   value, and what the Silencer mutes never reaches the receiver stage.

   In Model/Group.v the suppressed set of a tick is a free parameter of the event. Here the silence part of it is
   COMPUTED by the Silencer model from the silence store as it is at that instant; the rest (inhibition, mute/active
   time intervals: C03 / C15 decide them) stays a parameter [other] of the tick. One clock for both components: every
   event, also a silence operation, goes through the group's time rules (Group.step ... EEnd).

   [lbl] maps an alert id to its label set. Definitions only. *)
From AM Require Import Base.Prelude Gen.Consts Model.Matchers Model.Silence Model.Silencer Model.Group.

Record pstate := mkP {
  p_sc : store * cache;               (* silence store + Silencer cache *)
  p_g : gstate;                       (* the group *)
  p_flush : option (Z * store) }.     (* history variable: instant and silence store of the latest flush *)

Inductive pev :=
| PSil (o : cop)                      (* silence API call, gossip merge, GC, restart, another caller of Mutes *)
| PTick (tau : Z) (other : list Z)    (* the group's timer fires; [other] = ids muted by the other mute stages *)
| PGrp (e : ev).                      (* any other event of the group (an ETick here is rejected) *)

Definition is_tick (e : ev) : bool := match e with ETick _ _ => true | _ => false end.

(* MuteStage.Exec over the flush's alerts, by id: Mutes for every alert in order, threading the cache; returns the ids
   the Silencer muted. None = a Mutes call panicked. *)
Fixpoint mute_ids (x : ext) (lbl : Z -> labels) (S : store) (now : Z) (C : cache) (ids : list Z) : cache * option (list Z) :=
  match ids with
  | [] => (C, Some [])
  | a :: r =>
      match mutes x S now C (lbl a) with
      | (C1, MOk muted _) =>
          match mute_ids x lbl S now C1 r with
          | (C2, Some sup) => (C2, Some (if muted then a :: sup else sup))
          | o => o
          end
      | (C1, MPanic) => (C1, None)
      end
  end.

(* the ids a flush at [t] hands to the pipeline, in the flush's order; the Silencer's MuteStage comes LAST of the mute
   stages (notify.go: inhibitor, time-active, time-mute, silencer), so it only sees what the others let through *)
Definition flush_ids (g : gstate) (t : Z) : list Z :=
  match s_group g with
  | Some gr => map f_id (sort_f (map (freeze t) (gr_alerts gr)))
  | None => []
  end.

Definition passed (other : list Z) (ids : list Z) : list Z := filter (fun a => negb (bool_decide (a ∈ other))) ids.

Definition pstep (cfg : gcfg) (c : Silence.cfg) (x : ext) (lbl : Z -> labels) (P : pstate) (t : Z) (e : pev)
  : option (pstate * list Group.out) :=
  match e with
  | PSil o =>
      match Group.step cfg (p_g P) t EEnd with
      | Some (g', _) => Some (mkP (fst (cstep c x (p_sc P) t o)) g' (p_flush P), [])
      | None => None
      end
  | PTick tau other =>
      let S := fst (p_sc P) in
      match mute_ids x lbl S t (snd (p_sc P)) (passed other (flush_ids (p_g P) t)) with
      | (C', Some sup) =>
          match Group.step cfg (p_g P) t (ETick tau (sup ++ other)) with
          | Some (g', o) => Some (mkP (S, C') g' (Some (t, S)), o)
          | None => None
          end
      | (_, None) => None
      end
  | PGrp e =>
      if is_tick e then None else
      match Group.step cfg (p_g P) t e with
      | Some (g', o) => Some (mkP (p_sc P) g' (p_flush P), o)
      | None => None
      end
  end.

Fixpoint prun (cfg : gcfg) (c : Silence.cfg) (x : ext) (lbl : Z -> labels) (P : pstate) (h : list (Z * pev))
  : option (pstate * list Group.out) :=
  match h with
  | [] => Some (P, [])
  | (t, e) :: r =>
      match pstep cfg c x lbl P t e with
      | Some (P1, o1) => match prun cfg c x lbl P1 r with Some (P2, o2) => Some (P2, o1 ++ o2) | None => None end
      | None => None
      end
  end.

Definition pinit (cfg : gcfg) (t0 : Z) : pstate := mkP (empty_store, empty_cache) (Group.init cfg t0) None.

(* the group-only view of a product history: what Model/Group.v sees (silence operations are clock advances, ticks
   carry the suppressed set the product computed) — defined by re-running the product *)
Fixpoint pview (cfg : gcfg) (c : Silence.cfg) (x : ext) (lbl : Z -> labels) (P : pstate) (h : list (Z * pev)) : list (Z * ev) :=
  match h with
  | [] => []
  | (t, e) :: r =>
      let e' := match e with
                | PSil _ => EEnd
                | PTick tau other =>
                    match snd (mute_ids x lbl (fst (p_sc P)) t (snd (p_sc P)) (passed other (flush_ids (p_g P) t))) with
                    | Some sup => ETick tau (sup ++ other)
                    | None => EEnd
                    end
                | PGrp e => e
                end in
      match pstep cfg c x lbl P t e with
      | Some (P1, _) => (t, e') :: pview cfg c x lbl P1 r
      | None => []
      end
  end.
