(* Executable, self-contained model of the limit checks on the create/edit path of silences:
     silence/silence.go  Silences.Set (validate, lookup, canUpdate, checkSizeLimits, MaxSilences check,
                         expire of the replaced silence, setSilence -> state.merge), Silences.expire,
                         Limits{MaxSilences, MaxSilenceSizeBytes}, getState, toMeshSilence.
   Definitions only.  (Model/Silence.v, owned by another property, models matching/muting; this file only needs
   the order of checks and state changes in Set.)

   The state is threaded explicitly and every outcome returns the state it leaves behind, so "a refused call
   leaves the silences untouched" is a statement about the model and not a by-product of its types.

   A silence: id, matcher sets (an opaque token compared with equality, as canUpdate does with proto.Equal),
   the rest of the user-supplied content (comment, creator: opaque token), StartsAt, EndsAt, UpdatedAt.
   External: proto.Size of the MeshSilence (argument `size`), the fresh uuid (argument `newid`). *)
From AM Require Import Base.Prelude.

Record sil := mkSil {
  s_id : string; s_ms : Z; s_msok : bool; s_body : Z; s_starts : Z; s_ends : Z; s_updated : Z }.
Global Instance sil_eq_dec : EqDecision sil. Proof. solve_decision. Defined.

(* MeshSilence: the silence and ExpiresAt *)
Record msil := mkMsil { m_sil : sil; m_expires : Z }.
Global Instance msil_eq_dec : EqDecision msil. Proof. solve_decision. Defined.

Notation sst := (gmap string msil) (only parsing).

Inductive sstate := Pending | Active | Expired.
Global Instance sstate_eq_dec : EqDecision sstate. Proof. solve_decision. Defined.

(* getState *)
Definition get_state (s : sil) (now : Z) : sstate :=
  if now <? s_starts s then Pending else if s_ends s <? now then Expired else Active.

Definition with_times (s : sil) (st en up : Z) : sil := mkSil (s_id s) (s_ms s) (s_msok s) (s_body s) st en up.
Definition with_id (s : sil) (id : string) : sil :=
  mkSil id (s_ms s) (s_msok s) (s_body s) (s_starts s) (s_ends s) (s_updated s).

(* validateSilence (after the zero start has been defaulted): matcher sets acceptable, non-zero times, end >= start *)
Definition valid (s : sil) : bool :=
  s_msok s && negb (s_starts s =? 0) && negb (s_ends s =? 0) && negb (s_ends s <? s_starts s).

Definition unix_s (t : Z) : Z := t / 1000000000.

(* canUpdate(a, b, now) *)
Definition can_update (a b : sil) (now : Z) : bool :=
  (s_ms a =? s_ms b) &&
  match get_state a now with
  | Active => (unix_s (s_starts a) =? unix_s (s_starts b)) && negb (s_ends b <? now)
  | Pending => negb (s_starts b <? now)
  | Expired => false
  end.

Definition to_mesh (ret : Z) (s : sil) : msil := mkMsil s (s_ends s + ret).

(* state.merge: returns the state and `changed` *)
Definition merge_st (st : sst) (m : msil) (now : Z) : sst * bool :=
  if m_expires m <? now then (st, false) else
  match st !! s_id (m_sil m) with
  | None => (<[s_id (m_sil m) := m]> st, true)
  | Some prev =>
      if s_updated (m_sil prev) <? s_updated (m_sil m) then (<[s_id (m_sil m) := m]> st, true) else (st, false)
  end.

(* Silences.expire(id) *)
Definition expire (ret : Z) (st : sst) (id : string) (now : Z) : sst * res unit :=
  match st !! id with
  | None => (st, Err "notfound")
  | Some m =>
      let s := m_sil m in
      match get_state s now with
      | Expired => (st, Ok tt)
      | Active => (fst (merge_st st (to_mesh ret (with_times s (s_starts s) now now)) now), Ok tt)
      | Pending => (fst (merge_st st (to_mesh ret (with_times s now now now)) now), Ok tt)
      end
  end.

Record limits := mkLimits { max_silences : Z; max_size : Z }.   (* nil function or value <= 0: no limit *)

(* checkSizeLimits *)
Definition size_ok (lim : limits) (psize : msil -> Z) (m : msil) : bool :=
  negb ((0 <? max_size lim) && (max_size lim <? psize m)).

(* Silences.Set(sil) at instant now *)
Definition set_sil (lim : limits) (ret : Z) (psize : msil -> Z) (st : sst) (now : Z) (s0 : sil) (newid : string)
  : sst * res string :=
  let s1 := if s_starts s0 =? 0 then with_times s0 now (s_ends s0) (s_updated s0) else s0 in
  if negb (valid s1) then (st, Err "invalid") else
  let prev := st !! s_id s1 in
  if negb (s_id s1 =? "")%string && negb (bool_decide (is_Some prev)) then (st, Err "notfound") else
  let updatable := match prev with Some p => can_update (m_sil p) s1 now | None => false end in
  if updatable then
    let m := to_mesh ret (with_times s1 (s_starts s1) (s_ends s1) now) in
    if negb (size_ok lim psize m) then (st, Err "size") else
    (fst (merge_st st m now), Ok (s_id s1))
  else
    if (0 <? max_silences lim) && (max_silences lim <? Z.of_nat (size st) + 1) then (st, Err "count") else
    let s2 := with_times (with_id s1 newid) (if s_starts s1 <? now then now else s_starts s1) (s_ends s1) now in
    let m := to_mesh ret s2 in
    if negb (size_ok lim psize m) then (st, Err "size") else
    let '(st1, r) :=
      match prev with
      | Some p => if bool_decide (get_state (m_sil p) now = Expired) then (st, Ok tt)
                  else expire ret st (s_id (m_sil p)) now
      | None => (st, Ok tt)
      end in
    match r with
    | Ok _ => (fst (merge_st st1 m now), Ok newid)
    | _ => (st1, Err "expire")
    end.

(* Query of everything: the stored silences sorted by id (gmap order is canonical) *)
Definition all_sils (st : sst) : list sil := map (fun kv => m_sil (snd kv)) (map_to_list st).
