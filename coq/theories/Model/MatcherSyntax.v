(* Executable model of the matcher text codecs (definitions only, no proofs):
     pkg/labels/matcher.go   Matcher.String, Matchers.String, openMetricsEscape, isReserved
     matcher/parse           lexer (scan/peek/scanOperator/scanQuoted/scanUnquoted), parser state machine,
                             token.unquote, Matchers (with recover), Matcher
     pkg/labels/parse.go     ParseMatcher (the regexp as a hand recogniser + the unescape loop), ParseMatchers
     matcher/compat/parse.go Classic / UTF8 / Fallback parsers
   and of the pieces of the Go library they call: utf8.DecodeRuneInString / AppendRune / ValidString,
   strconv.Quote / Unquote (double-quoted form), strings.TrimSpace.

   Strings are byte lists ([list Z], every element in 0..255 for a real Go string). A Go panic is the [Panic]
   outcome, running out of the explicit fuel is [Err "fuel"]; Proofs/MatcherSyntaxProofs.v shows neither can
   happen. External tables are Section variables (the harness passes the real answers for the runes / patterns
   that occur):
     is_space r   = unicode.IsSpace(r)
     is_print r   = strconv.IsPrint(r)           (what strconv.Quote consults)
     compiles v   = regexp.Compile("^(?:" + v + ")$") succeeds *)
From Coq Require Import Ascii String.
From AM Require Import Base.Prelude Model.Matchers.

(* ---------- bytes <-> Coq strings (used by the Run module only) ---------- *)
Definition bytes_of_string (s : string) : list Z := map (fun a => Z.of_N (N_of_ascii a)) (list_ascii_of_string s).

(* ---------- UTF-8 ---------- *)
Definition RuneError : Z := 65533.
Definition cont (b : Z) : bool := (128 <=? b) && (b <=? 191).

(* utf8.DecodeRuneInString: (rune, width). Width 0 only for the empty string; an invalid or short sequence is
   (RuneError, 1). *)
Definition decode1 (s : list Z) : Z * nat :=
  match s with
  | [] => (RuneError, 0%nat)
  | b0 :: r =>
    if (0 <=? b0) && (b0 <? 128) then (b0, 1%nat)
    else if (194 <=? b0) && (b0 <=? 223) then
      match r with
      | b1 :: _ => if cont b1 then ((b0 - 192) * 64 + (b1 - 128), 2%nat) else (RuneError, 1%nat)
      | _ => (RuneError, 1%nat)
      end
    else if (224 <=? b0) && (b0 <=? 239) then
      match r with
      | b1 :: b2 :: _ =>
        let lo := if b0 =? 224 then 160 else 128 in
        let hi := if b0 =? 237 then 159 else 191 in
        if (lo <=? b1) && (b1 <=? hi) && cont b2
        then ((b0 - 224) * 4096 + (b1 - 128) * 64 + (b2 - 128), 3%nat) else (RuneError, 1%nat)
      | _ => (RuneError, 1%nat)
      end
    else if (240 <=? b0) && (b0 <=? 244) then
      match r with
      | b1 :: b2 :: b3 :: _ =>
        let lo := if b0 =? 240 then 144 else 128 in
        let hi := if b0 =? 244 then 143 else 191 in
        if (lo <=? b1) && (b1 <=? hi) && cont b2 && cont b3
        then ((b0 - 240) * 262144 + (b1 - 128) * 4096 + (b2 - 128) * 64 + (b3 - 128), 4%nat)
        else (RuneError, 1%nat)
      | _ => (RuneError, 1%nat)
      end
    else (RuneError, 1%nat)
  end.

(* utf8.AppendRune *)
Definition encode_rune (r : Z) : list Z :=
  if (0 <=? r) && (r <=? 127) then [r]
  else if (0 <=? r) && (r <=? 2047) then [192 + r / 64; 128 + r mod 64]
  else if (r <? 0) || (1114111 <? r) || ((55296 <=? r) && (r <=? 57343)) then [239; 191; 189]
  else if r <=? 65535 then [224 + r / 4096; 128 + (r / 64) mod 64; 128 + r mod 64]
  else [240 + r / 262144; 128 + (r / 4096) mod 64; 128 + (r / 64) mod 64; 128 + r mod 64].

Definition valid_rune (r : Z) : bool := ((0 <=? r) && (r <? 55296)) || ((57343 <? r) && (r <=? 1114111)).

(* a decoded rune with the bytes it was read from; a string as the sequence `for _, r := range s` yields *)
Notation runes := (list (Z * list Z)) (only parsing).
Fixpoint decode_all_f (fuel : nat) (s : list Z) : list (Z * list Z) :=
  match fuel with
  | O => []
  | S f =>
    match s with
    | [] => []
    | _ => let '(r, w) := decode1 s in (r, take w s) :: decode_all_f f (drop w s)
    end
  end.
Definition decode_all (s : list Z) : list (Z * list Z) := decode_all_f (length s) s.
Definition raw (rs : list (Z * list Z)) : list Z := concat (map snd rs).

Definition bad_rune (x : Z * list Z) : bool := (fst x =? RuneError) && (length (snd x) =? 1)%nat.
(* utf8.ValidString *)
Definition valid_utf8 (s : list Z) : bool := forallb (fun x => negb (bad_rune x)) (decode_all s).

Definition dropw {A} (f : A -> bool) : list A -> list A :=
  fix go l := match l with [] => [] | x :: r => if f x then go r else l end.
Definition takew {A} (f : A -> bool) : list A -> list A :=
  fix go l := match l with [] => [] | x :: r => if f x then x :: go r else [] end.

Global Instance res_eq_dec {A} `{EqDecision A} : EqDecision (res A).
Proof. solve_decision. Defined.
Definition res_bind {A B} (r : res A) (f : A -> res B) : res B :=
  match r with Ok a => f a | Err e => Err e | Panic => Panic end.
Definition res_map {A B} (f : A -> B) (r : res A) : res B := res_bind r (fun a => Ok (f a)).

(* byte-level matcher *)
Record bm := mkBM { b_type : mtype; b_name : list Z; b_value : list Z }.
Global Instance bm_eq_dec : EqDecision bm. Proof. solve_decision. Defined.
Definition bm_of (m : matcher) : bm := mkBM (m_type m) (bytes_of_string (m_name m)) (bytes_of_string (m_value m)).

Inductive tkind := TEOF | TOpenBrace | TCloseBrace | TComma | TEquals | TNotEquals | TMatches | TNotMatches
                 | TQuoted | TUnquoted.
Global Instance tkind_eq_dec : EqDecision tkind. Proof. solve_decision. Defined.
Record token := mkTok { t_kind : tkind; t_value : list Z }.
Record lexer := mkLx { lx_rest : list (Z * list Z); lx_err : bool }.
Record parser := mkP { p_ms : list bm; p_open : bool; p_lx : lexer }.
Inductive pstate := SOpenBrace | SCloseBrace | SMatcher | SEndOfMatcher | SComma | SEOF.
Inductive mode := Classic | Utf8Strict | Fallback.

Section Syntax.
  Variable is_space : Z -> bool.
  Variable is_print : Z -> bool.
  Variable compiles : list Z -> bool.

  (* ---------- pkg/labels/matcher.go: printing ---------- *)
  (* isReserved: unicode.IsSpace(r) or one of  { } ! = ~ , backslash, double quote, single quote, backquote *)
  Definition is_reserved (r : Z) : bool :=
    is_space r || (r =? 123) || (r =? 125) || (r =? 33) || (r =? 61) || (r =? 126) || (r =? 44) || (r =? 92)
    || (r =? 34) || (r =? 39) || (r =? 96).

  Definition op_bytes (t : mtype) : list Z :=
    match t with MEq => [61] | MNeq => [33; 61] | MRe => [61; 126] | MNre => [33; 126] end.

  (* openMetricsEscape: backslash -> two backslashes, newline -> backslash n, double quote -> backslash double quote *)
  Definition om_escape (s : list Z) : list Z :=
    flat_map (fun b => if b =? 92 then [92; 92] else if b =? 10 then [92; 110] else if b =? 34 then [92; 34] else [b]) s.

  Definition hexd (n : Z) : Z := if n <? 10 then 48 + n else 87 + n.

  (* strconv.appendEscapedRune(buf, r, quote = double quote, ASCIIonly = false, graphicOnly = false) *)
  Definition quote_rune (r : Z) : list Z :=
    if (r =? 34) || (r =? 92) then [92; r]
    else if is_print r then encode_rune r
    else if r =? 7 then [92; 97] else if r =? 8 then [92; 98] else if r =? 12 then [92; 102]
    else if r =? 10 then [92; 110] else if r =? 13 then [92; 114] else if r =? 9 then [92; 116]
    else if r =? 11 then [92; 118]
    else if (r <? 32) || (r =? 127) then [92; 120; hexd (r / 16 mod 16); hexd (r mod 16)]
    else
      let r := if valid_rune r then r else RuneError in
      if r <? 65536 then [92; 117; hexd (r / 4096 mod 16); hexd (r / 256 mod 16); hexd (r / 16 mod 16); hexd (r mod 16)]
      else [92; 85; hexd (r / 268435456 mod 16); hexd (r / 16777216 mod 16); hexd (r / 1048576 mod 16);
            hexd (r / 65536 mod 16); hexd (r / 4096 mod 16); hexd (r / 256 mod 16); hexd (r / 16 mod 16); hexd (r mod 16)].

  (* strconv.Quote *)
  Definition go_quote (s : list Z) : list Z :=
    34 :: flat_map (fun x => if bad_rune x
                             then match snd x with b :: _ => [92; 120; hexd (b / 16 mod 16); hexd (b mod 16)] | [] => [] end
                             else quote_rune (fst x)) (decode_all s) ++ [34].

  (* Matcher.String *)
  Definition print_b (m : bm) : list Z :=
    if existsb (fun x => is_reserved (fst x)) (decode_all (b_name m))
    then go_quote (b_name m) ++ op_bytes (b_type m) ++ go_quote (b_value m)
    else b_name m ++ op_bytes (b_type m) ++ [34] ++ om_escape (b_value m) ++ [34].

  (* Matchers.String *)
  Fixpoint join_comma (l : list (list Z)) : list Z :=
    match l with [] => [] | [x] => x | x :: r => x ++ [44] ++ join_comma r end.
  Definition print_list_b (ms : list bm) : list Z := [123] ++ join_comma (map print_b ms) ++ [125].

  (* ---------- strconv.Unquote, for inputs that begin with a double quote ---------- *)
  Definition unhex (c : Z) : option Z :=
    if (48 <=? c) && (c <=? 57) then Some (c - 48)
    else if (97 <=? c) && (c <=? 102) then Some (c - 87)
    else if (65 <=? c) && (c <=? 70) then Some (c - 55)
    else None.
  Fixpoint unhex_n (n : nat) (s : list Z) (v : Z) : option (Z * list Z) :=
    match n with
    | O => Some (v, s)
    | S n' => match s with
              | c :: r => match unhex c with Some x => unhex_n n' r (v * 16 + x) | None => None end
              | [] => None
              end
    end.
  Definition octd (c : Z) : option Z := if (48 <=? c) && (c <=? 55) then Some (c - 48) else None.

  (* strconv.UnquoteChar(s, double quote): (value, multibyte, tail); None = ErrSyntax. *)
  Definition unquote_char (s : list Z) : option (Z * bool * list Z) :=
    match s with
    | [] => None
    | c :: tl =>
      if c =? 34 then None
      else if 128 <=? c then let '(r, w) := decode1 s in Some (r, true, drop w s)
      else if negb (c =? 92) then Some (c, false, tl)
      else
        match tl with
        | [] => None
        | e :: tl2 =>
          if e =? 97 then Some (7, false, tl2) else if e =? 98 then Some (8, false, tl2)
          else if e =? 102 then Some (12, false, tl2) else if e =? 110 then Some (10, false, tl2)
          else if e =? 114 then Some (13, false, tl2) else if e =? 116 then Some (9, false, tl2)
          else if e =? 118 then Some (11, false, tl2)
          else if e =? 120 then
            match unhex_n 2 tl2 0 with Some (v, tl3) => Some (v, false, tl3) | None => None end
          else if e =? 117 then
            match unhex_n 4 tl2 0 with
            | Some (v, tl3) => if valid_rune v then Some (v, true, tl3) else None
            | None => None
            end
          else if e =? 85 then
            match unhex_n 8 tl2 0 with
            | Some (v, tl3) => if valid_rune v then Some (v, true, tl3) else None
            | None => None
            end
          else if (48 <=? e) && (e <=? 55) then
            match tl2 with
            | d1 :: d2 :: tl3 =>
              match octd d1, octd d2 with
              | Some x1, Some x2 => let v := ((e - 48) * 8 + x1) * 8 + x2 in if 255 <? v then None else Some (v, false, tl3)
              | _, _ => None
              end
            | _ => None
            end
          else if e =? 92 then Some (92, false, tl2)
          else if e =? 34 then Some (34, false, tl2)
          else None
        end
    end.

  (* the loop of strconv.unquote after the opening quote, up to and including the closing quote, which must be
     the last byte (Unquote rejects a non-empty remainder) *)
  Fixpoint unquote_body (fuel : nat) (s : list Z) : res (list Z) :=
    match fuel with
    | O => Err "fuel"
    | S f =>
      match s with
      | [] => Err "unquote"
      | c :: tl =>
        if c =? 34 then (match tl with [] => Ok [] | _ => Err "unquote" end)
        else if c =? 10 then Err "unquote"
        else match unquote_char s with
             | None => Err "unquote"
             | Some (r, mb, tail) =>
               res_map (fun rest => (if (r <? 128) || negb mb then [r] else encode_rune r) ++ rest) (unquote_body f tail)
             end
      end
    end.
  Definition go_unquote (s : list Z) : res (list Z) :=
    match s with
    | 34 :: ((_ :: _) as body) => unquote_body (length s) body
    | _ => Err "unquote"
    end.

  (* ---------- matcher/parse/lexer.go ---------- *)
  Definition scan_operator (rs : list (Z * list Z)) : res token * list (Z * list Z) :=
    match rs with
    | x :: r =>
      if fst x =? 33 then
        match r with
        | y :: r' => if fst y =? 61 then (Ok (mkTok TNotEquals (snd x ++ snd y)), r')
                     else if fst y =? 126 then (Ok (mkTok TNotMatches (snd x ++ snd y)), r')
                     else (Err "expected", rs)
        | [] => (Err "expected", rs)
        end
      else if fst x =? 61 then
        match r with
        | y :: r' => if fst y =? 126 then (Ok (mkTok TMatches (snd x ++ snd y)), r') else (Ok (mkTok TEquals (snd x)), r)
        | [] => (Ok (mkTok TEquals (snd x)), r)
        end
      else (Err "expected", rs)
    | [] => (Err "expected", rs)
    end.

  (* scanQuoted after the opening quote: the runes up to and including the closing quote, and the rest *)
  Fixpoint quoted_body (rs : list (Z * list Z)) (esc : bool) : option (list (Z * list Z) * list (Z * list Z)) :=
    match rs with
    | [] => None
    | x :: r =>
      if esc then option_map (fun ab => (x :: fst ab, snd ab)) (quoted_body r false)
      else if fst x =? 92 then option_map (fun ab => (x :: fst ab, snd ab)) (quoted_body r true)
      else if fst x =? 34 then Some ([x], r)
      else option_map (fun ab => (x :: fst ab, snd ab)) (quoted_body r false)
    end.
  Definition scan_quoted (rs : list (Z * list Z)) : res token * list (Z * list Z) :=
    match rs with
    | x :: r =>
      if fst x =? 34 then
        match quoted_body r false with
        | Some (a, b) => (Ok (mkTok TQuoted (snd x ++ raw a)), b)
        | None => (Err "unterminated", [])
        end
      else (Err "expected", rs)
    | [] => (Err "expected", rs)
    end.

  Definition scan_unquoted (rs : list (Z * list Z)) : res token * list (Z * list Z) :=
    (Ok (mkTok TUnquoted (raw (takew (fun x => negb (is_reserved (fst x))) rs))),
     dropw (fun x => negb (is_reserved (fst x))) rs).

  Fixpoint scan_go (rs : list (Z * list Z)) : res token * list (Z * list Z) :=
    match rs with
    | [] => (Ok (mkTok TEOF []), [])
    | x :: r =>
      let c := fst x in
      if c =? 123 then (Ok (mkTok TOpenBrace (snd x)), r)
      else if c =? 125 then (Ok (mkTok TCloseBrace (snd x)), r)
      else if c =? 44 then (Ok (mkTok TComma (snd x)), r)
      else if (c =? 61) || (c =? 33) then scan_operator rs
      else if c =? 34 then scan_quoted rs
      else if negb (is_reserved c) then scan_unquoted rs
      else if is_space c then scan_go r
      else (Err "invalid-input", rs)
    end.

  (* lexer.scan with the sticky l.err; lexer.peek restores the position but not l.err *)
  Definition scan (l : lexer) : res token * lexer :=
    if lx_err l then (Err "lexer", l)
    else match scan_go (lx_rest l) with
         | (Ok t, r) => (Ok t, mkLx r false)
         | (e, r) => (e, mkLx r true)
         end.
  Definition peek (l : lexer) : res token * lexer :=
    let '(t, l') := scan l in (t, mkLx (lx_rest l) (lx_err l')).

  (* ---------- matcher/parse/token.go, parse.go ---------- *)
  Definition is_eof (t : token) : bool := beq (t_kind t) TEOF.
  Definition one_of (t : token) (ks : list tkind) : bool := existsb (beq (t_kind t)) ks.

  Definition tok_unquote (t : token) : res (list Z) :=
    if beq (t_kind t) TQuoted then
      res_bind (go_unquote (t_value t)) (fun u => if valid_utf8 u then Ok u else Err "invalid-utf8")
    else Ok (t_value t).

  Definition accept_peek (l : lexer) (ks : list tkind) : res bool * lexer :=
    let '(t, l') := peek l in
    (res_bind t (fun t => if is_eof t then Err "eof" else Ok (one_of t ks)), l').

  Definition accept (l : lexer) (ks : list tkind) : res bool * lexer :=
    let '(r, l1) := accept_peek l ks in
    match r with
    | Ok true => match scan l1 with (Ok _, l2) => (Ok true, l2) | (_, l2) => (Panic, l2) end
    | _ => (r, l1)
    end.

  Definition expect_peek (l : lexer) (ks : list tkind) : res token * lexer :=
    let '(t, l') := peek l in
    (res_bind t (fun t => if is_eof t then Err "eof" else if one_of t ks then Ok t else Err "unexpected"), l').

  Definition expect (l : lexer) (ks : list tkind) : res token * lexer :=
    let '(r, l1) := expect_peek l ks in
    match r with
    | Ok t => match scan l1 with (Ok _, l2) => (Ok t, l2) | (_, l2) => (Panic, l2) end
    | _ => (r, l1)
    end.

  Definition is_eof_err {A} (r : res A) : bool := match r with Err e => String.eqb e "eof" | _ => false end.
  Definition is_regex (t : mtype) : bool := match t with MRe | MNre => true | _ => false end.

  (* labels.NewMatcher *)
  Definition new_matcher (t : mtype) (n v : list Z) : res bm :=
    if is_regex t && negb (compiles v) then Err "regex" else Ok (mkBM t n v).

  Definition parse_matcher_step (p : parser) : res (option pstate * parser) :=
    let '(r1, l1) := expect (p_lx p) [TQuoted; TUnquoted] in
    match r1 with
    | Panic => Panic
    | Err _ => Err "no-label-name"
    | Ok t1 =>
      match tok_unquote t1 with
      | Panic => Panic
      | Err _ => Err "invalid-input"
      | Ok name =>
        let '(r2, l2) := expect l1 [TEquals; TNotEquals; TMatches; TNotMatches] in
        match r2 with
        | Panic => Panic
        | Err _ => Err "no-operator"
        | Ok t2 =>
          match (match t_kind t2 with
                 | TEquals => Some MEq | TNotEquals => Some MNeq | TMatches => Some MRe | TNotMatches => Some MNre
                 | _ => None end) with
          | None => Panic
          | Some ty =>
            let '(r3, l3) := expect l2 [TUnquoted; TQuoted] in
            match r3 with
            | Panic => Panic
            | Err _ => Err "no-label-value"
            | Ok t3 =>
              match tok_unquote t3 with
              | Panic => Panic
              | Err _ => Err "invalid-input"
              | Ok value =>
                res_bind (new_matcher ty name value)
                         (fun m => Ok (Some SEndOfMatcher, mkP (p_ms p ++ [m]) (p_open p) l3))
              end
            end
          end
        end
      end
    end.

  Definition pstep (st : pstate) (p : parser) : res (option pstate * parser) :=
    match st with
    | SOpenBrace =>
      let '(r, l1) := accept (p_lx p) [TOpenBrace] in
      if is_eof_err r then Ok (Some SEOF, mkP (p_ms p) false l1)
      else res_bind r (fun has =>
        let '(r2, l2) := accept_peek l1 [TCloseBrace] in
        if is_eof_err r2 then Ok (Some SCloseBrace, mkP (p_ms p) has l2)
        else res_bind r2 (fun cb => Ok (Some (if cb then SCloseBrace else SMatcher), mkP (p_ms p) has l2)))
    | SCloseBrace =>
      let '(r, l1) := expect (p_lx p) [TCloseBrace] in
      if p_open p then
        match r with
        | Ok _ => Ok (Some SEOF, mkP (p_ms p) (p_open p) l1)
        | Err _ => Err "no-close-brace"
        | Panic => Panic
        end
      else
        match r with
        | Ok _ => Err "no-open-brace"
        | Err _ => Ok (Some SEOF, mkP (p_ms p) (p_open p) l1)
        | Panic => Panic
        end
    | SMatcher => parse_matcher_step p
    | SEndOfMatcher =>
      let '(r, l1) := expect_peek (p_lx p) [TComma; TCloseBrace] in
      if is_eof_err r then Ok (Some SCloseBrace, mkP (p_ms p) (p_open p) l1)
      else match r with
           | Ok t => match t_kind t with
                     | TComma => Ok (Some SComma, mkP (p_ms p) (p_open p) l1)
                     | TCloseBrace => Ok (Some SCloseBrace, mkP (p_ms p) (p_open p) l1)
                     | _ => Panic
                     end
           | Err _ => Err "expected-comma-or-close-brace"
           | Panic => Panic
           end
    | SComma =>
      let '(r, l1) := expect (p_lx p) [TComma] in
      match r with
      | Panic => Panic
      | Err _ => Err "expected-comma"
      | Ok _ =>
        let '(r2, l2) := expect_peek l1 [TCloseBrace; TUnquoted; TQuoted] in
        if is_eof_err r2 then Ok (Some SCloseBrace, mkP (p_ms p) (p_open p) l2)
        else match r2 with
             | Ok t => Ok (Some (if beq (t_kind t) TCloseBrace then SCloseBrace else SMatcher), mkP (p_ms p) (p_open p) l2)
             | Err _ => Err "expected-matcher-or-close-brace"
             | Panic => Panic
             end
      end
    | SEOF =>
      let '(r, l1) := scan (p_lx p) in
      match r with
      | Ok t => if is_eof t then Ok (None, mkP (p_ms p) (p_open p) l1) else Err "expected-eof"
      | Err _ => Err "expected-eof"
      | Panic => Panic
      end
    end.

  (* parser.parse: the state machine loop, with explicit fuel *)
  Fixpoint parse_loop (fuel : nat) (st : pstate) (p : parser) : res (list bm) :=
    match fuel with
    | O => Err "fuel"
    | S f =>
      match pstep st p with
      | Ok (None, p') => Ok (p_ms p')
      | Ok (Some st', p') => parse_loop f st' p'
      | Err e => Err e
      | Panic => Panic
      end
    end.

  (* parser.parse before the deferred recover of parse.Matchers *)
  Definition utf8_parse_raw (s : list Z) : res (list bm) :=
    parse_loop (length s + 6) SOpenBrace (mkP [] false (mkLx (decode_all s) false)).
  (* parse.Matchers: a panic is recovered into an error *)
  Definition utf8_matchers (s : list Z) : res (list bm) :=
    match utf8_parse_raw s with Panic => Err "parser-panic" | r => r end.
  (* parse.Matcher *)
  Definition single (r : res (list bm)) : res bm :=
    res_bind r (fun ms => match ms with [m] => Ok m | [] => Err "no-matchers" | _ => Err "too-many-matchers" end).
  Definition utf8_matcher (s : list Z) : res bm := single (utf8_matchers s).

  (* ---------- pkg/labels/parse.go (classic) ---------- *)
  Definition re_space (b : Z) : bool := (b =? 9) || (b =? 10) || (b =? 12) || (b =? 13) || (b =? 32).
  Definition name_start (b : Z) : bool :=
    ((97 <=? b) && (b <=? 122)) || ((65 <=? b) && (b <=? 90)) || (b =? 95) || (b =? 58).
  Definition name_char (b : Z) : bool := name_start b || ((48 <=? b) && (b <=? 57)).
  Definition rtrim_ws (s : list Z) : list Z := rev (dropw re_space (rev s)).

  (* the regexp of pkg/labels/parse.go: blanks, a name [a-zA-Z_:][a-zA-Z0-9_:]... (greedy), blanks, an operator
     (alternatives tried in the order =~ = != !~), blanks, a lazy any-character value, blanks, end of text.
     Blanks are the RE2 class backslash-s = tab, LF, FF, CR, space. No alternative ever needs backtracking: after
     the greedy name only a blank or an operator character can follow, and the tail pattern matches every rest;
     the lazy value followed by blanks-then-end is the rest with its trailing blanks removed.
     Result: (name, operator, raw value) *)
  Definition classic_split (s : list Z) : option (list Z * mtype * list Z) :=
    let s1 := dropw re_space s in
    match s1 with
    | c :: _ =>
      if name_start c then
        let name := takew name_char s1 in
        let s2 := dropw re_space (dropw name_char s1) in
        let value r := rtrim_ws (dropw re_space r) in
        match s2 with
        | 61 :: 126 :: r => Some (name, MRe, value r)
        | 61 :: r => Some (name, MEq, value r)
        | 33 :: 61 :: r => Some (name, MNeq, value r)
        | 33 :: 126 :: r => Some (name, MNre, value r)
        | _ => None
        end
      else None
    | [] => None
    end.

  (* the unescape loop over the runes of the raw value *)
  Fixpoint classic_unescape (rs : list (Z * list Z)) (escaped expect_q : bool) : res (list Z) :=
    match rs with
    | [] => if expect_q then Err "unescaped-quote" else Ok []
    | x :: r =>
      let c := fst x in
      if escaped then
        res_map (app (if c =? 110 then [10] else if (c =? 34) || (c =? 92) then encode_rune c else 92 :: encode_rune c))
                (classic_unescape r false expect_q)
      else if c =? 92 then
        match r with
        | [] => res_map (app [92]) (classic_unescape r false expect_q)
        | _ => classic_unescape r true expect_q
        end
      else if c =? 34 then
        match r with
        | [] => if expect_q then classic_unescape r false false else Err "unescaped-quote"
        | _ => Err "unescaped-quote"
        end
      else res_map (app (encode_rune c)) (classic_unescape r false expect_q)
    end.

  (* labels.ParseMatcher *)
  Definition classic_matcher (s : list Z) : res bm :=
    match classic_split s with
    | None => Err "bad-format"
    | Some (name, ty, rawv) =>
      let '(rawv', expect_q) := match rawv with 34 :: r => (r, true) | _ => (rawv, false) end in
      if negb (valid_utf8 rawv') then Err "invalid-utf8"
      else res_bind (classic_unescape (decode_all rawv') false expect_q) (fun v => new_matcher ty name v)
    end.

  (* the quote-aware comma split of labels.ParseMatchers: (finished tokens, current token) *)
  Fixpoint classic_tokens (rs : list (Z * list Z)) (inq esc : bool) (tok : list Z) : list (list Z) * list Z :=
    match rs with
    | [] => ([], tok)
    | x :: r =>
      let c := fst x in
      if (c =? 44) && negb inq then
        let '(ts, last) := classic_tokens r inq esc [] in (tok :: ts, last)
      else
        let '(inq', esc') :=
          if c =? 44 then (inq, esc)
          else if c =? 34 then (if esc then (inq, false) else (negb inq, esc))
          else if c =? 92 then (inq, negb esc)
          else (inq, false) in
        classic_tokens r inq' esc' (tok ++ encode_rune c)
    end.

  (* strings.TrimSpace *)
  Definition trim_space (s : list Z) : list Z :=
    raw (rev (dropw (fun x => is_space (fst x)) (rev (dropw (fun x => is_space (fst x)) (decode_all s))))).

  Definition trim_prefix (b : Z) (s : list Z) : list Z :=
    match s with c :: r => if c =? b then r else s | [] => s end.
  Definition trim_suffix (b : Z) (s : list Z) : list Z := rev (trim_prefix b (rev s)).

  Fixpoint map_res {A B} (f : A -> res B) (l : list A) : res (list B) :=
    match l with
    | [] => Ok []
    | x :: r => res_bind (f x) (fun y => res_map (cons y) (map_res f r))
    end.

  (* labels.ParseMatchers *)
  Definition classic_matchers (s : list Z) : res (list bm) :=
    let s2 := trim_suffix 125 (trim_prefix 123 s) in
    let '(ts, last) := classic_tokens (decode_all s2) false false [] in
    let last' := trim_space last in
    map_res classic_matcher (ts ++ match last' with [] => [] | _ => [last'] end).

  (* ---------- matcher/compat/parse.go ---------- *)
  (* the decision of FallbackMatcherParser / FallbackMatchersParser given the two parsers' results
     (n = matcher/parse, c = pkg/labels; a panic of the classic parser is not recovered) *)
  Definition fallback {A} `{EqDecision A} (n c : res A) : res A :=
    match c with
    | Panic => Panic
    | Ok cv => match n with Ok nv => if decide (nv = cv) then Ok nv else Ok cv | _ => Ok cv end
    | Err ce => match n with Ok nv => Ok nv | _ => Err ce end
    end.

  Definition has_brace (s : list Z) : bool :=
    match s with 123 :: _ => true | _ => false end || match rev s with 125 :: _ => true | _ => false end.

  Definition compat_matcher (md : mode) (s : list Z) : res bm :=
    match md with
    | Classic => classic_matcher s
    | Utf8Strict => if has_brace s then Err "brace" else utf8_matcher s
    | Fallback => if has_brace s then Err "brace" else fallback (utf8_matcher s) (classic_matcher s)
    end.

  Definition compat_matchers (md : mode) (s : list Z) : res (list bm) :=
    match md with
    | Classic => classic_matchers s
    | Utf8Strict => utf8_matchers s
    | Fallback => fallback (utf8_matchers s) (classic_matchers s)
    end.
End Syntax.
