(* A cluster of instances for ONE aggregation group key and its receiver: every instance runs the timed group
   model (Model/Group.v) on its own clock; the notification-log entries they write travel over an adversarial
   gossip channel (loss, delay, duplication, reordering, partition = the adversary simply chooses which logged
   entries are merged where and when); instances crash and restart with or without (any earlier) log state.
   Mirrors: notify/cluster_stages.go (the wait is a pure delay, Model/Group.v places the dedup read after it),
   nflog Merge/broadcast, app wiring (SetBroadcast + AddState). Definitions only. *)
From AM Require Import Base.Prelude Model.Group.

Inductive cev :=
| CLocal (e : ev)                       (* a group event of this instance, except ENflogMerge *)
| CDeliver (k : nat) (en : nentry)      (* gossip delivers integration k's entry to this instance *)
| CCrash (keep : bool).                 (* the instance restarts: alerts and timers gone; log kept (snapshot) or lost *)

Record cstate := mkC {
  c_inst : list gstate;
  c_logged : list (nat * nentry) }.      (* every (integration, entry) some instance has written with nflog.Log *)

Definition is_merge (e : ev) : bool := match e with ENflogMerge _ _ | ENflogLoad _ _ => true | _ => false end.

(* the entry nflog.Log constructs for a log write at instant t *)
Definition logged_entries (cfg : gcfg) (o : list out) : list (nat * nentry) :=
  omap (fun x => match x with
                 | OLog k F R ts => Some (k, mkN F R ts (log_exp (g_retention cfg) (g_repeat cfg) ts))
                 | _ => None end) o.

Definition cstep (cfg : gcfg) (c : cstate) (i : nat) (t : Z) (e : cev) : option (cstate * list out) :=
  match c_inst c !! i with
  | None => None
  | Some s =>
      match e with
      | CLocal ev =>
          if is_merge ev then None else
          match step cfg s t ev with
          | Some (s', o) => Some (mkC (set_nth (c_inst c) i s') (logged_entries cfg o ++ c_logged c), o)
          | None => None
          end
      | CDeliver k en =>
          (* authenticity: the channel only carries entries some instance logged *)
          if negb (bool_decide ((k, en) ∈ c_logged c)) then None else
          match step cfg s t (ENflogMerge k en) with
          | Some (s', o) => Some (mkC (set_nth (c_inst c) i s') (c_logged c), o)
          | None => None
          end
      | CCrash keep =>
          if t <? s_clock s then None else
          Some (mkC (set_nth (c_inst c) i (mkS t None (if keep then s_nflog s else map (fun _ => None) (s_nflog s)))) (c_logged c), [])
      end
  end.

Fixpoint crun (cfg : gcfg) (c : cstate) (h : list (nat * Z * cev)) : option (cstate * list (nat * out)) :=
  match h with
  | [] => Some (c, [])
  | (i, t, e) :: r =>
      match cstep cfg c i t e with
      | Some (c1, o1) =>
          match crun cfg c1 r with
          | Some (c2, o2) => Some (c2, map (fun x => (i, x)) o1 ++ o2)
          | None => None
          end
      | None => None
      end
  end.

Definition cinit (cfg : gcfg) (n : nat) (t0 : Z) : cstate := mkC (replicate n (init cfg t0)) [].
