(* Executable model of alertmanager's side of the gossip transport (C19):
     cluster/channel.go   Channel.Broadcast, OversizedMessage, handleOverSizedMessages
     cluster/delegate.go  NotifyMsg, LocalState, MergeRemoteState (after fix 3f33cc7: a failing part is skipped)
     cluster/cluster.go   Peer.states (key -> State), AddState
     cluster/clusterpb    Part{key,data}, FullState{repeated Part}
   Definitions only (no proofs).

   What is NOT alertmanager's code is a parameter with its contract written next to it (Proofs/GossipProofs.v):
     - protobuf-go (proto.Marshal / proto.Unmarshal of Part and FullState): record [wire];
     - the registered states (silence.Silences, nflog.Log: Merge / MarshalBinary): record [stateops];
     - memberlist (which packets / push-pull states reach which peer, and when): a schedule of deliveries.
   The byte-level encoder of Part / FullState is also given concretely (enc_part, enc_full) so that the size
   threshold can be stated in bytes of key and payload; the harness compares it byte for byte with proto.Marshal. *)
From AM Require Import Base.Prelude Gen.Consts.

(* ---------- proto3 wire size / bytes of clusterpb.Part and FullState ---------- *)

Fixpoint varint_len_f (fuel : nat) (n : Z) : Z :=
  if n <? 128 then 1 else match fuel with O => 1 | S f => 1 + varint_len_f f (n / 128) end.
Definition varint_len (n : Z) : Z := varint_len_f 9 n.
(* a length-delimited proto3 scalar field (string / bytes): omitted when empty *)
Definition field_size (n : Z) : Z := if n =? 0 then 0 else 1 + varint_len n + n.
(* len(proto.Marshal(&Part{Key: k, Data: d})) from len(k), len(d) *)
Definition part_size (klen dlen : Z) : Z := field_size klen + field_size dlen.

Fixpoint enc_varint_f (fuel : nat) (n : Z) : list N :=
  if n <? 128 then [Z.to_N n]
  else match fuel with
       | O => [Z.to_N (n mod 128)]
       | S f => Z.to_N (n mod 128 + 128) :: enc_varint_f f (n / 128)
       end.
Definition enc_varint (n : Z) : list N := enc_varint_f 9 n.
Definition slen (s : string) : Z := Z.of_nat (String.length s).
Definition enc_field (tag : N) (s : string) : string :=
  if slen s =? 0 then "" else bs (tag :: enc_varint (slen s)) +:+ s.
Definition enc_part (k d : string) : string := enc_field 10 k +:+ enc_field 18 d.
(* a repeated message field is written even when the sub-message is empty *)
Definition enc_full (parts : list (string * string)) : string :=
  fold_right (fun '(k, d) acc => bs (10%N :: enc_varint (slen (enc_part k d))) +:+ enc_part k d +:+ acc) "" parts.

(* OversizedMessage: len(b) > MaxGossipPacketSize/2 *)
Definition oversized_len (n : Z) : bool := MaxGossipPacketSize / 2 <? n.

(* The capacity of Channel.msgc (`make(chan []byte, N)` in NewChannel) is a PARAMETER of the model (qcap below): the
   property only says the oversize queue is bounded and every drop is counted; how long the queue is, is tuning.
   The harness measures it on the real Channel on every run and the cases supply it. *)

(* ---------- parameters ---------- *)

(* B: payload bytes handed to Broadcast / State.Merge (opaque to the transport); W: bytes on the wire. *)
Record wire (B W : Type) := mkWire {
  wrap : string -> B -> option W;                  (* proto.Marshal(&Part{Key, Data}); None = marshal error *)
  wlen : W -> Z;                                   (* len *)
  dec_part : W -> option (string * B);             (* proto.Unmarshal into Part; None = error *)
  wrap_full : list (string * B) -> option W;       (* proto.Marshal(&FullState{Parts}) *)
  dec_full : W -> option (list (string * B)) }.    (* proto.Unmarshal into FullState *)
Arguments wrap {B W}. Arguments wlen {B W}. Arguments dec_part {B W}.
Arguments wrap_full {B W}. Arguments dec_full {B W}.

(* a registered cluster.State object with carrier S: Merge at the instance's clock, MarshalBinary *)
Record stateops (B S : Type) := mkOps {
  mergeS : Z -> B -> S -> res S;                   (* Err = Merge returned an error (state untouched) *)
  marshalS : S -> option B }.                      (* None = MarshalBinary returned an error *)
Arguments mergeS {B S}. Arguments marshalS {B S}.

Section Gossip.
Context {B W ST : Type}.
Variable wi : wire B W.
Variable ops : stateops B ST.
Variable qcap : Z.                  (* capacity of the oversize queue *)

(* ================= Channel ================= *)

Inductive cev := ESend (w : W) | EReliable (peer : string) (w : W).

(* the stubs / memberlist as seen by the channel: current peers, peers to which SendReliable fails, and whether
   SendReliable returns (gate = true) or blocks for now (gate = false) *)
Record cenv := mkEnv { e_peers : list string; e_fail : list string; e_gate : bool }.

Record chan := mkChan {
  ch_key : string;
  ch_queue : list W;                 (* msgc, oldest first *)
  ch_busy : option (Z * Z);          (* worker inside wg.Wait: (number of sends in flight, how many of them fail) *)
  ch_dropped : Z; ch_sent : Z; ch_failed : Z }.   (* the three counters *)

Definition new_chan (key : string) : chan := mkChan key [] None 0 0 0.

Definition oversized_w (w : W) : bool := oversized_len (wlen wi w).

(* Channel.Broadcast *)
Definition broadcast (c : chan) (b : B) : chan * list cev :=
  match wrap wi (ch_key c) b with
  | None => (c, [])
  | Some w =>
      if oversized_w w then
        if Z.of_nat (length (ch_queue c)) <? qcap
        then (mkChan (ch_key c) (ch_queue c ++ [w]) (ch_busy c) (ch_dropped c) (ch_sent c) (ch_failed c), [])
        else (mkChan (ch_key c) (ch_queue c) (ch_busy c) (ch_dropped c + 1) (ch_sent c) (ch_failed c), [])
      else (c, [ESend w])
  end.

(* handleOverSizedMessages: receive one message, start one sendOversize per current peer *)
Definition worker_take (e : cenv) (c : chan) : option (chan * list cev) :=
  match ch_busy c, ch_queue c with
  | None, w :: q =>
      let n := Z.of_nat (length (e_peers e)) in
      let nf := Z.of_nat (length (filter (fun p => bool_decide (p ∈ e_fail e)) (e_peers e))) in
      Some (mkChan (ch_key c) q (Some (n, nf)) (ch_dropped c) (ch_sent c + n) (ch_failed c),
            map (fun p => EReliable p w) (e_peers e))
  | _, _ => None
  end.

(* ... wg.Wait() returns *)
Definition worker_done (c : chan) : option chan :=
  match ch_busy c with
  | Some (_, nf) => Some (mkChan (ch_key c) (ch_queue c) None (ch_dropped c) (ch_sent c) (ch_failed c + nf))
  | None => None
  end.

(* run the worker goroutine until it blocks (what synctest.Wait() does) *)
Fixpoint settle (fuel : nat) (e : cenv) (c : chan) : chan * list cev :=
  match fuel with
  | O => (c, [])
  | S f =>
      match ch_busy c with
      | Some (n, _) =>
          if e_gate e || (n =? 0) then
            match worker_done c with Some c' => settle f e c' | None => (c, []) end
          else (c, [])
      | None =>
          match worker_take e c with
          | Some (c', evs) => let '(c'', evs') := settle f e c' in (c'', evs ++ evs')
          | None => (c, [])
          end
      end
  end.
Definition settle_all (e : cenv) (c : chan) : chan * list cev :=
  settle (2 * length (ch_queue c) + 2) e c.

Inductive cop := CBcast (b : B) | CEnv (e : cenv).

(* one harness-level step: the operation, then the worker runs until it blocks *)
Definition chan_step (st : cenv * chan) (o : cop) : (cenv * chan) * list cev :=
  let '(e, c) := st in
  match o with
  | CBcast b =>
      let '(c1, ev1) := broadcast c b in
      let '(c2, ev2) := settle_all e c1 in ((e, c2), ev1 ++ ev2)
  | CEnv e' => let '(c2, ev2) := settle_all e' c in ((e', c2), ev2)
  end.

Fixpoint chan_run (st : cenv * chan) (os : list cop) : (cenv * chan) * list (list cev * (Z * Z * Z)) :=
  match os with
  | [] => (st, [])
  | o :: r =>
      let '(st1, evs) := chan_step st o in
      let '(st2, rest) := chan_run st1 r in
      (st2, (evs, (ch_dropped (snd st1), ch_sent (snd st1), ch_failed (snd st1))) :: rest)
  end.

(* ================= delegate ================= *)

Notation peer := (gmap string ST) (only parsing).

(* one part applied to the registered states: unknown key -> nothing; Merge error -> logged, nothing *)
Definition merge_part (now : Z) (k : string) (b : B) (p : peer) : res peer :=
  match p !! k with
  | None => Ok p
  | Some s =>
      match mergeS ops now b s with
      | Ok s' => Ok (<[k := s']> p)
      | Err _ => Ok p
      | Panic => Panic
      end
  end.

(* delegate.NotifyMsg *)
Definition notify_msg (now : Z) (w : W) (p : peer) : res peer :=
  match dec_part wi w with
  | None => Ok p
  | Some (k, b) => merge_part now k b p
  end.

(* the loop of delegate.MergeRemoteState: unknown key -> continue; Merge error -> continue (fix 3f33cc7) *)
Fixpoint merge_parts (now : Z) (parts : list (string * B)) (p : peer) : res peer :=
  match parts with
  | [] => Ok p
  | (k, b) :: r =>
      match merge_part now k b p with
      | Ok p' => merge_parts now r p'
      | Err c => Err c
      | Panic => Panic
      end
  end.

(* delegate.MergeRemoteState *)
Definition merge_remote_state (now : Z) (w : W) (p : peer) : res peer :=
  match dec_full wi w with
  | None => Ok p
  | Some parts => merge_parts now parts p
  end.

(* delegate.LocalState. [order]: the order in which Go ranges over the states map (a permutation of its keys).
   None = the function returned nil (a MarshalBinary / proto.Marshal error). *)
Fixpoint local_parts (order : list string) (p : peer) : option (list (string * B)) :=
  match order with
  | [] => Some []
  | k :: r =>
      match p !! k with
      | None => None
      | Some s =>
          match marshalS ops s, local_parts r p with
          | Some b, Some ps => Some ((k, b) :: ps)
          | _, _ => None
          end
      end
  end.
Definition local_state (order : list string) (p : peer) : option W :=
  match local_parts order p with Some ps => wrap_full wi ps | None => None end.

(* ================= memberlist, as a schedule of deliveries to one peer ================= *)

Inductive delivery := DPacket (w : W) | DFull (w : W).

Definition deliver (now : Z) (d : delivery) (p : peer) : res peer :=
  match d with DPacket w => notify_msg now w p | DFull w => merge_remote_state now w p end.

Fixpoint run_deliveries (sched : list (Z * delivery)) (p : peer) : res peer :=
  match sched with
  | [] => Ok p
  | (now, d) :: r =>
      match deliver now d p with
      | Ok p' => run_deliveries r p'
      | Err c => Err c
      | Panic => Panic
      end
  end.

End Gossip.

Arguments cev : clear implicits. Arguments chan : clear implicits.
Arguments cop : clear implicits. Arguments delivery : clear implicits.
Arguments ESend {W}. Arguments EReliable {W}.
Arguments mkChan {W}. Arguments new_chan {W}.
Arguments CBcast {B}. Arguments CEnv {B}.
Arguments DPacket {W}. Arguments DFull {W}.

(* ================= membership: who is sent an oversized update ================= *)
(* Peer.AddState: the oversize worker's receiver list is mlist.Members() minus self, read when the message is taken.
   memberlist identifies nodes by NAME (an address may be reused by a restarted instance under a new name while the
   old name is still on its way to being declared dead). *)
Inductive mev := MJoin (name addr : string) | MLeave (name : string).

Definition mev_step (ms : list (string * string)) (e : mev) : list (string * string) :=
  match e with
  | MJoin n a => (n, a) :: filter (fun m => negb (String.eqb (fst m) n)) ms
  | MLeave n => filter (fun m => negb (String.eqb (fst m) n)) ms
  end.
Definition members_after (h : list mev) : list (string * string) := foldl mev_step [] h.
Definition oversize_receivers (self : string) (h : list mev) : list string :=
  filter (fun n => negb (String.eqb n self)) (map fst (members_after h)).

(* ================= TLS transport packet framing (cluster/tls_connection.go) ================= *)
(* writePacket: frame = 4-byte little-endian length ++ message, handed to ONE conn.Write under the connection's
   mutex, so the byte stream of a pooled connection is a concatenation of whole frames (in lock order), whatever
   the number of goroutines writing. read: length, then that many bytes. *)
Definition le32 (n : Z) : list N :=
  [Z.to_N (n mod 256); Z.to_N (n / 256 mod 256); Z.to_N (n / 65536 mod 256); Z.to_N (n / 16777216 mod 256)].
Definition un_le32 (a b c d : N) : Z := Z.of_N a + 256 * Z.of_N b + 65536 * Z.of_N c + 16777216 * Z.of_N d.
Definition frame (p : list N) : list N := le32 (Z.of_nat (length p)) ++ p.

(* z <= length r, decided by walking r (a garbage length can be 2^32-1; the stream can be long) *)
Fixpoint has_len (r : list N) (z : Z) : bool :=
  if z <=? 0 then true else match r with [] => false | _ :: r' => has_len r' (z - 1) end.

Fixpoint parse_frames (fuel : nat) (s : list N) : option (list (list N)) :=
  match s with
  | [] => Some []
  | a :: b :: c :: d :: r =>
      let z := un_le32 a b c d in
      if has_len r z then
        let n := Z.to_nat z in
        match fuel with
        | O => None
        | S f => match parse_frames f (drop n r) with Some l => Some (take n r :: l) | None => None end
        end
      else None
  | _ => None
  end.
