(* Executable model of inhibit/inhibit.go + inhibit/index.go + the parts of store/store.go the inhibitor uses
   (Set, GC, GC callback), including the start-up of a new Inhibitor (Inhibitor.run: snapshot from
   SlurpAndSubscribe first, then the subscription). Definitions only (no proofs) so the model still runs when a proof breaks.

   Models the code AFTER the C03 repair (`fix: inhibit: index every cached source alert ...` in /repo): the
   per-rule index maps the fingerprint of the equal-label values to the SET of fingerprints of the cached source
   alerts having these values (before the repair: to ONE fingerprint, see Properties/C03.v for what that broke).

   Time        : Z nanoseconds; Go's zero time.Time is 0 (DESIGN 1.1).
   Fingerprint : model.LabelSet.Fingerprint (FNV-64a) is modelled by the label list itself (sorted by name, as
                 the harness emits it), i.e. injective. Likewise fingerprintEquals(lset) -- the fingerprint of
                 {n: lset[n] | n in Equal}, a missing label reading "" -- is modelled by the list of these
                 values in the (fixed) order of the rule's equal list.
   Go map order: index.Range visits the set in Go's random map order and hasEqual returns the first usable
                 source, so WHICH inhibiting fingerprint Mutes reports is not determined: [mutes] returns the
                 list of all fingerprints the code may report (never empty when muted). The GC callback's
                 deletion order is irrelevant (Proofs: gc_ix_elem). *)
From stdpp Require Import mapset.
From AM Require Import Base.Prelude Model.Matchers.

(* types.Alert: labels, StartsAt, EndsAt, UpdatedAt (annotations etc. are irrelevant to inhibition) *)
Record alert := mkA { a_lbls : list (string * string); a_starts : Z; a_ends : Z; a_upd : Z }.
Global Instance alert_eq_dec : EqDecision alert. Proof. solve_decision. Defined.

(* Alert.ResolvedAt(ts): EndsAt set and not after ts. Alert.Resolved() = ResolvedAt(time.Now()). *)
Definition resolved_at (a : alert) (ts : Z) : bool := negb (a_ends a =? 0) && (a_ends a <=? ts).

(* amcommoncfg.InhibitRule after NewInhibitRule: source matchers, target matchers, equal label names *)
Record rule := mkRule { r_src : list matcher; r_tgt : list matcher; r_equal : list string }.

(* InhibitRule.fingerprintEquals *)
Definition eqkey (c : rule) (ls : list (string * string)) : list string := map (lget ls) (r_equal c).

Notation scache := (gmap (list (string * string)) alert) (only parsing).
Notation sindex := (gmap (list string) (gset (list (string * string)))) (only parsing).

(* inhibit/index.go: Range / Add / Delete (per key a SET of source fingerprints, as the Go map of maps) *)
Definition ix_get (ix : sindex) (k : list string) : gset (list (string * string)) := default ∅ (ix !! k).
(* insertion / removal of one element by one map operation (std++'s {[v]} ∪ s and s ∖ {[v]} merge whole maps) *)
Definition set_ins (v : list (string * string)) (s : gset (list (string * string))) : gset (list (string * string)) :=
  let 'Mapset m := s in Mapset (<[v := tt]> m).
Definition set_del (v : list (string * string)) (s : gset (list (string * string))) : gset (list (string * string)) :=
  let 'Mapset m := s in Mapset (delete v m).
Definition ix_add (k : list string) (v : list (string * string)) (ix : sindex) : sindex :=
  <[k := set_ins v (ix_get ix k)]> ix.
Definition ix_del (k : list string) (v : list (string * string)) (ix : sindex) : sindex :=
  match ix !! k with
  | None => ix
  | Some s => let s' := set_del v s in
              if decide (s' = ∅) then delete k ix else <[k := s']> ix
  end.

(* InhibitRule: configuration + source cache + index *)
Record irule := mkIR { ir_cfg : rule; ir_sc : scache; ir_ix : sindex }.
Definition new_rule (c : rule) : irule := mkIR c ∅ ∅.

Inductive op :=
| OProcess (a : alert)   (* the subscription loop received this alert update (Inhibitor.processAlert) *)
| OGC (sel : rule -> bool) (* GC tickers fired: store.Alerts.GC + gcCallback on the rules selected by sel (every rule
                              has its own ticker; they are started together, so normally sel = fun _ => true) *)
| OTick                  (* nothing but the passing of time *)
| ORestart (snap pend : list alert)
| OGCDelete (sel : rule -> bool)
| OGCCallback (sel : rule -> bool) (dead : list alert).
  (* OGCDelete / OGCCallback: the two steps of store.Alerts.GC as the code runs them - the resolved alerts are
     deleted under the store lock (OGCDelete); the GC callback runs afterwards (OGCCallback, one atomic step under
     InhibitRule.mtx) on the list [dead] of deleted alerts, and the subscription loop may process updates (each one
     atomic under InhibitRule.mtx: cache write + index write) in between. OGC is both steps with nothing in
     between. The theorems allow ANY list [dead].
     ORestart: *)
  (* configuration reload / restart: a NEW Inhibitor replaces the old one. Inhibitor.run: SlurpAndSubscribe
     returns the provider's snapshot [snap] (the alerts it holds, in Go map order) and a subscription on which
     the updates [pend] were published after the snapshot was taken but before it was processed; run processes
     the snapshot entries first and then the subscription, in publication order. *)

Section Inhibit.
  Variable re : string -> string -> bool.   (* Go regexp full match, see Model/Matchers.v *)

  (* processAlert, per rule: if the source side matches, InhibitRule.setSource = scache.Set + updateIndex as one
     atomic step (under InhibitRule.mtx) *)
  Definition process_rule (a : alert) (r : irule) : irule :=
    if ms_matches re (r_src (ir_cfg r)) (a_lbls a)
    then mkIR (ir_cfg r) (<[a_lbls a := a]> (ir_sc r)) (ix_add (eqkey (ir_cfg r) (a_lbls a)) (a_lbls a) (ir_ix r))
    else r.

  (* store.Alerts.GC, step 1 (under the store lock): delete the alerts resolved now; they are handed to step 2 *)
  Definition gc_dead (now : Z) (sc : scache) : list alert :=
    filter (fun a => resolved_at a now = true) (map snd (map_to_list sc)).
  Definition gc_delete_rule (now : Z) (r : irule) : irule * list alert :=
    (mkIR (ir_cfg r) (filter (fun kv => resolved_at (snd kv) now = false) (ir_sc r)) (ir_ix r), gc_dead now (ir_sc r)).
  (* step 2, InhibitRule.gcCallback (one atomic step under InhibitRule.mtx): the index entry of every deleted alert
     is removed, EXCEPT when its fingerprint is in the cache again (a source update processed since step 1) *)
  Definition gc_callback_rule (dead : list alert) (r : irule) : irule :=
    mkIR (ir_cfg r) (ir_sc r)
         (foldr (fun a ix => match ir_sc r !! a_lbls a with
                             | Some _ => ix
                             | None => ix_del (eqkey (ir_cfg r) (a_lbls a)) (a_lbls a) ix
                             end) (ir_ix r) dead).
  (* both steps with nothing in between *)
  Definition gc_rule (now : Z) (r : irule) : irule :=
    gc_callback_rule (snd (gc_delete_rule now r)) (fst (gc_delete_rule now r)).

  (* NewInhibitor + run's start-up, per rule *)
  Definition restart_rule (snap pend : list alert) (r : irule) : irule :=
    foldl (fun r a => process_rule a r) (new_rule (ir_cfg r)) (snap ++ pend).

  Definition step (ih : list irule) (now : Z) (o : op) : list irule :=
    match o with
    | OProcess a => map (process_rule a) ih
    | OGC sel => map (fun r => if sel (ir_cfg r) then gc_rule now r else r) ih
    | OTick => ih
    | ORestart snap pend => map (restart_rule snap pend) ih
    | OGCDelete sel => map (fun r => if sel (ir_cfg r) then fst (gc_delete_rule now r) else r) ih
    | OGCCallback sel dead => map (fun r => if sel (ir_cfg r) then gc_callback_rule dead r else r) ih
    end.

  Definition run (ih : list irule) (h : list (Z * op)) : list irule :=
    foldl (fun ih x => step ih (fst x) (snd x)) ih h.

  (* hasEqual / findEqualSourceAlert: the cached sources indexed under lset's equal values that are usable:
     present in the cache, not resolved at now and, when lset itself matches the source side, not matching the
     target side *)
  Definition usable (r : irule) (two_sided : bool) (now : Z) (f : list (string * string)) : bool :=
    match ir_sc r !! f with
    | Some a => negb (resolved_at a now) && negb (two_sided && ms_matches re (r_tgt (ir_cfg r)) (a_lbls a))
    | None => false
    end.
  Definition candidates (r : irule) (lset : list (string * string)) (now : Z) : list (list (string * string)) :=
    filter (fun f => usable r (ms_matches re (r_src (ir_cfg r)) lset) now f = true)
           (elements (ix_get (ir_ix r) (eqkey (ir_cfg r) lset))).

  (* Inhibitor.Mutes: None = not muted; Some fs = muted, and the reported inhibitedBy fingerprint is one of fs
     (the usable sources of the FIRST rule that inhibits) *)
  Fixpoint mutes (ih : list irule) (lset : list (string * string)) (now : Z) : option (list (list (string * string))) :=
    match ih with
    | [] => None
    | r :: rest =>
        if ms_matches re (r_tgt (ir_cfg r)) lset then
          match candidates r lset now with
          | [] => mutes rest lset now
          | fs => Some fs
          end
        else mutes rest lset now
    end.
  Definition muted (ih : list irule) (lset : list (string * string)) (now : Z) : bool :=
    match mutes ih lset now with Some _ => true | None => false end.

  (* ---------------- specification (the documented rule) ---------------- *)

  (* the last update of fingerprint f published in a history (a restart publishes nothing by itself: its
     snapshot re-reads what the provider holds; the updates that arrived during the load are publications) *)
  Definition upd1 (f : list (string * string)) (acc : option alert) (a : alert) : option alert :=
    if bool_decide (a_lbls a = f) then Some a else acc.
  Definition upd_latest (f : list (string * string)) (acc : option alert) (x : Z * op) : option alert :=
    match snd x with
    | OProcess a => upd1 f acc a
    | ORestart _ pend => foldl (upd1 f) acc pend
    | _ => acc
    end.
  Definition latest (h : list (Z * op)) (f : list (string * string)) : option alert :=
    foldl (upd_latest f) None h.

  (* What the provider's snapshot must be at a restart at instant t after the publications of [pre]
     (provider/mem holds the latest update of every fingerprint until its GC removes it once resolved):
     every entry is the latest update of its fingerprint, and every fingerprint whose latest update is
     unresolved at t has its entry. Resolved alerts not yet collected by the provider may or may not be there. *)
  Definition snap_ok (pre : list (Z * op)) (t : Z) (snap : list alert) : Prop :=
    (forall a, In a snap -> latest pre (a_lbls a) = Some a) /\
    (forall f a, latest pre f = Some a -> resolved_at a t = false -> In a snap).
  Definition op_ok (pre : list (Z * op)) (x : Z * op) : Prop :=
    match snd x with ORestart snap _ => snap_ok pre (fst x) snap | _ => True end.
  Fixpoint hist_ok (pre h : list (Z * op)) : Prop :=
    match h with
    | [] => True
    | x :: rest => op_ok pre x /\ hist_ok (pre ++ [x]) rest
    end.

  (* executable forms of the snapshot contract (Run/C03Run.v checks it on every recorded history; Examples) *)
  Definition op_fps (x : Z * op) : list (list (string * string)) :=
    match snd x with
    | OProcess a => [a_lbls a]
    | ORestart _ pend => map a_lbls pend
    | _ => []
    end.
  Definition hist_fps (h : list (Z * op)) : list (list (string * string)) := flat_map op_fps h.
  Definition snap_okb (pre : list (Z * op)) (t : Z) (snap : list alert) : bool :=
    forallb (fun a => bool_decide (latest pre (a_lbls a) = Some a)) snap &&
    forallb (fun f => match latest pre f with
                      | Some a => resolved_at a t || bool_decide (a ∈ snap)
                      | None => true
                      end) (hist_fps pre).
  Definition op_okb (pre : list (Z * op)) (x : Z * op) : bool :=
    match snd x with ORestart snap _ => snap_okb pre (fst x) snap | _ => true end.
  Fixpoint hist_okb (pre h : list (Z * op)) : bool :=
    match h with
    | [] => true
    | x :: rest => op_okb pre x && hist_okb (pre ++ [x]) rest
    end.

  (* the latest published update of every fingerprint as a map (what the provider holds before its GC); the
     executable checks use it instead of asking [latest] per fingerprint (Proofs: latest_map_lookup) *)
  Definition latest_map (h : list (Z * op)) : gmap (list (string * string)) alert :=
    foldl (fun m x => match snd x with
                      | OProcess a => <[a_lbls a := a]> m
                      | ORestart _ pend => foldl (fun m a => <[a_lbls a := a]> m) m pend
                      | _ => m
                      end) ∅ h.

  (* currently firing: the alert's latest update is unresolved at now *)
  Definition firing (h : list (Z * op)) (now : Z) (s : alert) : Prop :=
    latest h (a_lbls s) = Some s /\ resolved_at s now = false.

  Definition eq_on (names : list string) (s t : list (string * string)) : Prop :=
    forall l, In l names -> lget s l = lget t l.

  Definition inhibits (c : rule) (s : alert) (lset : list (string * string)) : Prop :=
    ms_matches re (r_tgt c) lset = true /\
    ms_matches re (r_src c) (a_lbls s) = true /\
    eq_on (r_equal c) (a_lbls s) lset /\
    ~ (ms_matches re (r_src c) lset = true /\ ms_matches re (r_tgt c) (a_lbls s) = true).

  Definition inhibited (rules : list rule) (fire : alert -> Prop) (lset : list (string * string)) : Prop :=
    exists c s, In c rules /\ fire s /\ inhibits c s lset.

  (* executable form of the specification over an explicit list of firing alerts (used by the Run module) *)
  Definition inhibitsb (c : rule) (s : alert) (lset : list (string * string)) : bool :=
    ms_matches re (r_tgt c) lset && ms_matches re (r_src c) (a_lbls s) &&
    forallb (fun l => String.eqb (lget (a_lbls s) l) (lget lset l)) (r_equal c) &&
    negb (ms_matches re (r_src c) lset && ms_matches re (r_tgt c) (a_lbls s)).
  Definition inhibitedb (rules : list rule) (fire : list alert) (lset : list (string * string)) : bool :=
    existsb (fun c => existsb (fun s => inhibitsb c s lset) fire) rules.
End Inhibit.

(* clock hypotheses of the theorems: instants never decrease *)
Fixpoint mono_from (t0 : Z) (h : list (Z * op)) : Prop :=
  match h with
  | [] => True
  | (t, _) :: rest => t0 <= t /\ mono_from t rest
  end.
Fixpoint last_time (t0 : Z) (h : list (Z * op)) : Z :=
  match h with
  | [] => t0
  | (t, _) :: rest => last_time t rest
  end.
