(* Executable model of alertmanager routing (C07).
   Mirrors, definition by definition:
     config/config.go   Route.UnmarshalYAML (group_by handling, zero intervals), Config.UnmarshalYAML's route checks
                        (root receiver / matchers / time intervals), checkReceiver, checkTimeInterval
     dispatch/route.go  DefaultRouteOpts, NewRoute/newRoute (option inheritance, matcher construction, Idx numbering),
                        Route.Match
   Definitions only; proofs are in Proofs/RouteProofs.v.

   Conventions
   - A *Route pointer is modelled by its POSITION in the tree: a path = list of child indices from the root
     (two nodes with equal contents are still different routes). Route.Match returns paths.
   - model.LabelSet route labels are association lists read with [alookup] (first binding wins); the merged set of
     a child is [child ++ parent], i.e. exactly maps.Copy(merged, parent); maps.Copy(merged, child).
   - RouteOpts.GroupBy (a Go set) is a list; it is compared as a set.
   - Go's regexp is the oracle [re] of Model/Matchers.v.
   - Assumed of the inputs (enforced by config.Load before this code runs, and by the harness generators): label
     names are valid, regexps compile (so labels.NewMatcher cannot fail and newRoute's panic branch is dead). *)
From AM Require Import Base.Prelude Model.Matchers.

Notation path := (list nat) (only parsing).

(* ---------- config.Route as written in the YAML file ---------- *)
Record rcfg := mkRC {
  rc_receiver : string;                      (* "" = not set *)
  rc_group_by : option (list string);        (* GroupByStr; None = key absent, Some [] = "group_by: []" *)
  rc_match : list (string * string);         (* deprecated match: map, in the order Go's map iteration yields it *)
  rc_match_re : list (string * string);      (* deprecated match_re *)
  rc_matchers : list matcher;                (* matchers:, already parsed (parsing is C16) *)
  rc_mute : list string;
  rc_active : list string;
  rc_continue : bool;
  rc_gw : option Z;                          (* durations in ns; None = not set *)
  rc_gi : option Z;
  rc_ri : option Z;
  rc_labels : list (string * string) }.
Inductive rroute := RNode (c : rcfg) (ch : list rroute).

(* ---------- config.Route after UnmarshalYAML: GroupBy / GroupByAll filled in ---------- *)
Record ccfg := mkCC {
  cc_raw : rcfg;
  cc_group_by : option (list string);        (* GroupBy: None = nil slice *)
  cc_group_by_all : bool }.
Inductive croute := CNode (c : ccfg) (ch : list croute).

Definition wildcard : string := "...".

Fixpoint has_dup (l : list string) : bool :=
  match l with
  | [] => false
  | x :: r => existsb (String.eqb x) r || has_dup r
  end.

Definition is_nil {A} (l : list A) : bool := match l with [] => true | _ => false end.

(* Route.UnmarshalYAML, after the plain decode *)
Definition unmarshal_cfg (c : rcfg) : res ccfg :=
  let strs := default [] (rc_group_by c) in
  let all := existsb (String.eqb wildcard) strs in
  let names := List.filter (fun l => negb (String.eqb wildcard l)) strs in
  let gb : option (list string) :=
    match rc_group_by c with
    | Some [] => Some []                                  (* r.GroupBy = make([]model.LabelName, 0) *)
    | _ => if is_nil names then None else Some names       (* append onto a nil slice *)
    end in
  if negb (is_nil names) && all then Err "group-by-wildcard-mixed"
  else if has_dup names then Err "group-by-duplicate"
  else if bool_decide (rc_gi c = Some 0) then Err "group-interval-zero"
  else if bool_decide (rc_ri c = Some 0) then Err "repeat-interval-zero"
  else Ok (mkCC c gb all).

(* yaml decodes the children (calling their UnmarshalYAML, first error wins) before the node's own checks run *)
Definition unmarshal_list (f : rroute -> res croute) : list rroute -> res (list croute) :=
  fix go (l : list rroute) : res (list croute) :=
  match l with
  | [] => Ok []
  | x :: r =>
      match f x with
      | Ok y => match go r with Ok ys => Ok (y :: ys) | Err e => Err e | Panic => Panic end
      | Err e => Err e
      | Panic => Panic
      end
  end.
Fixpoint unmarshal_route (r : rroute) : res croute :=
  match r with
  | RNode c ch =>
      match unmarshal_list unmarshal_route ch with
      | Ok ch' => match unmarshal_cfg c with Ok c' => Ok (CNode c' ch') | Err e => Err e | Panic => Panic end
      | Err e => Err e
      | Panic => Panic
      end
  end.

(* checkReceiver / checkTimeInterval: children first, then the node *)
Definition first_err (f : croute -> option string) : list croute -> option string :=
  fix go (l : list croute) : option string :=
  match l with
  | [] => None
  | x :: r => match f x with Some e => Some e | None => go r end
  end.
Definition smem (x : string) (l : list string) : bool := existsb (String.eqb x) l.
Fixpoint check_receiver (receivers : list string) (r : croute) : option string :=
  match r with
  | CNode c ch =>
      match first_err (check_receiver receivers) ch with
      | Some e => Some e
      | None =>
          if String.eqb (rc_receiver (cc_raw c)) "" then None
          else if smem (rc_receiver (cc_raw c)) receivers then None else Some "undefined-receiver"
      end
  end.
Fixpoint check_time_interval (tis : list string) (r : croute) : option string :=
  match r with
  | CNode c ch =>
      match first_err (check_time_interval tis) ch with
      | Some e => Some e
      | None =>
          if forallb (fun t => smem t tis) (rc_active (cc_raw c)) && forallb (fun t => smem t tis) (rc_mute (cc_raw c))
          then None else Some "undefined-time-interval"
      end
  end.

(* the route part of Config.UnmarshalYAML, in the code's order *)
Definition validate_root (receivers tis : list string) (r : croute) : option string :=
  match r with
  | CNode c _ =>
      let raw := cc_raw c in
      if String.eqb (rc_receiver raw) "" then Some "root-no-receiver"
      else if negb (is_nil (rc_match raw) && is_nil (rc_match_re raw) && is_nil (rc_matchers raw)) then Some "root-has-matchers"
      else if negb (is_nil (rc_mute raw)) then Some "root-has-mute-intervals"
      else if negb (is_nil (rc_active raw)) then Some "root-has-active-intervals"
      else match check_receiver receivers r with
           | Some e => Some e
           | None => check_time_interval tis r
           end
  end.

(* config.Load: after the decode (which runs every check above) the root must not have continue *)
Definition root_continue (r : croute) : bool := match r with CNode c _ => rc_continue (cc_raw c) end.
Definition load_route (receivers tis : list string) (r : rroute) : res croute :=
  match unmarshal_route r with
  | Ok c => match validate_root receivers tis c with
            | Some e => Err e
            | None => if root_continue c then Err "root-continue" else Ok c
            end
  | Err e => Err e
  | Panic => Panic
  end.

(* ---------- dispatch.Route ---------- *)
Record ropts := mkRO {
  ro_receiver : string;
  ro_group_by : list string;
  ro_group_by_all : bool;
  ro_gw : Z;
  ro_gi : Z;
  ro_ri : Z;
  ro_mute : list string;
  ro_active : list string;
  ro_labels : list (string * string) }.
Inductive route := Node (o : ropts) (ms : list matcher) (cont : bool) (ch : list route).

Definition r_opts (r : route) := match r with Node o _ _ _ => o end.
Definition r_ms (r : route) := match r with Node _ ms _ _ => ms end.
Definition r_cont (r : route) := match r with Node _ _ c _ => c end.
Definition r_children (r : route) := match r with Node _ _ _ ch => ch end.

(* DefaultRouteOpts *)
Definition default_opts : ropts :=
  mkRO "" [] false 30000000000 300000000000 14400000000000 [] [] [].

Fixpoint alookup (l : list (string * string)) (k : string) : option string :=
  match l with
  | [] => None
  | (k', v) :: r => if String.eqb k' k then Some v else alookup r k
  end.

(* labels.Matchers.Less *)
Definition mtype_rank (t : mtype) : nat :=
  match t with MEq => 0 | MNeq => 1 | MRe => 2 | MNre => 3 end%nat.
Definition m_less (a b : matcher) : bool :=
  if String.ltb (m_name b) (m_name a) then false
  else if String.ltb (m_name a) (m_name b) then true
  else if String.ltb (m_value b) (m_value a) then false
  else if String.ltb (m_value a) (m_value b) then true
  else Nat.ltb (mtype_rank (m_type a)) (mtype_rank (m_type b)).
(* sort.Sort(matchers): the order is total up to identical matchers, so every correct sort yields this list *)
Fixpoint m_insert (m : matcher) (l : list matcher) : list matcher :=
  match l with
  | [] => [m]
  | x :: r => if m_less x m then x :: m_insert m r else m :: l
  end.
Definition m_sort (l : list matcher) : list matcher := fold_right m_insert [] l.

(* match_re values are config Regexp objects: lv.String() is the already anchored text "^(?:v)$", which
   NewMatcher anchors once more; the matcher's Value (used by Less, Key, ID) is the anchored text *)
Definition anchored (v : string) : string := "^(?:" +:+ v +:+ ")$".
Definition build_matchers (c : rcfg) : list matcher :=
  m_sort (map (fun '(n, v) => mkM MEq n v) (rc_match c)
          ++ map (fun '(n, v) => mkM MRe n (anchored v)) (rc_match_re c)
          ++ rc_matchers c).

(* the option part of newRoute: parent's (or default) options overwritten field by field *)
Definition inherit (p : ropts) (c : ccfg) : ropts :=
  let raw := cc_raw c in
  let labels := if is_nil (rc_labels raw) then ro_labels p else rc_labels raw ++ ro_labels p in
  let receiver := if String.eqb (rc_receiver raw) "" then ro_receiver p else rc_receiver raw in
  let '(gb, gba) :=
    match cc_group_by c with
    | Some l => (l, false)
    | None => if cc_group_by_all c then (ro_group_by p, true) else (ro_group_by p, ro_group_by_all p)
    end in
  mkRO receiver gb gba
       (default (ro_gw p) (rc_gw raw)) (default (ro_gi p) (rc_gi raw)) (default (ro_ri p) (rc_ri raw))
       (rc_mute raw) (rc_active raw) labels.

Fixpoint new_route (p : ropts) (cr : croute) : route :=
  match cr with
  | CNode c ch =>
      let o := inherit p c in
      Node o (build_matchers (cc_raw c)) (rc_continue (cc_raw c)) (map (new_route o) ch)
  end.
(* NewRoute(cr, nil) *)
Definition new_root (cr : croute) : route := new_route default_opts cr.

(* ---------- positions ---------- *)
Fixpoint node_at (r : route) (p : path) : option route :=
  match p with
  | [] => Some r
  | i :: q => match nth_error (r_children r) i with Some c => node_at c q | None => None end
  end.

Fixpoint cnode_at (r : croute) (p : path) : option croute :=
  match p with
  | [] => Some r
  | i :: q => match r with CNode _ ch => match nth_error ch i with Some c => cnode_at c q | None => None end end
  end.

(* all positions, depth-first pre-order (Route.Walk) *)
Definition pre_children (f : route -> list path) : nat -> list route -> list path :=
  fix go (i : nat) (l : list route) {struct l} : list path :=
  match l with
  | [] => []
  | c :: rest => map (cons i) (f c) ++ go (S i) rest
  end.
Fixpoint pre_order (r : route) : list path :=
  match r with Node _ _ _ ch => [] :: pre_children pre_order 0 ch end.

(* Route.Idx: children are numbered before their parent (post-order counter) *)
Fixpoint size (r : route) : nat :=
  match r with Node _ _ _ ch => S (list_sum (map size ch)) end.
Fixpoint idx_from (start : nat) (r : route) (p : path) : option nat :=
  match p with
  | [] => Some (start + (size r - 1))%nat
  | i :: q =>
      match nth_error (r_children r) i with
      | Some c => idx_from (start + list_sum (map size (firstn i (r_children r))))%nat c q
      | None => None
      end
  end.
Definition route_idx (r : route) (p : path) : option nat := idx_from 0 r p.

(* ---------- Route.Match ---------- *)
Section Match.
  Variable re : string -> string -> bool.
  Variable ls : list (string * string).

  Definition matches (r : route) : bool := ms_matches re (r_ms r) ls.

  (* the for loop over r.Routes, [f] being the recursive call; [i] is the index of the head of [l] *)
  Definition match_children (f : route -> list path) : nat -> list route -> list path :=
    fix go (i : nat) (l : list route) {struct l} : list path :=
    match l with
    | [] => []
    | cr :: rest =>
        match f cr with
        | [] => go (S i) rest                                         (* matches == nil *)
        | m => if r_cont cr then map (cons i) m ++ go (S i) rest
               else map (cons i) m                                    (* break *)
        end
    end.

  Fixpoint match_route (r : route) : list path :=
    match r with
    | Node _ ms _ ch =>
        if ms_matches re ms ls then
          match match_children match_route 0 ch with
          | [] => [[]]                                                (* len(all) == 0: the node itself *)
          | all => all
          end
        else []
    end.

  (* Closed form of "the routes chosen" (executable; used as the model-side property oracle and proved equal to
     match_route): a position is chosen iff every node on the way to it matches, each earlier sibling passed on
     the way either does not match or has continue, and no child of it matches. *)
  Fixpoint selected (r : route) (p : path) : bool :=
    matches r &&
    match p with
    | [] => forallb (fun c => negb (matches c)) (r_children r)
    | i :: q =>
        forallb (fun c => negb (matches c) || r_cont c) (firstn i (r_children r))
        && match nth_error (r_children r) i with Some c => selected c q | None => false end
    end.

  (* what the three consumers derive: the receiver of every matched route, in order *)
  Definition receivers_of (r : route) : list (option string) :=
    map (fun p => option_map (fun n => ro_receiver (r_opts n)) (node_at r p)) (match_route r).
End Match.
