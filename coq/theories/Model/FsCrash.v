(* POSIX-like file-system crash model used by C11 (definitions only).

   What is modelled (the contract the snapshot protocol of nflog.go / silence.go relies on):
   - an inode holds DURABLE bytes plus the list of VOLATILE writes (offset, bytes) issued since its last fsync;
   - a directory maps names to inode numbers. Directory updates (creat, rename) are atomic, but the code never
     fsyncs the directory, so they stay in an un-synced directory log: a crash keeps a PREFIX of that log and rolls
     back the rest (a rolled-back rename leaves the target name bound to its old inode);
   - fsync(fd) makes that inode's bytes durable (nothing else: not the directory);
   - a crash keeps, per inode, the durable bytes overwritten by ANY PREFIX of the volatile write sequence (cut inside
     a write at any byte); which prefix, and how much of the directory log survives, is the adversary's choice;
   - [Create]: open(O_CREAT|O_TRUNC) or open(O_CREAT|O_EXCL) - the name is bound to a FRESH EMPTY inode (for an
     existing name the old inode stays reachable through a rolled-back directory log: "truncation not yet on disk");
   - [OpenExisting]: a writable open WITHOUT O_TRUNC - the existing inode and its content are kept, the write position
     starts at 0, so a shorter new content leaves the tail of the old one in place (a missing file is created).
   File handles: an op refers to an open file by the path it was opened with (the harness canonicalises the fd
   numbers of the strace log this way), so writes after a rename of the path still reach the inode. The write
   position is kept with the inode (one writer per file; O_APPEND, lseek and pwrite are not modelled). *)
From AM Require Import Base.Prelude.

Notation bytes := (list N) (only parsing).

Record file := mkFile { f_durable : list N; f_volatile : list (nat * list N); f_pos : nat }.

Inductive fsop :=
| Create (n : string)             (* openat(n, O_CREAT|O_TRUNC|...) / O_CREAT|O_EXCL: fresh empty file, handle n *)
| OpenExisting (n : string)       (* openat(n, writable, no O_TRUNC): keeps the content, handle n *)
| Write (h : string) (b : list N) (* write(fd of h, b) *)
| Fsync (h : string)              (* fsync(fd of h) *)
| Close (h : string)              (* close(fd of h) *)
| Rename (a b : string).          (* rename(a, b) *)
Global Instance fsop_eq_dec : EqDecision fsop. Proof. solve_decision. Defined.

Inductive dirop := DBind (n : string) (i : nat) | DRename (a b : string).

Notation dir := (gmap string nat) (only parsing).

Record fs := mkFs {
  fs_files : list file;             (* inode table; inode number = index *)
  fs_ddir : gmap string nat;        (* directory as it is on disk *)
  fs_log : list dirop;              (* directory operations not yet on disk, oldest first *)
  fs_open : list (string * nat) }.  (* open handles: path used at open -> inode *)

Definition apply_dirop (d : gmap string nat) (o : dirop) : gmap string nat :=
  match o with
  | DBind n i => <[n := i]> d
  | DRename a b => match d !! a with Some i => <[b := i]> (delete a d) | None => d end
  end.

Definition dir_after (d : gmap string nat) (l : list dirop) : gmap string nat := foldl apply_dirop d l.

(* the directory a running process sees *)
Definition cur_dir (s : fs) : gmap string nat := dir_after (fs_ddir s) (fs_log s).

Fixpoint handle (o : list (string * nat)) (h : string) : option nat :=
  match o with
  | [] => None
  | (n, i) :: r => if String.eqb n h then Some i else handle r h
  end.

(* write b at offset off *)
Definition overwrite (d : list N) (off : nat) (b : list N) : list N :=
  take off d ++ b ++ drop (off + length b) d.
Definition apply_writes (d : list N) (ws : list (nat * list N)) : list N :=
  foldl (fun d w => overwrite d (fst w) (snd w)) d ws.
Definition file_bytes (f : file) : list N := apply_writes (f_durable f) (f_volatile f).

(* what reading name n returns *)
Definition content (s : fs) (n : string) : option (list N) :=
  match cur_dir s !! n with
  | Some i => match fs_files s !! i with Some f => Some (file_bytes f) | None => None end
  | None => None
  end.

Definition upd_file (s : fs) (i : nat) (g : file -> file) : fs :=
  match fs_files s !! i with
  | Some f => mkFs (<[i := g f]> (fs_files s)) (fs_ddir s) (fs_log s) (fs_open s)
  | None => s
  end.

Definition step_create (s : fs) (n : string) : fs :=
  let i := length (fs_files s) in
  mkFs (fs_files s ++ [mkFile [] [] 0]) (fs_ddir s) (fs_log s ++ [DBind n i]) ((n, i) :: fs_open s).

Definition step (s : fs) (o : fsop) : fs :=
  match o with
  | Create n => step_create s n
  | OpenExisting n =>
      match cur_dir s !! n with
      | Some i =>
          let s' := upd_file s i (fun f => mkFile (f_durable f) (f_volatile f) 0) in
          mkFs (fs_files s') (fs_ddir s') (fs_log s') ((n, i) :: fs_open s')
      | None => step_create s n
      end
  | Write h b =>
      match b with
      | [] => s   (* write(fd, "", 0): POSIX - no effect on a regular file *)
      | _ =>
          match handle (fs_open s) h with
          | Some i => upd_file s i (fun f => mkFile (f_durable f) (f_volatile f ++ [(f_pos f, b)]) (f_pos f + length b))
          | None => s
          end
      end
  | Fsync h =>
      match handle (fs_open s) h with
      | Some i => upd_file s i (fun f => mkFile (file_bytes f) [] (f_pos f))
      | None => s
      end
  | Close h =>
      mkFs (fs_files s) (fs_ddir s) (fs_log s) (filter (fun p => negb (String.eqb (fst p) h)) (fs_open s))
  | Rename a b => mkFs (fs_files s) (fs_ddir s) (fs_log s ++ [DRename a b]) (fs_open s)
  end.

Definition run (ops : list fsop) (s : fs) : fs := foldl step s ops.

(* the adversary: how many un-synced directory operations reach the disk, and per inode how many of its
   volatile bytes do *)
Record choice := mkChoice { ch_dir : nat; ch_bytes : nat -> nat }.

(* the first [keep] bytes of a write sequence *)
Fixpoint take_writes (keep : nat) (ws : list (nat * list N)) : list (nat * list N) :=
  match ws with
  | [] => []
  | (o, b) :: r => if (keep <? length b)%nat then [(o, take keep b)] else (o, b) :: take_writes (keep - length b) r
  end.
Definition crash_file (keep : nat) (f : file) : file :=
  mkFile (apply_writes (f_durable f) (take_writes keep (f_volatile f))) [] 0.

Definition crash (c : choice) (s : fs) : fs :=
  mkFs (imap (fun i f => crash_file (ch_bytes c i) f) (fs_files s))
       (dir_after (fs_ddir s) (take (ch_dir c) (fs_log s))) [] [].

(* the file system found at the next start, after a crash right after the first k operations *)
Definition recover_after (ops : list fsop) (k : nat) (c : choice) (d0 : fs) : fs :=
  crash c (run (take k ops) d0).

(* a quiescent file system in which name n holds exactly bytes b, everything on disk *)
Definition holds_synced (s : fs) (n : string) (b : list N) : Prop :=
  fs_log s = [] /\ exists i, fs_ddir s !! n = Some i /\ (exists p, fs_files s !! i = Some (mkFile b [] p)) /\
  forall h, handle (fs_open s) h <> Some i.
(* ... or in which n does not exist *)
Definition absent_synced (s : fs) (n : string) : Prop := fs_log s = [] /\ fs_ddir s !! n = None.

(* executable builder for initial states (used by the correspondence run and the Examples) *)
Definition fs_with (n : string) (b : list N) : fs := mkFs [mkFile b [] 0] {[ n := 0%nat ]} [] [].
Definition fs_empty : fs := mkFs [] ∅ [] [].
