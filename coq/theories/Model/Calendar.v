(* Proleptic Gregorian calendar on Z, as Go's time package computes the civil fields of an instant.
   Definitions only (no proofs). Proofs: Proofs/CalendarProofs.v.

   An instant is Z seconds since the Unix epoch (time.Time.Unix(): floor of the nanosecond instant).
   Local time = unix + off where off is the zone's UTC offset in seconds AT that instant. The IANA zone
   database is external: wherever an offset is needed it is an explicit argument (`tz : string -> Z -> Z` in
   Model/TimeInterval.v); the harness passes the offset Go's time package reports for the instant.

   days <-> (year, month, day): Howard Hinnant's days_from_civil / civil_from_days, with Z's floor division,
   so the functions are total and exact on all of Z (negative days = before 1970, negative years = BCE). *)
From AM Require Import Base.Prelude.

Definition is_leap (y : Z) : bool :=
  (y mod 4 =? 0) && (negb (y mod 100 =? 0) || (y mod 400 =? 0)).

(* length of month m (1..12) of year y; months outside 1..12 are given 31 (never used on valid dates) *)
Definition days_in_month (y m : Z) : Z :=
  if m =? 2 then (if is_leap y then 29 else 28)
  else if (m =? 4) || (m =? 6) || (m =? 9) || (m =? 11) then 30 else 31.

(* day-of-era (0 .. 146096, era = 400 years starting 1 March of a year divisible by 400) from the
   March-based year-of-era, month 1..12, day *)
Definition doe_of_civil0 (yoe m d : Z) : Z :=
  let doy := (153 * (if 2 <? m then m - 3 else m + 9) + 2) / 5 + d - 1 in
  yoe * 365 + yoe / 4 - yoe / 100 + doy.

Definition days_of_civil (y m d : Z) : Z :=
  let y' := if m <=? 2 then y - 1 else y in
  (y' / 400) * 146097 + doe_of_civil0 (y' mod 400) m d - 719468.

(* (year within the era [0..400], month, day) of a day-of-era *)
Definition civil0_of_doe (doe : Z) : Z * Z * Z :=
  let yoe := (doe - doe / 1460 + doe / 36524 - doe / 146096) / 365 in
  let doy := doe - (365 * yoe + yoe / 4 - yoe / 100) in
  let mp := (5 * doy + 2) / 153 in
  let d := doy - (153 * mp + 2) / 5 + 1 in
  let m := if mp <? 10 then mp + 3 else mp - 9 in
  (if m <=? 2 then yoe + 1 else yoe, m, d).

Definition shift_year (k : Z) (c : Z * Z * Z) : Z * Z * Z := let '(y, m, d) := c in (y + k * 400, m, d).

(* days since 1970-01-01 -> (year, month, day) *)
Definition civil_of_days (z : Z) : Z * Z * Z :=
  shift_year ((z + 719468) / 146097) (civil0_of_doe ((z + 719468) mod 146097)).

(* Go: time.Weekday, Sunday = 0; 1970-01-01 was a Thursday *)
Definition weekday (z : Z) : Z := (z + 4) mod 7.

(* the day after a date, by the calendar rules (the specification the conversion is proved against) *)
Definition next_day (c : Z * Z * Z) : Z * Z * Z :=
  let '(y, m, d) := c in
  if d <? days_in_month y m then (y, m, d + 1)
  else if m <? 12 then (y, m + 1, 1) else (y + 1, 1, 1).

Definition valid_date (c : Z * Z * Z) : bool :=
  let '(y, m, d) := c in (1 <=? m) && (m <=? 12) && (1 <=? d) && (d <=? days_in_month y m).

(* civil fields of a local instant (seconds): what t.In(loc).{Year,Month,Day,Weekday,Hour*60+Minute} return *)
Record civil := mkCivil { c_year : Z; c_month : Z; c_day : Z; c_wday : Z; c_min : Z }.
Global Instance civil_eq_dec : EqDecision civil. Proof. solve_decision. Defined.

Definition civil_fields (local : Z) : civil :=
  let d := local / 86400 in
  let '(y, m, dd) := civil_of_days d in
  mkCivil y m dd (weekday d) ((local mod 86400) / 60).
