(* Secret masking and the reload protocol (definitions only; proofs in Proofs/ConfigProofs.v).

   1. Config.String() = yaml.Marshal of the loaded struct. Every secret-bearing field has a type whose
      MarshalYAML prints the constant "<secret>" when the value is set and nothing when it is unset
      (prometheus/common config.Secret, config/common/url.go SecretURL and SecretTemplateURL, with
      commoncfg.MarshalSecretValue = false, the default, which the harness asserts). The model is a value tree
      whose VSecret leaves carry the secret text; [render] prints them the same way. The text layout of [render] is
      NOT yaml.v2's (not modelled); masking is modelled as a PURE function of the leaf: the real marshalers also read
      the process-wide switch commoncfg.MarshalSecretValue, and that nothing (in particular config.Load, also not
      transiently while a status request renders the running config) sets it is tied by the harness's concurrent engine; what is modelled is the only thing the property needs: where the output
      depends on a secret leaf.

   2. config.Coordinator.Reload: load the file; only if that succeeds store the new config and call the
      subscribers in order, stopping at the first failure. A subscriber is transactional (app/reloader.go does all
      fallible work before touching live state): it either applies the new config or keeps what it had. *)
From AM Require Import Base.Prelude.

Inductive value :=
| VNull
| VStr (s : string)
| VSecret (s : string)                    (* "" = unset *)
| VList (l : list value)
| VMap (l : list (string * value)).

Definition secret_token : string := "<secret>".

Fixpoint render (v : value) : string :=
  match v with
  | VNull => "null"
  | VStr s => """" +:+ s +:+ """"
  | VSecret s => if String.eqb s "" then "null" else secret_token
  | VList l =>
    "[" +:+ (fix go (l : list value) : string :=
               match l with [] => "" | x :: t => render x +:+ "," +:+ go t end) l +:+ "]"
  | VMap l =>
    "{" +:+ (fix go (l : list (string * value)) : string :=
               match l with [] => "" | (k, x) :: t => k +:+ ":" +:+ render x +:+ "," +:+ go t end) l +:+ "}"
  end.

(* every set secret replaced by one fixed text: what is left is the secret-free part of the configuration *)
Fixpoint erase_secrets (v : value) : value :=
  match v with
  | VNull => VNull
  | VStr s => VStr s
  | VSecret s => VSecret (if String.eqb s "" then "" else "x")
  | VList l => VList (map erase_secrets l)
  | VMap l => VMap (map (fun p => (fst p, erase_secrets (snd p))) l)
  end.

(* number of set secret leaves = number of "<secret>" tokens Config.String() must show *)
Fixpoint count_secrets (v : value) : nat :=
  match v with
  | VSecret s => if String.eqb s "" then 0%nat else 1%nat
  | VList l => (fix go (l : list value) : nat := match l with [] => 0 | x :: t => count_secrets x + go t end)%nat l
  | VMap l => (fix go (l : list (string * value)) : nat :=
                 match l with [] => 0 | (_, x) :: t => count_secrets x + go t end)%nat l
  | _ => 0%nat
  end.

(* the secret texts of a tree *)
Fixpoint secrets_of (v : value) : list string :=
  match v with
  | VSecret s => if String.eqb s "" then [] else [s]
  | VList l => (fix go (l : list value) : list string := match l with [] => [] | x :: t => secrets_of x ++ go t end) l
  | VMap l => (fix go (l : list (string * value)) : list string :=
                 match l with [] => [] | (_, x) :: t => secrets_of x ++ go t end) l
  | _ => []
  end.

(* substring test (for the executable form: no canary occurs in the rendered text) *)
Fixpoint prefix_of (p s : string) : bool :=
  match p, s with
  | EmptyString, _ => true
  | String a p', String b s' => Ascii.eqb a b && prefix_of p' s'
  | _, _ => false
  end.
Fixpoint occurs (p s : string) : bool :=
  prefix_of p s || match s with EmptyString => false | String _ s' => occurs p s' end.

(* ---------- printing a route's group_by (finding printed-config-loses-empty-group-by) ---------- *)
(* Route.GroupByStr is tagged `group_by,omitempty`: yaml.v2 omits a nil AND an empty slice; decoding a document
   without the key leaves the field nil. dispatch.newRoute: nil inherits the parent's group_by, a non-nil (even
   empty) list overrides it. *)
Definition print_omitempty {A} (o : option (list A)) : option (list A) :=
  match o with Some [] => None | x => x end.
Definition effective_group_by (parent : list string) (own : option (list string)) : list string :=
  default parent own.

(* ---------- the coordinator ---------- *)
Section Coordinator.
  Context {C : Type}.

  Record cstate := CState {
    cs_config : option C;                 (* Coordinator.config *)
    cs_live : list (option C)             (* per subscriber: the configuration it last applied (what runs) *)
  }.

  (* notifySubscribers: in order, stop at the first error; a failing subscriber keeps what it had *)
  Fixpoint notify (subs : list (C -> bool)) (c : C) (live : list (option C)) : list (option C) * res unit :=
    match subs, live with
    | s :: ss, l :: ls =>
      if s c then let (ls', r) := notify ss c ls in (Some c :: ls', r)
      else (l :: ls, Err "subscriber")
    | _, _ => (live, Ok tt)
    end.

  (* Reload: loadFromFile assigns c.config only when LoadFile returned without error *)
  Definition reload (subs : list (C -> bool)) (st : cstate) (loaded : res C) : cstate * res unit :=
    match loaded with
    | Ok c => let (live', r) := notify subs c (cs_live st) in (CState (Some c) live', r)
    | Err e => (st, Err e)
    | Panic => (st, Panic)
    end.

  Fixpoint reloads (subs : list (C -> bool)) (st : cstate) (l : list (res C)) : cstate * list (res unit) :=
    match l with
    | [] => (st, [])
    | x :: t => let (st', r) := reload subs st x in
                let (st'', rs) := reloads subs st' t in (st'', r :: rs)
    end.
End Coordinator.
Arguments cstate C : clear implicits.
