(* Go's string <-> []rune conversions on byte lists (C20: notify/util.go TruncateInRunes / TruncateInBytes).
   Bytes and runes are Z. `to_runes` is `[]rune(s)` (runtime.stringtoslicerune = the `for range s` decoder =
   utf8.DecodeRuneInString applied repeatedly): an invalid or truncated sequence yields U+FFFD and consumes
   exactly ONE byte. `encode_rune` is utf8.AppendRune / `string(rune)`: surrogates and out-of-range values
   are written as U+FFFD (EF BF BD). Definitions only; proofs in Proofs/TruncateProofs.v. *)
From AM Require Export Base.Prelude.

Definition rune_error : Z := 65533. (* U+FFFD *)

(* continuation byte 80..BF *)
Definition cont (b : Z) : bool := (128 <=? b) && (b <=? 191).

(* accept range of the SECOND byte, by lead byte (unicode/utf8 acceptRanges): E0 -> A0..BF, ED -> 80..9F,
   F0 -> 90..BF, F4 -> 80..8F, otherwise 80..BF *)
Definition lo2 (b0 : Z) : Z := if b0 =? 224 then 160 else if b0 =? 240 then 144 else 128.
Definition hi2 (b0 : Z) : Z := if b0 =? 237 then 159 else if b0 =? 244 then 143 else 191.
Definition acc2 (b0 b1 : Z) : bool := (lo2 b0 <=? b1) && (b1 <=? hi2 b0).

Fixpoint to_runes (l : list Z) : list Z :=
  match l with
  | [] => []
  | b0 :: t =>
    if (0 <=? b0) && (b0 <? 128) then b0 :: to_runes t
    else if (194 <=? b0) && (b0 <=? 223) then
      match t with
      | b1 :: t1 =>
        if cont b1 then ((b0 - 192) * 64 + (b1 - 128)) :: to_runes t1 else rune_error :: to_runes t
      | [] => rune_error :: to_runes t
      end
    else if (224 <=? b0) && (b0 <=? 239) then
      match t with
      | b1 :: b2 :: t2 =>
        if acc2 b0 b1 && cont b2
        then ((b0 - 224) * 4096 + (b1 - 128) * 64 + (b2 - 128)) :: to_runes t2
        else rune_error :: to_runes t
      | _ => rune_error :: to_runes t
      end
    else if (240 <=? b0) && (b0 <=? 244) then
      match t with
      | b1 :: b2 :: b3 :: t3 =>
        if acc2 b0 b1 && cont b2 && cont b3
        then ((b0 - 240) * 262144 + (b1 - 128) * 4096 + (b2 - 128) * 64 + (b3 - 128)) :: to_runes t3
        else rune_error :: to_runes t
      | _ => rune_error :: to_runes t
      end
    else rune_error :: to_runes t (* 80..C1, F5..FF, or not a byte at all *)
  end.

(* a Unicode scalar value: what `string(rune)` writes as itself *)
Definition valid_rune (r : Z) : bool :=
  ((0 <=? r) && (r <? 55296)) || ((57343 <? r) && (r <=? 1114111)).

Definition encode_rune (r : Z) : list Z :=
  if (0 <=? r) && (r <? 128) then [r]
  else if (128 <=? r) && (r <? 2048) then [192 + r / 64; 128 + r mod 64]
  else if valid_rune r && (r <? 65536) then [224 + r / 4096; 128 + (r / 64) mod 64; 128 + r mod 64]
  else if valid_rune r then [240 + r / 262144; 128 + (r / 4096) mod 64; 128 + (r / 64) mod 64; 128 + r mod 64]
  else [239; 191; 189].

(* string(runes) *)
Definition of_runes (rs : list Z) : list Z := concat (map encode_rune rs).

(* len(s) in bytes, utf8.RuneCountInString(s) *)
Definition byte_len (s : list Z) : Z := Z.of_nat (length s).
Definition rune_len (s : list Z) : Z := Z.of_nat (length (to_runes s)).

(* Coq strings <-> byte lists (the case files carry strings) *)
Fixpoint bytes_of_string (s : string) : list Z :=
  match s with
  | EmptyString => []
  | String a r => Z.of_N (Ascii.N_of_ascii a) :: bytes_of_string r
  end.
Definition string_of_bytes (l : list Z) : string :=
  fold_right (fun b s => String (Ascii.ascii_of_N (Z.to_N b)) s) EmptyString l.
