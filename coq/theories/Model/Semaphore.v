(* Executable model of api/api.go limitHandler (no TimeoutHandler, i.e. Options.Timeout <= 0): a counter machine
   over request arrival / completion events.
     GET arrival : select { case inFlightSem <- struct{}{}: serve; default: concurrencyLimitExceeded.Inc(); 503 }
     completion  : the deferred <-inFlightSem of a GET that was admitted
     other methods: served, the semaphore is not touched.
   The channel of capacity c is modelled by the number of tokens in it.  Definitions only. *)
From AM Require Import Base.Prelude.

Inductive meth := GET | POST.
Global Instance meth_eq_dec : EqDecision meth. Proof. solve_decision. Defined.

Inductive ev :=
| Arrive (id : nat) (m : meth)     (* request id reaches the handler *)
| Complete (id : nat).             (* the wrapped handler of request id returns *)

Inductive verdict := Served | Refused503 | Done.
Global Instance verdict_eq_dec : EqDecision verdict. Proof. solve_decision. Defined.

Record sem := mkSem {
  tokens : nat;                 (* len(api.inFlightSem) *)
  holders : list nat;           (* ids of the GETs that hold a token (their deferred release is pending) *)
  exceeded : nat }.             (* alertmanager_http_concurrency_limit_exceeded_total *)

Definition sem0 : sem := mkSem O [] O.

Definition sem_step (c : nat) (s : sem) (e : ev) : sem * verdict :=
  match e with
  | Arrive id GET =>
      if (tokens s <? c)%nat
      then (mkSem (S (tokens s)) (id :: holders s) (exceeded s), Served)
      else (mkSem (tokens s) (holders s) (S (exceeded s)), Refused503)
  | Arrive id POST => (s, Served)
  | Complete id =>
      if bool_decide (id ∈ holders s)
      then (mkSem (pred (tokens s)) (filter (fun x => x ≠ id) (holders s)) (exceeded s), Done)
      else (s, Done)
  end.

Fixpoint sem_run (c : nat) (s : sem) (es : list ev) : sem * list verdict :=
  match es with
  | [] => (s, [])
  | e :: r => let '(s1, v) := sem_step c s e in let '(s2, vs) := sem_run c s1 r in (s2, v :: vs)
  end.
