(* The product of a PURE mute stage with the timed group model (Model/Group.v), generic in the muter:
     [M]        the muter's state (the inhibitor's rule caches; nothing for the time-interval stages),
     [mop]      its operations (alert updates reaching the inhibitor, its GC, its restart),
     [mstep]    one operation at an instant,
     [mverdict] state -> tick value -> now -> alert id -> muted?   (Inhibitor.Mutes reads the clock [now]; the time-interval
                stages read the tick value notify.Now(ctx); no state change).
   Glue as in notify.go: a flush hands its alerts to MuteStage(muter) at the flush's clock value, what the muter
   mutes never reaches the receiver stage. The suppressed set of a tick, a free parameter in Model/Group.v, is here
   COMPUTED from the muter's state; [other] is what the remaining mute stages drop. One clock for both components.
   (Model/Pipeline.v is the analogous product for the Silencer, whose Mutes also updates a cache.)  Definitions only. *)
From AM Require Import Base.Prelude Model.Group.

Section MutePipe.
Context {M mop : Type}.
Variable mstep : M -> Z -> mop -> M.
Variable mverdict : M -> Z -> Z -> Z -> bool.

Record mstate := mkMP {
  mp_m : M;
  mp_g : gstate;
  mp_flush : option (Z * Z * M) }.      (* history variable: tick value, instant and muter state of the latest flush *)

Inductive mev :=
| MOp (o : mop)
| MTick (tau : Z) (other : list Z)
| MGrp (e : ev).

Definition is_tick (e : ev) : bool := match e with ETick _ _ => true | _ => false end.

Definition flush_ids (g : gstate) (t : Z) : list Z :=
  match s_group g with
  | Some gr => map f_id (sort_f (map (freeze t) (gr_alerts gr)))
  | None => []
  end.

Definition mpstep (cfg : gcfg) (P : mstate) (t : Z) (e : mev) : option (mstate * list out) :=
  match e with
  | MOp o =>
      match step cfg (mp_g P) t EEnd with
      | Some (g', _) => Some (mkMP (mstep (mp_m P) t o) g' (mp_flush P), [])
      | None => None
      end
  | MTick tau other =>
      let sup := filter (fun a => mverdict (mp_m P) tau t a) (flush_ids (mp_g P) t) in
      match step cfg (mp_g P) t (ETick tau (sup ++ other)) with
      | Some (g', o) => Some (mkMP (mp_m P) g' (Some (tau, t, mp_m P)), o)
      | None => None
      end
  | MGrp e =>
      if is_tick e then None else
      match step cfg (mp_g P) t e with
      | Some (g', o) => Some (mkMP (mp_m P) g' (mp_flush P), o)
      | None => None
      end
  end.

Fixpoint mprun (cfg : gcfg) (P : mstate) (h : list (Z * mev)) : option (mstate * list out) :=
  match h with
  | [] => Some (P, [])
  | (t, e) :: r =>
      match mpstep cfg P t e with
      | Some (P1, o1) => match mprun cfg P1 r with Some (P2, o2) => Some (P2, o1 ++ o2) | None => None end
      | None => None
      end
  end.

Definition mpinit (cfg : gcfg) (m0 : M) (t0 : Z) : mstate := mkMP m0 (init cfg t0) None.

(* the muter's own history inside a product history *)
Fixpoint mview (h : list (Z * mev)) : list (Z * mop) :=
  match h with
  | [] => []
  | (t, MOp o) :: r => (t, o) :: mview r
  | _ :: r => mview r
  end.

Definition mfold (m : M) (l : list (Z * mop)) : M := foldl (fun m x => mstep m (fst x) (snd x)) m l.

(* the group's view: muter operations are clock advances, ticks carry the suppressed set the product computed *)
Fixpoint gview (cfg : gcfg) (P : mstate) (h : list (Z * mev)) : list (Z * ev) :=
  match h with
  | [] => []
  | (t, e) :: r =>
      let e' := match e with
                | MOp _ => EEnd
                | MTick tau other => ETick tau (filter (fun a => mverdict (mp_m P) tau t a) (flush_ids (mp_g P) t) ++ other)
                | MGrp e => e
                end in
      match mpstep cfg P t e with
      | Some (P1, _) => (t, e') :: gview cfg P1 r
      | None => []
      end
  end.

Fixpoint mono (t0 : Z) (l : list (Z * mop)) : Prop :=
  match l with [] => True | (t, _) :: r => t0 <= t /\ mono t r end.
Fixpoint mlast (t0 : Z) (l : list (Z * mop)) : Z :=
  match l with [] => t0 | (t, _) :: r => mlast t r end.

End MutePipe.
