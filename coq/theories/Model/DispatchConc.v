(* Executable interleaving model of the dispatcher's concurrent ingestion (dispatch/dispatch.go).
   Definitions only (no proofs).

   PART 1 — ingestion sub-machine (C14): Dispatcher.run starts W = min(max(GOMAXPROCS/2,2),8) goroutines that all
   receive from ONE subscription channel (filled by provider/mem Put in submission order) and call routeAlert ->
   groupAlert -> aggrGroup.insert -> store.Alerts.SetIfNotOlder (before fix d822580: store.Alerts.Set).
   A worker has two atomic steps: Recv (dequeue the head of the FIFO into its private slot) and Insert (route the
   held alert and set it into every group it routes to). A schedule is a list of worker ids; an id that is not a
   worker, or a Recv on an empty queue, is a no-op.

   An alert version is identified by its fingerprint (u_fp, injective stand-in for model.Fingerprint) and carries
   UpdatedAt / StartsAt / EndsAt (Z nanoseconds) and a tag standing for the rest of its content (annotations).
   Routing (Route.Match + getGroupLabels) is the parameter rt : fingerprint -> group ids; the theorems hold for
   every rt. Group creation (LoadOrStore/CAS) is PART 2; here a group is just its alert map.

   PART 2 — group-map machine (C06, concurrent half): see the second half of this file. *)
From AM Require Import Base.Prelude.

Record upd := mkUpd { u_fp : Z; u_uat : Z; u_starts : Z; u_ends : Z; u_tag : Z }.
Global Instance upd_eq_dec : EqDecision upd. Proof. solve_decision. Defined.

(* store.Alerts.Set (Unconditional: the code before the fix, kept for the regression theorem) and
   store.Alerts.SetIfNotOlder (KeepNewer: what aggrGroup.insert calls now):
     if old, ok := a.alerts[fp]; ok && alert.UpdatedAt.Before(old.UpdatedAt) { return nil }; a.alerts[fp] = alert *)
Inductive setmode := Unconditional | KeepNewer.

Notation astore := (gmap Z upd) (only parsing).
Notation gstore := (gmap Z (gmap Z upd)) (only parsing).

Definition pick (m : setmode) (old : option upd) (a : upd) : upd :=
  match m, old with
  | KeepNewer, Some o => if u_uat a <? u_uat o then o else a
  | _, _ => a
  end.

Definition store_set (m : setmode) (s : astore) (a : upd) : astore :=
  <[u_fp a := pick m (s !! u_fp a) a]> s.

(* what group gid holds for fingerprint f *)
Definition glook (g : gstore) (gid f : Z) : option upd := g !! gid ≫= (fun s : astore => s !! f).

Definition ins1 (m : setmode) (g : gstore) (a : upd) (gid : Z) : gstore :=
  <[gid := store_set m (default ∅ (g !! gid)) a]> g.

(* routeAlert: for every matching route, groupAlert inserts into that route's group *)
Definition ins_all (m : setmode) (rt : Z -> list Z) (g : gstore) (a : upd) : gstore :=
  foldl (fun g gid => ins1 m g a gid) g (rt (u_fp a)).

Record ist := mkIst { i_q : list upd; i_slots : gmap nat upd; i_groups : gstore }.

Definition i_init (ups : list upd) : ist := mkIst ups ∅ ∅.

Definition i_step (m : setmode) (W : nat) (rt : Z -> list Z) (s : ist) (w : nat) : ist :=
  if negb (w <? W)%nat then s else
  match i_slots s !! w with
  | Some a => mkIst (i_q s) (delete w (i_slots s)) (ins_all m rt (i_groups s) a)         (* Insert *)
  | None =>
      match i_q s with
      | [] => s
      | a :: q => mkIst q (<[w := a]> (i_slots s)) (i_groups s)                           (* Recv *)
      end
  end.

Definition i_exec (m : setmode) (W : nat) (rt : Z -> list Z) (sched : list nat) (s : ist) : ist :=
  foldl (i_step m W rt) s sched.

(* the queue drained and every worker inserted what it held *)
Definition i_drained (s : ist) : bool :=
  bool_decide (i_q s = []) && bool_decide (map_to_list (i_slots s) = []).

(* the last submitted version of fingerprint f *)
Fixpoint last_of (f : Z) (l : list upd) : option upd :=
  match l with
  | [] => None
  | x :: r => match last_of f r with
              | Some y => Some y
              | None => if bool_decide (u_fp x = f) then Some x else None
              end
  end.

(* UpdatedAt strictly increases along the submission order, per fingerprint (the API stamps UpdatedAt = now) *)
Fixpoint sorted_fp (l : list upd) : bool :=
  match l with
  | [] => true
  | a :: r => forallb (fun b => negb (bool_decide (u_fp b = u_fp a)) || (u_uat a <? u_uat b)) r && sorted_fp r
  end.

(* resolved at instant now: 0 < EndsAt <= now (Alert.ResolvedAt) *)
Definition resolved_at (now : Z) (a : upd) : bool := (0 <? u_ends a) && (u_ends a <=? now).
