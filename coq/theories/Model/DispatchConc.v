(* Executable interleaving model of the dispatcher's concurrent ingestion (dispatch/dispatch.go).
   Definitions only (no proofs).

   PART 1 — ingestion sub-machine (C14): Dispatcher.run starts W = min(max(GOMAXPROCS/2,2),8) goroutines that all
   receive from ONE subscription channel (filled by provider/mem Put in submission order) and call routeAlert ->
   groupAlert -> aggrGroup.insert -> store.Alerts.SetIfNotOlder (before fix dd37f22: store.Alerts.Set).
   A worker has two atomic steps: Recv (dequeue the head of the FIFO into its private slot) and Insert (route the
   held alert and set it into every group it routes to). A schedule is a list of worker ids; an id that is not a
   worker, or a Recv on an empty queue, is a no-op.

   An alert version is identified by its fingerprint (u_fp, injective stand-in for model.Fingerprint) and carries
   UpdatedAt / StartsAt / EndsAt (Z nanoseconds) and a tag standing for the rest of its content (annotations).
   Routing (Route.Match + getGroupLabels) is the parameter rt : fingerprint -> group ids; the theorems hold for
   every rt. Group creation (LoadOrStore/CAS) is PART 2; here a group is just its alert map.

   PART 2 — group-map machine (C06, concurrent half): see the second half of this file. *)
From AM Require Import Base.Prelude.

Record upd := mkUpd { u_fp : Z; u_uat : Z; u_starts : Z; u_ends : Z; u_tag : Z }.
Global Instance upd_eq_dec : EqDecision upd. Proof. solve_decision. Defined.

(* store.Alerts.Set (Unconditional: the code before the fix, kept for the regression theorem) and
   store.Alerts.SetIfNotOlder (KeepNewer: what aggrGroup.insert calls now):
     if old, ok := a.alerts[fp]; ok && alert.UpdatedAt.Before(old.UpdatedAt) { return nil }; a.alerts[fp] = alert *)
Inductive setmode := Unconditional | KeepNewer.

Notation astore := (gmap Z upd) (only parsing).
Notation gstore := (gmap Z (gmap Z upd)) (only parsing).

Definition pick (m : setmode) (old : option upd) (a : upd) : upd :=
  match m, old with
  | KeepNewer, Some o => if u_uat a <? u_uat o then o else a
  | _, _ => a
  end.

Definition store_set (m : setmode) (s : astore) (a : upd) : astore :=
  <[u_fp a := pick m (s !! u_fp a) a]> s.

(* what group gid holds for fingerprint f *)
Definition glook (g : gstore) (gid f : Z) : option upd := g !! gid ≫= (fun s : astore => s !! f).

Definition ins1 (m : setmode) (g : gstore) (a : upd) (gid : Z) : gstore :=
  <[gid := store_set m (default ∅ (g !! gid)) a]> g.

(* routeAlert: for every matching route, groupAlert inserts into that route's group *)
Definition ins_all (m : setmode) (rt : Z -> list Z) (g : gstore) (a : upd) : gstore :=
  foldl (fun g gid => ins1 m g a gid) g (rt (u_fp a)).

Record ist := mkIst { i_q : list upd; i_slots : gmap nat upd; i_groups : gstore }.

Definition i_init (ups : list upd) : ist := mkIst ups ∅ ∅.

Definition i_step (m : setmode) (W : nat) (rt : Z -> list Z) (s : ist) (w : nat) : ist :=
  if negb (w <? W)%nat then s else
  match i_slots s !! w with
  | Some a => mkIst (i_q s) (delete w (i_slots s)) (ins_all m rt (i_groups s) a)         (* Insert *)
  | None =>
      match i_q s with
      | [] => s
      | a :: q => mkIst q (<[w := a]> (i_slots s)) (i_groups s)                           (* Recv *)
      end
  end.

Definition i_exec (m : setmode) (W : nat) (rt : Z -> list Z) (sched : list nat) (s : ist) : ist :=
  foldl (i_step m W rt) s sched.

(* the queue drained and every worker inserted what it held *)
Definition i_drained (s : ist) : bool :=
  bool_decide (i_q s = []) && bool_decide (map_to_list (i_slots s) = []).

(* the last submitted version of fingerprint f *)
Fixpoint last_of (f : Z) (l : list upd) : option upd :=
  match l with
  | [] => None
  | x :: r => match last_of f r with
              | Some y => Some y
              | None => if bool_decide (u_fp x = f) then Some x else None
              end
  end.

(* UpdatedAt strictly increases along the submission order, per fingerprint (the API stamps UpdatedAt = now) *)
Fixpoint sorted_fp (l : list upd) : bool :=
  match l with
  | [] => true
  | a :: r => forallb (fun b => negb (bool_decide (u_fp b = u_fp a)) || (u_uat a <? u_uat b)) r && sorted_fp r
  end.

(* resolved at instant now: 0 < EndsAt <= now (Alert.ResolvedAt) *)
Definition resolved_at (now : Z) (a : upd) : bool := (0 <? u_ends a) && (u_ends a <=? now).

(* ====================================================================================================
   PART 2 — the group-map machine (concurrent half of C06).

   Shared state: per route a sync.Map groupFingerprint -> *aggrGroup (c_map, keyed by (route, group fingerprint));
   the aggrGroup objects (c_heap: group id = allocation index; per group the alert map, the store's destroyed
   flag, whether its context was cancelled, and the state of its run() goroutine g_fpc — FNotStarted means
   running=false); aggrGroupsNum (c_num); the FIFO of published alerts (c_q).
   g_pub is a ghost flag: the object has been stored in the map at some point.
   Threads: W ingestion workers (c_workers), the maintenance goroutine (c_maint), one run()/flush goroutine per
   group (g_fpc). Every constructor of wpc / mpc / fpc is "about to execute this call of a sync primitive"; one
   schedule element executes exactly one such call plus the thread-local computation up to the next one.
   Sequential consistency of sync.Map, sync.Mutex and atomics is assumed. sync.Map.Range is over-approximated:
   the maintenance thread may visit ANY key at ANY time (the schedule names the key), which includes every
   behaviour Range allows. Not modelled: Dispatcher.Stop, the start timer (the dispatcher is Running), the marker,
   store errors other than ErrDestroyed, `el == nil` after LoadOrStore (impossible: only non-nil groups are stored). *)
Notation gkey := (Z * Z)%type (only parsing).

Inductive fpc := FNotStarted | FWait | FNotified (resolved : list upd) | FExited.

Record grp := mkGrp {
  g_key : gkey; g_alerts : gmap Z upd; g_destroyed : bool; g_cancelled : bool; g_pub : bool; g_fpc : fpc }.

Inductive wpc :=
| PLoad                                             (* el, loaded := groups.Load(fp) *)
| PInsertLoaded (el : nat)                          (* el.insert(alert) *)
| PLimit (el : option nat)                          (* aggrGroupsNum.Load() against the limit *)
| PNew (el : option nat)                            (* newAggrGroup + first insert into the private group *)
| PCas (el ag : nat) (retries : nat)                (* groups.CompareAndSwap(fp, el, ag) *)
| PCancelOld (el ag : nat)                          (* el.cancel() after a successful swap *)
| PLoadOrStore (ag : nat) (retries : nat)           (* groups.LoadOrStore(fp, ag) *)
| PCount (ag : nat)                                 (* groupsLen.Add(1); aggrGroupsNum.Add(1) *)
| PInsertExisting (el ag : nat) (retries : nat)     (* agExisting.insert(alert) *)
| PRun (ag : nat).                                  (* runAG: ag.running.CompareAndSwap(false, true); go ag.run *)

Inductive wst := WIdle | WBusy (a : upd) (k : gkey) (rest : list gkey) (pc : wpc).

Inductive mpc := MIdle | MCheck (g : nat) | MStop (g : nat) | MDelete (g : nat) | MCount (g : nat).

(* how a groupAlert call ended *)
Inductive outcome :=
| ODone (a : upd) (k : gkey) (g : nat)      (* inserted into group g (existing), or g published holding it (new) *)
| OLimited (a : upd) (k : gkey)             (* aggrGroupLimitReached.Inc(); return *)
| OGaveUp (a : upd) (k : gkey).             (* retries > 100: aggrGroupCreationGivenUp.Inc(); return *)

Record cst := mkCst {
  c_q : list upd; c_map : gmap gkey nat; c_heap : gmap nat grp; c_next : nat; c_num : Z;
  c_workers : gmap nat wst; c_maint : mpc; c_log : list outcome; c_limited : nat; c_givenup : nat }.

Definition c_init (ups : list upd) : cst := mkCst ups ∅ ∅ 0%nat 0 ∅ MIdle [] 0%nat 0%nat.

Definition maxretry : nat := 100.

Definition set_worker (w : nat) (st : wst) (s : cst) : cst :=
  mkCst (c_q s) (c_map s) (c_heap s) (c_next s) (c_num s) (<[w := st]> (c_workers s)) (c_maint s) (c_log s)
        (c_limited s) (c_givenup s).
Definition set_q (q : list upd) (s : cst) : cst :=
  mkCst q (c_map s) (c_heap s) (c_next s) (c_num s) (c_workers s) (c_maint s) (c_log s) (c_limited s) (c_givenup s).
Definition set_map (m : gmap gkey nat) (s : cst) : cst :=
  mkCst (c_q s) m (c_heap s) (c_next s) (c_num s) (c_workers s) (c_maint s) (c_log s) (c_limited s) (c_givenup s).
Definition set_grp (g : nat) (G : grp) (s : cst) : cst :=
  mkCst (c_q s) (c_map s) (<[g := G]> (c_heap s)) (c_next s) (c_num s) (c_workers s) (c_maint s) (c_log s)
        (c_limited s) (c_givenup s).
Definition set_next (n : nat) (s : cst) : cst :=
  mkCst (c_q s) (c_map s) (c_heap s) n (c_num s) (c_workers s) (c_maint s) (c_log s) (c_limited s) (c_givenup s).
Definition set_num (n : Z) (s : cst) : cst :=
  mkCst (c_q s) (c_map s) (c_heap s) (c_next s) n (c_workers s) (c_maint s) (c_log s) (c_limited s) (c_givenup s).
Definition set_maint (p : mpc) (s : cst) : cst :=
  mkCst (c_q s) (c_map s) (c_heap s) (c_next s) (c_num s) (c_workers s) p (c_log s) (c_limited s) (c_givenup s).
Definition add_log (o : outcome) (s : cst) : cst :=
  mkCst (c_q s) (c_map s) (c_heap s) (c_next s) (c_num s) (c_workers s) (c_maint s) (o :: c_log s)
        (match o with OLimited _ _ => S (c_limited s) | _ => c_limited s end)
        (match o with OGaveUp _ _ => S (c_givenup s) | _ => c_givenup s end).

Definition with_alerts (G : grp) (m : gmap Z upd) : grp :=
  mkGrp (g_key G) m (g_destroyed G) (g_cancelled G) (g_pub G) (g_fpc G).
Definition with_cancelled (G : grp) : grp :=
  mkGrp (g_key G) (g_alerts G) (g_destroyed G) true (g_pub G) (g_fpc G).
Definition with_pub (G : grp) : grp :=
  mkGrp (g_key G) (g_alerts G) (g_destroyed G) (g_cancelled G) true (g_fpc G).
Definition with_fpc (G : grp) (p : fpc) : grp :=
  mkGrp (g_key G) (g_alerts G) (g_destroyed G) (g_cancelled G) (g_pub G) p.

(* aggrGroup.insert: false iff the store is destroyed *)
Definition try_insert (G : grp) (a : upd) : option grp :=
  if g_destroyed G then None else Some (with_alerts G (store_set KeepNewer (g_alerts G) a)).

(* the worker proceeds to the next matching route, or goes back to the channel *)
Definition w_next (a : upd) (rest : list gkey) : wst :=
  match rest with [] => WIdle | k :: r => WBusy a k r PLoad end.

Definition publish (k : gkey) (ag : nat) (s : cst) : cst :=
  let s1 := set_map (<[k := ag]> (c_map s)) s in
  match c_heap s !! ag with Some G => set_grp ag (with_pub G) s1 | None => s1 end.

Definition w_step (rt : Z -> list gkey) (limit : Z) (w : nat) (s : cst) : cst :=
  match default WIdle (c_workers s !! w) with
  | WIdle =>
      match c_q s with
      | [] => s
      | a :: q => set_worker w (w_next a (rt (u_fp a))) (set_q q s)
      end
  | WBusy a k rest pc =>
      let goto pc' s' := set_worker w (WBusy a k rest pc') s' in
      let finish o s' := set_worker w (w_next a rest) (add_log o s') in
      let retry r cont s' := if (maxretry <? S r)%nat then finish (OGaveUp a k) s' else goto (cont (S r)) s' in
      match pc with
      | PLoad =>
          match c_map s !! k with
          | Some el => goto (PInsertLoaded el) s
          | None => goto (PLimit None) s
          end
      | PInsertLoaded el =>
          match c_heap s !! el with
          | None => s
          | Some G => match try_insert G a with
                      | Some G' => finish (ODone a k el) (set_grp el G' s)
                      | None => goto (PLimit (Some el)) s
                      end
          end
      | PLimit o =>
          if (0 <? limit) && (limit <=? c_num s) then finish (OLimited a k) s else goto (PNew o) s
      | PNew o =>
          let ag := c_next s in
          let G := mkGrp k {[u_fp a := a]} false false false FNotStarted in
          goto (match o with Some el => PCas el ag 0 | None => PLoadOrStore ag 0 end)
               (set_next (S ag) (set_grp ag G s))
      | PCas el ag r =>
          if bool_decide (c_map s !! k = Some el)
          then goto (PCancelOld el ag) (add_log (ODone a k ag) (publish k ag s))
          else retry r (PLoadOrStore ag) s
      | PCancelOld el ag =>
          match c_heap s !! el with
          | Some G => goto (PRun ag) (set_grp el (with_cancelled G) s)
          | None => goto (PRun ag) s
          end
      | PLoadOrStore ag r =>
          match c_map s !! k with
          | None => goto (PCount ag) (add_log (ODone a k ag) (publish k ag s))
          | Some el => goto (PInsertExisting el ag r) s
          end
      | PCount ag => goto (PRun ag) (set_num (c_num s + 1) s)
      | PInsertExisting el ag r =>
          match c_heap s !! el with
          | None => s
          | Some G => match try_insert G a with
                      | Some G' => finish (ODone a k el) (set_grp el G' s)
                      | None => retry r (PCas el ag) s
                      end
          end
      | PRun ag =>
          match c_heap s !! ag with
          | Some G => set_worker w (w_next a rest)
                        (match g_fpc G with FNotStarted => set_grp ag (with_fpc G FWait) s | _ => s end)
          | None => set_worker w (w_next a rest) s
          end
      end
  end.

(* doMaintenance; k is the key the Range callback is invoked for (only used in MIdle) *)
Definition m_step (k : gkey) (s : cst) : cst :=
  match c_maint s with
  | MIdle => match c_map s !! k with Some g => set_maint (MCheck g) s | None => s end
  | MCheck g =>
      match c_heap s !! g with
      | Some G => if g_destroyed G then set_maint (MStop g) s else set_maint MIdle s
      | None => set_maint MIdle s
      end
  | MStop g =>                                        (* ag.stop(): cancel(); <-ag.done *)
      match c_heap s !! g with
      | Some G =>
          let s' := set_grp g (with_cancelled G) s in
          match g_fpc G with FExited => set_maint (MDelete g) s' | _ => s' end
      | None => set_maint MIdle s
      end
  | MDelete g =>                                      (* groups.CompareAndDelete(ag.fingerprint(), ag) *)
      match c_heap s !! g with
      | Some G => if bool_decide (c_map s !! g_key G = Some g)
                  then set_maint (MCount g) (set_map (delete (g_key G) (c_map s)) s)
                  else set_maint MIdle s
      | None => set_maint MIdle s
      end
  | MCount g => set_maint MIdle (set_num (c_num s - 1) s)
  end.

(* store.DeleteIfNotModified(resolved, destroyIfEmpty=true) *)
Definition del_if_not_modified (m : gmap Z upd) (r : upd) : gmap Z upd :=
  match m !! u_fp r with
  | Some o => if u_uat o =? u_uat r then delete (u_fp r) m else m
  | None => m
  end.

(* the run() goroutine of group g: a timer tick at instant now; ok = the notify pipeline succeeded *)
Definition f_step (g : nat) (now : Z) (ok : bool) (s : cst) : cst :=
  match c_heap s !! g with
  | None => s
  | Some G =>
      match g_fpc G with
      | FWait =>
          if g_cancelled G then set_grp g (with_fpc G FExited) s
          else if bool_decide (map_to_list (g_alerts G) = []) then s
          else set_grp g (with_fpc G (FNotified (filter (fun a => resolved_at now a = true) (map_to_list (g_alerts G)).*2))) s
      | FNotified res =>
          if ok then
            let m := foldl del_if_not_modified (g_alerts G) res in
            let d := bool_decide (map_to_list m = []) in
            set_grp g (mkGrp (g_key G) m (g_destroyed G || d) (g_cancelled G) (g_pub G)
                             (if g_destroyed G || d then FExited else FWait)) s
          else set_grp g (with_fpc G FWait) s
      | _ => s
      end
  end.

Inductive tid := TW (w : nat) | TM (k : gkey) | TF (g : nat) (now : Z) (ok : bool).

Definition c_step (W : nat) (rt : Z -> list gkey) (limit : Z) (s : cst) (t : tid) : cst :=
  match t with
  | TW w => if (w <? W)%nat then w_step rt limit w s else s
  | TM k => m_step k s
  | TF g now ok => f_step g now ok s
  end.

Definition c_exec (W : nat) (rt : Z -> list gkey) (limit : Z) (sched : list tid) (s : cst) : cst :=
  foldl (c_step W rt limit) s sched.

(* a group that was published and whose store is not destroyed *)
Definition live (G : grp) : bool := g_pub G && negb (g_destroyed G).
