(* Executable model of nflog/nflog.go: state.merge, Log.Log, Log.Merge, Log.GC, Log.Query, snapshot reload.
   Definitions only (no proofs) so the model still runs when a proof breaks.

   Time: Z nanoseconds since the Unix epoch on the instance's clock.
   Key : stateKey(gkey, r) = gkey ++ ":" ++ receiverKey(r), receiverKey = "group/integration/idx"
         (the harness passes receiverKey as one string).
   Go map iteration order in Merge is irrelevant because a decoded batch has unique keys
   (proved in Proofs/NflogProofs.v: merge_batch_perm). *)
From AM Require Import Base.Prelude Gen.Consts.

Inductive rdv := RStr (s : string) | RInt (z : Z) | RDbl (bits : Z).
Global Instance rdv_eq_dec : EqDecision rdv. Proof. solve_decision. Defined.

Record entry := mkEntry {
  e_gkey : string; e_recv : string; e_ts : Z; e_exp : Z;
  e_firing : list Z; e_resolved : list Z; e_data : list (string * rdv) }.
Global Instance entry_eq_dec : EqDecision entry. Proof. solve_decision. Defined.

Notation st := (gmap string entry) (only parsing).

Definition skey_of (gkey recv : string) : string := gkey +:+ ":" +:+ recv.
Definition skey (e : entry) : string := skey_of (e_gkey e) (e_recv e).

(* state.merge *)
Definition merge1 (now : Z) (s : st) (e : entry) : st * bool :=
  if e_exp e <? now then (s, false) else
  match s !! skey e with
  | Some p => if e_ts p <? e_ts e then (<[skey e := e]> s, true) else (s, false)
  | None => (<[skey e := e]> s, true)
  end.

(* decodeState: a record without Entry/Receiver makes the whole batch invalid; a later record
   with the same key replaces an earlier one. *)
Fixpoint decode_batch (b : list (option entry)) (acc : st) : option st :=
  match b with
  | [] => Some acc
  | None :: _ => None
  | Some e :: r => decode_batch r (<[skey e := e]> acc)
  end.

Definition merge_list (now : Z) (s : st) (es : list entry) : st * nat :=
  foldl (fun '(s, n) e => let '(s', m) := merge1 now s e in (s', if m then S n else n)) (s, O) es.

Definition oversized (blen : Z) : bool := MaxGossipPacketSize / 2 <? blen.

Inductive op :=
| OLog (recv gkey : string) (firing resolved : list Z) (data : list (string * rdv)) (expiry : Z)
| OMerge (batch : list (option entry)) (blen : Z)
| OGC
| OQuery (recv gkey : string)
| OReload.

Inductive out :=
| RLogged (bcast : entry)      (* Log stored-or-kept and broadcast this entry *)
| RLogSkipped                  (* Log returned early: stored entry is from the future *)
| RMerged (nbroadcast : nat)
| RMergeErr
| RGC (n : nat)
| RFound (e : entry)
| RNotFound
| RReloaded.
Global Instance out_eq_dec : EqDecision out. Proof. solve_decision. Defined.

Definition log_expiry (ret now expiry : Z) : Z :=
  if (0 <? expiry) && (expiry <? ret) then now + expiry else now + ret.

Definition step (ret : Z) (s : st) (now : Z) (o : op) : st * out :=
  match o with
  | OLog recv gkey firing resolved data expiry =>
      let future := match s !! skey_of gkey recv with Some p => now <? e_ts p | None => false end in
      if future then (s, RLogSkipped) else
      let e := mkEntry gkey recv now (log_expiry ret now expiry) firing resolved data in
      (fst (merge1 now s e), RLogged e)
  | OMerge batch blen =>
      match decode_batch batch ∅ with
      | None => (s, RMergeErr)
      | Some m =>
          let '(s', n) := merge_list now s (map snd (map_to_list m)) in
          (s', RMerged (if oversized blen then O else n))
      end
  | OGC =>
      let dead := filter (fun kv => e_exp (snd kv) <=? now) (map_to_list s) in
      (filter (fun kv => now <? e_exp (snd kv)) s, RGC (length dead))
  | OQuery recv gkey =>
      (s, match s !! skey_of gkey recv with Some e => RFound e | None => RNotFound end)
  | OReload => (s, RReloaded)
  end.

(* a history: instants with operations *)
Fixpoint run (ret : Z) (s : st) (h : list (Z * op)) : st * list out :=
  match h with
  | [] => (s, [])
  | (now, o) :: r => let '(s1, x) := step ret s now o in let '(s2, xs) := run ret s1 r in (s2, x :: xs)
  end.

Definition run_state (ret : Z) (s : st) (h : list (Z * op)) : st := fst (run ret s h).
