(* notify/retry_stage.go RetryStage.exec and the per-receiver pipeline of notify/notify.go createReceiverStage
   (FanoutStage of MultiStage{Wait, Dedup, Retry, SetNotifies}) — C20 clauses "retry policy" and
   "record-after-success / sibling isolation". Definitions only.

   The backoff ticker (backoff/v5: first tick at once, then growing jittered intervals, never stops) is an
   ORACLE INPUT: `ticks` is the list of instants at which the stage's select received a tick. The harness passes
   the instants at which the scripted notifier was really called. A finite list means: no further tick arrives
   before the context is done. *)
From AM Require Export Base.Prelude Model.TemplateData.

(* what one call of Notifier.Notify does *)
Inductive outcome :=
| OOk                     (* (_, nil) *)
| ORecov                  (* (true, err) *)
| OUnrecov                (* (false, err) *)
| OHang (retry : bool).   (* blocks until ctx.Done(), then (retry, err wrapping ctx.Err()) *)
Global Instance outcome_eq_dec : EqDecision outcome.
Proof. solve_decision. Defined.

(* how the loop ended *)
Inductive fin :=
| FOk (at_ : Z)                              (* Notify succeeded *)
| FUnrecov (at_ : Z)                         (* "unrecoverable error after i attempts" *)
| FCanceled (at_ : Z) (last : option nat).   (* "notify retry canceled after i attempts": wraps the last
                                                recoverable error seen while the context was live (1-based
                                                attempt number), or the context's own error *)
Global Instance fin_eq_dec : EqDecision fin.
Proof. solve_decision. Defined.

(* the for-loop of exec. dl = instant at which ctx.Done() closes; now = instant of this iteration;
   i = attempts so far; ierr = iErr. "Always check the context first", then wait for a tick or Done.
   An attempt may start at an instant EQUAL to dl (select picks randomly between a ready tick and a ready
   Done; DESIGN I12), never after it. *)
Fixpoint retry_loop (dl : Z) (ticks : list Z) (script : list outcome) (now : Z) (i : nat) (ierr : option nat)
  : list (Z * outcome) * fin :=
  if dl <=? now then ([], FCanceled now ierr) else
  match ticks with
  | [] => ([], FCanceled dl ierr)
  | t :: ticks' =>
    let a := Z.max t now in
    if dl <? a then ([], FCanceled dl ierr) else
    let o := hd ORecov script in
    match o with
    | OOk => ([(a, o)], FOk a)
    | OUnrecov => ([(a, o)], FUnrecov a)
    | OHang false => ([(a, o)], FUnrecov dl)
    | OHang true => ([(a, o)], FCanceled dl ierr)   (* ctx.Err() != nil: iErr is not updated *)
    | ORecov =>
      let '(l, f) := retry_loop dl ticks' (tl script) a (S i) (if a <? dl then Some (S i) else ierr) in
      ((a, o) :: l, f)
    end
  end.

Inductive rerr :=
| EUnrecov                      (* wraps the error of the last attempt, which said "do not retry" *)
| ECanceled (last : option nat) (* wraps attempt `last`'s recoverable error, or the context error (None) *)
| EFiringMissing.               (* "firing alerts missing" *)
Global Instance rerr_eq_dec : EqDecision rerr.
Proof. solve_decision. Defined.

Record retry_result := mkRR {
  r_attempts : list (Z * outcome);   (* instant and outcome of every Notify call *)
  r_sent : list alert;               (* the alerts handed to every Notify call *)
  r_err : option rerr;
  r_out : list alert;                (* alerts returned to the next stage (nil with a context error) *)
  r_end : Z }.                       (* instant at which the stage returns *)

Definition fin_err (f : fin) : option rerr :=
  match f with FOk _ => None | FUnrecov _ => Some EUnrecov | FCanceled _ l => Some (ECanceled l) end.
Definition fin_at (f : fin) : Z := match f with FOk a | FUnrecov a | FCanceled a _ => a end.
Definition fin_out (f : fin) (alerts : list alert) : list alert :=
  match f with FCanceled _ _ => [] | _ => alerts end.

(* exec: send_resolved flag, the firing set DedupStage left in the context (its size, None = missing), the
   batch, the start instant, the context-done instant, ticks, script *)
Definition retry_exec (send_resolved : bool) (firing_ctx : option nat) (alerts : list alert)
    (start dl : Z) (ticks : list Z) (script : list outcome) : retry_result :=
  let go (sent : list alert) :=
    let '(l, f) := retry_loop dl ticks script start 0 None in
    mkRR l sent (fin_err f) (fin_out f alerts) (fin_at f) in
  if send_resolved then go alerts
  else match firing_ctx with
       | None => mkRR [] [] (Some EFiringMissing) [] start
       | Some O => mkRR [] [] None alerts start        (* only resolved alerts: report them as notified *)
       | Some _ => go (filter (fun a => firing_at start a) alerts)
       end.

(* ---------- the receiver pipeline: independent per-integration chains ---------- *)

(* events of one flush, per integration index *)
Inductive event :=
| EvNotify (i : nat) (at_ : Z) (o : outcome)
| EvLog (i : nat) (at_ : Z).
Global Instance event_eq_dec : EqDecision event.
Proof. solve_decision. Defined.

Record integ := mkInteg {
  g_send_resolved : bool;
  g_needs_update : bool;         (* DedupStage's verdict for this integration (C04's subject; an input here) *)
  g_ticks : list Z;
  g_script : list outcome;
  g_log_ok : bool }.             (* nflog.Log succeeds *)

Record chain_result := mkCR { c_events : list event; c_failed : bool; c_retry : option retry_result }.

(* MultiStage{WaitStage (zero wait), DedupStage, RetryStage, SetNotifiesStage} for integration i.
   firing = number of firing alerts of the batch at the flush instant (what Dedup puts in the context).
   MultiStage stops silently when a stage returns no alerts (Dedup says "nothing to do"), and with the error
   when a stage fails. *)
Definition chain (i : nat) (g : integ) (alerts : list alert) (start dl : Z) : chain_result :=
  match alerts with
  | [] => mkCR [] false None
  | _ =>
    if negb (g_needs_update g) then mkCR [] false None else
    let firing := length (filter (fun a => firing_at start a) alerts) in
    let r := retry_exec (g_send_resolved g) (Some firing) alerts start dl (g_ticks g) (g_script g) in
    let evs := map (fun '(t, o) => EvNotify i t o) (r_attempts r) in
    match r_err r with
    | Some _ => mkCR evs true (Some r)
    | None =>
      match r_out r with
      | [] => mkCR evs false (Some r)
      | _ => mkCR (evs ++ [EvLog i (r_end r)]) (negb (g_log_ok g)) (Some r)
      end
    end
  end.

(* FanoutStage: every chain runs (concurrently; they share nothing but the log, keyed by integration), the
   errors are joined *)
Fixpoint fanout_from (i : nat) (gs : list integ) (alerts : list alert) (start dl : Z) : list chain_result :=
  match gs with
  | [] => []
  | g :: r => chain i g alerts start dl :: fanout_from (S i) r alerts start dl
  end.
Definition fanout (gs : list integ) (alerts : list alert) (start dl : Z) : list chain_result :=
  fanout_from 0 gs alerts start dl.
Definition fanout_failed (rs : list chain_result) : bool := existsb c_failed rs.
