(* Executable model of the validation that config.Load performs on a DECODED configuration
   (config/config.go: Load, Config.UnmarshalYAML, Route.UnmarshalYAML, Receiver.UnmarshalYAML,
   MuteTimeInterval/TimeInterval.UnmarshalYAML, checkReceiver, checkTimeInterval; config/notifiers.go:
   SlackConfig.UnmarshalYAML), in the order in which yaml.v2 and the code run the checks.

   What "decoded" means here: the YAML text has been parsed and every scalar converted (durations, URLs,
   matchers); list items that were written `null`/`~`/empty are None (yaml.v2 does not call UnmarshalYAML for a
   null node: a pointer item becomes nil, a struct item stays the zero value). Errors raised by that decoding
   itself (syntax, unknown fields, bad durations/URLs/matchers, per-integration body checks of the 17 kinds
   other than slack) are outside this model; the harness checks only their outcome class.

   A Go panic (nil dereference) is the outcome Panic, a returned error is Err <kind>.
   Definitions only; proofs are in Proofs/ConfigProofs.v. *)
From AM Require Import Base.Prelude.

(* ---------- error kinds (the harness maps error messages to these; message texts are never compared) ------- *)
Definition E_NO_ROUTE        := "no-route".               (* Load: "no route provided in config" / "no routes provided" *)
Definition E_ROOT_CONTINUE   := "root-continue".
Definition E_ROUTE_NULL      := "route-null-item".        (* added by the fix of F4 *)
Definition E_LABEL           := "invalid-label-name".
Definition E_GROUPBY_MIX     := "group-by-mix".
Definition E_GROUPBY_DUP     := "group-by-dup".
Definition E_GI_ZERO         := "group-interval-zero".
Definition E_RI_ZERO         := "repeat-interval-zero".
Definition E_RECV_NONAME     := "receiver-missing-name".
Definition E_RECV_LABEL      := "receiver-label-name-mismatch".
Definition E_RECV_DUP        := "receiver-name-dup".
Definition E_INT_NULL        := "integration-null-item".  (* "missing <kind> config" *)
Definition E_INT_SETTING     := "integration-missing-setting".  (* "no global ... set" and friends *)
Definition E_TI_NONAME       := "interval-missing-name".
Definition E_TI_DUP          := "interval-name-dup".
Definition E_ROOT_NO_RECV    := "root-no-receiver".
Definition E_ROOT_MATCHERS   := "root-matchers".
Definition E_ROOT_MUTE       := "root-mute-intervals".
Definition E_ROOT_ACTIVE     := "root-active-intervals".
Definition E_UNDEF_RECV      := "undefined-receiver".
Definition E_UNDEF_TI        := "undefined-interval".
Definition E_GLOBAL_PAIR     := "global-at-most-one-of".
Definition E_SLACK_PAIR      := "slack-at-most-one-of".
Definition E_SLACK_UPDATE    := "slack-update-message-url".
Definition E_SLACK_AUTH      := "slack-auth-with-app-token".

Definition andthen {A} (r : res unit) (k : res A) : res A :=
  match r with Ok _ => k | Err c => Err c | Panic => Panic end.
Notation "r ;;; k" := (andthen r k) (at level 62, right associativity).
Definition fail_if (b : bool) (code : string) : res unit := if b then Err code else Ok tt.
Definition smem (x : string) (l : list string) : bool := bool_decide (x ∈ l).
Definition has_dup (l : list string) : bool := negb (bool_decide (NoDup l)).
Definition is_nil {A} (l : list A) : bool := match l with [] => true | _ => false end.
Definition is_none {A} (o : option A) : bool := match o with None => true | _ => false end.

(* first non-Ok result of a list of checks *)
Fixpoint first_err (l : list (res unit)) : res unit :=
  match l with
  | [] => Ok tt
  | r :: t => r ;;; first_err t
  end.

(* ---------- the decoded tree ---------- *)

(* config.Route as decoded (before Route.UnmarshalYAML's own checks) *)
Inductive droute := DRoute {
  dr_receiver : string;
  dr_group_by : list string;            (* GroupByStr, "..." included *)
  dr_has_matchers : bool;               (* len(Match)+len(MatchRE)+len(Matchers) > 0 *)
  dr_mute : list string;                (* MuteTimeIntervals *)
  dr_active : list string;              (* ActiveTimeIntervals *)
  dr_continue : bool;
  dr_group_interval : option Z;         (* ns; None = not given *)
  dr_repeat_interval : option Z;
  dr_routes : list (option droute)      (* None = a null list item, decoded to a nil *Route *)
}.

(* post-order walk of a routing tree, the shape shared by the yaml decoding of Route (hooks of the children run
   before the parent's), checkReceiver and checkTimeInterval: first every child in list order, then the node
   itself; [nullr] is what happens at a null child (skipped by yaml: Ok; dereferenced by the check functions:
   Panic) *)
Fixpoint walk (nullr : res unit) (f : droute -> res unit) (r : droute) : res unit :=
  (fix kids (l : list (option droute)) : res unit :=
     match l with
     | [] => f r
     | None :: t => nullr ;;; kids t
     | Some c :: t => walk nullr f c ;;; kids t
     end) (dr_routes r).

(* all nodes of a routing tree (null items skipped), parent first *)
Fixpoint nodes (r : droute) : list droute :=
  r :: (fix kids (l : list (option droute)) : list droute :=
          match l with
          | [] => []
          | None :: t => kids t
          | Some c :: t => nodes c ++ kids t
          end) (dr_routes r).

(* one integration config of a receiver: only what the validation reads *)
Record ibody := IBody {
  ib_http : nat;                        (* http_config: 0 absent, 1 present without authorization, 2 with *)
  ib_proxy : bool;                      (* own http_config sets proxy_url (read for msteamsv2 only) *)
  ib_locals : list string;              (* inheritable settings given locally, by their global yaml name *)
  ib_api_url : option string;           (* slack: api_url as SecretURL.String() prints it *)
  ib_update : bool                      (* slack: update_message *)
}.

Record dreceiver := DReceiver {
  rc_name : string;
  rc_label_name : option string;        (* labels["name"] if given *)
  rc_ints : list (string * list (option ibody))   (* kind -> items in list order; None = null item *)
}.

Record dinterval := DInterval { ti_name : string }.

(* global block: None in dcfg = absent or null (DefaultGlobalConfig) *)
Record dglobal := DGlobal {
  g_http : nat;                         (* 0 = `http_config: null`, 1 = default/plain, 2 = has authorization *)
  g_slack_api_url : option string;      (* slack_api_url as printed by String() *)
  g_slack_app_url : option string;      (* slack_app_url (has a default); None = written as null *)
  g_pairs : list (bool * bool);         (* the at-most-one-of pairs (inline, file) in the order of the code:
                                           0 slack_app_token, 1 slack_api_url, then opsgenie_api_key,
                                           victorops_api_key, telegram_bot_token, smtp_auth_password,
                                           rocketchat_token, rocketchat_token_id, smtp_auth_secret,
                                           wechat_api_secret, mattermost_webhook_url *)
  g_provides : list string              (* settings receivers can inherit: non-empty / non-nil in the global *)
}.

Inductive sect := SRoute | SReceivers | SMute | STime.

Record dcfg := DCfg {
  d_order : list sect;                  (* order of the top-level keys in the document *)
  d_global : option dglobal;
  d_route : option droute;
  d_receivers : list (option dreceiver);
  d_mute : list (option dinterval);     (* mute_time_intervals (deprecated) *)
  d_time : list (option dinterval)      (* time_intervals *)
}.

(* ---------- decode-time hooks (run by yaml.v2 while it fills the structs, in document order) ---------- *)

Section Hooks.
  (* compat.IsValidLabelName for group_by entries: external (depends on the UTF-8 feature mode); the harness
     supplies the real answers for the names of the case *)
  Variable vl : string -> bool.

  Definition group_labels (r : droute) : list string :=
    filter (fun l => negb (String.eqb l "...")) (dr_group_by r).
  Definition group_all (r : droute) : bool := existsb (String.eqb "...") (dr_group_by r).

  (* Route.UnmarshalYAML after the plain decode returned *)
  Definition node_hook (r : droute) : res unit :=
    fail_if (existsb is_none (dr_routes r)) E_ROUTE_NULL ;;;
    fail_if (existsb (fun l => negb (vl l)) (group_labels r)) E_LABEL ;;;
    fail_if (negb (is_nil (group_labels r)) && group_all r) E_GROUPBY_MIX ;;;
    fail_if (has_dup (group_labels r)) E_GROUPBY_DUP ;;;
    fail_if (bool_decide (dr_group_interval r = Some 0)) E_GI_ZERO ;;;
    fail_if (bool_decide (dr_repeat_interval r = Some 0)) E_RI_ZERO.

  (* children are decoded (and their hooks run) before the parent's own checks; null items get no hook *)
  Definition route_hook : droute -> res unit := walk (Ok tt) node_hook.

  (* SlackConfig.UnmarshalYAML *)
  Definition slack_hook (b : ibody) : res unit :=
    let url := negb (is_none (ib_api_url b)) in
    let urlf := smem "slack_api_url_file" (ib_locals b) in
    let tok := smem "slack_app_token" (ib_locals b) in
    let tokf := smem "slack_app_token_file" (ib_locals b) in
    fail_if (url && urlf) E_SLACK_PAIR ;;;
    fail_if (tok && tokf) E_SLACK_PAIR ;;;
    fail_if ((url || urlf) && (tok || tokf)) E_SLACK_PAIR ;;;
    if ib_update b then
      match ib_api_url b with
      | None => Ok tt                      (* compared only when an api_url is given (fix a02de80; was a nil dereference) *)
      | Some u => fail_if (negb (String.eqb u "https://slack.com/api/chat.postMessage")) E_SLACK_UPDATE
      end
    else Ok tt.

  Definition ints_of (kind : string) (r : dreceiver) : list (option ibody) :=
    match find (fun p => String.eqb (fst p) kind) (rc_ints r) with Some p => snd p | None => [] end.

  (* Receiver.UnmarshalYAML; the slack items' own hooks ran while the receiver was decoded *)
  Definition receiver_hook (r : dreceiver) : res unit :=
    first_err (map (fun o => match o with Some b => slack_hook b | None => Ok tt end) (ints_of "slack" r)) ;;;
    fail_if (String.eqb (rc_name r) "") E_RECV_NONAME ;;;
    fail_if (match rc_label_name r with Some v => negb (String.eqb v (rc_name r)) | None => false end) E_RECV_LABEL.

  Definition interval_hook (i : dinterval) : res unit := fail_if (String.eqb (ti_name i) "") E_TI_NONAME.

  Definition opt_hook {A} (h : A -> res unit) (o : option A) : res unit :=
    match o with Some a => h a | None => Ok tt end.

  Definition sect_hook (d : dcfg) (s : sect) : res unit :=
    match s with
    | SRoute => opt_hook route_hook (d_route d)
    | SReceivers => first_err (map (opt_hook receiver_hook) (d_receivers d))
    | SMute => first_err (map (opt_hook interval_hook) (d_mute d))
    | STime => first_err (map (opt_hook interval_hook) (d_time d))
    end.

  (* document order first; running a (pure) hook again cannot change the first failure *)
  Definition hooks (d : dcfg) : res unit :=
    first_err (map (sect_hook d) (d_order d ++ [SRoute; SReceivers; SMute; STime])).
End Hooks.

(* ---------- Config.UnmarshalYAML after the plain decode ---------- *)

Definition default_global : dglobal :=
  DGlobal 1 None (Some "https://slack.com/api/chat.postMessage") []
          ["pagerduty_url"; "opsgenie_api_url"; "wechat_api_url"; "victorops_api_url"; "telegram_api_url";
           "webex_api_url"; "rocketchat_api_url"; "smtp_hello"].

Definition pair_at (g : dglobal) (i : nat) : bool * bool := nth i (g_pairs g) (false, false).
Definition pair_any (p : bool * bool) : bool := fst p || snd p.
Definition pair_both (p : bool * bool) : bool := fst p && snd p.

Definition global_checks (g : dglobal) : res unit :=
  fail_if (pair_both (pair_at g 0)) E_GLOBAL_PAIR ;;;
  fail_if (pair_both (pair_at g 1)) E_GLOBAL_PAIR ;;;
  (if pair_any (pair_at g 0) && pair_any (pair_at g 1) then
     match g_slack_api_url g, g_slack_app_url g with
     | Some a, Some b => fail_if (negb (String.eqb a b)) E_GLOBAL_PAIR
     | _, _ => Err E_GLOBAL_PAIR          (* a nil URL counts as different (fix 77e3ec9; was a nil dereference) *)
     end
   else Ok tt) ;;;
  fail_if (existsb pair_both (drop 2 (g_pairs g))) E_GLOBAL_PAIR.

(* the integration kinds in the order of the loops in Config.UnmarshalYAML *)
Definition kind_order : list string :=
  ["webhook"; "email"; "slack"; "pushover"; "pagerduty"; "incidentio"; "opsgenie"; "wechat"; "victorops"; "sns";
   "telegram"; "discord"; "webex"; "msteams"; "msteamsv2"; "jira"; "rocketchat"; "mattermost"].

(* settings an item needs from itself or the global block, in the order checked; each is a list of
   alternatives (inline or file) *)
Definition kind_reqs (kind : string) : list (list string) :=
  if String.eqb kind "email" then [["smtp_smarthost"]; ["smtp_from"]]
  else if String.eqb kind "pagerduty" then [["pagerduty_url"]]
  else if String.eqb kind "opsgenie" then [["opsgenie_api_url"]; ["opsgenie_api_key"; "opsgenie_api_key_file"]]
  else if String.eqb kind "wechat" then
    [["wechat_api_url"]; ["wechat_api_secret"; "wechat_api_secret_file"]; ["wechat_api_corp_id"]]
  else if String.eqb kind "victorops" then [["victorops_api_url"]; ["victorops_api_key"; "victorops_api_key_file"]]
  else if String.eqb kind "telegram" then [["telegram_bot_token"; "telegram_bot_token_file"]]
  else if String.eqb kind "webex" then [["webex_api_url"]]
  else if String.eqb kind "jira" then [["jira_api_url"]]
  else if String.eqb kind "rocketchat" then
    [["rocketchat_token_id"; "rocketchat_token_id_file"]; ["rocketchat_token"; "rocketchat_token_file"]]
  else if String.eqb kind "mattermost" then [["mattermost_webhook_url"; "mattermost_webhook_url_file"]]
  else [].

Definition req_met (g : dglobal) (b : ibody) (alts : list string) : bool :=
  existsb (fun a => smem a (ib_locals b) || smem a (g_provides g)) alts.

(* the slack loop body of Config.UnmarshalYAML *)
Definition slack_check (g : dglobal) (b : ibody) : res unit :=
  let has x := smem x (ib_locals b) in
  let ghas x := smem x (g_provides g) in
  fail_if (negb (has "slack_app_url") && is_none (g_slack_app_url g)) E_INT_SETTING ;;;
  let own_tok := has "slack_app_token" || has "slack_app_token_file" in
  let own_url := negb (is_none (ib_api_url b)) in
  let inherit_tok := negb own_tok && negb (Nat.eqb (ib_http b) 2) && negb own_url in
  let tok := own_tok || (inherit_tok && (ghas "slack_app_token" || ghas "slack_app_token_file")) in
  let inherit_url := negb own_url && negb (has "slack_api_url_file") in
  let url := own_url || has "slack_api_url_file" ||
             (inherit_url && (negb (is_none (g_slack_api_url g)) || ghas "slack_api_url_file")) in
  fail_if (negb url && negb tok) E_INT_SETTING ;;;
  (if Nat.eqb (ib_http b) 0 && Nat.eqb (g_http g) 0 then Panic else Ok tt) ;;;   (* httpconfig := *c.Global.HTTPConfig *)
  let auth := if Nat.eqb (ib_http b) 0 then Nat.eqb (g_http g) 2 else Nat.eqb (ib_http b) 2 in
  fail_if (tok && auth) E_SLACK_AUTH.

Definition body_check (g : dglobal) (kind : string) (b : ibody) : res unit :=
  if String.eqb kind "slack" then slack_check g b
  else if String.eqb kind "msteamsv2" then
    (* copies *c.Global.HTTPConfig, or reads c.Global.HTTPConfig.ProxyURL when the item's own has no proxy_url *)
    if Nat.eqb (g_http g) 0 && (Nat.eqb (ib_http b) 0 || negb (ib_proxy b)) then Panic else Ok tt
  else first_err (map (fun alts => fail_if (negb (req_met g b alts)) E_INT_SETTING) (kind_reqs kind)).

(* a null item: 14 kinds reject it ("missing <kind> config"); for slack, opsgenie, wechat and rocketchat the loop
   replaces it IN THE LIST by an empty config (fix 632c52c: before, only the loop variable was replaced and the nil
   stayed in the receiver) and validates that *)
Definition empty_body : ibody := IBody 0 false [] None false.
Definition null_tolerated (kind : string) : bool := smem kind ["slack"; "opsgenie"; "wechat"; "rocketchat"].

Definition int_check (g : dglobal) (kind : string) (o : option ibody) : res unit :=
  match o with
  | None => if null_tolerated kind then body_check g kind empty_body else Err E_INT_NULL
  | Some b => body_check g kind b
  end.

Definition receiver_ints_check (g : dglobal) (r : dreceiver) : res unit :=
  first_err (flat_map (fun kind => map (int_check g kind) (ints_of kind r)) kind_order).

(* a null receivers item is the zero Receiver: empty name, no integrations *)
Definition zero_receiver : dreceiver := DReceiver "" None [].
Definition recv_of (o : option dreceiver) : dreceiver := default zero_receiver o.
Definition receiver_names (d : dcfg) : list string := map (fun o => rc_name (recv_of o)) (d_receivers d).

Fixpoint receivers_check (g : dglobal) (seen : list string) (l : list (option dreceiver)) : res unit :=
  match l with
  | [] => Ok tt
  | o :: t =>
    let r := recv_of o in
    fail_if (smem (rc_name r) seen) E_RECV_DUP ;;;
    receiver_ints_check g r ;;;
    receivers_check g (rc_name r :: seen) t
  end.

(* checkReceiver: children first; a nil child is dereferenced (r.Routes of a nil *Route) *)
Definition recv_leaf (names : list string) (r : droute) : res unit :=
  if String.eqb (dr_receiver r) "" then Ok tt else fail_if (negb (smem (dr_receiver r) names)) E_UNDEF_RECV.
Definition check_recv (names : list string) : droute -> res unit := walk Panic (recv_leaf names).

(* checkTimeInterval: children first, then active, then mute *)
Definition ti_leaf (names : list string) (r : droute) : res unit :=
  fail_if (existsb (fun n => negb (smem n names)) (dr_active r ++ dr_mute r)) E_UNDEF_TI.
Definition check_ti (names : list string) : droute -> res unit := walk Panic (ti_leaf names).

Definition int_name (o : option dinterval) : string := match o with Some i => ti_name i | None => "" end.
Definition interval_names (d : dcfg) : list string := map int_name (d_mute d) ++ map int_name (d_time d).

Fixpoint uniq_check (seen : list string) (l : list string) : res unit :=
  match l with
  | [] => Ok tt
  | n :: t => fail_if (smem n seen) E_TI_DUP ;;; uniq_check (n :: seen) t
  end.

(* the validated configuration *)
Record cfg := Cfg { c_route : droute; c_receivers : list string; c_intervals : list string }.

(* Config.UnmarshalYAML first restores an empty global block, and (fix 92b9de1) a global http_config that was
   written as null; the receiver loops below still dereference c.Global.HTTPConfig *)
Definition restore_http (g : dglobal) : dglobal :=
  if Nat.eqb (g_http g) 0 then DGlobal 1 (g_slack_api_url g) (g_slack_app_url g) (g_pairs g) (g_provides g) else g.

Definition config_checks (d : dcfg) : res cfg :=
  let g := restore_http (default default_global (d_global d)) in
  global_checks g ;;;
  receivers_check g [] (d_receivers d) ;;;
  match d_route d with
  | None => Err E_NO_ROUTE
  | Some r =>
    fail_if (String.eqb (dr_receiver r) "") E_ROOT_NO_RECV ;;;
    fail_if (dr_has_matchers r) E_ROOT_MATCHERS ;;;
    fail_if (negb (is_nil (dr_mute r))) E_ROOT_MUTE ;;;
    fail_if (negb (is_nil (dr_active r))) E_ROOT_ACTIVE ;;;
    check_recv (receiver_names d) r ;;;
    uniq_check [] (interval_names d) ;;;
    check_ti (interval_names d) r ;;;
    (* Load, after UnmarshalStrict *)
    fail_if (dr_continue r) E_ROOT_CONTINUE ;;;
    Ok (Cfg r (receiver_names d) (interval_names d))
  end.

(* config.Load on a decoded document; None = the document is empty / null (Config.UnmarshalYAML is not called) *)
Definition load_validate (vl : string -> bool) (o : option dcfg) : res cfg :=
  match o with
  | None => Err E_NO_ROUTE
  | Some d => hooks vl d ;;; config_checks d
  end.

(* ---------- vocabulary of the well-formedness theorem ---------- *)

Definition group_by_ok (r : droute) : Prop :=
  NoDup (group_labels r) /\ (group_all r = true -> group_labels r = []).
