(* Executable model of the per-alert-name limit path:
     provider/mem/mem.go  Alerts.Put (merge with the stored alert, Set, limited counter), Alerts.gc
     store/store.go       Alerts.Set (bucket per alert name, Upsert with the alert's EndsAt), GC =
                          gcLimitBuckets (drop buckets judged stale) then gcAlerts (drop resolved alerts)
     alert/alert.go       Alert.Merge;  common/model Alert.ResolvedAt
   Definitions only.

   An alert is (fingerprint, alert name, StartsAt, EndsAt, UpdatedAt, Timeout); fingerprints are injective in the
   label set (DESIGN I9) so the name is a function of the fingerprint (hypothesis `names_ok` of the theorems).
   Instants are exact Z nanoseconds since the Unix epoch (no int64 wrap: far-future ends such as 9999-12-31 and
   pre-1970 ones are plain numbers); Go's zero time.Time (0001-01-01T00:00:00Z) is `zero_time`, below every instant
   in use.   Go map iteration in gcLimitBuckets / gcAlerts only deletes entries
   by a per-entry test, so the result is order-independent (a gmap filter).
   `stale` is a parameter so that the same definitions give the repaired code (Bucket.is_stale) and the code at
   the pinned commit (Bucket.is_stale_last_slot, for the refutation witness). *)
From AM Require Import Base.Prelude Model.Bucket.

Record alert := mkAlert {
  a_fp : Z; a_name : string; a_starts : Z; a_ends : Z; a_updated : Z; a_timeout : bool }.
Global Instance alert_eq_dec : EqDecision alert. Proof. solve_decision. Defined.

(* model.Alert.ResolvedAt(ts): !EndsAt.IsZero() && !EndsAt.After(ts) *)
Definition zero_time : Z := -62135596800000000000.
Definition resolved (a : alert) (now : Z) : bool := negb (a_ends a =? zero_time) && (a_ends a <=? now).

(* alert.Alert.Merge: o is made the younger one; earliest start; end-time rules *)
Definition merge_ordered (a o : alert) (now : Z) : alert :=
  let starts := if a_starts a <? a_starts o then a_starts a else a_starts o in
  let ends :=
    if resolved o now
    then (if resolved a now && (a_ends o <? a_ends a) then a_ends a else a_ends o)
    else (if (a_ends o <? a_ends a) && negb (a_timeout a) then a_ends a else a_ends o) in
  mkAlert (a_fp o) (a_name o) starts ends (a_updated o) (a_timeout o).
Definition merge (a o : alert) (now : Z) : alert :=
  if a_updated o <? a_updated a then merge_ordered o a now else merge_ordered a o now.

Record store := mkStore {
  s_alerts : gmap Z alert;
  s_limits : gmap string bucket;
  s_limited : nat }.   (* alertmanager_alerts_limited_total *)

Definition empty_store : store := mkStore ∅ ∅ O.

(* store.Alerts.Set: returns the new store and false for ErrLimited *)
Definition store_set (N : Z) (s : store) (a : alert) (now : Z) : store * bool :=
  if 0 <? N then
    let b := match s_limits s !! a_name a with Some b => b | None => new_bucket N end in
    let '(b', ok) := upsert b (a_fp a) (a_ends a) now in
    let lim := <[a_name a := b']> (s_limits s) in
    if ok then (mkStore (<[a_fp a := a]> (s_alerts s)) lim (s_limited s), true)
    else (mkStore (s_alerts s) lim (s_limited s), false)
  else (mkStore (<[a_fp a := a]> (s_alerts s)) (s_limits s) (s_limited s), true).

(* mem.Alerts.Put for one alert *)
Definition put1 (N : Z) (s : store) (a : alert) (now : Z) : store * bool :=
  let a' :=
    match s_alerts s !! a_fp a with
    | Some old =>
        if ((a_starts old <? a_ends a) && (a_ends a <? a_ends old))
           || ((a_starts old <? a_starts a) && (a_starts a <? a_ends old))
        then merge old a now else a
    | None => a
    end in
  let '(s', ok) := store_set N s a' now in
  if ok then (s', true) else (mkStore (s_alerts s') (s_limits s') (S (s_limited s')), false).

(* store.Alerts.GC *)
Definition gc_with (stale : bucket -> Z -> bool) (s : store) (now : Z) : store :=
  mkStore (filter (fun kv => negb (resolved (snd kv) now)) (s_alerts s))
          (filter (fun kv => negb (stale (snd kv) now)) (s_limits s))
          (s_limited s).
Definition gc := gc_with is_stale.

Inductive op := OPut (a : alert) | OGC.

Definition step_with (stale : bucket -> Z -> bool) (N : Z) (s : store) (now : Z) (o : op) : store * bool :=
  match o with
  | OPut a => put1 N s a now
  | OGC => (gc_with stale s now, true)
  end.
Definition step := step_with is_stale.

Fixpoint run_with (stale : bucket -> Z -> bool) (N : Z) (s : store) (h : list (Z * op)) : store * list bool :=
  match h with
  | [] => (s, [])
  | (now, o) :: r =>
      let '(s1, x) := step_with stale N s now o in
      let '(s2, xs) := run_with stale N s1 r in (s2, x :: xs)
  end.
Definition run := run_with is_stale.

(* ---- what the property counts ---- *)
(* the alerts of one name held by the store that have not ended at instant now (the bucket's notion of
   unexpired: EndsAt >= now; it includes every alert that is still firing, EndsAt > now) *)
Definition unexpired_of (s : store) (name : string) (now : Z) : list alert :=
  filter (fun a => bool_decide (a_name a = name) && (now <=? a_ends a)) (map snd (map_to_list (s_alerts s))).
Definition count_unexpired (s : store) (name : string) (now : Z) : nat := length (unexpired_of s name now).

(* the fingerprints a bucket tracks *)
Definition tracked (s : store) (name : string) : list (Z * Z) :=
  match s_limits s !! name with Some b => entries (b_items b) | None => [] end.
