(* The product of the alert provider (Model/Provider.v: provider/mem Put with the overlap-merge rule, GC) with the timed
   model of one aggregation group (Model/Group.v), glued as dispatch.go glues them: what Put stores for a label set is
   what the provider hands to its subscribers, and the dispatcher inserts exactly that into every group the alert is
   routed to. In Model/Group.v the inserted alert is a free parameter of the event; here it is COMPUTED by the provider
   model from the alert as SUBMITTED and from what the provider holds. One clock for both components.
   Alerts of ALL label sets go through the provider; [member] says whether the label set is routed to this group and
   [x] is the identity the group model uses for it. Definitions only. *)
From AM Require Import Base.Prelude.
From AM Require Import Model.Provider.
From AM Require Import Model.Group.

Record istate := mkIS { in_store : gmap (list (string * string)) AlertMerge.alert; in_g : gstate }.

Inductive iev :=
| IPut (member : bool) (x : Z) (a : AlertMerge.alert)   (* provider Put of one submitted alert *)
| IGc                                                  (* one run of the provider's GC that deleted something *)
| IGrp (e : ev).                                       (* any other event of the group (an EInsert here is rejected) *)

Definition is_insert (e : ev) : bool := match e with EInsert _ => true | _ => false end.

(* the group's copy of what the provider hands on *)
Definition group_alert (x : Z) (r : AlertMerge.alert) : alert :=
  mkA x (AlertMerge.a_starts r) (AlertMerge.a_ends r) (AlertMerge.a_updated r).

Definition istep (cfg : gcfg) (P : istate) (t : Z) (e : iev) : option (istate * list out) :=
  match e with
  | IPut member x a =>
      let '(st', r) := put1 t (in_store P) a in
      match step cfg (in_g P) t (if member then EInsert (group_alert x r) else EEnd) with
      | Some (g', o) => Some (mkIS st' g', o)
      | None => None
      end
  | IGc =>
      match step cfg (in_g P) t EEnd with
      | Some (g', o) => Some (mkIS (fst (gc t (in_store P))) g', o)
      | None => None
      end
  | IGrp e =>
      if is_insert e then None else
      match step cfg (in_g P) t e with
      | Some (g', o) => Some (mkIS (in_store P) g', o)
      | None => None
      end
  end.

Fixpoint irun (cfg : gcfg) (P : istate) (h : list (Z * iev)) : option (istate * list out) :=
  match h with
  | [] => Some (P, [])
  | (t, e) :: r =>
      match istep cfg P t e with
      | Some (P1, o1) => match irun cfg P1 r with Some (P2, o2) => Some (P2, o1 ++ o2) | None => None end
      | None => None
      end
  end.

Definition iinit (cfg : gcfg) (t0 : Z) : istate := mkIS ∅ (init cfg t0).

(* the group's view of a product history *)
Fixpoint iview (cfg : gcfg) (P : istate) (h : list (Z * iev)) : list (Z * ev) :=
  match h with
  | [] => []
  | (t, e) :: r =>
      let e' := match e with
                | IPut true x a => EInsert (group_alert x (snd (put1 t (in_store P) a)))
                | IPut false _ _ => EEnd
                | IGc => EEnd
                | IGrp e => e
                end in
      match istep cfg P t e with
      | Some (P1, _) => (t, e') :: iview cfg P1 r
      | None => []
      end
  end.
