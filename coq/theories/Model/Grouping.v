(* Grouping of alerts into aggregation groups: dispatch.getGroupLabels, aggrGroup.GroupKey and the sequential
   effect of Dispatcher.routeAlert / groupAlert on the set of groups (the concurrent machine is
   Model/DispatchConc.v). Builds on Model/Route.v (routing tree, Route.Match) and Model/Matchers.v. *)
From AM Require Import Base.Prelude Model.Matchers Model.Route.

(* getGroupLabels: the alert's labels restricted to the route's group_by (all of them for '...') *)
Definition grouped (o : ropts) (n : string) : bool := ro_group_by_all o || smem n (ro_group_by o).
Definition group_labels (o : ropts) (ls : labels) : labels := filter (fun kv => grouped o (fst kv)) ls.

(* Route.Key: the matcher lists along the path from the root, as data (rendering them as text is
   labels.Matchers.String, joined by "/") *)
Fixpoint path_matchers (r : route) (p : path) : list (list matcher) :=
  r_ms r :: match p with
            | [] => []
            | i :: q => match nth_error (r_children r) i with Some c => path_matchers c q | None => [] end
            end.

(* aggrGroup.GroupKey as data: (matchers along the route's path, group labels). Its text form is
   routeKey + ":" + LabelSet.String(). *)
Definition group_key (root : route) (p : path) (gl : labels) : list (list matcher) * labels := (path_matchers root p, gl).

(* the groups an alert belongs to: one per route the routing tree selects *)
Definition groups_of (re : string -> string -> bool) (root : route) (ls : labels) : list (path * labels) :=
  omap (fun p => match node_at root p with Some n => Some (p, group_labels (r_opts n) ls) | None => None end)
       (match_route re ls root).

(* sequential dispatcher state: live groups (route position, group labels) with their alerts (by label set) *)
Notation dstate := (list (path * labels * list labels)) (only parsing).

Definition key_eqb (k1 k2 : path * labels) : bool := bool_decide (k1 = k2).

Fixpoint add_to_group (s : dstate) (k : path * labels) (a : labels) : dstate :=
  match s with
  | [] => [(k, [a])]
  | (k', mem) :: r =>
      if key_eqb k' k then (k', if bool_decide (a ∈ mem) then mem else mem ++ [a]) :: r
      else (k', mem) :: add_to_group r k a
  end.

Definition ingest (re : string -> string -> bool) (root : route) (s : dstate) (a : labels) : dstate :=
  foldl (fun s k => add_to_group s k a) s (groups_of re root a).

Definition ingest_all re root (alerts : list labels) : dstate := foldl (ingest re root) [] alerts.
