(* ONE instance = routing tree + grouping + one timed group machine per aggregation group, on one shared clock.
   Composition of Model/Route.v (Route.Match), Model/Grouping.v (getGroupLabels, the groups of an alert) and
   Model/Group.v (aggrGroup + receiver pipeline + notification-log entries of one group key). Definitions only;
   proofs in Proofs/InstanceProofs.v.

   Mirrors dispatch.Dispatcher.routeAlert / groupAlert: for every route the tree selects for the alert, the group
   keyed by (that route, the alert's labels restricted to the route's group_by) receives the alert; a missing group
   is created with the ROUTE's options (group_wait / group_interval / repeat_interval, receiver -> integrations),
   the flush context timeout is timeout(group_interval) = max(group_interval, MinTimeout) + cluster wait
   (cmd/alertmanager main.go timeoutFunc, dispatch.go aggrGroup.flush).

   Like Group.v the model is a TRACE ACCEPTOR, now for the whole instance. An instance event at time t is applied to
   EVERY known group: the group(s) the event is about get their Group.v event, all others get [EEnd], which only
   checks [time_ok] and advances the clock. So no group's armed deadline (or flush context deadline) can be passed
   silently while other groups are busy: the shared clock is faithful.

   The decision "which groups receive a published alert" is taken HERE ([groups_of] = match_route + group_labels),
   not by the harness: a dispatcher that routes or groups differently is rejected by this one acceptor. *)
From AM Require Import Base.Prelude Model.Matchers Model.Route Model.Grouping Model.Group.

(* group key as data: (route position, group labels) — see Grouping.v *)
Notation gkey := (list nat * list (string * string))%type (only parsing).

Fixpoint assoc {K V} `{EqDecision K} (l : list (K * V)) (k : K) : option V :=
  match l with
  | [] => None
  | (k', v) :: r => if decide (k' = k) then Some v else assoc r k
  end.

Record inst_cfg := mkIC {
  ic_route : route;                          (* dispatch.NewRoute(conf.Route, nil) *)
  ic_re : string -> string -> bool;          (* Go regexp oracle (Model/Matchers.v); any function *)
  ic_retention : Z;                          (* nflog retention *)
  ic_min_timeout : Z;                        (* notify.MinTimeout *)
  ic_wait : Z;                               (* cluster wait: position * peer timeout *)
  ic_receivers : list (string * list icfg);  (* receiver name -> its integrations *)
  ic_ids : list (list (string * string) * Z) (* alert identity: label set -> id (fingerprint stand-in), as data *)
}.

(* the identity table is injective and functional (checked per case, never assumed) *)
Definition ids_ok (cfg : inst_cfg) : bool :=
  bool_decide (NoDup (map fst (ic_ids cfg))) && bool_decide (NoDup (map snd (ic_ids cfg))).

Definition opts_at (cfg : inst_cfg) (p : list nat) : ropts :=
  match node_at (ic_route cfg) p with Some n => r_opts n | None => default_opts end.
Definition ints_of (cfg : inst_cfg) (receiver : string) : list icfg := default [] (assoc (ic_receivers cfg) receiver).
(* main.go timeoutFunc *)
Definition timeout_of (cfg : inst_cfg) (d : Z) : Z := Z.max d (ic_min_timeout cfg) + ic_wait cfg.

(* newAggrGroup(ctx, labels, route, timeout, ...): the group's configuration is the route's *)
Definition gcfg_of (cfg : inst_cfg) (p : list nat) : gcfg :=
  let o := opts_at cfg p in
  mkG (ro_gw o) (ro_gi o) (ro_ri o) (timeout_of cfg (ro_gi o)) (ic_retention cfg) (ints_of cfg (ro_receiver o)).

(* ---------- state ---------- *)
Record istate := mkIS {
  is_clock : Z;
  is_groups : list (gkey * gstate) }.    (* association list; an absent key stands for the never-touched group *)

Definition iinit (t0 : Z) : istate := mkIS t0 [].

(* the state of group key k: an absent key = no live group, empty log entries, the instance clock *)
Definition view (cfg : inst_cfg) (s : istate) (k : gkey) : gstate :=
  default (init (gcfg_of cfg (fst k)) (is_clock s)) (assoc (is_groups s) k).

(* ---------- events ---------- *)
Inductive iev :=
| IAlert (ls : list (string * string)) (starts ends upd : Z)   (* the provider publishes an alert *)
| IGroup (k : gkey) (e : ev)                                   (* an event of one group (timer, pipeline, log merge) *)
| IGC                                                          (* nflog.GC: every entry of every group *)
| IEnd.                                                        (* nothing happens; the clock is observed *)

(* the events a single group can have on its own *)
Definition own_ev (e : ev) : bool :=
  match e with EInsert _ | ENflogGC | EEnd => false | _ => true end.

Definition alert_of (cfg : inst_cfg) (ls : list (string * string)) (starts ends upd : Z) : option alert :=
  match assoc (ic_ids cfg) ls with Some id => Some (mkA id starts ends upd) | None => None end.

(* routeAlert: the groups of an alert *)
Definition targets (cfg : inst_cfg) (ls : list (string * string)) : list gkey :=
  groups_of (ic_re cfg) (ic_route cfg) ls.

(* what an instance event is for group k: exactly one Group.v event *)
Definition proj (cfg : inst_cfg) (k : gkey) (ie : iev) : ev :=
  match ie with
  | IAlert ls st en up =>
      match alert_of cfg ls st en up with
      | Some a => if bool_decide (k ∈ targets cfg ls) then EInsert a else EEnd
      | None => EEnd
      end
  | IGroup k' e => if bool_decide (k' = k) then e else EEnd
  | IGC => ENflogGC
  | IEnd => EEnd
  end.

Definition touched (cfg : inst_cfg) (ie : iev) : list gkey :=
  match ie with
  | IAlert ls _ _ _ => targets cfg ls
  | IGroup k _ => [k]
  | _ => []
  end.

Definition ev_ok (cfg : inst_cfg) (ie : iev) : bool :=
  match ie with
  | IAlert ls _ _ _ => match assoc (ic_ids cfg) ls with Some _ => true | None => false end
  | IGroup _ e => own_ev e
  | _ => true
  end.

(* every listed group takes its projection of the event at time t; outputs are tagged with the group key *)
Fixpoint step_all (cfg : inst_cfg) (s : istate) (t : Z) (ie : iev) (ks : list gkey)
  : option (list (gkey * gstate) * list (gkey * out)) :=
  match ks with
  | [] => Some ([], [])
  | k :: r =>
      match step (gcfg_of cfg (fst k)) (view cfg s k) t (proj cfg k ie), step_all cfg s t ie r with
      | Some (g, o), Some (gs, os) => Some ((k, g) :: gs, map (pair k) o ++ os)
      | _, _ => None
      end
  end.

Definition istep (cfg : inst_cfg) (s : istate) (t : Z) (ie : iev) : option (istate * list (gkey * out)) :=
  if negb (is_clock s <=? t) || negb (ev_ok cfg ie) then None else
  let ks := remove_dups (map fst (is_groups s) ++ touched cfg ie) in
  match step_all cfg s t ie ks with
  | Some (gs, os) => Some (mkIS t gs, os)
  | None => None
  end.

Fixpoint irun (cfg : inst_cfg) (s : istate) (h : list (Z * iev)) : option (istate * list (gkey * out)) :=
  match h with
  | [] => Some (s, [])
  | (t, e) :: r =>
      match istep cfg s t e with
      | Some (s1, o1) => match irun cfg s1 r with Some (s2, o2) => Some (s2, o1 ++ o2) | None => None end
      | None => None
      end
  end.

(* the outputs of group k *)
Definition outs_for (k : gkey) (outs : list (gkey * out)) : list out :=
  omap (fun ko => if bool_decide (fst ko = k) then Some (snd ko) else None) outs.

(* the history of group k *)
Definition proj_hist (cfg : inst_cfg) (k : gkey) (h : list (Z * iev)) : list (Z * ev) :=
  map (fun te => (fst te, proj cfg k (snd te))) h.
