(* Executable model of limit/bucket.go (Bucket[V], V := Z, a fingerprint) including the array heap exactly as
   container/heap maintains it (up / down / Fix / Push / Pop over the slice, Swap maintaining item.index).
   Definitions only.

   Time / priority: Z nanoseconds; item.expired(at) = priority.Before(at) = (priority < at).

   Representation.  Go keeps `items []*item` and `index map[V]*item`; every insertion into `index` is paired with a
   heap.Push of the same item and every delete with the heap.Pop of that item, so the map is the set of items in
   the slice keyed by item.value.  The model keeps the slice (a list of item records WITH their `index` field, as
   Swap/Push write it) and reads the map as "the item in the slice whose value is v" (`find_item`).  `update`
   then calls heap.Fix at the item's *index field* (not at the position where it was found), as the code does;
   that the field equals the position is a theorem (Proofs/BucketProofs.v: idx coherence), not an assumption.
   Out-of-range slice accesses (a Go panic) are unreachable under that invariant; the totalised functions return the
   list unchanged there and the theorem `fix_in_range` states reachability.

   Capacity: limit.NewBucket panics on a negative capacity (make of a negative length); store.Alerts.Set only builds
   buckets when perAlertLimit > 0, so the theorems about the store assume 1 <= capacity and the harness draws
   capacities >= 0 (Upsert on capacity 0 returns false, as modelled).

   IsStale: `is_stale` is the REPAIRED code (stale iff every tracked item is expired);
            `is_stale_last_slot` is the code as it was at the pinned commit (reads the last array slot) and is
            kept only for the refutation theorem and the corpus witness. *)
From AM Require Import Base.Prelude.

Record item := mkItem { it_val : Z; it_prio : Z; it_idx : nat }.
Global Instance item_eq_dec : EqDecision item. Proof. solve_decision. Defined.

Definition set_idx (x : item) (i : nat) : item := mkItem (it_val x) (it_prio x) i.
Definition set_prio (x : item) (p : Z) : item := mkItem (it_val x) p (it_idx x).

(* sortedItems.Less(i, j) = s[i].priority.Before(s[j].priority) *)
Definition less (l : list item) (i j : nat) : bool :=
  match l !! i, l !! j with
  | Some a, Some b => it_prio a <? it_prio b
  | _, _ => false
  end.

(* sortedItems.Swap(i, j) *)
Definition swap (l : list item) (i j : nat) : list item :=
  match l !! i, l !! j with
  | Some a, Some b => <[i := set_idx b i]> (<[j := set_idx a j]> l)
  | _, _ => l
  end.

(* heap.up(h, j): loop { i := (j-1)/2; if i == j || !Less(j, i) break; Swap(i, j); j = i }
   ((0-1)/2 = 0 in Go's truncating division and in nat arithmetic alike) *)
Fixpoint up (fuel : nat) (l : list item) (j : nat) : list item :=
  match fuel with
  | O => l
  | S f =>
      let i := ((j - 1) / 2)%nat in
      if (i =? j)%nat || negb (less l j i) then l else up f (swap l i j) i
  end.

(* heap.down(h, i0, n): returns the list and the final i (the Go result is i > i0) *)
Fixpoint down (fuel : nat) (l : list item) (i n : nat) : list item * nat :=
  match fuel with
  | O => (l, i)
  | S f =>
      let j1 := (2 * i + 1)%nat in
      if (n <=? j1)%nat then (l, i) else
      let j := if ((j1 + 1 <? n)%nat && less l (j1 + 1) j1) then (j1 + 1)%nat else j1 in
      if negb (less l j i) then (l, i) else down f (swap l i j) j n
  end.

(* heap.Fix(h, i): if !down(h, i, h.Len()) { up(h, i) } *)
Definition fix_at (l : list item) (i : nat) : list item :=
  let '(l', i') := down (length l) l i (length l) in
  if (i <? i')%nat then l' else up (length l) l i.

(* heap.Push(h, x): h.Push(x) [item.index = n; append]; up(h, h.Len()-1) *)
Definition hpush (l : list item) (v p : Z) : list item :=
  let l' := l ++ [mkItem v p (length l)] in
  up (length l') l' (length l).

(* heap.Pop(h): n := h.Len()-1; h.Swap(0, n); down(h, 0, n); h.Pop() [drops the last slot] *)
Definition hpop (l : list item) : list item :=
  let n := (length l - 1)%nat in
  let l1 := swap l 0 n in
  take n (fst (down n l1 0 n)).

Record bucket := mkBucket { b_items : list item; b_cap : Z }.

Definition new_bucket (cap : Z) : bucket := mkBucket [] cap.

(* b.index[value] *)
Fixpoint find_pos (v : Z) (l : list item) (k : nat) : option (nat * item) :=
  match l with
  | [] => None
  | x :: r => if it_val x =? v then Some (k, x) else find_pos v r (S k)
  end.
Definition find_item (v : Z) (l : list item) : option (nat * item) := find_pos v l 0.

Definition expired (x : item) (now : Z) : bool := it_prio x <? now.

(* Bucket.Upsert(value, priority) at instant now *)
Definition upsert (b : bucket) (v p now : Z) : bucket * bool :=
  if b_cap b <? 1 then (b, false) else
  match find_item v (b_items b) with
  | Some (pos, x) =>
      (* item.priority = priority (the object itself, wherever it sits); heap.Fix(s, item.index) *)
      (mkBucket (fix_at (<[pos := set_prio x p]> (b_items b)) (it_idx x)) (b_cap b), true)
  | None =>
      if Z.of_nat (length (b_items b)) <? b_cap b then
        (mkBucket (hpush (b_items b) v p) (b_cap b), true)
      else
        match b_items b !! 0%nat with
        | Some oldest =>
            if expired oldest now
            then (mkBucket (hpush (hpop (b_items b)) v p) (b_cap b), true)
            else (b, false)
        | None => (b, false) (* unreachable: cap >= 1 and len >= cap *)
        end
  end.

(* Bucket.IsStale() after the repair: true iff every tracked item is expired (true on the empty bucket) *)
Definition is_stale (b : bucket) (now : Z) : bool :=
  forallb (fun x => expired x now) (b_items b).

(* Bucket.IsStale() at the pinned commit: judged by the item in the LAST ARRAY SLOT *)
Definition is_stale_last_slot (b : bucket) (now : Z) : bool :=
  match last (b_items b) with
  | None => true
  | Some x => expired x now
  end.

(* ---- abstract view: the finite map value -> priority ---- *)
Definition entries (l : list item) : list (Z * Z) := map (fun x => (it_val x, it_prio x)) l.
Definition abs (b : bucket) : gmap Z Z := list_to_map (entries (b_items b)).

(* ---- the invariant, executable (used by the Run module on every recorded state) ---- *)
Definition parent (i : nat) : nat := ((i - 1) / 2)%nat.
Definition heap_ordered_b (l : list item) : bool :=
  forallb (fun i => negb (less l i (parent i))) (seq 0 (length l)).
Definition idx_coherent_b (l : list item) : bool :=
  forallb (fun '(i, x) => (it_idx x =? i)%nat) (imap (fun i x => (i, x)) l).
Definition inv_b (b : bucket) : bool :=
  heap_ordered_b (b_items b) && idx_coherent_b (b_items b)
  && bool_decide (NoDup (map it_val (b_items b)))
  && (Z.of_nat (length (b_items b)) <=? Z.max 0 (b_cap b)).
