(* The snapshot protocol of nflog.go / silence.go (identical code in both packages), as file-system operations:

     f, _ := openReplace(snapf)        os.Create(snapf + "." + hex(rand.Int63()))        Create tmp
     l.Snapshot(f)                     io.Copy(f, bytes.NewReader(b)): bytes.Reader.WriteTo issues ONE Write of the
                                       whole buffer, and none at all when the buffer is empty      Write tmp b
     f.Close()  (replaceFile.Close)    f.Sync(); f.File.Close(); os.Rename(f.Name(), snapf)         Fsync, Close, Rename

   [snapshot_ops_chunks] is the same protocol with the bytes written in arbitrary pieces (the atomicity theorem is
   proved for every chunking); [snapshot_ops] is what the code does. The harness compares the strace of the real
   Maintenance shutdown snapshot with [snapshot_ops]. *)
From AM Require Import Base.Prelude Model.FsCrash Model.Nflog Model.Wire.
From stdpp Require Import pretty.

Definition snapshot_ops_chunks (tmp target : string) (chunks : list (list N)) : list fsop :=
  Create tmp :: map (Write tmp) chunks ++ [Fsync tmp; Close tmp; Rename tmp target].

Definition code_chunks (b : list N) : list (list N) := match b with [] => [] | _ => [b] end.

Definition snapshot_ops (tmp target : string) (b : list N) : list fsop :=
  snapshot_ops_chunks tmp target (code_chunks b).

(* what the loader of the next start reads: os.Open(snapf); a missing file is an empty state, i.e. no bytes *)
Definition snapshot_bytes (s : fs) (target : string) : list N :=
  match content s target with Some b => b | None => [] end.

(* ---------- loading: decodeState + loadSnapshot of both packages ---------- *)

(* nflog.receiverKey / stateKey *)
Definition recv_key (r : wrecv) : string :=
  r_group r +:+ "/" +:+ r_integ r +:+ "/" +:+ pretty (r_idx r).
Definition mesh_key (m : wmesh) : option string :=
  match wm_entry m with
  | Some e => match we_recv e with Some r => Some (we_gkey e +:+ ":" +:+ recv_key r) | None => None end
  | None => None
  end.

(* nflog decodeState: a record without Entry or Receiver is ErrInvalidState; a later record replaces an earlier
   one with the same key. The result lists the state by key (first-appearance order; the code uses a Go map). *)
Fixpoint nflog_state (ms : list wmesh) (acc : list (string * wmesh)) : option (list (string * wmesh)) :=
  match ms with
  | [] => Some acc
  | m :: r => match mesh_key m with Some k => nflog_state r (alist_set k m acc) | None => None end
  end.
Definition nflog_load (b : list N) : res (list (string * wmesh)) :=
  match decode_nflog b with
  | Ok ms => match nflog_state ms [] with Some st => Ok st | None => Err "invalid state" end
  | Err c => Err c
  | Panic => Panic
  end.

(* silence: postprocessUnmarshalledSilence (legacy matcher list -> one matcher set, legacy list dropped) in
   decodeState, then the comments upgrade of loadSnapshot. A silence whose matchers do not compile stays in the
   state map (only the matcher index skips it): modelled as kept. *)
Definition upgrade_silence (s : wsilence) : wsilence :=
  let '(mkWS id ms st en up cs cb cm an s1 s2) := s in
  let s1' := match s1, ms with [], _ :: _ => [ms] | _, _ => s1 end in
  match cs with
  | c :: _ => mkWS id [] st en up [] (wc_author c) (wc_comment c) an s1' s2
  | [] => mkWS id [] st en up [] cb cm an s1' s2
  end.
Fixpoint silence_state (ms : list wmeshsil) (acc : list (string * wmeshsil)) : option (list (string * wmeshsil)) :=
  match ms with
  | [] => Some acc
  | m :: r => match ms_sil m with
              | Some s => let s' := upgrade_silence s in silence_state r (alist_set (ws_id s') (mkMS (Some s') (ms_exp m)) acc)
              | None => None
              end
  end.
Definition silence_load (b : list N) : res (list (string * wmeshsil)) :=
  match decode_silences b with
  | Ok ms => match silence_state ms [] with Some st => Ok st | None => Err "invalid state" end
  | Err c => Err c
  | Panic => Panic
  end.

(* what Snapshot writes for a silence: marshalMeshSilence copies the first matcher set into the legacy field *)
Definition prepare_silence (s : wsilence) : wsilence :=
  let '(mkWS id ms st en up cs cb cm an s1 s2) := s in
  match s1 with
  | m :: _ => mkWS id m st en up cs cb cm an s1 s2
  | [] => s
  end.
Definition prepare_meshsil (m : wmeshsil) : wmeshsil :=
  mkMS (option_map prepare_silence (ms_sil m)) (ms_exp m).
Definition snapshot_silences (st : list wmeshsil) : list N := encode_silences (map prepare_meshsil st).
Definition snapshot_nflog (st : list wmesh) : list N := encode_nflog st.

(* the loaded state, listed by key, of a store content in which every record has a key and keys are unique *)
Definition keyed_nflog (st : list wmesh) : list (string * wmesh) :=
  map (fun m => (default "" (mesh_key m), m)) st.
Definition nflog_keys_ok (st : list wmesh) : bool :=
  forallb (fun m => match mesh_key m with Some _ => true | None => false end) st && keys_unique (keyed_nflog st).

(* in-memory silences are in normal form: legacy matcher list and comments list empty (decodeState / loadSnapshot /
   state.merge clear them) *)
Definition sil_id (m : wmeshsil) : string := match ms_sil m with Some s => ws_id s | None => "" end.
Definition keyed_silences (st : list wmeshsil) : list (string * wmeshsil) := map (fun m => (sil_id m, m)) st.
Definition silence_normal (m : wmeshsil) : bool :=
  match ms_sil m with
  | Some s => match ws_matchers s, ws_comments s with [], [] => true | _, _ => false end
  | None => false
  end.
Definition silences_keys_ok (st : list wmeshsil) : bool :=
  forallb silence_normal st && keys_unique (keyed_silences st).
