(* The snapshot protocol of nflog.go / silence.go (identical code in both packages), as file-system operations:

     f, _ := openReplace(snapf)        os.Create(snapf + "." + hex(rand.Int63()))        Create tmp
     l.Snapshot(f)                     io.Copy(f, bytes.NewReader(b)): bytes.Reader.WriteTo issues ONE Write of the
                                       whole buffer, and none at all when the buffer is empty      Write tmp b
     f.Close()  (replaceFile.Close)    f.Sync(); f.File.Close(); os.Rename(f.Name(), snapf)         Fsync, Close, Rename

   [snapshot_ops_chunks] is the same protocol with the bytes written in arbitrary pieces (the atomicity theorem is
   proved for every chunking); [snapshot_ops] is what the code does. The harness compares the strace of the real
   Maintenance shutdown snapshot with [snapshot_ops]. *)
From AM Require Import Base.Prelude Model.FsCrash.

Definition snapshot_ops_chunks (tmp target : string) (chunks : list (list N)) : list fsop :=
  Create tmp :: map (Write tmp) chunks ++ [Fsync tmp; Close tmp; Rename tmp target].

Definition code_chunks (b : list N) : list (list N) := match b with [] => [] | _ => [b] end.

Definition snapshot_ops (tmp target : string) (b : list N) : list fsop :=
  snapshot_ops_chunks tmp target (code_chunks b).

(* what the loader of the next start reads: os.Open(snapf); a missing file is an empty state, i.e. no bytes *)
Definition snapshot_bytes (s : fs) (target : string) : list N :=
  match content s target with Some b => b | None => [] end.
