(* Timed model of ONE aggregation group key on one instance: dispatch.aggrGroup (timer, insert, flush,
   DeleteIfNotModified, destroy) + the receiver pipeline for the group's receiver (per integration:
   ClusterWaitStage -> DedupStage -> RetryStage -> SetNotifiesStage, joined by FanoutStage) + the notification-log
   entries of (group key, integration). Definitions only.

   The model is a TRACE ACCEPTOR: [step] consumes one timed event and returns [None] when the event is not
   something the code could do at that point (time going backwards, a tick that is not at the armed deadline,
   time passing an armed deadline with no flush, an attempt with no flush in flight, ...). Theorems quantify over
   all accepted event lists = all timelines x timer interleavings x receiver fault sequences.

   Alerts are identified by a number standing for their label set (fingerprint and hashAlert are injective in the
   model). Mute stages in front of the fan-out enter as the list of suppressed ids carried by the tick event
   (any suppression verdict: theorems quantify over it; C02/C03/C15 decide what it is).

   Mirrors: dispatch.go newAggrGroup/run/resetTimer/insert/flush, store.go Set/DeleteIfNotModified,
   notify.go MultiStage/FanoutStage, dedup_stage.go needsUpdate/Exec, retry_stage.go exec,
   set_notifies_stage.go, nflog.go Log (expiry), nflogpb/set.go. *)
From AM Require Import Base.Prelude.

Record alert := mkA { a_id : Z; a_starts : Z; a_ends : Z; a_upd : Z }.
Global Instance alert_eq_dec : EqDecision alert. Proof. solve_decision. Defined.

(* model.Alert.ResolvedAt *)
Definition resolved_at (a : alert) (now : Z) : bool := negb (a_ends a =? 0) && (a_ends a <=? now).

Record icfg := mkI { i_send_resolved : bool }.
Record gcfg := mkG {
  g_wait : Z; g_interval : Z; g_repeat : Z;
  g_timeout : Z;          (* timeout(group_interval) = max(group_interval, MinTimeout) + cluster wait *)
  g_retention : Z;        (* nflog retention *)
  g_ints : list icfg }.

(* ---- notification log entry of one (group key, integration) ---- *)
Record nentry := mkN { n_firing : list Z; n_resolved : list Z; n_ts : Z; n_exp : Z }.
Global Instance nentry_eq_dec : EqDecision nentry. Proof. solve_decision. Defined.

Definition subset (l m : list Z) : bool := forallb (fun x => bool_decide (x ∈ m)) l.
Definition is_nil {A} (l : list A) : bool := match l with [] => true | _ => false end.

Inductive reason := RNo | RFirst | RNewAlerts | RNewResolved | RAllResolved | RRepeat.
Global Instance reason_eq_dec : EqDecision reason. Proof. solve_decision. Defined.

(* DedupStage.needsUpdate *)
Definition needs_update (e : option nentry) (firing resolved : list Z) (send_resolved : bool) (repeat now : Z) : reason :=
  match e with
  | None => if is_nil firing then RNo else RFirst
  | Some e =>
      if negb (subset firing (n_firing e)) then (if is_nil (n_firing e) then RFirst else RNewAlerts)
      else if is_nil firing then (if is_nil (n_firing e) then RNo else RAllResolved)
      else if send_resolved && negb (subset resolved (n_resolved e)) then RNewResolved
      else if n_ts e <? now - repeat then RRepeat
      else RNo
  end.

(* nflog.Log: stamp and store unless the stored entry is from the future; state.merge refuses an entry that is
   not newer. Expiry = now + min(retention, 2*repeat) when 0 < 2*repeat < retention. *)
Definition log_exp (ret repeat now : Z) : Z :=
  if (0 <? 2 * repeat) && (2 * repeat <? ret) then now + 2 * repeat else now + ret.
Definition nf_merge (now : Z) (cur : option nentry) (e : nentry) : option nentry :=
  if n_exp e <? now then cur else
  match cur with
  | Some p => if n_ts p <? n_ts e then Some e else Some p
  | None => Some e
  end.
Definition nf_log (ret repeat now : Z) (cur : option nentry) (firing resolved : list Z) : option nentry :=
  nf_merge now cur (mkN firing resolved now (log_exp ret repeat now)).
Definition nf_gc (now : Z) (cur : option nentry) : option nentry :=
  match cur with Some e => if n_exp e <=? now then None else Some e | None => None end.

(* ---- a flush in flight ---- *)
Inductive outcome := OK | Recoverable | Unrecoverable.
Global Instance outcome_eq_dec : EqDecision outcome. Proof. solve_decision. Defined.

(* frozen alert of a flush: id, resolved-at-flush flag, UpdatedAt *)
Record falert := mkF { f_id : Z; f_res : bool; f_upd : Z }.
Global Instance falert_eq_dec : EqDecision falert. Proof. solve_decision. Defined.

Inductive chain :=
| CWait                                           (* in ClusterWaitStage / before DedupStage *)
| CRetry (r : reason) (sent : list falert) (firing resolved : list Z) (attempts : nat)
| CDone (ok : bool).

Record flight := mkFl {
  fl_tick : Z;              (* value received from the timer channel = notify.Now(ctx) *)
  fl_start : Z;             (* clock when the flush started (time.Now() in flush) *)
  fl_all : list falert;     (* every alert of the group, frozen *)
  fl_post : list falert;    (* what reaches the receiver stage (after mute stages) *)
  fl_chains : list chain;
  fl_deadline : Z }.        (* context deadline = fl_start + timeout *)

Record group := mkGr {
  gr_alerts : list alert;   (* store.Alerts, one per id, insertion order irrelevant *)
  gr_deadline : Z;          (* instant at which ag.next fires *)
  gr_flight : option flight }.

Record gstate := mkS {
  s_clock : Z;
  s_group : option group;               (* None: no live group for this key (never created / destroyed) *)
  s_nflog : list (option nentry) }.     (* per integration, persists across group incarnations *)

Inductive ev :=
| EInsert (a : alert)
| ETick (tau : Z) (suppressed : list Z)
| EDedup (i : nat)
| EAttempt (i : nat) (o : outcome)
| ECtxDone (i : nat)
| EFlushEnd
| ENflogGC
| ENflogMerge (i : nat) (e : nentry)
| ENflogLoad (i : nat) (e : nentry)     (* start-up: loadSnapshot puts the entry back unconditionally (no expiry check) *)
| EEnd.

Inductive out :=
| OFlush (alerts : list falert)                         (* what the flush hands to the pipeline *)
| ONotify (i : nat) (r : reason) (sent : list falert) (o : outcome)
| OLog (i : nat) (firing resolved : list Z) (ts : Z)       (* SetNotifiesStage called nflog.Log at ts *)
| OFlushEnd (ok : bool).
Global Instance out_eq_dec : EqDecision out. Proof. solve_decision. Defined.

(* aggrGroup.insert -> store.Alerts.SetIfNotOlder: replace by fingerprint unless the incoming alert has a strictly
   older UpdatedAt than the stored one (then the stored one is kept; repair of the C14 defect, fix dd37f22) *)
Fixpoint store_set (l : list alert) (a : alert) : list alert :=
  match l with
  | [] => [a]
  | b :: r => if a_id b =? a_id a then (if a_upd a <? a_upd b then b else a) :: r else b :: store_set r a
  end.

Fixpoint insert_sorted (x : falert) (l : list falert) : list falert :=
  match l with
  | [] => [x]
  | y :: r => if f_id x <=? f_id y then x :: l else y :: insert_sorted x r
  end.
Definition sort_f (l : list falert) : list falert := foldr insert_sorted [] l.

Definition freeze (now : Z) (a : alert) : falert := mkF (a_id a) (resolved_at a now) (a_upd a).

Definition ids_of (res : bool) (l : list falert) : list Z :=
  map f_id (filter (fun f => f_res f = res) l).

(* DeleteIfNotModified(resolvedSlice) *)
Definition delete_if_not_modified (l : list alert) (frozen : list falert) : list alert :=
  filter (fun a => negb (existsb (fun f => f_res f && (f_id f =? a_id a) && (f_upd f =? a_upd a)) frozen)) l.

Fixpoint set_nth {A} (l : list A) (i : nat) (x : A) : list A :=
  match l, i with
  | [], _ => []
  | _ :: r, O => x :: r
  | y :: r, S j => y :: set_nth r j x
  end.

Definition chain_done (c : chain) : bool := match c with CDone _ => true | _ => false end.
Definition chain_ok (c : chain) : bool := match c with CDone b => b | _ => false end.

Definition with_flight (g : group) (f : flight) : group := mkGr (gr_alerts g) (gr_deadline g) (Some f).
Definition with_chain (f : flight) (i : nat) (c : chain) : flight :=
  mkFl (fl_tick f) (fl_start f) (fl_all f) (fl_post f) (set_nth (fl_chains f) i c) (fl_deadline f).

(* the timer rules: while a live group is idle (no flush in flight) the clock cannot pass its armed deadline
   (the tick comes first); while a flush is in flight the clock cannot pass the flush's context deadline (the
   chains fail and the flush ends first). *)
Definition time_ok (s : gstate) (t : Z) : bool :=
  (s_clock s <=? t) &&
  match s_group s with
  | Some g => match gr_flight g with
              | None => t <=? Z.max (gr_deadline g) (s_clock s)
              (* a flush in flight ends at its context deadline at the latest: every chain sees ctx.Done() then *)
              | Some fl => t <=? Z.max (fl_deadline fl) (s_clock s)
              end
  | None => true
  end.

Definition step (cfg : gcfg) (s : gstate) (t : Z) (e : ev) : option (gstate * list out) :=
  if negb (time_ok s t) then None else
  match e with
  | EInsert a =>
      match s_group s with
      | Some g => Some (mkS t (Some (mkGr (store_set (gr_alerts g) a) (gr_deadline g) (gr_flight g))) (s_nflog s), [])
      | None =>
          (* groupAlert: new group; first flush after group_wait, at once if the alert is older than group_wait *)
          let d := if a_starts a + g_wait cfg <? t then t else t + g_wait cfg in
          Some (mkS t (Some (mkGr [a] d None)) (s_nflog s), [])
      end
  | ETick tau suppressed =>
      match s_group s with
      | Some g =>
          match gr_flight g with
          | Some _ => None
          | None =>
              if negb ((tau =? gr_deadline g) && (tau <=? t)) then None else
              let all := sort_f (map (freeze t) (gr_alerts g)) in
              let post := filter (fun f => negb (bool_decide (f_id f ∈ suppressed))) all in
              let chains := if is_nil post then [] else map (fun _ => CWait) (g_ints cfg) in
              let fl := mkFl tau t all post chains (t + g_timeout cfg) in
              Some (mkS t (Some (mkGr (gr_alerts g) (t + g_interval cfg) (Some fl))) (s_nflog s), [OFlush all])
          end
      | None => None
      end
  | EDedup i =>
      match s_group s with
      | Some g =>
          match gr_flight g with
          | Some fl =>
              match fl_chains fl !! i, g_ints cfg !! i, s_nflog s !! i with
              | Some CWait, Some ic, Some ent =>
                  let firing := ids_of false (fl_post fl) in
                  let resolved := ids_of true (fl_post fl) in
                  let r := needs_update ent firing resolved (i_send_resolved ic) (g_repeat cfg) (fl_tick fl) in
                  if bool_decide (r = RNo) then
                    Some (mkS t (Some (with_flight g (with_chain fl i (CDone true)))) (s_nflog s), [])
                  else if negb (i_send_resolved ic) && is_nil firing then
                    (* RetryStage: nothing to send; SetNotifiesStage still logs (clears the firing set) *)
                    Some (mkS t (Some (with_flight g (with_chain fl i (CDone true))))
                              (set_nth (s_nflog s) i (nf_log (g_retention cfg) (g_repeat cfg) t ent firing resolved)),
                          [OLog i firing resolved t])
                  else
                    let sent := if i_send_resolved ic then fl_post fl else filter (fun f => negb (f_res f)) (fl_post fl) in
                    Some (mkS t (Some (with_flight g (with_chain fl i (CRetry r sent firing resolved 0)))) (s_nflog s), [])
              | _, _, _ => None
              end
          | None => None
          end
      | None => None
      end
  | EAttempt i o =>
      match s_group s with
      | Some g =>
          match gr_flight g with
          | Some fl =>
              match fl_chains fl !! i, g_ints cfg !! i, s_nflog s !! i with
              | Some (CRetry r sent firing resolved n), Some ic, Some ent =>
                  match o with
                  | OK =>
                      Some (mkS t (Some (with_flight g (with_chain fl i (CDone true))))
                                (set_nth (s_nflog s) i (nf_log (g_retention cfg) (g_repeat cfg) t ent firing resolved)),
                            [ONotify i r sent OK; OLog i firing resolved t])
                  | Recoverable =>
                      Some (mkS t (Some (with_flight g (with_chain fl i (CRetry r sent firing resolved (S n))))) (s_nflog s),
                            [ONotify i r sent Recoverable])
                  | Unrecoverable =>
                      Some (mkS t (Some (with_flight g (with_chain fl i (CDone false)))) (s_nflog s),
                            [ONotify i r sent Unrecoverable])
                  end
              | _, _, _ => None
              end
          | None => None
          end
      | None => None
      end
  | ECtxDone i =>
      match s_group s with
      | Some g =>
          match gr_flight g with
          | Some fl =>
              match fl_chains fl !! i with
              | Some (CDone _) | None => None
              | Some _ =>
                  if t <? fl_deadline fl then None else
                  Some (mkS t (Some (with_flight g (with_chain fl i (CDone false)))) (s_nflog s), [])
              end
          | None => None
          end
      | None => None
      end
  | EFlushEnd =>
      match s_group s with
      | Some g =>
          match gr_flight g with
          | Some fl =>
              if negb (forallb chain_done (fl_chains fl)) then None else
              let ok := forallb chain_ok (fl_chains fl) in
              if ok then
                let rest := delete_if_not_modified (gr_alerts g) (fl_all fl) in
                if is_nil rest then Some (mkS t None (s_nflog s), [OFlushEnd true])
                else Some (mkS t (Some (mkGr rest (gr_deadline g) None)) (s_nflog s), [OFlushEnd true])
              else Some (mkS t (Some (mkGr (gr_alerts g) (gr_deadline g) None)) (s_nflog s), [OFlushEnd false])
          | None => None
          end
      | None => None
      end
  | ENflogGC => Some (mkS t (s_group s) (map (nf_gc t) (s_nflog s)), [])
  | ENflogMerge i e =>
      match s_nflog s !! i with
      | Some ent => Some (mkS t (s_group s) (set_nth (s_nflog s) i (nf_merge t ent e)), [])
      | None => None
      end
  | ENflogLoad i e =>
      match s_nflog s !! i with
      | Some _ => Some (mkS t (s_group s) (set_nth (s_nflog s) i (Some e)), [])
      | None => None
      end
  | EEnd => Some (mkS t (s_group s) (s_nflog s), [])
  end.

Fixpoint run (cfg : gcfg) (s : gstate) (h : list (Z * ev)) : option (gstate * list out) :=
  match h with
  | [] => Some (s, [])
  | (t, e) :: r =>
      match step cfg s t e with
      | Some (s1, o1) => match run cfg s1 r with Some (s2, o2) => Some (s2, o1 ++ o2) | None => None end
      | None => None
      end
  end.

Definition init (cfg : gcfg) (t0 : Z) : gstate := mkS t0 None (map (fun _ => None) (g_ints cfg)).
