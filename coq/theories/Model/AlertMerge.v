(* Executable model of alert/alert.go: the internal alert, Resolved/ResolvedAt (prometheus/common model.Alert)
   and Alert.Merge. Definitions only.

   Time: Z nanoseconds; Go's zero time.Time is the value 0 (DESIGN 1.1), every real instant is > 0, so
   Before/After/IsZero are <, >, =? 0.
   Labels / annotations: association lists sorted by name with unique names (the harness emits them so);
   the fingerprint of an alert is its label list itself (injective, DESIGN I9). *)
From AM Require Import Base.Prelude.

Notation lset := (list (string * string)) (only parsing).

Record alert := mkAlert {
  a_labels : lset; a_annots : lset;
  a_starts : Z; a_ends : Z;
  a_gen : string;           (* GeneratorURL *)
  a_updated : Z;            (* UpdatedAt, "the authoritative timestamp" *)
  a_timeout : bool }.       (* Timeout: EndsAt was defaulted from resolve_timeout *)
Global Instance alert_eq_dec : EqDecision alert. Proof. solve_decision. Defined.

(* model.Alert.ResolvedAt(ts): if EndsAt.IsZero() false else !EndsAt.After(ts).
   model.Alert.Resolved() = ResolvedAt(time.Now()) — the instant is an explicit argument here. *)
Definition resolved_at (now : Z) (a : alert) : bool :=
  if a_ends a =? 0 then false else negb (now <? a_ends a).

(* Alert.Merge after the "o is the younger" normalisation: res := *o; earliest start; end by the rules. *)
Definition merge_core (now : Z) (a o : alert) : alert :=
  let s := if a_starts a <? a_starts o then a_starts a else a_starts o in
  let e :=
    if resolved_at now o
    then (if resolved_at now a && (a_ends o <? a_ends a) then a_ends a else a_ends o)
    else (if (a_ends o <? a_ends a) && negb (a_timeout a) then a_ends a else a_ends o) in
  mkAlert (a_labels o) (a_annots o) s e (a_gen o) (a_updated o) (a_timeout o).

(* a.Merge(o): if o.UpdatedAt.Before(a.UpdatedAt) { return o.Merge(a) } *)
Definition merge (now : Z) (a o : alert) : alert :=
  if a_updated o <? a_updated a then merge_core now o a else merge_core now a o.
