(* Executable model of timeinterval/timeinterval.go (ContainsTime, clamp, daysInMonth, the range validators,
   parseTime, Intervener.Mutes) and of notify/mute.go (TimeActiveStage.Exec, TimeMuteStage.Exec) with the group
   marker of marker/group.go. Definitions only.

   External: the IANA zone database. `tz name unix` = UTC offset in seconds of zone `name` at instant `unix`
   (what Go's time.Time.In(loc) uses). It is an explicit argument everywhere; theorems quantify over it.
   daysInMonth(t) is time.Date(year, month+1, 0, 12:00, UTC).Day() (after fix 62b0975; it used t.Location(),
   which gave a 1-day December 1994 in zones that skipped 1994-12-31): the model uses the month length of
   (year, month); the harness compares it with the real daysInMonth on every instant. *)
From AM Require Import Base.Prelude Model.Calendar.

Record rng := mkR { r_b : Z; r_e : Z }.
Global Instance rng_eq_dec : EqDecision rng. Proof. solve_decision. Defined.

(* A Go slice field: None = nil (field absent in the YAML), Some [] = present but empty (DESIGN I3). *)
Record tinterval := mkTI {
  ti_times : option (list rng);     (* StartMinute, EndMinute *)
  ti_wdays : option (list rng);
  ti_doms : option (list rng);
  ti_months : option (list rng);
  ti_years : option (list rng);
  ti_loc : option string }.
Global Instance tinterval_eq_dec : EqDecision tinterval. Proof. solve_decision. Defined.

(* func clamp(n, min, max int) int *)
Definition clamp (n lo hi : Z) : Z := if n <=? lo then lo else if hi <=? n then hi else n.

Definition time_match (c : civil) (r : rng) : bool := (r_b r <=? c_min c) && (c_min c <? r_e r).
Definition incl_match (v : Z) (r : rng) : bool := (r_b r <=? v) && (v <=? r_e r).

(* one iteration of the DaysOfMonth loop body: false = `continue` or the final test failed *)
Definition dom_match (dim day : Z) (r : rng) : bool :=
  let b := if r_b r <? 0 then dim + r_b r + 1 else r_b r in
  let e := if r_e r <? 0 then dim + r_e r + 1 else r_e r in
  if dim <? b then false else
  let b' := clamp b (- dim) dim in
  let e' := clamp e (- dim) dim in
  (b' <=? day) && (day <=? e').

(* `if field != nil { in := false; for ... { if test { in = true; break } }; if !in { return false } }` *)
Definition field_ok {A} (f : option (list A)) (test : A -> bool) : bool :=
  match f with None => true | Some l => existsb test l end.

(* ContainsTime after the location conversion, on the civil fields of t *)
Definition contains_fields (ti : tinterval) (c : civil) : bool :=
  field_ok (ti_times ti) (time_match c) &&
  field_ok (ti_doms ti) (dom_match (days_in_month (c_year c) (c_month c)) (c_day c)) &&
  field_ok (ti_months ti) (incl_match (c_month c)) &&
  field_ok (ti_wdays ti) (incl_match (c_wday c)) &&
  field_ok (ti_years ti) (incl_match (c_year c)).

(* ---- the declarative calendar statement, executable (proved equivalent in Proofs/TimeIntervalProofs.v) ---- *)
Definition resolve_dom (dim v : Z) : Z := if v <? 0 then dim + v + 1 else v.
Definition spec_fields (ti : tinterval) (c : civil) : bool :=
  let dim := days_in_month (c_year c) (c_month c) in
  field_ok (ti_times ti) (fun r => (r_b r <=? c_min c) && (c_min c <? r_e r)) &&
  field_ok (ti_wdays ti) (fun r => (r_b r <=? c_wday c) && (c_wday c <=? r_e r)) &&
  field_ok (ti_doms ti) (fun r => (resolve_dom dim (r_b r) <=? c_day c) && (c_day c <=? resolve_dom dim (r_e r))
                                  && (1 <=? c_day c) && (c_day c <=? dim)) &&
  field_ok (ti_months ti) (fun r => (r_b r <=? c_month c) && (c_month c <=? r_e r)) &&
  field_ok (ti_years ti) (fun r => (r_b r <=? c_year c) && (c_year c <=? r_e r)).

(* offset used by ContainsTime(t): the interval's location if set, otherwise t's own location (own_off) *)
Definition eff_off (tz : string -> Z -> Z) (ti : tinterval) (unix own_off : Z) : Z :=
  match ti_loc ti with Some z => tz z unix | None => own_off end.

Definition contains (tz : string -> Z -> Z) (ti : tinterval) (unix own_off : Z) : bool :=
  contains_fields ti (civil_fields (unix + eff_off tz ti unix own_off)).

(* ---- validators: what the Unmarshal functions accept, on the parsed integers ---- *)
Definition valid_time (r : rng) : bool := (0 <=? r_b r) && (r_e r <=? 1440) && (r_b r <? r_e r).
Definition valid_wday (r : rng) : bool :=
  (r_b r <=? r_e r) && (0 <=? r_b r) && (r_b r <=? 6) && (0 <=? r_e r) && (r_e r <=? 6).
Definition valid_dom (r : rng) : bool :=
  let b := r_b r in let e := r_e r in
  negb ((b =? 0) || (b <? -31) || (31 <? b)) &&
  negb ((e =? 0) || (e <? -31) || (31 <? e)) &&
  negb ((b <? 0) && (0 <? e)) &&
  ((if b <? 0 then 28 + b else b) <=? (if e <? 0 then 28 + e else e)).
(* MonthRange.UnmarshalYAML and YearRange.UnmarshalYAML only check begin <= end *)
Definition valid_month (r : rng) : bool := r_b r <=? r_e r.
Definition valid_year (r : rng) : bool := r_b r <=? r_e r.

Definition field_valid (f : option (list rng)) (v : rng -> bool) : bool :=
  match f with None => true | Some l => forallb v l end.
Definition field_nonempty {A} (f : option (list A)) : bool :=
  match f with Some [] => false | _ => true end.

Definition ti_valid (ti : tinterval) : bool :=
  field_valid (ti_times ti) valid_time && field_valid (ti_wdays ti) valid_wday &&
  field_valid (ti_doms ti) valid_dom && field_valid (ti_months ti) valid_month &&
  field_valid (ti_years ti) valid_year.
(* the domain of the property (DESIGN I3): every field absent or non-empty *)
Definition ti_proper (ti : tinterval) : bool :=
  field_nonempty (ti_times ti) && field_nonempty (ti_wdays ti) && field_nonempty (ti_doms ti) &&
  field_nonempty (ti_months ti) && field_nonempty (ti_years ti).

(* ---- text level: parseTime, strconv.Atoi, stringableRangeFromString (ASCII input) ---- *)
Definition digit_val (a : Ascii.ascii) : option Z :=
  let n := Z.of_N (Ascii.N_of_ascii a) in if (48 <=? n) && (n <=? 57) then Some (n - 48) else None.

Definition is_ch (code : N) (a : Ascii.ascii) : bool := (Ascii.N_of_ascii a =? code)%N.

(* parseTime: regexp ^((([01][0-9])|(2[0-3])):[0-5][0-9])$|(^24:00$), value = 60*HH + MM *)
Definition parse_time (s : string) : option Z :=
  match s with
  | String h1 (String h2 (String c (String m1 (String m2 EmptyString)))) =>
      match digit_val h1, digit_val h2, digit_val m1, digit_val m2 with
      | Some a, Some b, Some x, Some y =>
          if negb (is_ch 58 c) then None else
          let hh := 10 * a + b in let mm := 10 * x + y in
          if ((hh <=? 23) && (mm <=? 59)) || ((hh =? 24) && (mm =? 0)) then Some (60 * hh + mm) else None
      | _, _, _, _ => None
      end
  | _ => None
  end.

(* TimeRange.UnmarshalYAML on the two strings ("" = missing) *)
Definition parse_time_range (st en : string) : option rng :=
  if (String.eqb st "") || (String.eqb en "") then None else
  match parse_time st, parse_time en with
  | Some a, Some b => if b <=? a then None else Some (mkR a b)
  | _, _ => None
  end.

Fixpoint digits_val (s : string) (acc : Z) : option Z :=
  match s with
  | EmptyString => Some acc
  | String a r => match digit_val a with Some d => digits_val r (10 * acc + d) | None => None end
  end.
(* strconv.Atoi: optional sign, at least one decimal digit, must fit int64 *)
Definition atoi (s : string) : option Z :=
  let '(neg, body) := match s with
                      | String a r => if is_ch 45 a then (true, r)
                                      else if is_ch 43 a then (false, r) else (false, s)
                      | EmptyString => (false, s) end in
  match body with
  | EmptyString => None
  | _ => match digits_val body 0 with
         | Some v => let v' := if neg then - v else v in
                     if (- 9223372036854775808 <=? v') && (v' <=? 9223372036854775807) then Some v' else None
         | None => None
         end
  end.

Definition lower_ascii (a : Ascii.ascii) : Ascii.ascii :=
  let n := Ascii.N_of_ascii a in if ((65 <=? n) && (n <=? 90))%N then Ascii.ascii_of_N (n + 32) else a.
Fixpoint lower (s : string) : string :=
  match s with EmptyString => EmptyString | String a r => String (lower_ascii a) (lower r) end.

(* strings.Split(s, ":") *)
Fixpoint split_colon (s : string) (cur : string) : list string :=
  match s with
  | EmptyString => [cur]
  | String a r => if is_ch 58 a then cur :: split_colon r "" else split_colon r (cur +:+ String a "")
  end.

Definition weekday_names : list (string * Z) :=
  [("sunday", 0); ("monday", 1); ("tuesday", 2); ("wednesday", 3); ("thursday", 4); ("friday", 5); ("saturday", 6)].
Definition month_names : list (string * Z) :=
  [("january", 1); ("february", 2); ("march", 3); ("april", 4); ("may", 5); ("june", 6); ("july", 7);
   ("august", 8); ("september", 9); ("october", 10); ("november", 11); ("december", 12)].
Fixpoint assoc (k : string) (l : list (string * Z)) : option Z :=
  match l with [] => None | (k', v) :: r => if String.eqb k k' then Some v else assoc k r end.

Inductive rkind := KWday | KDom | KMonth | KYear.
Definition member (k : rkind) (s : string) : option Z :=
  match k with
  | KWday => assoc s weekday_names
  | KMonth => match assoc s month_names with Some v => Some v | None => atoi s end
  | KDom | KYear => atoi s
  end.
Definition kind_valid (k : rkind) : rng -> bool :=
  match k with KWday => valid_wday | KDom => valid_dom | KMonth => valid_month | KYear => valid_year end.

(* <Kind>Range.UnmarshalYAML on the scalar string: stringableRangeFromString + the validator *)
Definition parse_range (k : rkind) (s : string) : option rng :=
  let parts := split_colon (lower s) "" in
  let r := match parts with
           | [a] => match member k a with Some v => Some (mkR v v) | None => None end
           | [a; b] => match member k a, member k b with Some x, Some y => Some (mkR x y) | _, _ => None end
           | _ => None
           end in
  match r with Some x => if kind_valid k x then Some x else None | None => None end.

(* ---- config.Load's checks on interval names (config.go Config.UnmarshalYAML, checkTimeInterval) ----
   defined: names of mute_time_intervals followed by those of time_intervals; each must be non-empty and unique
   across both lists; the root route may not use any; every name used by any route must be defined. *)
Definition cfg_names_ok (defined root_used : list string) (routes_used : list (list string)) : bool :=
  forallb (fun n => negb (String.eqb n "")) defined && bool_decide (NoDup defined) && beq root_used [] &&
  forallb (forallb (fun n => bool_decide (n ∈ defined))) routes_used.

(* ---- Intervener.Mutes ---- *)
Definition intervals := list (string * list tinterval).   (* map name -> intervals (keys unique) *)
Fixpoint lookup_iv (n : string) (m : intervals) : option (list tinterval) :=
  match m with [] => None | (k, v) :: r => if String.eqb n k then Some v else lookup_iv n r end.

(* names appended once per containing interval, in order; Err on the first unknown name.
   Mutes calls ContainsTime(now.UTC()): own offset 0. *)
Fixpoint mutes_names (tz : string -> Z -> Z) (m : intervals) (names : list string) (now : Z) : res (list string) :=
  match names with
  | [] => Ok []
  | n :: r =>
      match lookup_iv n m with
      | None => Err "unknown-interval"
      | Some tis =>
          match mutes_names tz m r now with
          | Ok rest => Ok (map (fun _ => n) (List.filter (fun ti => contains tz ti now 0) tis) ++ rest)
          | e => e
          end
      end
  end.
Definition mutes (tz : string -> Z -> Z) (m : intervals) (names : list string) (now : Z) : res (bool * list string) :=
  match mutes_names tz m names now with
  | Ok l => Ok (negb (beq l []), l)
  | Err c => Err c
  | Panic => Panic
  end.

(* ---- the two stages ---- *)
(* the context values the stages read; None = key absent. `Some []` for the name lists = set but empty/nil *)
Record sctx := mkCtx {
  x_route : option string; x_gkey : option string;
  x_mute : option (list string); x_active : option (list string); x_now : option Z }.

(* outcome of Exec: did the alerts pass (true = returned unchanged, false = nil) and the error class;
   marker: what the stage passed to SetMuted for (route, gkey), None = SetMuted not called *)
Record sres := mkSRes { s_pass : bool; s_err : option string; s_set : option (list string) }.
Global Instance sres_eq_dec : EqDecision sres. Proof. solve_decision. Defined.

Definition time_mute_stage (tz : string -> Z -> Z) (m : intervals) (x : sctx) : sres :=
  match x_route x with None => mkSRes false (Some "route-id-missing") None | Some _ =>
  match x_gkey x with None => mkSRes false (Some "group-key-missing") None | Some _ =>
  match x_mute x with None => mkSRes true None (Some []) | Some names =>
  match x_now x with None => mkSRes true (Some "now-missing") (Some []) | Some now =>
  match names with [] => mkSRes true None (Some []) | _ =>
  match mutes tz m names now with
  | Ok (muted, by_) => mkSRes (negb muted) None (Some by_)
  | _ => mkSRes true (Some "mutes-error") None
  end end end end end end.

Definition time_active_stage (tz : string -> Z -> Z) (m : intervals) (x : sctx) : sres :=
  match x_route x with None => mkSRes false (Some "route-id-missing") None | Some _ =>
  match x_gkey x with None => mkSRes false (Some "group-key-missing") None | Some _ =>
  match x_active x with None => mkSRes true None (Some []) | Some names =>
  match names with [] => mkSRes true None (Some []) | _ =>
  match x_now x with None => mkSRes true (Some "now-missing") (Some []) | Some now =>
  match mutes tz m names now with
  | Ok (active, _) => mkSRes active None (Some (if active then [] else names))
  | _ => mkSRes true (Some "mutes-error") None
  end end end end end end.

(* MultiStage{tas, tms}.Exec on a non-empty alert list: stops after a stage that returns no alerts or an error
   (then returns nil alerts). Result: alerts reach the next stage?, error class, final marker value given the
   value before (None = no entry for the group). *)
Definition apply_set (old : option (list string)) (s : option (list string)) : option (list string) :=
  match s with Some v => Some v | None => old end.
Definition time_stages (tz : string -> Z -> Z) (m : intervals) (x : sctx) (marker : option (list string))
  : bool * option string * option (list string) :=
  let a := time_active_stage tz m x in
  let mk1 := apply_set marker (s_set a) in
  match s_err a with Some e => (false, Some e, mk1) | None =>
  if negb (s_pass a) then (false, None, mk1) else
  let b := time_mute_stage tz m x in
  let mk2 := apply_set mk1 (s_set b) in
  match s_err b with Some e => (false, Some e, mk2) | None => (s_pass b, None, mk2) end end.

(* the successive flushes of one aggregation group at the tick instants `nows`: each runs both stages with the
   route's two name lists; the marker left by one flush is what the next one finds *)
Fixpoint flush_seq (tz : string -> Z -> Z) (m : intervals) (route gkey : string) (mute active : list string)
  (marker : option (list string)) (nows : list Z) : list (bool * option string * option (list string)) :=
  match nows with
  | [] => []
  | now :: r =>
      let out := time_stages tz m (mkCtx (Some route) (Some gkey) (Some mute) (Some active) (Some now)) marker in
      out :: flush_seq tz m route gkey mute active (snd out) r
  end.

(* GroupMarker.Muted: (names, len(names) > 0) *)
Definition marker_muted (marker : option (list string)) : list string * bool :=
  match marker with Some l => (l, negb (beq l [])) | None => ([], false) end.

(* ---- dispatch.NewRoute: which interval lists a route works with ----
   newRoute copies the parent's RouteOpts (receiver, group_by, timers, labels are inherited) and then sets
   opts.MuteTimeIntervals / opts.ActiveTimeIntervals to the route's OWN configured lists unconditionally:
   the two lists are never inherited. route_lists = the effective (mute, active) lists of every route of a
   configured tree, depth-first pre-order. *)
Inductive rnode := RNode (mute active : list string) (kids : list rnode).
Fixpoint route_lists (r : rnode) : list (list string * list string) :=
  match r with
  | RNode mu ac kids =>
      (mu, ac) :: (fix go (l : list rnode) := match l with [] => [] | k :: t => route_lists k ++ go t end) kids
  end.
