(* cluster.Peer.Position: the rank of this instance's name among the names of the alive members, in Go string
   (byte-wise) order.  The pipeline waits Position() * peer_timeout before consulting the notification log, so that
   instances take turns; C08's "no duplicates when healthy" needs the positions of the members to be pairwise
   different.  Definitions only. *)
From AM Require Import Base.Prelude.

(* Go's < on strings is byte-wise lexicographic = Coq's String.compare on the ascii codes *)
Definition name_ltb (a b : string) : bool := String.ltb a b.

(* sort.Slice(all, by name); count the members before self *)
Definition position (self : string) (members : list string) : nat :=
  length (List.filter (fun n => name_ltb n self) members).
