(* notify/util.go TruncateInRunes / TruncateInBytes (as repaired by the fix for F7: the initial slice of
   TruncateInBytes is bounded by len(r)), and Retrier.Check. Strings are byte lists (Model/Utf8.v).
   Go panics (negative n reaching a slice expression or strings.Repeat) are the Panic outcome. *)
From AM Require Export Base.Prelude Model.Utf8.

(* truncationMarker = "…" = U+2026 = E2 80 A6 *)
Definition marker_rune : Z := 8230.
Definition marker : list Z := [226; 128; 166].

(* func TruncateInRunes(s string, n int) (string, bool) *)
Definition truncate_runes (s : list Z) (n : Z) : res (list Z * bool) :=
  let r := to_runes s in
  if Z.of_nat (length r) <=? n then Ok (s, false)
  else if n <=? 3 then
    if n <? 0 then Panic (* r[:n] with negative n *)
    else Ok (of_runes (take (Z.to_nat n) r), true)
  else Ok (of_runes (take (Z.to_nat (n - 1)) r) ++ marker, true).

(* the loop  for len(string(truncatedRunes)) > truncationTarget { truncatedRunes = r[:len(truncatedRunes)-1] }
   k = len(truncatedRunes). With k = 0 the string is empty and the loop exits (target >= 1 here). *)
Fixpoint shrink (r : list Z) (target : Z) (k : nat) : nat :=
  match k with
  | O => O
  | S k' => if target <? Z.of_nat (length (of_runes (take k r))) then shrink r target k' else k
  end.

(* func TruncateInBytes(s string, n int) (string, bool) *)
Definition truncate_bytes (s : list Z) (n : Z) : res (list Z * bool) :=
  if Z.of_nat (length s) <=? n then Ok (s, false)
  else if n <=? 3 then
    if n =? 3 then Ok (marker, true)
    else if n <? 0 then Panic (* strings.Repeat: negative Repeat count *)
    else Ok (repeat 46 (Z.to_nat n), true)
  else
    let r := to_runes s in
    let target := n - 3 in
    let k0 := Z.to_nat (Z.min target (Z.of_nat (length r))) in (* r[:min(truncationTarget, len(r))] *)
    Ok (of_runes (take (shrink r target k0) r) ++ marker, true).

(* func (r *Retrier) Check(statusCode int, body io.Reader) (bool, error): (retry, failed) *)
Definition retrier_check (retry_codes : list Z) (code : Z) : bool * bool :=
  if Z.quot code 100 =? 2 then (false, false)
  else ((Z.quot code 100 =? 5) || bool_decide (code ∈ retry_codes), true).
