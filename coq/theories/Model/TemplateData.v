(* template/template.go Template.Data and notify/webhook/webhook.go truncateAlerts / Message (C20: "faithful
   bounded payload"). Label sets are association lists with unique names, in the order the harness renders them
   (sorted by name); Go map lookups `m[k]` are `lookup_def`. Time is Z (ns); the zero time.Time is 0.
   Receiver, ExternalURL, RouteLabels, NotificationReason, GeneratorURL, Fingerprint are copied through by the
   code and not modelled. Definitions only. *)
From AM Require Export Base.Prelude.

Notation kv := (list (string * string)).

Fixpoint kv_get (k : string) (m : kv) : option string :=
  match m with
  | [] => None
  | (k', v) :: r => if String.eqb k k' then Some v else kv_get k r
  end.

Record alert := mkAlert { a_labels : kv; a_annots : kv; a_starts : Z; a_ends : Z }.

(* model.Alert.ResolvedAt(now): EndsAt set and not after now *)
Definition resolved_at (now : Z) (a : alert) : bool := negb (a_ends a =? 0) && (a_ends a <=? now).
Definition firing_at (now : Z) (a : alert) : bool := negb (resolved_at now a).

(* template.Alert (what a template / the webhook JSON sees of one alert). alert.Alerts(...) hides EndsAt of an
   alert that is not resolved yet. *)
Record talert := mkTAlert { t_firing : bool; t_labels : kv; t_annots : kv; t_starts : Z; t_ends : Z }.
Definition view (now : Z) (a : alert) : talert :=
  mkTAlert (firing_at now a) (a_labels a) (a_annots a) (a_starts a)
           (if resolved_at now a then a_ends a else 0).

(* commonLabels := alerts[0].Labels.Clone(); for every later alert delete the names whose value differs.
   `present k v m` is the comparison the code makes for one later alert. *)
Definition present (k v : string) (m : kv) : bool := beq (kv_get k m) (Some v).
Definition common (sel : alert -> kv) (alerts : list alert) : kv :=
  match alerts with
  | [] => []
  | a0 :: rest => filter (fun p => forallb (fun a => present (fst p) (snd p) (sel a)) rest) (sel a0)
  end.

Record data := mkData {
  d_firing : bool;              (* Status == "firing" *)
  d_alerts : list talert;
  d_group : kv;                 (* GroupLabels *)
  d_common_labels : kv;
  d_common_annots : kv }.

(* func (t *Template) Data(recv, groupLabels, routeLabels, reason, alerts...) *)
Definition template_data (now : Z) (group : kv) (alerts : list alert) : data :=
  mkData (existsb (firing_at now) alerts) (map (view now) alerts) group
         (common a_labels alerts) (common a_annots alerts).

(* func truncateAlerts(maxAlerts uint64, alerts []*types.Alert) ([]*types.Alert, uint64) *)
Definition truncate_alerts {A} (max : Z) (alerts : list A) : list A * Z :=
  if negb (max =? 0) && (max <? Z.of_nat (length alerts))
  then (take (Z.to_nat max) alerts, Z.of_nat (length alerts) - max)
  else (alerts, 0).

(* webhook Message: Data over the truncated batch + TruncatedAlerts *)
Definition webhook_message (max now : Z) (group : kv) (alerts : list alert) : data * Z :=
  let '(l, t) := truncate_alerts max alerts in (template_data now group l, t).
