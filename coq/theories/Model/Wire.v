(* Protobuf wire format subset used by the snapshot files (C11). Definitions only.
   (grown incrementally; see the header of the final version) *)
From AM Require Import Base.Prelude.

(* bytes are [list N]; Coq strings are byte strings (one ascii = one byte) *)
Fixpoint s2b (s : string) : list N :=
  match s with
  | EmptyString => []
  | String a r => Ascii.N_of_ascii a :: s2b r
  end.
Definition b2s (l : list N) : string := bs l.
