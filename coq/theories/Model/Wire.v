(* Protobuf wire format subset used by the snapshot files of nflog and silences (C11). Definitions only.

   Mirrors (behaviour, not code): google.golang.org/protobuf v1.36 `protowire` (ConsumeVarint, ConsumeTag,
   ConsumeFieldValue incl. groups), `internal/impl` message/field decoders (unknown fields skipped, known field with
   another wire type treated as unknown, last scalar wins, repeated sub-message occurrences MERGED, packed and
   unpacked repeated varints, map entries, oneof, proto3 UTF-8 validation of string fields, uint32/int32/enum
   truncation), `protodelim` framing (varint length, 4 MiB default MaxSize, clean EOF only between records).
   Field numbers are the ones in nflog/nflogpb/nflog.proto and silence/silencepb/silence.proto (documented
   literals; they are generated code constants, tied by the codec differential of the harness).

   bytes are [list N] (values < 256 in every encoder output); Coq strings are byte strings. *)
From AM Require Import Base.Prelude Model.Nflog.

Fixpoint s2b (s : string) : list N :=
  match s with
  | EmptyString => []
  | String a r => Ascii.N_of_ascii a :: s2b r
  end.
Definition b2s (l : list N) : string := bs l.

(* ---------- varint (LEB128, at most 10 bytes, value < 2^64) ---------- *)
Fixpoint varint_enc_fuel (fuel : nat) (n : N) : list N :=
  match fuel with
  | O => []
  | S f => if (n <? 128)%N then [n] else ((128 + n mod 128) :: varint_enc_fuel f (n / 128))%N
  end.
Definition varint_enc (n : N) : list N := varint_enc_fuel 10 n.

(* protowire.ConsumeVarint: k = bytes still allowed; the 10th byte must be 0 or 1; non-minimal encodings accepted *)
Fixpoint varint_dec_aux (k : nat) (b : list N) : option (N * list N) :=
  match k with
  | O => None
  | S k' =>
      match b with
      | [] => None
      | y :: r =>
          if (y <? 128)%N then (if Nat.eqb k' 0 && (2 <=? y)%N then None else Some (y, r))
          else match varint_dec_aux k' r with
               | Some (v, r') => Some ((y - 128) + 128 * v, r')%N
               | None => None
               end
      end
  end.
Definition varint_dec (b : list N) : option (N * list N) := varint_dec_aux 10 b.

(* ---------- loops with explicit fuel ---------- *)
Inductive pres (A : Type) := POk (a : A) | PErr | PFuel.
Arguments POk {A} a.
Arguments PErr {A}.
Arguments PFuel {A}.

(* parse items with p until the input is empty *)
Fixpoint many {A} (p : list N -> option (A * list N)) (fuel : nat) (b : list N) : pres (list A) :=
  match b with
  | [] => POk []
  | _ => match fuel with
         | O => PFuel
         | S f => match p b with
                  | None => PErr
                  | Some (x, r) => match many p f r with POk xs => POk (x :: xs) | PErr => PErr | PFuel => PFuel end
                  end
         end
  end.
(* fuel = length of the input is always enough when p consumes at least one byte (Proofs/WireProofs.v:
   many_fuel_enough); the internal loops therefore read "out of fuel" as an error *)
Definition many_opt {A} (p : list N -> option (A * list N)) (b : list N) : option (list A) :=
  match many p (length b) b with POk xs => Some xs | _ => None end.

(* ---------- fields ---------- *)
Inductive wval :=
| WVar (n : N)            (* wire type 0 *)
| WI64 (b : list N)       (* wire type 1: 8 bytes *)
| WLen (b : list N)       (* wire type 2 *)
| WI32 (b : list N)       (* wire type 5: 4 bytes *)
| WGroup.                 (* wire type 3: a (deprecated) group, skipped *)
Notation field := (N * wval)%type (only parsing).

(* the first n bytes and the rest; None when fewer than n bytes are left (cost: n steps, whatever the input size) *)
Fixpoint split_exact_aux (b : list N) (n : N) : option (list N * list N) :=
  if (n =? 0)%N then Some ([], b) else
  match b with
  | [] => None
  | x :: r => match split_exact_aux r (N.pred n) with Some (h, t) => Some (x :: h, t) | None => None end
  end.
Definition split_exact (n : N) (b : list N) : option (list N * list N) := split_exact_aux b n.

(* protowire.ConsumeFieldValue for a start-group tag: skip nested fields up to the matching end-group tag.
   stack = field numbers of the open groups (innermost first). Inside groups protowire.ConsumeTag accepts field
   numbers up to MaxInt32. Nesting deeper than DefaultRecursionLimit is an error. *)
Definition max_group_depth : N := 10001.
Fixpoint skip_groups (fuel : nat) (stack : list N) (b : list N) : pres (list N) :=
  match stack with
  | [] => POk b
  | top :: stack' =>
      match fuel with
      | O => PFuel
      | S f =>
          match varint_dec b with
          | None => PErr
          | Some (tag, r) =>
              let num := (tag / 8)%N in
              if (num <? 1)%N || (2147483647 <? num)%N then PErr else
              match (tag mod 8)%N with
              | 0%N => match varint_dec r with Some (_, r') => skip_groups f stack r' | None => PErr end
              | 1%N => match split_exact 8 r with Some (_, r') => skip_groups f stack r' | None => PErr end
              | 2%N => match varint_dec r with
                       | Some (n, r1) => match split_exact n r1 with Some (_, r') => skip_groups f stack r' | None => PErr end
                       | None => PErr
                       end
              | 5%N => match split_exact 4 r with Some (_, r') => skip_groups f stack r' | None => PErr end
              | 3%N => if (max_group_depth <=? N.of_nat (length stack))%N then PErr else skip_groups f (num :: stack) r
              | 4%N => if (num =? top)%N then skip_groups f stack' r else PErr
              | _ => PErr
              end
          end
      end
  end.
Definition skip_group (num : N) (b : list N) : option (list N) :=
  match skip_groups (S (length b)) [num] b with POk r => Some r | _ => None end.

Definition max_field_number : N := 536870911.

(* one field of a message: tag, then the value by wire type *)
Definition parse_field (b : list N) : option ((N * wval) * list N) :=
  match varint_dec b with
  | None => None
  | Some (tag, r) =>
      let num := (tag / 8)%N in
      if (num <? 1)%N || (max_field_number <? num)%N then None else
      match (tag mod 8)%N with
      | 0%N => match varint_dec r with Some (v, r') => Some ((num, WVar v), r') | None => None end
      | 1%N => match split_exact 8 r with Some (v, r') => Some ((num, WI64 v), r') | None => None end
      | 2%N => match varint_dec r with
               | Some (n, r1) => match split_exact n r1 with Some (v, r') => Some ((num, WLen v), r') | None => None end
               | None => None
               end
      | 5%N => match split_exact 4 r with Some (v, r') => Some ((num, WI32 v), r') | None => None end
      | 3%N => match skip_group num r with Some r' => Some ((num, WGroup), r') | None => None end
      | _ => None
      end
  end.

Definition parse_msg (b : list N) : option (list (N * wval)) := many_opt parse_field b.

Definition tag_of (num wt : N) : list N := varint_enc (num * 8 + wt).
Definition enc_field (f : N * wval) : list N :=
  match f with
  | (num, WVar v) => tag_of num 0 ++ varint_enc v
  | (num, WI64 b) => tag_of num 1 ++ b
  | (num, WLen b) => tag_of num 2 ++ varint_enc (N.of_nat (length b)) ++ b
  | (num, WI32 b) => tag_of num 5 ++ b
  | (num, WGroup) => tag_of num 3 ++ tag_of num 4
  end.
Definition enc_fields (fs : list (N * wval)) : list N := concat (map enc_field fs).

(* fold with failure *)
Fixpoint foldM {S X} (f : S -> X -> option S) (l : list X) (s : S) : option S :=
  match l with
  | [] => Some s
  | x :: r => match f s x with Some s' => foldM f r s' | None => None end
  end.

(* ---------- scalars ---------- *)
Definition two64 : Z := 18446744073709551616.
Definition two63 : Z := 9223372036854775808.
Definition two32 : Z := 4294967296.
Definition two31 : Z := 2147483648.
Definition int64_of (n : N) : Z := let m := Z.of_N n mod two64 in if m <? two63 then m else m - two64.
Definition int32_of (n : N) : Z := let m := Z.of_N n mod two32 in if m <? two31 then m else m - two32.
(* a signed value as the uint64 that is varint-encoded (int32 and enums are sign-extended to 64 bits) *)
Definition u64_of_z (z : Z) : N := Z.to_N (if z <? 0 then z + two64 else z).

Fixpoint le_bytes (k : nat) (n : N) : list N :=
  match k with O => [] | S k' => (n mod 256 :: le_bytes k' (n / 256))%N end.
Fixpoint le_val (b : list N) : N :=
  match b with [] => 0%N | x :: r => (x + 256 * le_val r)%N end.

(* utf8.Valid *)
Definition cont (b : N) : bool := (128 <=? b)%N && (b <=? 191)%N.
Fixpoint utf8_valid (l : list N) : bool :=
  match l with
  | [] => true
  | a :: r =>
      if (a <? 128)%N then utf8_valid r
      else if (194 <=? a)%N && (a <=? 223)%N then
        match r with b :: r' => cont b && utf8_valid r' | _ => false end
      else if (a =? 224)%N then
        match r with b :: c :: r' => (160 <=? b)%N && (b <=? 191)%N && cont c && utf8_valid r' | _ => false end
      else if ((225 <=? a)%N && (a <=? 236)%N) || (a =? 238)%N || (a =? 239)%N then
        match r with b :: c :: r' => cont b && cont c && utf8_valid r' | _ => false end
      else if (a =? 237)%N then
        match r with b :: c :: r' => (128 <=? b)%N && (b <=? 159)%N && cont c && utf8_valid r' | _ => false end
      else if (a =? 240)%N then
        match r with b :: c :: d :: r' => (144 <=? b)%N && (b <=? 191)%N && cont c && cont d && utf8_valid r' | _ => false end
      else if (241 <=? a)%N && (a <=? 243)%N then
        match r with b :: c :: d :: r' => cont b && cont c && cont d && utf8_valid r' | _ => false end
      else if (a =? 244)%N then
        match r with b :: c :: d :: r' => (128 <=? b)%N && (b <=? 143)%N && cont c && cont d && utf8_valid r' | _ => false end
      else false
  end.
Definition str_ok (s : string) : bool := utf8_valid (s2b s).

(* proto3 string field: UTF-8 checked on decode *)
Definition dec_str (b : list N) : option string := if utf8_valid b then Some (b2s b) else None.

(* field builders of the encoders: proto3 scalars are omitted when they have the default value *)
Definition f_str (num : N) (s : string) : list (N * wval) :=
  match s with EmptyString => [] | _ => [(num, WLen (s2b s))] end.
Definition f_var (num : N) (n : N) : list (N * wval) := if (n =? 0)%N then [] else [(num, WVar n)].
Definition f_int (num : N) (z : Z) : list (N * wval) := if z =? 0 then [] else [(num, WVar (u64_of_z z))].
Definition f_bool (num : N) (b : bool) : list (N * wval) := if b then [(num, WVar 1)] else [].
Definition f_msg {A} (num : N) (enc : A -> list (N * wval)) (o : option A) : list (N * wval) :=
  match o with Some x => [(num, WLen (enc_fields (enc x)))] | None => [] end.
Definition f_rep {A} (num : N) (enc : A -> list (N * wval)) (l : list A) : list (N * wval) :=
  map (fun x => (num, WLen (enc_fields (enc x)))) l.
Definition f_packed (num : N) (l : list N) : list (N * wval) :=
  match l with [] => [] | _ => [(num, WLen (concat (map varint_enc l)))] end.

Definition dec_packed (b : list N) : option (list N) := many_opt varint_dec b.

(* association lists for protobuf maps: a later entry with the same key replaces the earlier one *)
Fixpoint alist_set {V} (k : string) (v : V) (l : list (string * V)) : list (string * V) :=
  match l with
  | [] => [(k, v)]
  | (k', v') :: r => if String.eqb k' k then (k, v) :: r else (k', v') :: alist_set k v r
  end.

(* ---------- google.protobuf.Timestamp {1: int64 seconds, 2: int32 nanos} ---------- *)
Record wts := mkTs { t_sec : Z; t_nanos : Z }.
Global Instance wts_eq_dec : EqDecision wts. Proof. solve_decision. Defined.
Definition ts0 : wts := mkTs 0 0.
Definition fields_ts (t : wts) : list (N * wval) := f_int 1 (t_sec t) ++ f_int 2 (t_nanos t).
Definition upd_ts (t : wts) (f : N * wval) : option wts :=
  match f with
  | (1%N, WVar n) => Some (mkTs (int64_of n) (t_nanos t))
  | (2%N, WVar n) => Some (mkTs (t_sec t) (int32_of n))
  | _ => Some t
  end.
Definition dec_ts_into (t : wts) (b : list N) : option wts :=
  match parse_msg b with Some fs => foldM upd_ts fs t | None => None end.
Definition merge_ts (o : option wts) (b : list N) : option (option wts) :=
  match dec_ts_into (default ts0 o) b with Some t => Some (Some t) | None => None end.

(* ---------- nflogpb.Receiver {1: string group_name, 2: string integration, 3: uint32 idx} ---------- *)
Record wrecv := mkRecv { r_group : string; r_integ : string; r_idx : N }.
Global Instance wrecv_eq_dec : EqDecision wrecv. Proof. solve_decision. Defined.
Definition recv0 : wrecv := mkRecv "" "" 0.
Definition fields_recv (r : wrecv) : list (N * wval) :=
  f_str 1 (r_group r) ++ f_str 2 (r_integ r) ++ f_var 3 (r_idx r).
Definition upd_recv (r : wrecv) (f : N * wval) : option wrecv :=
  match f with
  | (1%N, WLen b) => match dec_str b with Some s => Some (mkRecv s (r_integ r) (r_idx r)) | None => None end
  | (2%N, WLen b) => match dec_str b with Some s => Some (mkRecv (r_group r) s (r_idx r)) | None => None end
  | (3%N, WVar n) => Some (mkRecv (r_group r) (r_integ r) (n mod 4294967296)%N)
  | _ => Some r
  end.
Definition dec_recv_into (r : wrecv) (b : list N) : option wrecv :=
  match parse_msg b with Some fs => foldM upd_recv fs r | None => None end.

(* ---------- nflogpb.ReceiverDataValue oneof {1: string str_val, 2: int64 int_val, 3: double double_val} ---------- *)
(* None = no member set; doubles are their 64-bit pattern (Nflog.rdv) *)
Definition fields_rdv (v : option rdv) : list (N * wval) :=
  match v with
  | None => []
  | Some (RStr s) => [(1%N, WLen (s2b s))]
  | Some (RInt z) => [(2%N, WVar (u64_of_z z))]
  | Some (RDbl bits) => [(3%N, WI64 (le_bytes 8 (Z.to_N bits)))]
  end.
Definition upd_rdv (v : option rdv) (f : N * wval) : option (option rdv) :=
  match f with
  | (1%N, WLen b) => match dec_str b with Some s => Some (Some (RStr s)) | None => None end
  | (2%N, WVar n) => Some (Some (RInt (int64_of n)))
  | (3%N, WI64 b) => Some (Some (RDbl (Z.of_N (le_val b))))
  | _ => Some v
  end.
Definition dec_rdv_into (v : option rdv) (b : list N) : option (option rdv) :=
  match parse_msg b with Some fs => foldM upd_rdv fs v | None => None end.

(* map<string, ReceiverDataValue> entry {1: key, 2: value}; both always written *)
Definition fields_dentry (kv : string * option rdv) : list (N * wval) :=
  [(1%N, WLen (s2b (fst kv))); (2%N, WLen (enc_fields (fields_rdv (snd kv))))].
Definition upd_dentry (kv : string * option rdv) (f : N * wval) : option (string * option rdv) :=
  match f with
  | (1%N, WLen b) => match dec_str b with Some s => Some (s, snd kv) | None => None end
  | (2%N, WLen b) => match dec_rdv_into (snd kv) b with Some v => Some (fst kv, v) | None => None end
  | _ => Some kv
  end.
Definition dec_dentry (b : list N) : option (string * option rdv) :=
  match parse_msg b with Some fs => foldM upd_dentry fs ("", None) | None => None end.

(* ---------- nflogpb.Entry ---------- *)
Record wentry := mkWEntry {
  we_gkey : string;            (* 1 bytes group_key *)
  we_recv : option wrecv;      (* 2 *)
  we_ghash : string;           (* 3 bytes group_hash *)
  we_resolved : bool;          (* 4 *)
  we_ts : option wts;          (* 5 *)
  we_firing : list N;          (* 6 repeated uint64, packed *)
  we_resalerts : list N;       (* 7 repeated uint64, packed *)
  we_data : list (string * option rdv) }.  (* 8 map *)
Global Instance wentry_eq_dec : EqDecision wentry. Proof. solve_decision. Defined.
Definition entry0 : wentry := mkWEntry "" None "" false None [] [] [].
Definition fields_entry (e : wentry) : list (N * wval) :=
  f_str 1 (we_gkey e) ++ f_msg 2 fields_recv (we_recv e) ++ f_str 3 (we_ghash e) ++ f_bool 4 (we_resolved e) ++
  f_msg 5 fields_ts (we_ts e) ++ f_packed 6 (we_firing e) ++ f_packed 7 (we_resalerts e) ++
  f_rep 8 fields_dentry (we_data e).
Definition upd_entry (e : wentry) (f : N * wval) : option wentry :=
  let '(mkWEntry gk rc gh rs ts fi ra da) := e in
  match f with
  | (1%N, WLen b) => Some (mkWEntry (b2s b) rc gh rs ts fi ra da)
  | (2%N, WLen b) => match dec_recv_into (default recv0 rc) b with
                     | Some r => Some (mkWEntry gk (Some r) gh rs ts fi ra da) | None => None end
  | (3%N, WLen b) => Some (mkWEntry gk rc (b2s b) rs ts fi ra da)
  | (4%N, WVar n) => Some (mkWEntry gk rc gh (negb (n =? 0)%N) ts fi ra da)
  | (5%N, WLen b) => match merge_ts ts b with Some t => Some (mkWEntry gk rc gh rs t fi ra da) | None => None end
  | (6%N, WVar n) => Some (mkWEntry gk rc gh rs ts (fi ++ [n]) ra da)
  | (6%N, WLen b) => match dec_packed b with Some l => Some (mkWEntry gk rc gh rs ts (fi ++ l) ra da) | None => None end
  | (7%N, WVar n) => Some (mkWEntry gk rc gh rs ts fi (ra ++ [n]) da)
  | (7%N, WLen b) => match dec_packed b with Some l => Some (mkWEntry gk rc gh rs ts fi (ra ++ l) da) | None => None end
  | (8%N, WLen b) => match dec_dentry b with
                     | Some (k, v) => Some (mkWEntry gk rc gh rs ts fi ra (alist_set k v da)) | None => None end
  | _ => Some e
  end.
Definition dec_entry_into (e : wentry) (b : list N) : option wentry :=
  match parse_msg b with Some fs => foldM upd_entry fs e | None => None end.

(* ---------- nflogpb.MeshEntry {1: Entry entry, 2: Timestamp expires_at} ---------- *)
Record wmesh := mkMesh { wm_entry : option wentry; wm_exp : option wts }.
Global Instance wmesh_eq_dec : EqDecision wmesh. Proof. solve_decision. Defined.
Definition fields_mesh (m : wmesh) : list (N * wval) :=
  f_msg 1 fields_entry (wm_entry m) ++ f_msg 2 fields_ts (wm_exp m).
Definition upd_mesh (m : wmesh) (f : N * wval) : option wmesh :=
  match f with
  | (1%N, WLen b) => match dec_entry_into (default entry0 (wm_entry m)) b with
                     | Some e => Some (mkMesh (Some e) (wm_exp m)) | None => None end
  | (2%N, WLen b) => match merge_ts (wm_exp m) b with Some t => Some (mkMesh (wm_entry m) t) | None => None end
  | _ => Some m
  end.
Definition enc_mesh (m : wmesh) : list N := enc_fields (fields_mesh m).
Definition dec_mesh (b : list N) : option wmesh :=
  match parse_msg b with Some fs => foldM upd_mesh fs (mkMesh None None) | None => None end.

(* ---------- silencepb ---------- *)
(* Matcher {1: enum type, 2: string name, 3: string pattern} *)
Record wmatcher := mkWM { wm_type : Z; wm_name : string; wm_pattern : string }.
Global Instance wmatcher_eq_dec : EqDecision wmatcher. Proof. solve_decision. Defined.
Definition fields_matcher (m : wmatcher) : list (N * wval) :=
  f_int 1 (wm_type m) ++ f_str 2 (wm_name m) ++ f_str 3 (wm_pattern m).
Definition upd_matcher (m : wmatcher) (f : N * wval) : option wmatcher :=
  match f with
  | (1%N, WVar n) => Some (mkWM (int32_of n) (wm_name m) (wm_pattern m))
  | (2%N, WLen b) => match dec_str b with Some s => Some (mkWM (wm_type m) s (wm_pattern m)) | None => None end
  | (3%N, WLen b) => match dec_str b with Some s => Some (mkWM (wm_type m) (wm_name m) s) | None => None end
  | _ => Some m
  end.
Definition dec_matcher (b : list N) : option wmatcher :=
  match parse_msg b with Some fs => foldM upd_matcher fs (mkWM 0 "" "") | None => None end.

(* MatcherSet {1: repeated Matcher} *)
Definition fields_mset (ms : list wmatcher) : list (N * wval) := f_rep 1 fields_matcher ms.
Definition upd_mset (ms : list wmatcher) (f : N * wval) : option (list wmatcher) :=
  match f with
  | (1%N, WLen b) => match dec_matcher b with Some m => Some (ms ++ [m]) | None => None end
  | _ => Some ms
  end.
Definition dec_mset (b : list N) : option (list wmatcher) :=
  match parse_msg b with Some fs => foldM upd_mset fs [] | None => None end.

(* Comment {1: string author, 2: string comment, 3: Timestamp timestamp} *)
Record wcomment := mkWC { wc_author : string; wc_comment : string; wc_ts : option wts }.
Global Instance wcomment_eq_dec : EqDecision wcomment. Proof. solve_decision. Defined.
Definition fields_comment (c : wcomment) : list (N * wval) :=
  f_str 1 (wc_author c) ++ f_str 2 (wc_comment c) ++ f_msg 3 fields_ts (wc_ts c).
Definition upd_comment (c : wcomment) (f : N * wval) : option wcomment :=
  match f with
  | (1%N, WLen b) => match dec_str b with Some s => Some (mkWC s (wc_comment c) (wc_ts c)) | None => None end
  | (2%N, WLen b) => match dec_str b with Some s => Some (mkWC (wc_author c) s (wc_ts c)) | None => None end
  | (3%N, WLen b) => match merge_ts (wc_ts c) b with Some t => Some (mkWC (wc_author c) (wc_comment c) t) | None => None end
  | _ => Some c
  end.
Definition dec_comment (b : list N) : option wcomment :=
  match parse_msg b with Some fs => foldM upd_comment fs (mkWC "" "" None) | None => None end.

(* map<string,string> entry *)
Definition fields_aentry (kv : string * string) : list (N * wval) :=
  [(1%N, WLen (s2b (fst kv))); (2%N, WLen (s2b (snd kv)))].
Definition upd_aentry (kv : string * string) (f : N * wval) : option (string * string) :=
  match f with
  | (1%N, WLen b) => match dec_str b with Some s => Some (s, snd kv) | None => None end
  | (2%N, WLen b) => match dec_str b with Some s => Some (fst kv, s) | None => None end
  | _ => Some kv
  end.
Definition dec_aentry (b : list N) : option (string * string) :=
  match parse_msg b with Some fs => foldM upd_aentry fs ("", "") | None => None end.

(* Silence *)
Record wsilence := mkWS {
  ws_id : string;                        (* 1 *)
  ws_matchers : list wmatcher;           (* 2 legacy *)
  ws_starts : option wts;                (* 3 *)
  ws_ends : option wts;                  (* 4 *)
  ws_updated : option wts;               (* 5 *)
  ws_comments : list wcomment;           (* 7 legacy *)
  ws_created_by : string;                (* 8 *)
  ws_comment : string;                   (* 9 *)
  ws_annotations : list (string * string); (* 10 *)
  ws_msets : list (list wmatcher);       (* 11 *)
  ws_rmsets : list (list wmatcher) }.    (* 12 *)
Global Instance wsilence_eq_dec : EqDecision wsilence. Proof. solve_decision. Defined.
Definition sil0 : wsilence := mkWS "" [] None None None [] "" "" [] [] [].
Definition fields_silence (s : wsilence) : list (N * wval) :=
  f_str 1 (ws_id s) ++ f_rep 2 fields_matcher (ws_matchers s) ++ f_msg 3 fields_ts (ws_starts s) ++
  f_msg 4 fields_ts (ws_ends s) ++ f_msg 5 fields_ts (ws_updated s) ++ f_rep 7 fields_comment (ws_comments s) ++
  f_str 8 (ws_created_by s) ++ f_str 9 (ws_comment s) ++ f_rep 10 fields_aentry (ws_annotations s) ++
  f_rep 11 fields_mset (ws_msets s) ++ f_rep 12 fields_mset (ws_rmsets s).
Definition upd_silence (s : wsilence) (f : N * wval) : option wsilence :=
  let '(mkWS id ms st en up cs cb cm an s1 s2) := s in
  match f with
  | (1%N, WLen b) => match dec_str b with Some x => Some (mkWS x ms st en up cs cb cm an s1 s2) | None => None end
  | (2%N, WLen b) => match dec_matcher b with Some x => Some (mkWS id (ms ++ [x]) st en up cs cb cm an s1 s2) | None => None end
  | (3%N, WLen b) => match merge_ts st b with Some x => Some (mkWS id ms x en up cs cb cm an s1 s2) | None => None end
  | (4%N, WLen b) => match merge_ts en b with Some x => Some (mkWS id ms st x up cs cb cm an s1 s2) | None => None end
  | (5%N, WLen b) => match merge_ts up b with Some x => Some (mkWS id ms st en x cs cb cm an s1 s2) | None => None end
  | (7%N, WLen b) => match dec_comment b with Some x => Some (mkWS id ms st en up (cs ++ [x]) cb cm an s1 s2) | None => None end
  | (8%N, WLen b) => match dec_str b with Some x => Some (mkWS id ms st en up cs x cm an s1 s2) | None => None end
  | (9%N, WLen b) => match dec_str b with Some x => Some (mkWS id ms st en up cs cb x an s1 s2) | None => None end
  | (10%N, WLen b) => match dec_aentry b with
                      | Some (k, v) => Some (mkWS id ms st en up cs cb cm (alist_set k v an) s1 s2) | None => None end
  | (11%N, WLen b) => match dec_mset b with Some x => Some (mkWS id ms st en up cs cb cm an (s1 ++ [x]) s2) | None => None end
  | (12%N, WLen b) => match dec_mset b with Some x => Some (mkWS id ms st en up cs cb cm an s1 (s2 ++ [x])) | None => None end
  | _ => Some s
  end.
Definition dec_silence_into (s : wsilence) (b : list N) : option wsilence :=
  match parse_msg b with Some fs => foldM upd_silence fs s | None => None end.

(* MeshSilence {1: Silence silence, 2: Timestamp expires_at} *)
Record wmeshsil := mkMS { ms_sil : option wsilence; ms_exp : option wts }.
Global Instance wmeshsil_eq_dec : EqDecision wmeshsil. Proof. solve_decision. Defined.
Definition fields_meshsil (m : wmeshsil) : list (N * wval) :=
  f_msg 1 fields_silence (ms_sil m) ++ f_msg 2 fields_ts (ms_exp m).
Definition upd_meshsil (m : wmeshsil) (f : N * wval) : option wmeshsil :=
  match f with
  | (1%N, WLen b) => match dec_silence_into (default sil0 (ms_sil m)) b with
                     | Some s => Some (mkMS (Some s) (ms_exp m)) | None => None end
  | (2%N, WLen b) => match merge_ts (ms_exp m) b with Some t => Some (mkMS (ms_sil m) t) | None => None end
  | _ => Some m
  end.
Definition enc_meshsil (m : wmeshsil) : list N := enc_fields (fields_meshsil m).
Definition dec_meshsil (b : list N) : option wmeshsil :=
  match parse_msg b with Some fs => foldM upd_meshsil fs (mkMS None None) | None => None end.

Definition max_size : N := 4194304. (* protodelim default MaxSize (4 MiB) *)

(* ---------- well-formed records: what the theorems assume about a store content ----------
   ranges of the Go types (int64 seconds, int32 nanos, uint32 idx, uint64 hashes, int32 enum), valid UTF-8 in
   proto3 string fields (protobuf-go refuses to MARSHAL anything else), unique map keys, and [fits]: every
   length-delimited piece is shorter than 2^64 bytes and every varint below 2^64 (true of anything that exists) *)
Definition two64N : N := 18446744073709551616.
Definition small (b : list N) : bool := (N.of_nat (length b) <? two64N)%N.
Definition wf_field (f : N * wval) : bool :=
  (1 <=? fst f)%N && (fst f <=? max_field_number)%N &&
  match snd f with
  | WVar v => (v <? two64N)%N
  | WI64 b => Nat.eqb (length b) 8
  | WI32 b => Nat.eqb (length b) 4
  | WLen b => small b
  | WGroup => false
  end.
Definition fits (fs : list (N * wval)) : bool := forallb wf_field fs.

Definition in64 (z : Z) : bool := (- two63 <=? z) && (z <? two63).
Definition in32 (z : Z) : bool := (- two31 <=? z) && (z <? two31).
Definition wf_ts (t : wts) : bool := in64 (t_sec t) && in32 (t_nanos t) && fits (fields_ts t).
Definition wf_ots (o : option wts) : bool := match o with Some t => wf_ts t | None => true end.
Definition wf_recv (r : wrecv) : bool :=
  str_ok (r_group r) && str_ok (r_integ r) && (r_idx r <? 4294967296)%N && fits (fields_recv r).
Definition wf_rdv (v : option rdv) : bool :=
  match v with
  | None => true
  | Some (RStr s) => str_ok s
  | Some (RInt z) => in64 z
  | Some (RDbl b) => (0 <=? b) && (b <? two64)
  end && fits (fields_rdv v).
Definition wf_dentry (kv : string * option rdv) : bool :=
  str_ok (fst kv) && wf_rdv (snd kv) && fits (fields_dentry kv).
Fixpoint keys_unique {V} (l : list (string * V)) : bool :=
  match l with
  | [] => true
  | (k, _) :: r => negb (existsb (fun kv => String.eqb (fst kv) k) r) && keys_unique r
  end.
Definition wf_entry (e : wentry) : bool :=
  match we_recv e with Some r => wf_recv r | None => true end && wf_ots (we_ts e) &&
  forallb (fun n => (n <? two64N)%N) (we_firing e) && forallb (fun n => (n <? two64N)%N) (we_resalerts e) &&
  forallb wf_dentry (we_data e) && keys_unique (we_data e) && fits (fields_entry e).
Definition wf_mesh (m : wmesh) : bool :=
  match wm_entry m with Some e => wf_entry e | None => true end && wf_ots (wm_exp m) && fits (fields_mesh m) &&
  (N.of_nat (length (enc_fields (fields_mesh m))) <=? max_size)%N.

Definition wf_matcher (m : wmatcher) : bool :=
  in32 (wm_type m) && str_ok (wm_name m) && str_ok (wm_pattern m) && fits (fields_matcher m).
Definition wf_mset (ms : list wmatcher) : bool := forallb wf_matcher ms && fits (fields_mset ms).
Definition wf_comment (c : wcomment) : bool :=
  str_ok (wc_author c) && str_ok (wc_comment c) && wf_ots (wc_ts c) && fits (fields_comment c).
Definition wf_aentry (kv : string * string) : bool := str_ok (fst kv) && str_ok (snd kv) && fits (fields_aentry kv).
Definition wf_silence (s : wsilence) : bool :=
  str_ok (ws_id s) && forallb wf_matcher (ws_matchers s) && wf_ots (ws_starts s) && wf_ots (ws_ends s) &&
  wf_ots (ws_updated s) && forallb wf_comment (ws_comments s) && str_ok (ws_created_by s) && str_ok (ws_comment s) &&
  forallb wf_aentry (ws_annotations s) && keys_unique (ws_annotations s) &&
  forallb wf_mset (ws_msets s) && forallb wf_mset (ws_rmsets s) && fits (fields_silence s).
Definition wf_meshsil (m : wmeshsil) : bool :=
  match ms_sil m with Some s => wf_silence s | None => true end && wf_ots (ms_exp m) && fits (fields_meshsil m) &&
  (N.of_nat (length (enc_fields (fields_meshsil m))) <=? max_size)%N.

(* ---------- protodelim framing and whole files ---------- *)
Definition frame (body : list N) : list N := varint_enc (N.of_nat (length body)) ++ body.
Definition read_frame (b : list N) : option (list N * list N) :=
  match varint_dec b with
  | None => None
  | Some (n, r) => if (max_size <? n)%N then None else split_exact n r
  end.

Fixpoint mapM {A B} (f : A -> option B) (l : list A) : option (list B) :=
  match l with
  | [] => Some []
  | x :: r => match f x with Some y => match mapM f r with Some ys => Some (y :: ys) | None => None end | None => None end
  end.

Section File.
  Context {A : Type} (enc : A -> list N) (dec : list N -> option A).
  Definition encode_file (st : list A) : list N := concat (map (fun x => frame (enc x)) st).
  (* records in file order; any malformed or truncated record fails the whole file *)
  Definition decode_file (b : list N) : res (list A) :=
    match many read_frame (length b) b with
    | POk frames => match mapM dec frames with Some xs => Ok xs | None => Err "record" end
    | PErr => Err "framing"
    | PFuel => Panic
    end.
End File.

Definition encode_nflog := encode_file enc_mesh.
Definition decode_nflog := decode_file dec_mesh.
Definition encode_silences := encode_file enc_meshsil.
Definition decode_silences := decode_file dec_meshsil.
