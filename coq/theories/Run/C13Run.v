(* Correspondence interface for C13: a case is a configuration (resolve_timeout, validity tables computed by the
   real library functions) and a history of (instant, op, observed output) recorded from the real api/v2 handlers
   on a real provider/mem.Alerts.
   check_case: the model run on the same ops at the same instants produces the observed outputs
               (set-valued outputs — GC callbacks, GET, dump — are compared as sets: Go map order).
   prop_case : executable form of the property's clauses evaluated along the model run. *)
From AM Require Export Base.Prelude Model.Provider.

Record case := mkCase {
  c_rt : Z;
  c_names : list (string * bool);    (* compat.IsValidLabelName for every name of the case *)
  c_values : list (string * bool);   (* model.LabelValue.IsValid for every value of the case *)
  c_routes : list (list (string * string) * list string);
    (* receivers of the configured routing tree per label set of the case (C07's subject; here a table written by
       the harness's own reference of the tree); label sets not listed go to the single receiver "default" *)
  c_hist : list (Z * op * out) }.

Fixpoint tbl (t : list (string * bool)) (s : string) : bool :=
  match t with
  | [] => false
  | (k, b) :: r => if String.eqb k s then b else tbl r s
  end.

(* single-route configuration: every alert goes to receiver "default"; no silences, no inhibition rules *)
Fixpoint rtbl (t : list (list (string * string) * list string)) (ls : list (string * string)) : list string :=
  match t with
  | [] => ["default"]
  | (k, r) :: rest => if beq k ls then r else rtbl rest ls
  end.

Definition env_of (c : case) : env :=
  mkEnv (tbl (c_names c)) (tbl (c_values c)) (c_rt c) (rtbl (c_routes c)) (fun _ => "active").

Definition model_outs (c : case) : list out := snd (run (env_of c) ∅ (map fst (c_hist c))).
Definition show_case := model_outs.

Definition same_set {A} `{EqDecision A} (l1 l2 : list A) : bool :=
  (length l1 =? length l2)%nat && forallb (fun x => bool_decide (x ∈ l2)) l1 && forallb (fun x => bool_decide (x ∈ l1)) l2.

Definition out_agrees (m o : out) : bool :=
  match m, o with
  | RPost c1 l1, RPost c2 l2 => (c1 =? c2) && beq l1 l2
  | RPut l1, RPut l2 => beq l1 l2
  | RGC l1, RGC l2 => same_set l1 l2
  | RGet l1, RGet l2 => same_set l1 l2
  | RDump l1, RDump l2 => same_set l1 l2
  | _, _ => false
  end.

Fixpoint all2 {A B} (f : A -> B -> bool) (l1 : list A) (l2 : list B) : bool :=
  match l1, l2 with
  | [], [] => true
  | x :: r1, y :: r2 => f x y && all2 f r1 r2
  | _, _ => false
  end.

Definition check_case (c : case) : bool := all2 out_agrees (model_outs c) (map snd (c_hist c)).

(* ---- executable property along the model run ---- *)
(* the store invariant of c13_reachable_invariant *)
Definition alert_ok (now : Z) (k : list (string * string)) (a : alert) : bool :=
  beq (a_labels a) k && (a_starts a <=? a_ends a) && negb (a_ends a =? 0) && negb (a_starts a =? 0) && (a_updated a <=? now).
Definition inv_ok (now : Z) (s : store) : bool := forallb (fun '(k, a) => alert_ok now k a) (map_to_list s).

(* of a reversed list of alerts: the last alert of each label set *)
Fixpoint last_of_each (l : list alert) (seen : list (list (string * string))) : list alert :=
  match l with
  | [] => []
  | a :: r => if bool_decide (a_labels a ∈ seen) then last_of_each r seen else a :: last_of_each r (a_labels a :: seen)
  end.

(* [pure]: no direct provider Put has happened so far (the state is reachable through the API alone) *)
Definition step_ok (E : env) (pure : bool) (s : store) (now : Z) (o : op) : bool :=
  let '(s', r) := step E s now o in
  (* stored alerts only disappear in a GC step, and then only resolved ones; GC keeps every unresolved alert unchanged *)
  forallb (fun '(k, a) =>
    match s' !! k with
    | Some a' => match o with OGC | OGet | ODump => beq a a' | _ => true end
    | None => match o with OGC => negb (a_ends a =? 0) && (a_ends a <=? now) | _ => false end
    end) (map_to_list s) &&
  (negb pure || match o with OPut _ => true | _ => inv_ok now s' end) &&
  match o, r with
  | OPost batch, RPost c sent =>
      (* stored set = stored set after POSTing only the valid alerts; response class reflects the invalid ones *)
      let vb := List.filter (valid_p (e_vname E) (e_vvalue E) now (e_rt E)) batch in
      beq (map_to_list s') (map_to_list (fst (post (e_vname E) (e_vvalue E) now (e_rt E) s vb))) &&
      (c =? (if (length vb =? length batch)%nat then 200 else 400)) &&
      (* every valid alert of the batch is stored under its (cleaned) label set *)
      forallb (fun p => match s' !! a_labels (prep now (e_rt E) p) with Some a => true | None => false end) vb &&
      (* label sets without a valid alert in the batch are untouched *)
      forallb (fun '(k, a) => bool_decide (k ∈ map (fun p => a_labels (prep now (e_rt E) p)) vb) || beq (s' !! k) (Some a)) (map_to_list s) &&
      (* defaults *)
      forallb (fun p =>
        let a := prep now (e_rt E) p in
        (if p_starts p =? 0 then (if p_ends p =? 0 then a_starts a =? now else a_starts a =? p_ends p) else a_starts a =? p_starts p) &&
        (if p_ends p =? 0 then (a_ends a =? now + e_rt E) && a_timeout a else (a_ends a =? p_ends p) && negb (a_timeout a))) batch &&
      (* merged times of the last valid alert of each label set (API-reachable states) *)
      (negb pure ||
       forallb (fun a =>
         match s' !! a_labels a with
         | None => false
         | Some r =>
             let sole := (length (List.filter (fun b => beq (a_labels b) (a_labels a)) (map (prep now (e_rt E)) vb)) =? 1)%nat in
             (a_updated r =? now) && beq (a_annots r) (a_annots a) && (a_starts r <=? a_starts a) &&
             (if a_timeout a then (now + e_rt E <=? a_ends r) && a_timeout r
              else if a_ends a <=? now then resolved_at now r && (a_ends a <=? a_ends r) else true) &&
             (* the only alert of its label set in the batch: end, earliest-start and re-fire rules against the
                alert stored before the POST *)
             (negb sole ||
              match s !! a_labels a with
              | Some old =>
                  ((a_ends r =? a_ends a) || (a_ends r =? a_ends old)) &&
                  (if a_starts a <? a_ends old then a_starts r =? Z.min (a_starts old) (a_starts a) else beq r a)
              | None => beq r a
              end)
         end) (last_of_each (rev (map (prep now (e_rt E)) vb)) []))
  | OGet, RGet l =>
      (* exactly the stored alerts whose end has not passed *)
      forallb (fun '(k, a) => Bool.eqb (bool_decide (to_g (e_route E) (e_status E) a ∈ l)) ((a_ends a =? 0) || (now <=? a_ends a))) (map_to_list s) &&
      (length l <=? length (map_to_list s))%nat
  | OGC, RGC d =>
      forallb (fun a => negb (a_ends a =? 0) && (a_ends a <=? now) && bool_decide (s !! a_labels a = Some a)) d &&
      forallb (fun '(k, a) => bool_decide (a ∈ d) || (now <? a_ends a) || (a_ends a =? 0)) (map_to_list s)
  | _, _ => true
  end.

Fixpoint hist_ok (E : env) (pure : bool) (s : store) (h : list (Z * op)) : bool :=
  match h with
  | [] => true
  | (now, o) :: r =>
      step_ok E pure s now o &&
      hist_ok E (pure && match o with OPut _ => false | _ => true end) (fst (step E s now o)) r
  end.
Definition prop_case (c : case) : bool := hist_ok (env_of c) true ∅ (map fst (c_hist c)).
