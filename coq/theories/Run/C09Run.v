(* Correspondence interface for C09: a case is TWO instances (same configuration and oracle tables), each with
   its own history of (instant, op-or-dump, observed output), and the harness's claim [k2_same] that both were
   delivered the same set of versions while unexpired (distinct update times per id, no refused local update).
   check_case: the model reproduces every observed output and the st/mi/vi/version bookkeeping of both instances.
   prop_case : on the model runs, no step goes backwards (a stored version is only replaced by a strictly newer
               UpdatedAt; ids vanish only by GC at/after ExpiresAt), and if [k2_same] the final contents agree. *)
From AM Require Export Base.Prelude Model.Matchers Model.Silence Run.C12Run.

Record case2 := mkCase2 {
  k2_cfg : cfg; k2_ext : ext_table;
  k2_a : list (Z * xop * xout); k2_b : list (Z * xop * xout); k2_same : bool }.
Definition case := case2.

Definition outs_of (k : case) (h : list (Z * xop * xout)) : list xout :=
  xrun (k2_cfg k) (ext_of_table (k2_ext k)) empty_store (map fst h).
Definition show_case (k : case) := (outs_of k (k2_a k), outs_of k (k2_b k)).
Definition check_case (k : case) : bool :=
  all2 xout_eqb (outs_of k (k2_a k)) (map snd (k2_a k)) && all2 xout_eqb (outs_of k (k2_b k)) (map snd (k2_b k)).

Definition is_reload (o : op) : bool := match o with OReload _ => true | _ => false end.

Definition step_monotone (S : store) (now : Z) (o : op) (S' : store) : bool :=
  forallb (fun '(id, e) =>
    match st S' !! id with
    | Some e' => (m_upd e <=? m_upd e') && (negb (m_upd e =? m_upd e') || beq e e')
    | None => is_gc_op o && (m_exp e <=? now)
    end) (map_to_list (st S)).

Fixpoint final_store (c : cfg) (x : ext) (S : store) (h : list (Z * xop)) : store * bool :=
  match h with
  | [] => (S, true)
  | (now, XOp o) :: r =>
      let S' := fst (step c x S now o) in
      let '(F, ok) := final_store c x S' r in
      (F, (is_reload o || step_monotone S now o S') && ok)
  | (_, XDump) :: r | (_, XMarshal) :: r => final_store c x S r
  | (_, XLimit n) :: r => final_store (xcfg c (XLimit n)) x S r
  end.

Definition prop_case (k : case) : bool :=
  let x := ext_of_table (k2_ext k) in
  let '(A, oka) := final_store (k2_cfg k) x empty_store (map fst (k2_a k)) in
  let '(B, okb) := final_store (k2_cfg k) x empty_store (map fst (k2_b k)) in
  oka && okb && (negb (k2_same k) || beq (map_to_list (st A)) (map_to_list (st B))).
