(* Correspondence interface for C17.
   CLoad   : a structured configuration, decoded by the harness into a dcfg term, and what config.Load did with
             the YAML text (class, error kind, on success the receiver and interval names of the loaded *Config).
   CSecret : the secret-bearing positions of a loaded *Config (found by reflection) as a value tree, and the
             number of "<secret>" tokens Config.String() printed.
   CReload : a sequence of Coordinator.Reload calls (file good/bad, subscribers accepting/rejecting) with, per
             step, whether Reload returned nil and which configuration each subscriber is running afterwards. *)
From AM Require Export Base.Prelude Model.ConfigValid Model.Secret.

Inductive outcome := OOk (receivers intervals : list string) | OErr (kind : string) | OPanic.
Global Instance outcome_eq_dec : EqDecision outcome. Proof. solve_decision. Defined.

Inductive case :=
| CLoad (invalid_labels : list string) (d : option dcfg) (obs : outcome)
| CSecret (t : value) (tokens : nat)
| CReload (rejects : list (list nat)) (loads : list (option nat)) (obs : list (bool * list (option nat))).

Definition out_of (r : res cfg) : outcome :=
  match r with Ok c => OOk (c_receivers c) (c_intervals c) | Err k => OErr k | Panic => OPanic end.

Definition vl_of (invalid : list string) (l : string) : bool := negb (smem l invalid).

Definition subs_of (rejects : list (list nat)) : list (nat -> bool) :=
  map (fun rej c => negb (bool_decide (c ∈ rej))) rejects.
Definition load_of (o : option nat) : res nat := match o with Some c => Ok c | None => Err "load" end.
Definition is_ok (r : res unit) : bool := match r with Ok _ => true | _ => false end.

Fixpoint reload_trace (subs : list (nat -> bool)) (st : cstate nat) (l : list (option nat))
  : list (bool * list (option nat)) :=
  match l with
  | [] => []
  | x :: t => let (st', r) := reload subs st (load_of x) in (is_ok r, cs_live st') :: reload_trace subs st' t
  end.
Definition init_state (n : nat) : cstate nat := CState None (replicate n None).

Inductive shown := SOut (o : outcome) | SNat (n : nat) | STrace (t : list (bool * list (option nat))).

Definition show_case (c : case) : shown :=
  match c with
  | CLoad inv d _ => SOut (out_of (load_validate (vl_of inv) d))
  | CSecret t _ => SNat (count_secrets t)
  | CReload rej loads _ => STrace (reload_trace (subs_of rej) (init_state (length rej)) loads)
  end.

(* The error kind is derived by the harness from the message text. A text it does not recognise is observed as
   OErr "other" = "rejected, reason not classified": compatible with ANY error the model predicts (rewording a
   message is a harmless change), still incompatible with acceptance and with a panic. Recognised kinds are compared
   exactly, so a change of validation order that swaps two recognised reasons is still a mismatch. *)
Definition compatible (model obs : outcome) : bool :=
  match model, obs with
  | OErr _, OErr k => String.eqb k "other" || beq model obs
  | _, _ => beq model obs
  end.

Definition check_case (c : case) : bool :=
  match c with
  | CLoad inv d obs => compatible (out_of (load_validate (vl_of inv) d)) obs
  | CSecret t n => beq (count_secrets t) n
  | CReload rej loads obs => beq (reload_trace (subs_of rej) (init_state (length rej)) loads) obs
  end.

(* executable well-formedness of an accepted configuration (the property's list) *)
Definition wf_check (c : cfg) : bool :=
  let r := c_route c in
  negb (String.eqb (dr_receiver r) "") && negb (dr_has_matchers r) && is_nil (dr_mute r) && is_nil (dr_active r) &&
  negb (dr_continue r) && smem (dr_receiver r) (c_receivers c) &&
  bool_decide (NoDup (c_receivers c)) && bool_decide (NoDup (c_intervals c)) &&
  forallb (fun n =>
    (String.eqb (dr_receiver n) "" || smem (dr_receiver n) (c_receivers c)) &&
    forallb (fun i => smem i (c_intervals c)) (dr_active n ++ dr_mute n) &&
    bool_decide (NoDup (group_labels n)) && (negb (group_all n) || is_nil (group_labels n)) &&
    negb (bool_decide (dr_group_interval n = Some 0)) && negb (bool_decide (dr_repeat_interval n = Some 0)) &&
    negb (existsb is_none (dr_routes n))) (nodes r).

Fixpoint take_while {A} (f : A -> bool) (l : list A) : list A :=
  match l with x :: t => if f x then x :: take_while f t else [] | [] => [] end.

(* a failed reload step changes no subscriber at or after the first rejecting one; with the load itself failing
   nothing changes *)
Fixpoint reload_prop (subs : list (nat -> bool)) (st : cstate nat) (l : list (option nat)) : bool :=
  match l with
  | [] => true
  | x :: t =>
    let (st', r) := reload subs st (load_of x) in
    (match x, r with
     | None, _ => beq (cs_live st') (cs_live st) && negb (is_ok r)
     | Some c, Ok _ => beq (cs_live st') (map (fun _ => Some c) subs)
     | Some c, _ =>
       let k := length (take_while (fun s => s c) subs) in
       beq (drop k (cs_live st')) (drop k (cs_live st)) && beq (take k (cs_live st')) (replicate k (Some c))
     end) && reload_prop subs st' t
  end.

Definition prop_case (c : case) : bool :=
  match c with
  | CLoad inv d _ =>
    match load_validate (vl_of inv) d with
    | Ok c => wf_check c
    | Err _ => true
    | Panic => false
    end
  | CSecret t _ =>
    forallb (fun s => negb (occurs s (render t))) (secrets_of t) && String.eqb (render t) (render (erase_secrets t))
  | CReload rej loads _ => reload_prop (subs_of rej) (init_state (length rej)) loads
  end.
