(* Correspondence interface for C02: a case is a configuration, oracle tables, and ONE instance's history of
   (instant, operation, observed output): store operations (Set / Expire / Merge / GC / restart), Silencer.Mutes for a
   label set (verdict, marked ids in the order the code produces them, and the cache entry afterwards), the API's alert
   status, MuteStage.Exec on a batch, alert GC, and dumps of the store bookkeeping + unfiltered Query.
   check_case: the model reproduces every observed output.
   prop_case : on the model run, every (uninterrupted) Mutes / API status / MuteStage result equals the direct evaluation
               of the model's current store (brute / brute_ids); an interrupted Mutes is bracketed by the stores before
               and after the injected operations — judged only on histories that keep the theorem's
               hypotheses (one matcher set list per id, every stored matcher compiles). *)
From AM Require Export Base.Prelude Model.Matchers Model.Silence Model.Silencer.

Record case := mkCase { k_cfg : cfg; k_ext : ext_table; k_hist : list (Z * cop * cout) }.

(* store outputs are compared without the broadcast payloads (C12 / C09 compare those) *)
Definition mask_out (o : out) : out :=
  match o with
  | RSetOk id _ => RSetOk id []
  | RExpireOk _ => RExpireOk []
  | RMerged _ => RMerged O
  | _ => o
  end.
Definition mask (y : cout) : cout :=
  match y with
  | XStore o => XStore (mask_out o)
  | XMutesI r v ids outs => XMutesI r v ids (map mask_out outs)
  | _ => y
  end.

Definition model_run (k : case) : (store * cache) * list cout :=
  crun (k_cfg k) (ext_of_table (k_ext k)) (empty_store, empty_cache) (map fst (k_hist k)).
Definition model_outs (k : case) : list cout := map mask (snd (model_run k)).
Definition show_case := model_outs.

(* an unrecognised error text is recorded as RErr "?": compatible with any model rejection, never with a success *)
Definition out_compat (model impl : out) : bool :=
  match impl, model with
  | RErr c, RErr m => if String.eqb c "?" then true else String.eqb c m
  | _, _ => beq model impl
  end.

Definition same_ids (a b : list string) : bool := forallb (fun k => mem k b) a && forallb (fun k => mem k a) b.

(* the dump lists st / mi ids in Go-sorted order on the implementation side and in gmap order on the model side *)
Definition cout_eqb (m i : cout) : bool :=
  match m, i with
  | XDump (s1, m1, v1, n1) q1, XDump (s2, m2, v2, n2) q2 =>
      same_ids s1 s2 && same_ids m1 m2 && beq v1 v2 && (n1 =? n2) && beq q1 q2
  | XStore a, XStore b => out_compat a b
  | XMutesI r1 v1 ids1 o1, XMutesI r2 v2 ids2 o2 =>
      beq r1 r2 && (v1 =? v2) && beq ids1 ids2 && (length o1 =? length o2)%nat &&
      forallb (fun ab => out_compat (fst ab) (snd ab)) (combine o1 o2)
  | _, _ => beq m i
  end.

Fixpoint all2 {A B} (f : A -> B -> bool) (a : list A) (b : list B) : bool :=
  match a, b with
  | [], [] => true
  | x :: a', y :: b' => f x y && all2 f a' b'
  | _, _ => false
  end.
Definition check_case (k : case) : bool := all2 cout_eqb (model_outs k) (map snd (k_hist k)).

(* ---- hypotheses of the theorem, executable: one matcher-set list per id over the whole history (ids stored after
   any step and ids offered by any Merge), and everything stored compiles ---- *)
Definition ghost := gmap string (list (list matcher)).
Definition ghost_add (x : ext) (acc : ghost * bool) (id : string) (ms : list (list matcher)) : ghost * bool :=
  let '(G, ok) := acc in
  match G !! id with
  | Some ms' => (G, ok && beq ms ms')
  | None => (<[id := ms]> G, ok && compiles x ms)
  end.
Definition ghost_store (x : ext) (acc : ghost * bool) (S : store) : ghost * bool :=
  foldl (fun a kv => ghost_add x a (fst kv) (s_ms (m_sil (snd kv)))) acc (map_to_list (st S)).
Definition ghost_sop (x : ext) (acc : ghost * bool) (o : op) : ghost * bool :=
  match o with
  | OMerge b _ _ =>
      foldl (fun a w => match w with
                        | Some w => let e := decode_rec w in
                                    let '(G, ok) := ghost_add x a (m_id e) (s_ms (m_sil e)) in
                                    (G, ok && marshal_ok x (m_sil e))
                        | None => a end) acc b
  | _ => acc
  end.
Definition ghost_op (x : ext) (acc : ghost * bool) (o : cop) : ghost * bool :=
  match o with
  | CStore so => ghost_sop x acc so
  | CMutesI _ _ ops => foldl (ghost_sop x) acc ops
  | _ => acc
  end.

Definition sort_free_eq (a b : list string) : bool := same_ids a b && (length a =? length b)%nat.

(* judge one step on the model *)
Definition judge (x : ext) (S S' : store) (now : Z) (o : cop) (y : cout) : bool :=
  match o, y with
  (* an interrupted call: everything marked is active and matching in the store before or after the injected
     operations, everything active and matching in both is marked, the verdict says whether something is marked *)
  | CMutesI ls _ _, XMutesI (MOk b ids) _ _ _ =>
      let b0 := brute_ids x S ls now in
      let b1 := brute_ids x S' ls now in
      forallb (fun k => mem k b0 || mem k b1) ids && forallb (fun k => negb (mem k b1) || mem k ids) b0 &&
      beq b (match ids with [] => false | _ => true end)
  | CMutesI _ _ _, _ => false
  | CMutes ls, XMutes (MOk b ids) _ _ => beq b (brute x S ls now) && sort_free_eq ids (brute_ids x S ls now)
  | CMutes _, _ => false
  | CApi ls, XApi (Some ids) => sort_free_eq ids (brute_ids x S ls now)
  | CApi _, _ => false
  | CStage alerts, XStage (Some kept) => beq kept (filter (fun a => brute x S a now = false) alerts)
  | CStage _, _ => false
  | _, _ => true
  end.

Fixpoint prop_run (c : cfg) (x : ext) (SC : store * cache) (G : ghost * bool) (h : list (Z * cop)) : bool * bool :=
  (* (hypotheses hold along the whole history, every judged step agrees with brute) *)
  match h with
  | [] => (snd G, true)
  | (now, o) :: r =>
      let '(SC1, y) := cstep c x SC now o in
      let G1 := ghost_store x (ghost_op x G o) (fst SC1) in
      let '(wf, ok) := prop_run c x SC1 G1 r in
      (wf, judge x (fst SC) (fst SC1) now o y && ok)
  end.

Definition hyps_hold (k : case) : bool :=
  fst (prop_run (k_cfg k) (ext_of_table (k_ext k)) (empty_store, empty_cache) (∅, true) (map fst (k_hist k))).
Definition prop_case (k : case) : bool :=
  let '(wf, ok) := prop_run (k_cfg k) (ext_of_table (k_ext k)) (empty_store, empty_cache) (∅, true) (map fst (k_hist k)) in
  negb wf || ok.
