(* Correspondence interface for C16 (matchers): cases recorded by harness/c16 on the real code.
   CMatch : a matcher set (list of matcher lists) against a label set, with the regexp oracle table; observed are
            every Matcher.Matches, every Matchers.Matches and MatcherSet.Matches.
   CSite  : one matcher (type,name,value) and a label set, evaluated through every construction path of the code
            (NewMatcher, route, silence, inhibit rule, API filter): all observed verdicts must be the model's.
   CSil   : matcher sets stored as a silence in a real silence.Silences and asked back through the public path
            (Query with QMatches, Silencer.Mutes, API filter for a single list): every verdict is the model's.
   CSilN  : several silences alive at once in one store; after Set, after snapshot + restart, and in a second store
            that received them in one Merge: per store, which silences match the label set, and Silencer.Mutes.
   CApi   : one API request (GET alerts / alert groups) with filter matchers over several alerts in a given order:
            per alert, whether the real handler's filter kept it.
   CCfg   : a configuration text (YAML) with one inhibition rule and one child route whose matchers are written in
            every accepted form (matchers lists and the deprecated match / match_re maps, mixed), loaded by
            config.Load; observed: each side of the rule on the source alert and on the targets, Inhibitor.Mutes
            of every target with the source alert firing (equal = []), and whether the child route matches.
   CPrint : a matcher list, with what Matcher.String printed for each and Matchers.String for the list.
   CParse : an input string, with what each parser entry point returned (key, result):
            c1/cN labels.ParseMatcher/ParseMatchers, u1/uN parse.Matcher/Matchers, kc*/ku*/kf* compat.Matcher/
            Matchers in classic / utf8-strict / fallback mode. Errors are compared by class only. *)
From AM Require Export Base.Prelude Model.Matchers Model.MatcherSyntax.

(* the library tables for the runes / patterns that occur in the case *)
Record tables := mkT { t_spaces : list Z; t_prints : list Z; t_badre : list string }.
Definition sp_of (t : tables) (r : Z) : bool := existsb (Z.eqb r) (t_spaces t).
Definition pr_of (t : tables) (r : Z) : bool := existsb (Z.eqb r) (t_prints t).
Definition cp_of (t : tables) (v : list Z) : bool := negb (existsb (fun s => beq (bytes_of_string s) v) (t_badre t)).

Inductive case :=
| CMatch (tbl : re_table) (mss : list (list matcher)) (ls : list (string * string))
         (obs_m : list (list bool)) (obs_ms : list bool) (obs_set : bool)
| CSite (tbl : re_table) (m : matcher) (ls : list (string * string)) (obs : list (string * bool))
| CSil (tbl : re_table) (mss : list (list matcher)) (ls : list (string * string)) (obs : list (string * bool))
| CSilN (tbl : re_table) (sils : list (list (list matcher))) (ls : list (string * string))
        (obs_q : list (string * list bool)) (obs_m : list (string * bool))
| CApi (tbl : re_table) (ms : list matcher) (lss : list (list (string * string))) (obs : list (string * list bool))
| CCfg (tbl : re_table) (src tgt rt : list matcher) (sls : list (string * string))
       (lss : list (list (string * string))) (obs : list (string * list bool))
| CPrint (tb : tables) (ms : list matcher) (each : list string) (all : string)
| CParse (tb : tables) (input : string) (obs : list (string * res (list matcher))).

Inductive shown :=
| SMatch (m : list (list bool)) (ms : list bool) (set : bool)
| SSite (b : bool)
| SMany (v : list bool)
| SPrint (each : list (list Z)) (all : list Z)
| SParse (r : list (string * res (list bm))).

Definition model_match (tbl : re_table) (mss : list (list matcher)) (ls : list (string * string)) :=
  let re := re_of_table tbl in
  (map (fun ms => map (fun m => m_matches re m (lget ls (m_name m))) ms) mss,
   map (fun ms => ms_matches re ms ls) mss,
   mset_matches re mss ls).

(* every parser entry point, by key *)
Definition one (r : res bm) : res (list bm) := res_map (fun m => [m]) r.
Definition model_parse (tb : tables) (key : string) (s : list Z) : res (list bm) :=
  let sp := sp_of tb in let cp := cp_of tb in
  if String.eqb key "c1" then one (classic_matcher cp s)
  else if String.eqb key "cN" then classic_matchers sp cp s
  else if String.eqb key "u1" then one (utf8_matcher sp cp s)
  else if String.eqb key "uN" then utf8_matchers sp cp s
  else if String.eqb key "kc1" then one (compat_matcher sp cp Classic s)
  else if String.eqb key "kcN" then compat_matchers sp cp Classic s
  else if String.eqb key "ku1" then one (compat_matcher sp cp Utf8Strict s)
  else if String.eqb key "kuN" then compat_matchers sp cp Utf8Strict s
  else if String.eqb key "kf1" then one (compat_matcher sp cp Fallback s)
  else if String.eqb key "kfN" then compat_matchers sp cp Fallback s
  (* what the amtool command line stores for a matcher argument: the server's default (fallback) mode *)
  else if String.eqb key "amtool" then one (compat_matcher sp cp Fallback s)
  else Err "unknown-key".
Definition all_keys : list string := ["c1"; "cN"; "u1"; "uN"; "kc1"; "kcN"; "ku1"; "kuN"; "kf1"; "kfN"].

(* error classes: regex compile failure, recovered parser panic, fuel (never expected), anything else *)
Definition err_class (e : string) : string :=
  if String.eqb e "regex" then "re" else if String.eqb e "parser-panic" then e else if String.eqb e "fuel" then e else "e".
Definition same_res (model : res (list bm)) (obs : res (list matcher)) : bool :=
  match model, obs with
  | Ok a, Ok b => beq a (map bm_of b)
  | Err e, Err o => String.eqb (err_class e) o
  | Panic, Panic => true
  | _, _ => false
  end.

(* what each observable of a configuration case must be, by key. With equal = [] a target is muted iff the target
   side holds for it, the source side holds for the firing source alert, and not both (the source side holds for
   the target and the target side for the source: two-sided matches do not inhibit each other). *)
Definition cfg_expect (tbl : re_table) (src tgt rt : list matcher) (sls : list (string * string))
           (lss : list (list (string * string))) (key : string) : list bool :=
  let re := re_of_table tbl in
  let S := ms_matches re src in let T := ms_matches re tgt in
  if String.eqb key "S.src" then [S sls]
  else if String.eqb key "T.src" then [T sls]
  else if String.eqb key "S.tgt" then map S lss
  else if String.eqb key "T.tgt" then map T lss
  else if String.eqb key "mutes" then map (fun l => T l && S sls && negb (S l && T sls)) lss
  else if String.eqb key "route" || String.eqb key "route2" || String.eqb key "route3" then map (ms_matches re rt) lss
  else [].

Definition show_case (c : case) : shown :=
  match c with
  | CMatch tbl mss ls _ _ _ => let '(a, b, s) := model_match tbl mss ls in SMatch a b s
  | CSite tbl m ls _ => SSite (m_matches (re_of_table tbl) m (lget ls (m_name m)))
  | CSil tbl mss ls _ => SSite (mset_matches (re_of_table tbl) mss ls)
  | CSilN tbl sils ls _ _ => SMany (map (fun mss => mset_matches (re_of_table tbl) mss ls) sils)
  | CApi tbl ms lss _ => SMany (map (fun ls => ms_matches (re_of_table tbl) ms ls) lss)
  | CCfg tbl src tgt rt sls lss obs => SMany (flat_map (fun kv => cfg_expect tbl src tgt rt sls lss (fst kv)) obs)
  | CPrint tb ms _ _ => SPrint (map (fun m => print_b (sp_of tb) (pr_of tb) (bm_of m)) ms)
                               (print_list_b (sp_of tb) (pr_of tb) (map bm_of ms))
  | CParse tb input obs => SParse (map (fun kv => (fst kv, model_parse tb (fst kv) (bytes_of_string input))) obs)
  end.

Definition check_case (c : case) : bool :=
  match c with
  | CMatch tbl mss ls om oms oset =>
      let '(a, b, s) := model_match tbl mss ls in beq a om && beq b oms && beq s oset
  | CSite tbl m ls obs =>
      let v := m_matches (re_of_table tbl) m (lget ls (m_name m)) in
      forallb (fun '(_, b) => beq b v) obs
  | CSil tbl mss ls obs =>
      let v := mset_matches (re_of_table tbl) mss ls in
      forallb (fun '(_, b) => beq b v) obs
  | CSilN tbl sils ls oq om =>
      let v := map (fun mss => mset_matches (re_of_table tbl) mss ls) sils in
      forallb (fun '(_, b) => beq b v) oq && forallb (fun '(_, b) => beq b (existsb id v)) om
  | CApi tbl ms lss obs =>
      let v := map (fun ls => ms_matches (re_of_table tbl) ms ls) lss in
      forallb (fun '(_, b) => beq b v) obs
  | CCfg tbl src tgt rt sls lss obs =>
      forallb (fun kv => beq (snd kv) (cfg_expect tbl src tgt rt sls lss (fst kv))) obs
  | CPrint tb ms each all =>
      beq (map (fun m => print_b (sp_of tb) (pr_of tb) (bm_of m)) ms) (map bytes_of_string each) &&
      beq (print_list_b (sp_of tb) (pr_of tb) (map bm_of ms)) (bytes_of_string all)
  | CParse tb input obs =>
      let s := bytes_of_string input in
      forallb (fun kv => same_res (model_parse tb (fst kv) s) (snd kv)) obs
  end.

(* ---- executable form of the property on the model run ---- *)
Definition neg_type (t : mtype) : mtype := match t with MEq => MNeq | MNeq => MEq | MRe => MNre | MNre => MRe end.
Definition has_label (ls : list (string * string)) (n : string) : bool := existsb (fun kv => String.eqb (fst kv) n) ls.

(* the matchers the round-trip clause speaks about: non-empty valid-UTF-8 name, valid-UTF-8 value, regex compiles *)
Definition in_domain (tb : tables) (m : bm) : bool :=
  negb (beq (b_name m) []) && valid_utf8 (b_name m) && valid_utf8 (b_value m) &&
  (negb (is_regex (b_type m)) || cp_of tb (b_value m)).
Definition classic_name (n : list Z) : bool :=
  match n with c :: r => name_start c && forallb name_char r | [] => false end.

Definition no_panic_no_fuel {A} (r : res A) : bool :=
  match r with Panic => false | Err e => negb (String.eqb e "fuel") && negb (String.eqb e "parser-panic") | Ok _ => true end.

Definition prop_case (c : case) : bool :=
  match c with
  | CMatch tbl mss ls _ _ _ =>
      let re := re_of_table tbl in
      let '(a, b, s) := model_match tbl mss ls in
      beq b (map (forallb id) a) && beq s (existsb id b) &&
      forallb (fun ms => forallb (fun m =>
        let v := lget ls (m_name m) in
        beq (m_matches re (mkM (neg_type (m_type m)) (m_name m) (m_value m)) v) (negb (m_matches re m v)) &&
        (has_label ls (m_name m) || beq v "") &&
        match m_type m with
        | MEq => beq (m_matches re m v) (beq v (m_value m))
        | MNeq => beq (m_matches re m v) (negb (beq v (m_value m)))
        | _ => true
        end) ms) mss
  | CSite tbl m ls _ => true
  | CSil tbl mss ls _ =>
      (* a label the set does not carry, or carries with an empty value, is read as the empty string *)
      let re := re_of_table tbl in
      beq (mset_matches re mss ls) (mset_matches re mss (filter (fun kv => negb (String.eqb (snd kv) "")) ls))
  | CSilN _ _ _ _ _ => true
  | CCfg tbl src tgt rt sls lss _ =>
      (* the order in which a side's matchers are written (and hence the form they are written in) is irrelevant *)
      let re := re_of_table tbl in
      forallb (fun l => beq (ms_matches re src l) (ms_matches re (rev src) l) &&
                        beq (ms_matches re tgt l) (ms_matches re (rev tgt) l)) (sls :: lss)
  | CApi tbl ms lss _ =>
      (* an alert's verdict depends on its own labels only: evaluated alone it gets the same verdict *)
      forallb (fun ls => beq (ms_matches (re_of_table tbl) ms ls)
                             (forallb (fun m => m_matches (re_of_table tbl) m (lget ls (m_name m))) ms)) lss
  | CPrint tb ms _ _ =>
      let sp := sp_of tb in let pr := pr_of tb in let cp := cp_of tb in
      let bms := map bm_of ms in
      (* the contracts the round-trip theorems assume of the library tables hold for the real ones *)
      negb (pr 10) && negb (sp 34) && forallb (fun r => negb (name_char r)) (t_spaces tb) &&
      forallb sp [9; 10; 12; 13; 32] &&
      forallb (fun m =>
        negb (in_domain tb m) ||
        (let s := print_b sp pr m in
         beq (utf8_matchers sp cp s) (Ok [m]) && beq (utf8_matcher sp cp s) (Ok m) &&
         beq (compat_matcher sp cp Fallback s) (Ok m) && beq (compat_matchers sp cp Fallback s) (Ok [m]) &&
         (negb (classic_name (b_name m)) ||
          (beq (classic_matcher cp s) (Ok m) && beq (classic_matchers sp cp s) (Ok [m]))))) bms &&
      (negb (forallb (in_domain tb) bms) ||
       (let s := print_list_b sp pr bms in
        beq (utf8_matchers sp cp s) (Ok bms) && beq (compat_matchers sp cp Fallback s) (Ok bms) &&
        (negb (forallb (fun m => classic_name (b_name m)) bms) || beq (classic_matchers sp cp s) (Ok bms))))
  | CParse tb input _ =>
      let sp := sp_of tb in let cp := cp_of tb in
      let s := bytes_of_string input in
      no_panic_no_fuel (utf8_parse_raw sp cp s) && no_panic_no_fuel (classic_matchers sp cp s) &&
      no_panic_no_fuel (classic_matcher cp s) &&
      (* fallback: classic result when both accept and differ, the common one when equal, classic-only accepted,
         error when both reject *)
      match utf8_matchers sp cp s, classic_matchers sp cp s, compat_matchers sp cp Fallback s with
      | Ok n, Ok c, r => beq r (Ok c)
      | Ok n, Err _, r => beq r (Ok n)
      | Err _, Ok c, r => beq r (Ok c)
      | Err _, Err _, Err _ => true
      | _, _, _ => false
      end
  end.
