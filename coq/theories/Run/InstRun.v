(* Correspondence interface of the INSTANCE model (Model/Instance.v): a case = instance configuration (the real
   routing tree as built by dispatch.NewRoute, regexp table, receivers, alert identities), start instant, and the
   recorded GLOBAL event list of one whole-instance run with the outputs observed at each event.
   A published alert is ONE event [IAlert]: the MODEL decides which groups receive it.
   check_case: the model accepts the run and every event produces exactly the observed (group key, output) list. *)
From AM Require Export Base.Prelude Model.Matchers Model.Route Model.Grouping Model.Group Model.Instance.

Record case := mkICase { c_cfg : inst_cfg; c_t0 : Z; c_hist : list (Z * iev * list (gkey * out)) }.

(* compact constructors for generated case files (an application of a typed constant elaborates much faster than
   nested pair / list notations): an event of group k with the outputs observed for it, a published alert, the log
   GC, the end of the run *)
Definition ig (k : gkey) (e : ev) (t : Z) (outs : list out) : Z * iev * list (gkey * out) := (t, IGroup k e, map (pair k) outs).
Definition ia (ls : list (string * string)) (st en up : Z) (t : Z) : Z * iev * list (gkey * out) := (t, IAlert ls st en up, []).
Definition igc (t : Z) : Z * iev * list (gkey * out) := (t, IGC, []).
Definition iend (t : Z) : Z * iev * list (gkey * out) := (t, IEnd, []).
Definition gk (p : list nat) (ls : list (string * string)) : gkey := (p, ls).

Fixpoint irun_outs (cfg : inst_cfg) (s : istate) (h : list (Z * iev * list (gkey * out))) : option (list (list (gkey * out))) :=
  match h with
  | [] => Some []
  | (t, e, _) :: r =>
      match istep cfg s t e with
      | Some (s1, o1) => match irun_outs cfg s1 r with Some os => Some (o1 :: os) | None => None end
      | None => None
      end
  end.

(* diagnostics: index of the first rejected event with the group keys whose machines refuse it (empty list: the
   instance-level guard refused: clock backwards / unknown alert identity / not an own event), or the outputs *)
Definition refusing (cfg : inst_cfg) (s : istate) (t : Z) (ie : iev) : list gkey :=
  List.filter (fun k => match step (gcfg_of cfg (fst k)) (view cfg s k) t (proj cfg k ie) with Some _ => false | None => true end)
              (remove_dups (map fst (is_groups s) ++ touched cfg ie)).
Fixpoint irun_diag (cfg : inst_cfg) (s : istate) (n : nat) (h : list (Z * iev * list (gkey * out)))
  : (nat * Z * list gkey) + list (list (gkey * out)) :=
  match h with
  | [] => inr []
  | (t, e, _) :: r =>
      match istep cfg s t e with
      | Some (s1, o1) => match irun_diag cfg s1 (S n) r with inr os => inr (o1 :: os) | inl k => inl k end
      | None => inl (n, t, refusing cfg s t e)
      end
  end.

Definition show_case (c : case) := irun_diag (c_cfg c) (iinit (c_t0 c)) 0 (c_hist c).

Definition check_case (c : case) : bool :=
  ids_ok (c_cfg c) &&
  match irun_outs (c_cfg c) (iinit (c_t0 c)) (c_hist c) with
  | Some os => beq os (map snd (c_hist c))
  | None => false
  end.

(* ---------- executable forms of the lifted properties, evaluated on the model's own run ---------- *)

(* (c) as in Run/GroupRun.v: every notification carries a reason, lists no resolved alert when send_resolved is off,
   and every log write follows a successful send in the same step or is the empty-firing bookkeeping write *)
Definition outs_ok (cfg : gcfg) (o : list out) : bool :=
  forallb (fun x => match x with
                    | ONotify i r sent _ =>
                        negb (bool_decide (r = RNo)) &&
                        match g_ints cfg !! i with
                        | Some ic => i_send_resolved ic || forallb (fun f => negb (f_res f)) sent
                        | None => false
                        end
                    | _ => true end) o &&
  match o with
  | [OLog _ F _ _] => match F with [] => true | _ => false end
  | [ONotify i _ _ OK; OLog j _ _ _] => bool_decide (i = j)
  | _ => forallb (fun x => match x with OLog _ _ _ _ => false | _ => true end) o
  end.

Definition no_outs {A} (o : list A) : bool := match o with [] => true | _ => false end.

(* (a) after a published alert: it is held by exactly the groups the closed form of the routing rule selects
   (one per selected route, labels = the alert's grouped labels); every other known group's store is untouched *)
Definition step_prop (cfg : inst_cfg) (s : istate) (ie : iev) (s' : istate) (o : list (gkey * out)) : bool :=
  match ie with
  | IAlert ls st en up =>
      match assoc (ic_ids cfg) ls with
      | None => false
      | Some id =>
          let tg := targets cfg ls in
          forallb (fun k =>
                     if bool_decide (k ∈ tg) then
                       match s_group (view cfg s' k) with
                       | Some g => existsb (fun b => a_id b =? id) (gr_alerts g)
                       | None => false
                       end
                     else beq (option_map gr_alerts (s_group (view cfg s' k))) (option_map gr_alerts (s_group (view cfg s k))))
                  (map fst (is_groups s') ++ tg)
          && beq (List.filter (selected (ic_re cfg) ls (ic_route cfg)) (pre_order (ic_route cfg))) (map fst tg)
          && forallb (fun k => match node_at (ic_route cfg) (fst k) with
                               | Some n => forallb (fun kv => grouped (r_opts n) (fst kv) && bool_decide (kv ∈ ls)) (snd k)
                                           && forallb (fun kv => negb (grouped (r_opts n) (fst kv)) || bool_decide (kv ∈ snd k)) ls
                               | None => false
                               end) tg
          && no_outs o
      end
  | IGroup k e => outs_ok (gcfg_of cfg (fst k)) (outs_for k o) && forallb (fun ko => bool_decide (fst ko = k)) o
  | _ => no_outs o
  end.

Fixpoint prop_run (cfg : inst_cfg) (s : istate) (h : list (Z * iev * list (gkey * out))) : bool :=
  match h with
  | [] => true
  | (t, ie, _) :: r =>
      match istep cfg s t ie with
      | Some (s', o) => step_prop cfg s ie s' o && prop_run cfg s' r
      | None => true
      end
  end.

Definition prop_case (c : case) : bool := prop_run (c_cfg c) (iinit (c_t0 c)) (c_hist c).
