(* route-key cases of C06: the matchers of one route as WRITTEN in the configuration (deprecated match / match_re
   maps, matchers list in written order) vs the matcher list of the route dispatch.NewRoute built (the order in
   which Route.Key / ID print them, hence the prefix of every group key under the route).
   check_case: the model's canonical list (Model/Route.v build_matchers: sort by name, value, kind) is that list. *)
From AM Require Export Base.Prelude Model.Matchers Model.Route.

Record case := mkKC { kc_match : list (string * string); kc_match_re : list (string * string);
                      kc_matchers : list matcher; kc_obs : list matcher }.
Definition cfg_of (c : case) : rcfg :=
  mkRC "" None (kc_match c) (kc_match_re c) (kc_matchers c) [] [] false None None None [].
Definition show_case (c : case) := build_matchers (cfg_of c).
Definition check_case (c : case) : bool := beq (show_case c) (kc_obs c).

(* executable form of "canonical": no later element sorts before an earlier one, and the list is the written
   matchers (same multiset) *)
Fixpoint sorted_b (l : list matcher) : bool :=
  match l with
  | [] => true
  | x :: r => forallb (fun y => negb (m_less y x)) r && sorted_b r
  end.
Definition count_m (m : matcher) (l : list matcher) : nat := length (List.filter (fun x => bool_decide (x = m)) l).
Definition written (c : case) : list matcher :=
  map (fun '(n, v) => mkM MEq n v) (kc_match c) ++ map (fun '(n, v) => mkM MRe n (anchored v)) (kc_match_re c) ++ kc_matchers c.
Definition prop_case (c : case) : bool :=
  sorted_b (show_case c) &&
  forallb (fun m => Nat.eqb (count_m m (show_case c)) (count_m m (written c))) (written c) &&
  Nat.eqb (length (show_case c)) (length (written c)).
