(* Correspondence interface of the PRODUCT model Silencer x Group (Model/Pipeline.v; theorems (6) of Properties/C02.v).
   A case = one aggregation group of a whole-instance run with silence operations: group configuration, silence
   retention, start instant, the label set of every alert id, and the recorded event list (silence operations, ticks
   with only the ids muted by the OTHER mute stages, the group's other events) with the outputs the implementation
   produced at each event. The model computes the silenced part of every flush from its own silence store.
   check_case: the product accepts the run and produces the same outputs (which alerts every flush hands to the
               integrations, every notification's content and reason, every log write).
   prop_case : on the model's run, no notification lists an alert that the specification verdict (brute evaluation of
               the silence store at the latest flush) calls silenced — the executable form of
               c02_silenced_alert_is_never_notified. *)
From AM Require Export Base.Prelude Model.Matchers Model.Silence Model.Silencer.
From AM Require Export Model.Group Model.Pipeline.

Record case := mkCase {
  c_cfg : gcfg; c_ret : Z; c_t0 : Z; c_lbl : list (Z * labels); c_hist : list (Z * pev * list Group.out) }.

Definition lbl_of (tbl : list (Z * labels)) (a : Z) : labels :=
  match find (fun p => fst p =? a) tbl with Some p => snd p | None => [] end.

(* only equality matchers on valid ASCII names occur in these runs: every oracle answers "valid" *)
Definition px : ext := ext_of_table (mkExtT [] [] [] [] []).
Definition scfg (c : case) : Silence.cfg := mkCfg (c_ret c) 0 0.

Fixpoint run_diag (cfg : gcfg) (c : Silence.cfg) (lbl : Z -> labels) (P : pstate) (n : nat)
  (h : list (Z * pev * list Group.out)) : nat + list (list Group.out) :=
  match h with
  | [] => inr []
  | (t, e, _) :: r =>
      match pstep cfg c px lbl P t e with
      | Some (P1, o1) => match run_diag cfg c lbl P1 (S n) r with inr os => inr (o1 :: os) | inl k => inl k end
      | None => inl n
      end
  end.

Definition model_outs (c : case) :=
  run_diag (c_cfg c) (scfg c) (lbl_of (c_lbl c)) (pinit (c_cfg c) (c_t0 c)) 0 (c_hist c).
Definition show_case := model_outs.
Definition check_case (c : case) : bool :=
  match model_outs c with
  | inr os => beq os (map snd (c_hist c))
  | inl _ => false
  end.

Definition silenced_b (lbl : Z -> labels) (S : store) (now : Z) (a : Z) : bool := brute px S (lbl a) now.

Fixpoint prop_run (cfg : gcfg) (c : Silence.cfg) (lbl : Z -> labels) (P : pstate) (h : list (Z * pev * list Group.out)) : bool :=
  match h with
  | [] => true
  | (t, e, _) :: r =>
      match pstep cfg c px lbl P t e with
      | Some (P1, o1) =>
          forallb (fun y => match y with
                            | ONotify _ _ sent _ =>
                                match p_flush P with
                                | Some (tf, Sf) => forallb (fun f => negb (silenced_b lbl Sf tf (f_id f))) sent
                                | None => false
                                end
                            | _ => true
                            end) o1 && prop_run cfg c lbl P1 r
      | None => true
      end
  end.

Definition prop_case (c : case) : bool :=
  prop_run (c_cfg c) (scfg c) (lbl_of (c_lbl c)) (pinit (c_cfg c) (c_t0 c)) (c_hist c).
