(* Correspondence interface for C18.  Four engines, one case type:
     CBucket : op sequence on a real limit.Bucket (Upsert results, IsStale, size and value->priority map; layout-free)
     CStore  : history on a real provider/mem.Alerts with a per-alert-name limit (accept/limited counter, List)
     CSil    : create/edit/expire/GC history on a real silence.Silences with Limits (error code, all silences)
     CSem    : arrival/completion events through the real api limitHandler (status, exceeded counter)
   check_case: the model run on the same ops at the same instants reproduces the recorded observations.
   prop_case : executable form of the property on the model run. *)
From stdpp Require Import sorting.
From AM Require Export Base.Prelude Model.Bucket Model.StoreLimit Model.SilenceLimits Model.Semaphore.

(* ---------- engine 1 ---------- *)
(* The array layout of the heap is not observable behaviour (a different but valid sift sequence, e.g. overwrite
   the root + heap.Fix instead of Pop + Push, leaves other slots), so the correspondence goes through the
   ABSTRACTION of the refinement proof (Proofs/BucketProofs.v: upsert_refines): per operation the returned value,
   the IsStale answer, the size and the finite map value -> priority.  Each step is checked from the abstract
   state the implementation was observed in: the model bucket is rebuilt from that map with the faithful heap.Push
   (any valid heap of the same content will do, by the refinement theorem the outcome depends on the content only,
   except for WHICH of several equal-priority minima is evicted; in that one case the key sets are compared up to
   that choice: same multiset of priorities, the new key present, every other key kept from before).
   Heap order and index-map coherence of the REAL array are judged by the harness's direct oracle, and of the
   model's own run by prop_case. *)
Inductive bop := BUpsert (v p : Z) | BStale.
(* observed: result of the call, content afterwards as (value, priority) pairs in any order *)
Definition bobs : Type := bool * list (Z * Z).

Definition bstep (b : bucket) (now : Z) (o : bop) : bucket * bool :=
  match o with
  | BUpsert v p => upsert b v p now
  | BStale => (b, is_stale b now)
  end.

(* a valid bucket with the given content *)
Definition bucket_of (cap : Z) (content : list (Z * Z)) : bucket :=
  mkBucket (foldl (fun l vp => hpush l (fst vp) (snd vp)) [] content) cap.

Definition sorted_prios (l : list (Z * Z)) : list Z := merge_sort Z.le (map snd l).
Definition same_map (m : gmap Z Z) (l : list (Z * Z)) : bool :=
  (size m =? length l)%nat && bool_decide (NoDup (map fst l)) && forallb (fun vp => beq (m !! fst vp) (Some (snd vp))) l.

(* several items share the minimal priority *)
Definition min_tie (l : list (Z * Z)) : bool :=
  match sorted_prios l with a :: b :: _ => a =? b | _ => false end.

Definition bcheck1 (cap : Z) (before : list (Z * Z)) (now : Z) (o : bop) (obs : bobs) : bool :=
  let b := bucket_of cap before in
  let '(b', x) := bstep b now o in
  let '(ok, after) := obs in
  beq x ok &&
  match o with
  | BUpsert v p =>
      if same_map (abs b') after then true
      else (* eviction among equal-priority minima: equal up to which of them went *)
        min_tie before && negb (bool_decide (v ∈ map fst before)) && (cap <=? Z.of_nat (length before)) && x &&
        beq (sorted_prios (entries (b_items b'))) (sorted_prios after) &&
        bool_decide (NoDup (map fst after)) && bool_decide ((v, p) ∈ after) &&
        forallb (fun wq => (fst wq =? v) || bool_decide (wq ∈ before)) after
  | BStale => same_map (abs b') after
  end.

Fixpoint bcheck (cap : Z) (before : list (Z * Z)) (h : list (Z * bop * bobs)) : bool :=
  match h with
  | [] => true
  | (now, o, obs) :: r => bcheck1 cap before now o obs && bcheck cap (snd obs) r
  end.

(* the model's own run (faithful array), for prop_case and show_case *)
Definition bview (b : bucket) : list (Z * Z * nat) := map (fun x => (it_val x, it_prio x, it_idx x)) (b_items b).
Fixpoint brun (b : bucket) (h : list (Z * bop)) : list (bool * list (Z * Z * nat)) :=
  match h with
  | [] => []
  | (now, o) :: r => let '(b', x) := bstep b now o in (x, bview b') :: brun b' r
  end.
Fixpoint binv (b : bucket) (h : list (Z * bop)) : bool :=
  match h with
  | [] => true
  | (now, o) :: r => let '(b', _) := bstep b now o in inv_b b' && binv b' r
  end.

(* ---------- engine 2 ---------- *)
(* observed after each op: accepted?, limited counter, the store's alerts sorted by fingerprint *)
Definition sobs : Type := bool * nat * list alert.

Definition same_alerts (s : store) (l : list alert) : bool :=
  (length (map_to_list (s_alerts s)) =? length l)%nat &&
  forallb (fun a => beq (s_alerts s !! a_fp a) (Some a)) l.

Fixpoint srun_check (N : Z) (s : store) (h : list (Z * op * sobs)) : bool :=
  match h with
  | [] => true
  | (now, o, (acc, lim, al)) :: r =>
      let '(s', x) := step N s now o in
      beq x acc && (s_limited s' =? lim)%nat && same_alerts s' al && srun_check N s' r
  end.

Definition names_of (s : store) : list string := map (fun kv => a_name (snd kv)) (map_to_list (s_alerts s)).

Fixpoint srun_prop (N : Z) (s : store) (h : list (Z * op)) : bool :=
  match h with
  | [] => true
  | (now, o) :: r =>
      let '(s', _) := step N s now o in
      ((N <=? 0) || forallb (fun n => (Z.of_nat (count_unexpired s' n now) <=? N)) (names_of s')) && srun_prop N s' r
  end.

Fixpoint srun_show (N : Z) (s : store) (h : list (Z * op)) : list (bool * nat * list alert * list (string * list (Z * Z))) :=
  match h with
  | [] => []
  | (now, o) :: r =>
      let '(s', x) := step N s now o in
      (x, s_limited s', map snd (map_to_list (s_alerts s')),
       map (fun kv => (fst kv, entries (b_items (snd kv)))) (map_to_list (s_limits s'))) :: srun_show N s' r
  end.

(* ---------- engine 3 ---------- *)
Inductive silop :=
| SSet (s : sil) (newid : string) (sz : Z)   (* sz = proto.Size of the MeshSilence this call builds *)
| SExpire (id : string)
| SGC.
(* observed: outcome code ("ok" / "invalid" / "notfound" / "size" / "count" / "other"), id assigned, all silences *)
Definition silobs : Type := string * string * list sil.

Definition code_of {A} (r : res A) : string := match r with Ok _ => "ok" | Err c => c | Panic => "panic" end.

Definition silstep (lim : limits) (ret : Z) (st : gmap string msil) (now : Z) (o : silop)
  : gmap string msil * string * string :=
  match o with
  | SSet s newid sz =>
      let '(st', r) := set_sil lim ret (fun _ => sz) st now s newid in
      (st', code_of r, match r with Ok id => id | _ => "" end)
  | SExpire id => let '(st', r) := expire ret st id now in (st', code_of r, "")
  | SGC => (filter (fun kv => now <? m_expires (snd kv)) st, "ok", "")
  end.

Definition same_sils (st : gmap string msil) (l : list sil) : bool :=
  (length (map_to_list st) =? length l)%nat &&
  forallb (fun s => beq (m_sil <$> st !! s_id s) (Some s)) l.

Fixpoint silrun_check (lim : limits) (ret : Z) (st : gmap string msil) (h : list (Z * silop * silobs)) : bool :=
  match h with
  | [] => true
  | (now, o, (code, id, l)) :: r =>
      let '(st', c, i) := silstep lim ret st now o in
      beq c code && beq i id && same_sils st' l && silrun_check lim ret st' r
  end.

(* property on the model run: count bound kept by Set, refusals leave the state untouched, stored size bounded *)
Fixpoint silrun_prop (lim : limits) (ret : Z) (st : gmap string msil) (h : list (Z * silop)) : bool :=
  match h with
  | [] => true
  | (now, o) :: r =>
      let '(st', c, i) := silstep lim ret st now o in
      let n := Z.of_nat (length (map_to_list st)) in
      let n' := Z.of_nat (length (map_to_list st')) in
      (match o with
       | SSet s newid sz =>
           (if beq c "ok" then
              ((n' <=? n) || negb (0 <? max_silences lim) || (n' <=? max_silences lim))
              && (negb (0 <? max_size lim) || (sz <=? max_size lim))
            else beq (map_to_list st') (map_to_list st))
       | _ => true
       end) && silrun_prop lim ret st' r
  end.

Fixpoint silrun_show (lim : limits) (ret : Z) (st : gmap string msil) (h : list (Z * silop)) : list (string * string * list sil) :=
  match h with
  | [] => []
  | (now, o) :: r =>
      let '(st', c, i) := silstep lim ret st now o in (c, i, all_sils st') :: silrun_show lim ret st' r
  end.

(* ---------- engine 4 ---------- *)
(* observed per event: verdict (Served for 200 / Refused503 / Done for a completion), exceeded counter afterwards *)
Fixpoint semrun_check (c : nat) (s : sem) (h : list (ev * verdict * nat)) : bool :=
  match h with
  | [] => true
  | (e, v, n) :: r =>
      let '(s', v') := sem_step c s e in beq v' v && (exceeded s' =? n)%nat && semrun_check c s' r
  end.
(* independent count: GETs served (per the model's verdicts) and not yet completed, before each event *)
Fixpoint semrun_prop (c : nat) (s : sem) (inflight : list nat) (h : list ev) : bool :=
  match h with
  | [] => true
  | e :: r =>
      let '(s', v) := sem_step c s e in
      match e with
      | Arrive id GET =>
          beq v (if (length inflight <? c)%nat then Served else Refused503) &&
          semrun_prop c s' (if beq v Served then id :: inflight else inflight) r
      | Arrive id POST => beq v Served && semrun_prop c s' inflight r
      | Complete id => semrun_prop c s' (filter (fun x => x ≠ id) inflight) r
      end
  end.

(* ---------- engine 5: concurrent creates at the count limit ---------- *)
(* `pre` silences are stored, then K callers create at once through the real Silences.Set / POST /api/v2/silences
   (the MaxSilences callback is used as a rendezvous, or free-running).  Set holds the write lock over check and
   insertion, so every concurrent execution is a linearization: the model runs the creates one after the other, in
   the listed order AND in the reverse order (the outcome counts do not depend on the order), and must reproduce
   the observed number of successes and of stored silences.  A request is (fresh id, proto.Size of its MeshSilence). *)
Definition conc_req : Type := string * Z.
Definition conc_sil : sil := mkSil "" 1 true 0 1000 5000 0.
Fixpoint conc_run (lim : limits) (st : gmap string msil) (reqs : list conc_req) : gmap string msil * nat :=
  match reqs with
  | [] => (st, O)
  | (id, sz) :: r =>
      let '(st', res) := set_sil lim 3600 (fun _ => sz) st 1000 conc_sil id in
      let '(st'', n) := conc_run lim st' r in
      (st'', match res with Ok _ => S n | _ => n end)
  end.
Definition conc_model (lim : limits) (pre reqs : list conc_req) : nat * nat * nat :=
  let '(st0, npre) := conc_run lim ∅ pre in
  let '(st1, n) := conc_run lim st0 reqs in
  (npre, n, size st1).
Definition conc_check (lim : limits) (pre reqs : list conc_req) (okn stored : nat) : bool :=
  beq (conc_model lim pre reqs) (length pre, okn, stored) &&
  beq (conc_model lim pre (reverse reqs)) (length pre, okn, stored).
Definition conc_prop (lim : limits) (pre reqs : list conc_req) : bool :=
  let '(_, _, n) := conc_model lim pre reqs in
  negb (0 <? max_silences lim) || (Z.of_nat n <=? max_silences lim).

(* ---------- the case type ---------- *)
Inductive case :=
| CBucket (cap : Z) (h : list (Z * bop * bobs))
| CStore (N : Z) (h : list (Z * op * sobs))
| CSil (lim : limits) (ret : Z) (h : list (Z * silop * silobs))
| CSem (c : nat) (h : list (ev * verdict * nat))
| CSilConc (lim : limits) (pre reqs : list conc_req) (okn stored : nat).

Definition check_case (c : case) : bool :=
  match c with
  | CBucket cap h => bcheck cap [] h
  | CStore N h => srun_check N empty_store h
  | CSil lim ret h => silrun_check lim ret ∅ h
  | CSem c h => semrun_check c sem0 h
  | CSilConc lim pre reqs okn stored => conc_check lim pre reqs okn stored
  end.

Definition prop_case (c : case) : bool :=
  match c with
  | CBucket cap h => binv (new_bucket cap) (map fst h)
  | CStore N h => srun_prop N empty_store (map fst h)
  | CSil lim ret h => silrun_prop lim ret ∅ (map fst h)
  | CSem c h => semrun_prop c sem0 [] (map (fun x => fst (fst x)) h)
  | CSilConc lim pre reqs _ _ => conc_prop lim pre reqs
  end.

Inductive shown :=
| ShBucket (o : list (bool * list (Z * Z * nat)))
| ShStore (o : list (bool * nat * list alert * list (string * list (Z * Z))))
| ShSil (o : list (string * string * list sil))
| ShSem (o : list verdict * nat)
| ShSilConc (o : nat * nat * nat).

Definition show_case (c : case) : shown :=
  match c with
  | CBucket cap h => ShBucket (brun (new_bucket cap) (map fst h))
  | CStore N h => ShStore (srun_show N empty_store (map fst h))
  | CSil lim ret h => ShSil (silrun_show lim ret ∅ (map fst h))
  | CSem c h => let '(s, vs) := sem_run c sem0 (map (fun x => fst (fst x)) h) in ShSem (vs, exceeded s)
  | CSilConc lim pre reqs _ _ => ShSilConc (conc_model lim pre reqs)
  end.
