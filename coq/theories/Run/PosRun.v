(* Correspondence interface for cluster.Peer.Position (Model/Position.v; used by C08).
   A case is one settled instant of one real cluster (real memberlists over the in-memory hub): for every live
   member its name and the value its own Position() returned. All member views agree at a settled instant, so the
   members are the names of the case.
   check_case: for every member the model's position of its name among all names equals the observed value.
   prop_case : the observed positions are pairwise distinct and all < n (what C08's turn-taking needs). *)
From AM Require Export Base.Prelude Model.Position.

Definition case : Type := list (string * nat).

Definition names (c : case) : list string := map fst c.
Definition model_positions (c : case) : list nat := map (fun '(n, _) => position n (names c)) c.
Definition show_case := model_positions.
Definition check_case (c : case) : bool := beq (model_positions c) (map snd c).

Fixpoint distinctb (l : list nat) : bool :=
  match l with
  | [] => true
  | x :: r => negb (existsb (Nat.eqb x) r) && distinctb r
  end.
Definition prop_case (c : case) : bool :=
  distinctb (map snd c) && forallb (fun p => (p <? length c)%nat) (map snd c).
