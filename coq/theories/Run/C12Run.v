(* Correspondence interface for C12 (and the local-operation part of the shared silence model).
   A case = configuration, oracle tables, and a history of (instant, op-or-dump, observed output).
   check_case: the model, run on the same ops at the same instants, produces the observed outputs, and after
               every op the same st / mi / vi / version bookkeeping (XDump).
   prop_case : executable form of the lifecycle property evaluated along the model run. *)
From AM Require Export Base.Prelude Model.Matchers Model.Silence.

(* XMarshal: the records Silences.MarshalBinary writes (the full state of a push/pull exchange), as a set *)
(* XLimit n: the operator changes Limits.MaxSilenceSizeBytes to n (the limit is a function read at every call) *)
Inductive xop := XOp (o : op) | XDump | XMarshal | XLimit (maxsize : Z).
Inductive xout := XOut (o : out) | XDumped (st_ids mi_ids : list string) (vi_ : list (Z * string)) (ver_ : Z)
  | XMarshalled (recs : list wire) | XLimited.

Record case := mkCase { k_cfg : cfg; k_ext : ext_table; k_hist : list (Z * xop * xout) }.

Definition same_set (a b : list string) : bool :=
  (length a =? length b)%nat && forallb (fun k => mem k b) a && forallb (fun k => mem k a) b.

(* A rejection whose error text / HTTP body the harness does not recognise is recorded as RErr "?" (any reason) or,
   for an HTTP 400 answer, RErr "?400" (any reason but not-found, which is a 404): the WORDING of an error is not
   behaviour. Such an observation is compatible with any model rejection of that class, never with a success. *)
Definition out_compat (model impl : out) : bool :=
  match impl, model with
  | RErr c, RErr m =>
      if String.eqb c "?" then true
      else if String.eqb c "?400" then negb (String.eqb m "notfound")
      else String.eqb c m
  | _, _ => beq model impl
  end.

Definition xout_eqb (model impl : xout) : bool :=
  match model, impl with
  | XOut a, XOut b => out_compat a b
  | XDumped s1 m1 v1 n1, XDumped s2 m2 v2 n2 => same_set s1 s2 && same_set m1 m2 && beq v1 v2 && (n1 =? n2)
  | XLimited, XLimited => true
  | XMarshalled r1, XMarshalled r2 =>
      (length r1 =? length r2)%nat && forallb (fun w => bool_decide (w ∈ r2)) r1 && forallb (fun w => bool_decide (w ∈ r1)) r2
  | _, _ => false
  end.

Definition xstep (c : cfg) (x : ext) (S : store) (now : Z) (o : xop) : store * xout :=
  match o with
  | XOp o => let '(S', y) := step c x S now o in (S', XOut y)
  | XDump => let '(a, b, v, n) := dump S in (S, XDumped a b v n)
  | XMarshal => (S, XMarshalled (map (fun kv => encode_rec (snd kv)) (map_to_list (st S))))
  | XLimit _ => (S, XLimited)
  end.

Definition xcfg (c : cfg) (o : xop) : cfg :=
  match o with XLimit n => mkCfg (c_ret c) (c_maxsil c) n | _ => c end.

Fixpoint xrun (c : cfg) (x : ext) (S : store) (h : list (Z * xop)) : list xout :=
  match h with
  | [] => []
  | (now, o) :: r => let '(S', y) := xstep c x S now o in y :: xrun (xcfg c o) x S' r
  end.

Definition model_outs (k : case) : list xout :=
  xrun (k_cfg k) (ext_of_table (k_ext k)) empty_store (map fst (k_hist k)).
Definition show_case := model_outs.

Fixpoint all2 {A B} (f : A -> B -> bool) (a : list A) (b : list B) : bool :=
  match a, b with
  | [], [] => true
  | x :: a', y :: b' => f x y && all2 f a' b'
  | _, _ => false
  end.
Definition check_case (k : case) : bool := all2 xout_eqb (model_outs k) (map snd (k_hist k)).

(* ---- the property, executable, on the model run ---- *)

Definition is_gc_op (o : op) : bool := match o with OGC => true | _ => false end.
Definition is_local (o : op) : bool := match o with OMerge _ _ _ => false | _ => true end.

(* one step respects the lifecycle:
   - a silence that was expired at [now] before the step is unchanged after it, or was collected by a GC at or
     after its ExpiresAt;
   - a silence that was pending/active is never removed (retention > 0);
   - no id disappears except through GC;
   - the three indexes hold the same ids afterwards, the version index is duplicate-free and sorted. *)
Definition ids_of_vi (S : store) : list string := map snd (vi S).
Fixpoint sorted_le (l : list Z) : bool :=
  match l with a :: ((b :: _) as r) => (a <=? b) && sorted_le r | _ => true end.
Definition indexes_ok (S : store) : bool :=
  same_set (map fst (map_to_list (st S))) (map fst (map_to_list (mi S))) &&
  same_set (map fst (map_to_list (st S))) (ids_of_vi S) &&
  bool_decide (NoDup (ids_of_vi S)) && sorted_le (map fst (vi S)) &&
  forallb (fun sv => fst sv <=? ver S) (vi S).

Definition step_ok (c : cfg) (S : store) (now : Z) (o : op) (S' : store) : bool :=
  forallb (fun '(id, e) =>
    match st S' !! id with
    | Some e' =>
        match sil_state (m_sil e) now with
        | SExpired => beq e e'
        | _ => true
        end
    | None => is_gc_op o && (m_exp e <=? now) &&
              (match sil_state (m_sil e) now with SExpired => true | _ => c_ret c <=? 0 end)
    end) (map_to_list (st S)) && indexes_ok S'.

Fixpoint hist_ok (c : cfg) (x : ext) (S : store) (h : list (Z * xop)) : bool :=
  match h with
  | [] => true
  | (now, XOp o) :: r =>
      let S' := fst (step c x S now o) in
      (negb (is_local o) || step_ok c S now o S') && hist_ok c x S' r
  | (_, XDump) :: r | (_, XMarshal) :: r => hist_ok c x S r
  | (_, XLimit n) :: r => hist_ok (xcfg c (XLimit n)) x S r
  end.

Definition prop_case (k : case) : bool :=
  hist_ok (k_cfg k) (ext_of_table (k_ext k)) empty_store (map fst (k_hist k)).
