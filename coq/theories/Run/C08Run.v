From AM Require Export Run.GroupRun.
