(* Correspondence interface of the timed group model (shared by C01 C04 C05 C06 C08):
   a case = group configuration, start instant, and the recorded event list with the outputs the implementation
   produced at each event. check_case: the model accepts the run and produces the same outputs. *)
From AM Require Export Base.Prelude Model.Group.

Record case := mkCase { c_cfg : gcfg; c_t0 : Z; c_hist : list (Z * ev * list out) }.

Fixpoint run_outs (cfg : gcfg) (s : gstate) (h : list (Z * ev * list out)) : option (list (list out)) :=
  match h with
  | [] => Some []
  | (t, e, _) :: r =>
      match step cfg s t e with
      | Some (s1, o1) => match run_outs cfg s1 r with Some os => Some (o1 :: os) | None => None end
      | None => None
      end
  end.

(* index of the first event the model rejects (for diagnostics), or the outputs *)
Fixpoint run_diag (cfg : gcfg) (s : gstate) (n : nat) (h : list (Z * ev * list out)) : nat + list (list out) :=
  match h with
  | [] => inr []
  | (t, e, _) :: r =>
      match step cfg s t e with
      | Some (s1, o1) => match run_diag cfg s1 (S n) r with inr os => inr (o1 :: os) | inl k => inl k end
      | None => inl n
      end
  end.

Definition model_outs (c : case) := run_diag (c_cfg c) (init (c_cfg c) (c_t0 c)) 0 (c_hist c).
Definition show_case := model_outs.
Definition check_case (c : case) : bool :=
  match run_outs (c_cfg c) (init (c_cfg c) (c_t0 c)) (c_hist c) with
  | Some os => beq os (map snd (c_hist c))
  | None => false
  end.

(* executable form of the properties on the model's own run (guards against vacuous theorems): every notification
   carries a reason, lists no resolved alert when send_resolved is off, and every log write follows a successful
   send in the same step or is the empty-firing bookkeeping write *)
Definition outs_ok (cfg : gcfg) (o : list out) : bool :=
  forallb (fun x => match x with
                    | ONotify i r sent _ =>
                        negb (bool_decide (r = RNo)) &&
                        match g_ints cfg !! i with
                        | Some ic => i_send_resolved ic || forallb (fun f => negb (f_res f)) sent
                        | None => false
                        end
                    | _ => true end) o &&
  match o with
  | [OLog _ F _ _] => is_nil F
  | [ONotify i _ _ OK; OLog j _ _ _] => bool_decide (i = j)
  | _ => forallb (fun x => match x with OLog _ _ _ _ => false | _ => true end) o
  end.

Definition prop_case (c : case) : bool :=
  match run_outs (c_cfg c) (init (c_cfg c) (c_t0 c)) (c_hist c) with
  | Some os => forallb (outs_ok (c_cfg c)) os
  | None => true
  end.
