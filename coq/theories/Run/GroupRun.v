(* Correspondence interface of the timed group model (shared by C01 C04 C05 C06 C08):
   a case = group configuration, start instant, and the recorded event list with the outputs the implementation
   produced at each event. check_case: the model accepts the run and produces the same outputs. *)
From AM Require Export Base.Prelude Model.Group.

Record case := mkCase { c_cfg : gcfg; c_t0 : Z; c_hist : list (Z * ev * list out) }.

Fixpoint run_outs (cfg : gcfg) (s : gstate) (h : list (Z * ev * list out)) : option (list (list out)) :=
  match h with
  | [] => Some []
  | (t, e, _) :: r =>
      match step cfg s t e with
      | Some (s1, o1) => match run_outs cfg s1 r with Some os => Some (o1 :: os) | None => None end
      | None => None
      end
  end.

(* index of the first event the model rejects (for diagnostics), or the outputs *)
Fixpoint run_diag (cfg : gcfg) (s : gstate) (n : nat) (h : list (Z * ev * list out)) : nat + list (list out) :=
  match h with
  | [] => inr []
  | (t, e, _) :: r =>
      match step cfg s t e with
      | Some (s1, o1) => match run_diag cfg s1 (S n) r with inr os => inr (o1 :: os) | inl k => inl k end
      | None => inl n
      end
  end.

Definition model_outs (c : case) := run_diag (c_cfg c) (init (c_cfg c) (c_t0 c)) 0 (c_hist c).
Definition show_case := model_outs.
Definition check_case (c : case) : bool :=
  match run_outs (c_cfg c) (init (c_cfg c) (c_t0 c)) (c_hist c) with
  | Some os => beq os (map snd (c_hist c))
  | None => false
  end.
