(* Correspondence interface of the product INHIBITOR x GROUP (Model/MutePipe.v instantiated with Model/Inhibit.v; the
   end-to-end theorems at the end of Properties/C03.v).
   A case = one aggregation group of a whole-instance run with inhibition rules: group configuration, start instant,
   the rules, the label set of every alert id, and the recorded event list — every published alert as an operation of
   the inhibitor, ticks with only the ids muted by the OTHER stages, the group's other events — with the outputs the
   implementation produced at each event. The model computes the inhibited part of every flush from its own caches.
   check_case: the product accepts the run and produces the same outputs.
   prop_case : on the model's run, no notification lists an alert that the documented rule inhibits on the alerts firing
               at the latest flush (executable form of c03_inhibited_alert_is_never_notified: inhibitedb over the
               latest published update per label set). *)
From AM Require Export Base.Prelude Model.Matchers Model.Inhibit.
From AM Require Export Model.Group Model.MutePipe.

Record case := mkCase {
  c_cfg : gcfg; c_t0 : Z; c_rules : list rule; c_lbl : list (Z * list (string * string));
  c_hist : list (Z * mev (mop := Inhibit.op) * list Group.out) }.

Definition lbl_of (tbl : list (Z * list (string * string))) (a : Z) : list (string * string) :=
  match find (fun p => fst p =? a) tbl with Some p => snd p | None => [] end.

(* only equality matchers occur in these runs *)
Definition no_re (p v : string) : bool := false.
Definition verdict (tbl : list (Z * list (string * string))) (ih : list irule) (tau now a : Z) : bool :=
  muted no_re ih (lbl_of tbl a) now.

Fixpoint run_diag (cfg : gcfg) (tbl : list (Z * list (string * string))) (P : mstate (M := list irule)) (n : nat)
  (h : list (Z * mev (mop := Inhibit.op) * list Group.out)) : nat + list (list Group.out) :=
  match h with
  | [] => inr []
  | (t, e, _) :: r =>
      match mpstep (Inhibit.step no_re) (verdict tbl) cfg P t e with
      | Some (P1, o1) => match run_diag cfg tbl P1 (S n) r with inr os => inr (o1 :: os) | inl k => inl k end
      | None => inl n
      end
  end.

Definition model_outs (c : case) :=
  run_diag (c_cfg c) (c_lbl c) (mpinit (c_cfg c) (map new_rule (c_rules c)) (c_t0 c)) 0 (c_hist c).
Definition show_case := model_outs.
Definition check_case (c : case) : bool :=
  match model_outs c with
  | inr os => beq os (map snd (c_hist c))
  | inl _ => false
  end.

(* the alerts firing at [now] among the updates the inhibitor received so far: the latest update per label set *)
Definition firing_list (pre : list (Z * Inhibit.op)) (now : Z) : list Inhibit.alert :=
  omap (fun f => match latest pre f with
                 | Some a => if Inhibit.resolved_at a now then None else Some a
                 | None => None end) (remove_dups (hist_fps pre)).

Fixpoint prop_run (cfg : gcfg) (rules : list rule) (tbl : list (Z * list (string * string)))
  (P : mstate (M := list irule)) (pre : list (Z * Inhibit.op)) (flushed : option (Z * list (Z * Inhibit.op)))
  (h : list (Z * mev (mop := Inhibit.op) * list Group.out)) : bool :=
  match h with
  | [] => true
  | (t, e, _) :: r =>
      match mpstep (Inhibit.step no_re) (verdict tbl) cfg P t e with
      | Some (P1, o1) =>
          let pre1 := match e with MOp o => pre ++ [(t, o)] | _ => pre end in
          let fl1 := match e with MTick _ _ => Some (t, pre) | _ => flushed end in
          forallb (fun y => match y with
                            | ONotify _ _ sent _ =>
                                match flushed with
                                | Some (tf, hf) =>
                                    forallb (fun f => negb (inhibitedb no_re rules (firing_list hf tf) (lbl_of tbl (f_id f)))) sent
                                | None => false
                                end
                            | _ => true
                            end) o1 && prop_run cfg rules tbl P1 pre1 fl1 r
      | None => true
      end
  end.

Definition prop_case (c : case) : bool :=
  prop_run (c_cfg c) (c_rules c) (c_lbl c) (mpinit (c_cfg c) (map new_rule (c_rules c)) (c_t0 c)) [] None (c_hist c).
