(* Correspondence interface of the product PROVIDER x GROUP (Model/Ingest.v; theorems c06_ingest_* of Properties/C06.v).
   A case = one aggregation group of a whole-instance run: group configuration, start instant, and the recorded event
   list — every alert SUBMITTED to the provider (of any label set; flag: routed to this group), every provider GC that
   deleted something, the group's other events — with the outputs the implementation produced. The inserted alerts are
   not given: the provider model computes what is stored / handed on (overlap merge, start and end rules) and the group
   model continues from that.
   check_case: the product accepts the run and produces the same outputs (flush instants and contents, notifications,
               log writes).
   prop_case : on the model's run, whenever a routed submission finds no group, the group it creates is armed
               group_wait after the arrival unless the alert AS STORED started more than group_wait earlier
               (executable form of the first-flush rule on the computed alert). *)
From AM Require Export Base.Prelude Model.Provider.
From AM Require Export Model.Group Model.Ingest.

Record case := mkCase { c_cfg : gcfg; c_t0 : Z; c_hist : list (Z * iev * list Group.out) }.

Fixpoint run_diag (cfg : gcfg) (P : istate) (n : nat) (h : list (Z * iev * list Group.out)) : nat + list (list Group.out) :=
  match h with
  | [] => inr []
  | (t, e, _) :: r =>
      match istep cfg P t e with
      | Some (P1, o1) => match run_diag cfg P1 (S n) r with inr os => inr (o1 :: os) | inl k => inl k end
      | None => inl n
      end
  end.

Definition model_outs (c : case) := run_diag (c_cfg c) (iinit (c_cfg c) (c_t0 c)) 0 (c_hist c).
Definition show_case := model_outs.
Definition check_case (c : case) : bool :=
  match model_outs c with
  | inr os => beq os (map snd (c_hist c))
  | inl _ => false
  end.

Fixpoint prop_run (cfg : gcfg) (P : istate) (h : list (Z * iev * list Group.out)) : bool :=
  match h with
  | [] => true
  | (t, e, _) :: r =>
      match istep cfg P t e with
      | Some (P1, _) =>
          match e, s_group (in_g P), s_group (in_g P1) with
          | IPut true x a, None, Some g =>
              let st := AlertMerge.a_starts (snd (put1 t (in_store P) a)) in
              (gr_deadline g =? (if st + g_wait cfg <? t then t else t + g_wait cfg))
          | IPut true _ _, None, None => false
          | _, _, _ => true
          end && prop_run cfg P1 r
      | None => true
      end
  end.

Definition prop_case (c : case) : bool := prop_run (c_cfg c) (iinit (c_cfg c) (c_t0 c)) (c_hist c).
