(* Correspondence interface for C14: a case is the number of workers, the route table (fingerprint -> group ids,
   as the real Route.Match + group labels gave them), the published updates in submission order, a schedule,
   and the observed content of every group after the schedule (group id, stored version).
   check_case: the model (SetIfNotOlder semantics, as the code is now) run on the same schedule drains and ends
   with exactly the observed group contents. prop_case: the property on the model run. *)
From AM Require Export Base.Prelude Model.DispatchConc.

Record case := mkCase {
  c_W : nat; c_rt : list (Z * list Z); c_ups : list upd; c_sched : list nat; c_final : list (Z * upd) }.

Fixpoint rt_of (t : list (Z * list Z)) (f : Z) : list Z :=
  match t with
  | [] => []
  | (k, l) :: r => if bool_decide (k = f) then l else rt_of r f
  end.

Definition model_run (c : case) : ist :=
  i_exec KeepNewer (c_W c) (rt_of (c_rt c)) (c_sched c) (i_init (c_ups c)).

Definition flat (g : gstore) : list (Z * list upd) :=
  map (fun p : Z * gmap Z upd => (fst p, map snd (map_to_list (snd p)))) (map_to_list g).

Definition show_case (c : case) := (i_drained (model_run c), flat (i_groups (model_run c))).

Definition count (g : gstore) : nat := foldr (fun p n => (length (snd p) + n)%nat) 0%nat (flat g).

Definition check_case (c : case) : bool :=
  let s := model_run c in
  i_drained s
  && bool_decide (NoDup (map (fun p : Z * upd => (fst p, u_fp (snd p))) (c_final c)))
  && forallb (fun p : Z * upd => beq (glook (i_groups s) (fst p) (u_fp (snd p))) (Some (snd p))) (c_final c)
  && beq (count (i_groups s)) (length (c_final c)).

(* the property, evaluated on the model run: if UpdatedAt strictly increases per fingerprint and the queue
   drained, every (group, fingerprint) of the case holds the last submitted version iff the fingerprint routes there *)
Definition prop_case (c : case) : bool :=
  let s := model_run c in
  if sorted_fp (c_ups c) && i_drained s then
    forallb (fun f =>
      forallb (fun gid =>
        beq (glook (i_groups s) gid f)
            (if bool_decide (gid ∈ rt_of (c_rt c) f) then last_of f (c_ups c) else None))
        (concat (map snd (c_rt c)) ++ map fst (c_final c)))
      (map fst (c_rt c) ++ map (fun p : Z * upd => u_fp (snd p)) (c_final c))
  else true.
