(* Correspondence interface for C11.
   COps    : the file-system operations strace recorded on the snapshot path of one real Maintenance snapshot;
             check = they are exactly [snapshot_ops] (with a temp name different from the target) for the bytes written.
   CCrash  : the RECORDED operation list, the old file content, and crash points (k, adversary choice) with the image
             the harness materialised and what the real loader made of it; check = the model's crash image of
             [target] is the one described AND the model's loader classifies it as the real loader did (old content /
             new content / error / other); prop = the model's image is exactly the old or exactly the new bytes
             (executable snapshot_atomic, evaluated on the recorded - possibly mutated - sequence).
   CCodecN/S : bytes marshalled by protobuf-go (real Snapshot output or reference-marshalled records) and the records
             protobuf-go decodes them to; check = Wire.v decodes the same records (maps compared as maps) and, for
             deterministic bytes, re-encodes them byte for byte; prop = decode (encode l) = l on the decoded list.
   CMutN/S : a small snapshot with strict prefixes and 1-byte replacements, each with the real loader's outcome;
             check = same outcome class and same loaded records; prop = executable prefix_behaviour. *)
From Coq Require Import Uint63.
From AM Require Export Base.Prelude Model.Nflog Model.FsCrash Model.Wire Model.Snapshot.

Inductive img := IAbsent | IOld | INew | IPrefix (n : nat) | IOther (b : list N).
Inductive ldclass := LOld | LNew | LErr | LOther.
Global Instance ldclass_eq_dec : EqDecision ldclass. Proof. solve_decision. Defined.

Record point := mkPoint { p_k : nat; p_dir : nat; p_keep : list (nat * nat); p_img : img; p_load : ldclass }.

(* ---- byte blobs in case files: 7 bytes per primitive-integer literal (Coq parses [..]%N literals far too slowly
   for snapshot-sized blobs); only the correspondence evaluation uses this, never a theorem ---- *)
Definition word_bytes (w : Uint63.int) : list N :=
  map (fun k => Z.to_N (Uint63.to_Z (Uint63.land (Uint63.lsr w k) 255%uint63))) [48; 40; 32; 24; 16; 8; 0]%uint63.
Definition ub (len : Z) (ws : list Uint63.int) : list N := take (Z.to_nat len) (flat_map word_bytes ws).

(* ---- record literals as the harness writes them (numbers as Z) ---- *)
Definition zs (l : list Z) : list N := map Z.to_N l.
Definition mkR (g i : string) (idx : Z) : wrecv := mkRecv g i (Z.to_N idx).
Definition mkE (gk : string) (rc : option wrecv) (gh : string) (rs : bool) (ts : option wts) (fi ra : list Z)
  (da : list (string * option rdv)) : wentry := mkWEntry gk rc gh rs ts (zs fi) (zs ra) da.

Inductive mut := MPrefix (n : nat) | MFlip (pos : nat) (v : Z).
(* what the real loader made of mutated bytes: an error, the first j records of the unmutated file, or these records *)
Inductive lres (A : Type) := LdErr | LdPrefix (j : nat) | LdOk (l : list A).
Arguments LdErr {A}.
Arguments LdPrefix {A} j.
Arguments LdOk {A} l.

Inductive case :=
| COps (target tmp : string) (data : list N) (recorded : list fsop)
| CCrash (store : nat) (target : string) (old : option (list N)) (new : list N) (ops : list fsop) (pts : list point)
(* bytes marshalled by protobuf-go and the records they hold, in file order; exact = the bytes were produced with
   deterministic (key-sorted) map order from records listed with sorted keys, so Wire.v must re-encode them
   byte for byte *)
(* a COMPLETE run of recorded operations in a directory that already holds files (leftovers of a crashed earlier
   snapshot, under the names the real code gave them): final = what the real file system holds under [target]
   afterwards, written = the bytes the run wrote on the snapshot path *)
| CSeq (files : list (string * list N)) (target : string) (ops : list fsop) (final : option (list N)) (written : list N)
| CCodecN (bytes : list N) (recs : list wmesh) (exact : bool)
| CCodecS (bytes : list N) (recs : list wmeshsil) (exact : bool)
| CMutN (bytes : list N) (l : list (mut * lres wmesh))
| CMutS (bytes : list N) (l : list (mut * lres wmeshsil)).

Fixpoint keep_of (l : list (nat * nat)) (i : nat) : nat :=
  match l with
  | [] => O
  | (j, n) :: r => if Nat.eqb i j then n else keep_of r i
  end.

Definition old_bytes (old : option (list N)) : list N := match old with Some b => b | None => [] end.
Definition init_fs (target : string) (old : option (list N)) : fs :=
  match old with Some b => fs_with target b | None => fs_empty end.

Definition model_image (target : string) (old : option (list N)) (ops : list fsop) (p : point) : option (list N) :=
  content (recover_after ops (p_k p) (mkChoice (p_dir p) (keep_of (p_keep p))) (init_fs target old)) target.

Fixpoint bytes_eqb (a b : list N) : bool :=
  match a, b with
  | [], [] => true
  | x :: r, y :: t => (x =? y)%N && bytes_eqb r t
  | _, _ => false
  end.
(* a quiescent file system holding the given files *)
Definition fs_of_files (l : list (string * list N)) : fs :=
  mkFs (map (fun p => mkFile (snd p) [] 0) l)
       (fold_left (fun d ip => <[fst (snd ip) := fst ip]> d) (imap (fun i p => (i, p)) l) ∅) [] [].
Definition opt_bytes_eqb (a b : option (list N)) : bool :=
  match a, b with Some x, Some y => bytes_eqb x y | None, None => true | _, _ => false end.

Definition fsop_eqb (a b : fsop) : bool :=
  match a, b with
  | Create x, Create y => String.eqb x y
  | OpenExisting x, OpenExisting y => String.eqb x y
  | Write x d, Write y e => String.eqb x y && bytes_eqb d e
  | Fsync x, Fsync y => String.eqb x y
  | Close x, Close y => String.eqb x y
  | Rename x1 x2, Rename y1 y2 => String.eqb x1 y1 && String.eqb x2 y2
  | _, _ => false
  end.
Definition writes_of (l : list fsop) : list (list N) :=
  flat_map (fun o => match o with Write _ b => [b] | _ => [] end) l.
Fixpoint ops_eqb (a b : list fsop) : bool :=
  match a, b with
  | [], [] => true
  | x :: r, y :: t => fsop_eqb x y && ops_eqb r t
  | _, _ => false
  end.

Definition img_ok (old : option (list N)) (new : list N) (m : option (list N)) (i : img) : bool :=
  match i, m with
  | IAbsent, None => true
  | IOld, Some b => match old with Some o => bytes_eqb b o | None => false end
  | INew, Some b => bytes_eqb b new
  | IPrefix n, Some b => bytes_eqb b (take n new)
  | IOther x, Some b => bytes_eqb b x
  | _, _ => false
  end.

Definition is_old_or_new (old : option (list N)) (new : list N) (m : option (list N)) : bool :=
  match m with
  | None => match old with None => true | Some _ => false end
  | Some b => match old with Some o => bytes_eqb b o | None => false end || bytes_eqb b new
  end.

(* ---- comparing decoded content: protobuf maps are compared as maps ---- *)
Fixpoint alist_get {V} (k : string) (l : list (string * V)) : option V :=
  match l with [] => None | (k', v) :: r => if String.eqb k' k then Some v else alist_get k r end.
Definition alist_equiv {V} (eqb : V -> V -> bool) (l1 l2 : list (string * V)) : bool :=
  Nat.eqb (length l1) (length l2) &&
  forallb (fun kv => match alist_get (fst kv) l2 with Some v => eqb (snd kv) v | None => false end) l1.

Definition entry_equiv (a b : wentry) : bool :=
  beq (we_gkey a, we_recv a, we_ghash a, we_resolved a, we_ts a, we_firing a, we_resalerts a)
      (we_gkey b, we_recv b, we_ghash b, we_resolved b, we_ts b, we_firing b, we_resalerts b) &&
  alist_equiv beq (we_data a) (we_data b).
Definition mesh_equiv (a b : wmesh) : bool :=
  beq (wm_exp a) (wm_exp b) &&
  match wm_entry a, wm_entry b with
  | Some x, Some y => entry_equiv x y
  | None, None => true
  | _, _ => false
  end.
Definition silence_equiv (a b : wsilence) : bool :=
  beq (ws_id a, ws_matchers a, ws_starts a, ws_ends a, ws_updated a, ws_comments a, ws_created_by a, ws_comment a)
      (ws_id b, ws_matchers b, ws_starts b, ws_ends b, ws_updated b, ws_comments b, ws_created_by b, ws_comment b) &&
  beq (ws_msets a, ws_rmsets a) (ws_msets b, ws_rmsets b) &&
  alist_equiv beq (ws_annotations a) (ws_annotations b).
Definition meshsil_equiv (a b : wmeshsil) : bool :=
  beq (ms_exp a) (ms_exp b) &&
  match ms_sil a, ms_sil b with
  | Some x, Some y => silence_equiv x y
  | None, None => true
  | _, _ => false
  end.

Fixpoint list_equiv {A} (eqv : A -> A -> bool) (l1 l2 : list A) : bool :=
  match l1, l2 with
  | [], [] => true
  | x :: r1, y :: r2 => eqv x y && list_equiv eqv r1 r2
  | _, _ => false
  end.
(* same records as sets (loaded states: a Go map on one side) *)
Definition set_equiv {A} (eqv : A -> A -> bool) (l1 l2 : list A) : bool :=
  Nat.eqb (length l1) (length l2) && forallb (fun x => existsb (eqv x) l2) l1.

Definition codec_ok {A} (dec : list N -> res (list A)) (enc : list A -> list N) (eqv : A -> A -> bool)
  (bytes : list N) (recs : list A) (exact : bool) : bool :=
  match dec bytes with
  | Ok l => list_equiv eqv l recs
  | _ => false
  end && (negb exact || bytes_eqb (enc recs) bytes).

Definition apply_mut (b : list N) (m : mut) : list N :=
  match m with MPrefix n => take n b | MFlip p v => <[p := Z.to_N v]> b end.

Definition mut_ok {A} (load : list N -> res (list (string * A))) (dec : list N -> res (list A)) (eqv : A -> A -> bool)
  (b : list N) (mo : mut * lres A) : bool :=
  match load (apply_mut b (fst mo)), snd mo with
  | Err _, LdErr => true
  | Ok st, LdOk l => set_equiv eqv (map snd st) l
  | Ok st, LdPrefix j =>
      match load b with
      | Ok full => set_equiv eqv (map snd st) (take j (map snd full))
      | _ => false
      end
  | _, _ => false
  end.

(* executable prefix_behaviour: a strict prefix decodes to an error or to a record-aligned prefix *)
Definition prefix_ok {A} `{EqDecision A} (dec : list N -> res (list A)) (b : list N) (m : mut) : bool :=
  match m with
  | MFlip _ _ => true
  | MPrefix n =>
      match dec (take n b), dec b with
      | Ok l, Ok all => beq l (take (length l) all)
      | Err _, _ => true
      | _, _ => false
      end
  end.

(* the loaded state of crash images, for the loader class of CCrash: the real loader's state is classified as
   old content / new content (old first) / error / other. lo, ln, same are computed once per case. *)
Definition res_equiv {A} (eqv : A -> A -> bool) (x y : res (list (string * A))) : bool :=
  match x, y with
  | Ok a, Ok b => alist_equiv eqv a b
  | _, _ => false
  end.
Definition load_class {A} (load : list N -> res (list (string * A))) (eqv : A -> A -> bool)
  (old new : list N) : option (list N) -> ldclass :=
  let lo := load old in
  let ln := load new in
  let same := res_equiv eqv ln lo in
  let old_ok := match lo with Ok _ => true | _ => false end in
  let new_ok := match ln with Ok _ => true | _ => false end in
  fun img =>
    let i := match img with Some b => b | None => [] end in
    if bytes_eqb i old then (if old_ok then LOld else LErr)
    else if bytes_eqb i new then (if new_ok then (if same then LOld else LNew) else LErr)
    else match load i with
         | Ok st => if res_equiv eqv (Ok st) lo then LOld else if res_equiv eqv (Ok st) ln then LNew else LOther
         | _ => LErr
         end.
Definition model_class (store : nat) (old : option (list N)) (new : list N) : option (list N) -> ldclass :=
  match store with
  | O => load_class nflog_load mesh_equiv (old_bytes old) new
  | _ => load_class silence_load meshsil_equiv (old_bytes old) new
  end.

Definition check_case (c : case) : bool :=
  match c with
  | COps target tmp data recorded =>
      (* the recorded sequence is the protocol for SOME splitting of the bytes into write calls (the atomicity
         theorem holds for every chunking, c11_snapshot_atomic_any_chunking; zero-length writes are no-ops of the
         model, c11_zero_length_write_is_noop): the write payloads, in place, are the chunks, and together they are
         the data. Order and presence of open (with its flags: Create), fsync, close, rename are compared exactly. *)
      negb (String.eqb tmp target) (* the atomicity theorem needs a temp name different from the target *) &&
      (* the replacement file is written NEXT TO the target (same directory, so the rename cannot cross file systems):
         its recorded name is "<target>.<suffix>"; a file elsewhere is recorded as "$TMPDIR/..." by the harness *)
      String.prefix (target +:+ ".") tmp &&
      ops_eqb recorded (snapshot_ops_chunks tmp target (writes_of recorded)) &&
      bytes_eqb (concat (writes_of recorded)) data
  | CCrash store target old new ops pts =>
      let cls := model_class store old new in
      forallb (fun p => let m := model_image target old ops p in
                        img_ok old new m (p_img p) && beq (cls m) (p_load p)) pts
  | CSeq files target ops final _ => opt_bytes_eqb (content (run ops (fs_of_files files)) target) final
  | CCodecN bytes recs exact => codec_ok decode_nflog encode_nflog mesh_equiv bytes recs exact
  | CCodecS bytes recs exact => codec_ok decode_silences encode_silences meshsil_equiv bytes recs exact
  | CMutN bytes l => forallb (mut_ok nflog_load decode_nflog mesh_equiv bytes) l
  | CMutS bytes l => forallb (mut_ok silence_load decode_silences meshsil_equiv bytes) l
  end.

Definition prop_case (c : case) : bool :=
  match c with
  | COps _ _ _ _ => true
  | CCrash _ target old new ops pts =>
      forallb (fun p => is_old_or_new old new (model_image target old ops p)) pts
  | CSeq files target ops _ written =>  (* the model's target holds exactly the bytes written on the snapshot path *)
      opt_bytes_eqb (content (run ops (fs_of_files files)) target) (Some written)
  | CCodecN bytes _ _ =>  (* round trip on what was decoded *)
      match decode_nflog bytes with
      | Ok l => match decode_nflog (encode_nflog l) with Ok l' => beq l' l | _ => false end
      | _ => true end
  | CCodecS bytes _ _ =>
      match decode_silences bytes with
      | Ok l => match decode_silences (encode_silences l) with Ok l' => beq l' l | _ => false end
      | _ => true end
  | CMutN bytes l => forallb (fun mo => prefix_ok decode_nflog bytes (fst mo)) l
  | CMutS bytes l => forallb (fun mo => prefix_ok decode_silences bytes (fst mo)) l
  end.

Inductive shown :=
| SOps (l : list fsop) | SImgs (l : list (option nat * ldclass))
| SSeq (o : option (list N))
| SDecN (r : res (list wmesh)) | SDecS (r : res (list wmeshsil))
| SMutN (l : list (res (list (string * wmesh)))) | SMutS (l : list (res (list (string * wmeshsil)))).
Definition show_case (c : case) : shown :=
  match c with
  | COps target tmp data recorded => SOps (snapshot_ops_chunks tmp target (writes_of recorded))
  | CCrash store target old new ops pts =>
      let cls := model_class store old new in
      SImgs (map (fun p => let m := model_image target old ops p in
                           (match m with Some b => Some (length b) | None => None end, cls m)) pts)
  | CSeq files target ops _ _ => SSeq (content (run ops (fs_of_files files)) target)
  | CCodecN bytes _ _ => SDecN (decode_nflog bytes)
  | CCodecS bytes _ _ => SDecS (decode_silences bytes)
  | CMutN bytes l => SMutN (map (fun mo => nflog_load (apply_mut bytes (fst mo))) l)
  | CMutS bytes l => SMutS (map (fun mo => silence_load (apply_mut bytes (fst mo))) l)
  end.
