(* Correspondence interface for C11.
   COps   : the file-system operations strace recorded on the snapshot path of the real Maintenance shutdown
            snapshot; check = they are exactly [snapshot_ops] for the bytes that ended up in the file.
   CCrash : the RECORDED operation list, the old file content, and crash points (k, adversary choice) with what the
            harness materialised and what the real loader did; check = the model's crash image of [target] is the
            one the harness described; prop = the model's image is exactly the old or exactly the new bytes
            (executable form of snapshot_atomic, evaluated on the recorded - possibly mutated - sequence). *)
From AM Require Export Base.Prelude Model.FsCrash Model.Snapshot Model.Wire.

Inductive img := IAbsent | IOld | INew | IPrefix (n : nat) | IOther (b : string).
Inductive ldclass := LOld | LNew | LErr | LOther.
Global Instance ldclass_eq_dec : EqDecision ldclass. Proof. solve_decision. Defined.

Record point := mkPoint { p_k : nat; p_dir : nat; p_keep : list (nat * nat); p_img : img; p_load : ldclass }.

Inductive case :=
| COps (target tmp : string) (data : string) (recorded : list fsop)
| CCrash (store : nat) (target : string) (old : option string) (new : string) (ops : list fsop) (pts : list point).

Fixpoint keep_of (l : list (nat * nat)) (i : nat) : nat :=
  match l with
  | [] => O
  | (j, n) :: r => if Nat.eqb i j then n else keep_of r i
  end.

Definition init_fs (target : string) (old : option string) : fs :=
  match old with Some b => fs_with target (s2b b) | None => fs_empty end.

Definition model_image (target : string) (old : option string) (ops : list fsop) (p : point) : option (list N) :=
  content (recover_after ops (p_k p) (mkChoice (p_dir p) (keep_of (p_keep p))) (init_fs target old)) target.

Definition bytes_eqb (a b : list N) : bool := beq a b.

Definition img_ok (old : option string) (new : string) (m : option (list N)) (i : img) : bool :=
  match i, m with
  | IAbsent, None => true
  | IOld, Some b => match old with Some o => bytes_eqb b (s2b o) | None => false end
  | INew, Some b => bytes_eqb b (s2b new)
  | IPrefix n, Some b => bytes_eqb b (take n (s2b new))
  | IOther x, Some b => bytes_eqb b (s2b x)
  | _, _ => false
  end.

Definition is_old_or_new (old : option string) (new : string) (m : option (list N)) : bool :=
  match m with
  | None => match old with None => true | Some _ => false end
  | Some b => match old with Some o => bytes_eqb b (s2b o) | None => false end || bytes_eqb b (s2b new)
  end.

Definition check_case (c : case) : bool :=
  match c with
  | COps target tmp data recorded => beq recorded (snapshot_ops tmp target (s2b data))
  | CCrash _ target old new ops pts =>
      forallb (fun p => img_ok old new (model_image target old ops p) (p_img p)) pts
  end.

Definition prop_case (c : case) : bool :=
  match c with
  | COps _ _ _ _ => true
  | CCrash _ target old new ops pts =>
      forallb (fun p => is_old_or_new old new (model_image target old ops p)) pts
  end.

Inductive shown := SOps (l : list fsop) | SImgs (l : list (option nat)).
Definition show_case (c : case) : shown :=
  match c with
  | COps target tmp data _ => SOps (snapshot_ops tmp target (s2b data))
  | CCrash _ target old new ops pts =>
      SImgs (map (fun p => match model_image target old ops p with Some b => Some (length b) | None => None end) pts)
  end.
