(* Correspondence interface for the group-map machine (Model/DispatchConc.v part 2), used by the concurrent half
   of C06. A case is: number of workers, route table (alert fingerprint -> keys (route index, group fingerprint)),
   group limit, the published alerts in submission order, and a list of macro steps, some with the observation the
   harness made on the real dispatcher right after them.

   A macro step is what one release of a parked goroutine does on the real dispatcher: the thread runs from its
   yield point (dispatch.verifYield) to its next one. It expands to the model's atomic actions:
     XW w        worker w: Recv if idle; otherwise atomic actions until it is about to Load-insert / check the
                 limit after a failed Load / CompareAndSwap / LoadOrStore, or is back at the channel
     XMvisit k   maintenance: Range reaches key k and checks destroyed(); parks before stop() if destroyed
     XMgo        maintenance: from before stop() to before CompareAndDelete, or CompareAndDelete + counters
     XFsnap k t  the run() goroutine of the group stored under k: timer tick at t, snapshot, pipeline called
     XFdone k ok the pipeline returned: DeleteIfNotModified(destroyIfEmpty), destroyed check
     XNop        nothing (virtual time passed without any goroutine reaching a yield point); carries an observation
   Observation: Dispatcher.Groups() (key, alerts) for every map entry with at least one alert, the
   aggregation-groups gauge (aggrGroupsNum) and the limit-reached counter. *)
From AM Require Export Base.Prelude Model.DispatchConc.

Inductive mstep :=
| XW (w : nat) | XMvisit (k : Z * Z) | XMgo | XFsnap (k : Z * Z) (now : Z) | XFdone (k : Z * Z) (ok : bool)
| XNop.

Record obs := mkObs { o_view : list ((Z * Z) * list upd); o_num : Z; o_limited : nat }.

Record case := mkCase {
  c_W : nat; c_rt : list (Z * list (Z * Z)); c_limit : Z; c_ups : list upd;
  c_steps : list (mstep * option obs) }.

Fixpoint rt_of (t : list (Z * list (Z * Z))) (f : Z) : list (Z * Z) :=
  match t with
  | [] => []
  | (k, l) :: r => if bool_decide (k = f) then l else rt_of r f
  end.

Definition wstate (s : cst) (w : nat) : wst := default WIdle (c_workers s !! w).

Definition w_parked (st : wst) : bool :=
  match st with
  | WIdle => true
  | WBusy _ _ _ pc =>
      match pc with
      | PInsertLoaded _ | PLimit None | PCas _ _ _ | PLoadOrStore _ _ => true
      | _ => false
      end
  end.

Section macro.
Context (W : nat) (rt : Z -> list (Z * Z)) (limit : Z).

Fixpoint run_w (fuel : nat) (w : nat) (s : cst) : cst :=
  match fuel with
  | O => s
  | S f => if w_parked (wstate s w) then s else run_w f w (c_step W rt limit s (TW w))
  end.

Definition x_step (s : cst) (x : mstep) : cst :=
  match x with
  | XW w =>
      let s1 := c_step W rt limit s (TW w) in
      match wstate s w with WIdle => s1 | _ => run_w 16 w s1 end
  | XMvisit k =>
      match c_maint s with
      | MIdle => let s1 := m_step k s in match c_maint s1 with MCheck _ => m_step k s1 | _ => s1 end
      | _ => s
      end
  | XMgo =>
      match c_maint s with
      | MStop _ => m_step (0, 0) s
      | MDelete _ => let s1 := m_step (0, 0) s in match c_maint s1 with MCount _ => m_step (0, 0) s1 | _ => s1 end
      | _ => s
      end
  | XFsnap k now => match c_map s !! k with Some g => f_step g now true s | None => s end
  | XFdone k ok => match c_map s !! k with Some g => f_step g 0 ok s | None => s end
  | XNop => s
  end.
End macro.

Definition obs_ok (s : cst) (o : obs) : bool :=
  beq (c_num s) (o_num o) && beq (c_limited s) (o_limited o)
  && bool_decide (NoDup (map fst (o_view o)))
  && forallb (fun p : (Z * Z) * list upd =>
       match c_map s !! fst p with
       | Some g => match c_heap s !! g with
                   | Some G => beq (length (map_to_list (g_alerts G))) (length (snd p))
                               && negb (beq (length (snd p)) 0%nat)
                               && bool_decide (NoDup (map u_fp (snd p)))
                               && forallb (fun a => beq (g_alerts G !! u_fp a) (Some a)) (snd p)
                   | None => false
                   end
       | None => false
       end) (o_view o)
  && beq (length (List.filter (fun p : (Z * Z) * nat =>
            match c_heap s !! snd p with
            | Some G => negb (bool_decide (map_to_list (g_alerts G) = []))
            | None => false end)
            (map_to_list (c_map s))))
         (length (o_view o)).

Fixpoint run_case (W : nat) (rt : Z -> list (Z * Z)) (limit : Z) (s : cst) (l : list (mstep * option obs))
  : bool * cst :=
  match l with
  | [] => (true, s)
  | (x, o) :: r =>
      let s1 := x_step W rt limit s x in
      if match o with Some ob => obs_ok s1 ob | None => true end then run_case W rt limit s1 r else (false, s1)
  end.

Definition model_view (s : cst) : list ((Z * Z) * list upd) :=
  omap (fun p : (Z * Z) * nat => match c_heap s !! snd p with
                                 | Some G => Some (fst p, map snd (map_to_list (g_alerts G)))
                                 | None => None end) (map_to_list (c_map s)).

Definition check_case (c : case) : bool :=
  fst (run_case (c_W c) (rt_of (c_rt c)) (c_limit c) (c_init (c_ups c)) (c_steps c)).

(* the model's own run: after every macro step the view, the counter, the limit counter, and the log length *)
Fixpoint trace (W : nat) (rt : Z -> list (Z * Z)) (limit : Z) (s : cst) (l : list (mstep * option obs)) :=
  match l with
  | [] => []
  | (x, _) :: r => let s1 := x_step W rt limit s x in
                   (model_view s1, c_num s1, c_limited s1, c_maint s1, map_to_list (c_workers s1)) :: trace W rt limit s1 r
  end.
Definition show_case (c : case) := trace (c_W c) (rt_of (c_rt c)) (c_limit c) (c_init (c_ups c)) (c_steps c).

(* executable form of never_split / insert_never_lost on the model run: after every macro step, live groups have
   pairwise different keys and each is the map's entry for its key; every outcome logged so far as ODone names a
   group with that key *)
Definition state_ok (s : cst) : bool :=
  let lives := List.filter (fun p : nat * grp => live (snd p)) (map_to_list (c_heap s)) in
  bool_decide (NoDup (map (fun p : nat * grp => g_key (snd p)) lives))
  && forallb (fun p : nat * grp => beq (c_map s !! g_key (snd p)) (Some (fst p))) lives.

Fixpoint prop_run (W : nat) (rt : Z -> list (Z * Z)) (limit : Z) (s : cst) (l : list (mstep * option obs)) : bool :=
  match l with
  | [] => true
  | (x, _) :: r => let s1 := x_step W rt limit s x in state_ok s1 && prop_run W rt limit s1 r
  end.
Definition prop_case (c : case) : bool :=
  prop_run (c_W c) (rt_of (c_rt c)) (c_limit c) (c_init (c_ups c)) (c_steps c).
