(* Correspondence interface for C19 (gossip transport). Three kinds of cases:
   KChan  — op history on one real cluster.Channel (stub senders): which sender got which bytes, the three counters.
            Instance: payload = wire = byte strings, wrap = the concrete encoder enc_part (compared byte for byte).
   KWire  — proto.Marshal of Part / FullState against enc_part / enc_full, and the measured queue capacity.
   KDeleg — op history on 2..4 real memberlist-free Peers with real nflog.Log / silence.Silences registered:
            NotifyMsg / MergeRemoteState / LocalState / local Log / local silence Set; after every op the target
            peer's states are queried. Instance: a wire message is what protobuf-go decodes it to (both as Part and as
            FullState, recorded by the harness = the oracle table for the [wire] parameter); an nflog state is the
            Nflog.v model; a silence state is an opaque stand-in whose Merge outcome is an oracle input (the result
            of a direct Merge of the same payload into a shadow silence.Silences). *)
From AM Require Export Base.Prelude Model.Nflog Model.Gossip.

(* the harness' deterministic filler payload (harness/c19 mkPayload): case files name long payloads instead of
   spelling them out; observed wire bytes are written as literal segments around such payloads *)
Fixpoint mkpay_f (n : nat) (i cur : N) : string :=
  match n with
  | O => ""
  | S n' =>
      let i' := (i + 1)%N in
      let c := (cur + 7 + (if (N.land i' 255 =? 0)%N then 3 else 0))%N in
      String (Ascii.ascii_of_N cur) (mkpay_f n' i' (if (256 <=? c)%N then (c - 256)%N else c))
  end.
Definition mkpay (size fill : Z) : string := mkpay_f (Z.to_nat size) 0%N (Z.to_N (fill mod 256)).

(* the harness' long alert-hash lists (they make an nflog entry oversized): 2^63 + seed*1000 + i, i < n *)
Definition bigh (n seed : Z) : list Z := map (fun i => 9223372036854775808 + seed * 1000 + i) (seqZ 0 n).

(* ---------- KChan instance ---------- *)
Definition wire_str (marshal_ok : bool) : wire string string :=
  mkWire string string (fun k b => if marshal_ok then Some (enc_part k b) else None) slen
         (fun _ => None) (fun _ => None) (fun _ => None).

Definition cobs : Type := list (cev string) * (Z * Z * Z).

Definition cev_eqb (a b : cev string) : bool :=
  match a, b with
  | ESend x, ESend y => String.eqb x y
  | EReliable p x, EReliable q y => String.eqb p q && String.eqb x y
  | _, _ => false
  end.

(* multiset equality of small lists *)
Fixpoint remove1 {A} (eqb : A -> A -> bool) (x : A) (l : list A) : option (list A) :=
  match l with
  | [] => None
  | y :: r => if eqb x y then Some r else match remove1 eqb x r with Some r' => Some (y :: r') | None => None end
  end.
Fixpoint perm_eqb {A} (eqb : A -> A -> bool) (l1 l2 : list A) : bool :=
  match l1 with
  | [] => match l2 with [] => true | _ => false end
  | x :: r => match remove1 eqb x l2 with Some l2' => perm_eqb eqb r l2' | None => false end
  end.

Definition cobs_eqb (a b : cobs) : bool := perm_eqb cev_eqb (fst a) (fst b) && beq (snd a) (snd b).

Definition chan_model (key : string) (marshal_ok : bool) (qcap : Z) (os : list (cop string)) : list cobs :=
  snd (chan_run (wire_str marshal_ok) qcap (mkEnv [] [] true, new_chan key) os).

(* ---------- KDeleg instance ---------- *)
Notation silview := (list (string * Z)) (only parsing).      (* sorted (silence id, UpdatedAt ns) *)
Record payload := mkP { p_len : Z; p_nfl : list (option entry); p_sil : res (list (string * Z)) }.
Record wmsg := mkW { w_part : option (string * payload); w_full : option (list (string * payload)) }.
Inductive gstate := SNfl (s : gmap string entry) | SSil (v : list (string * Z)).

Definition wire_dec : wire payload wmsg :=
  mkWire payload wmsg (fun k b => Some (mkW (Some (k, b)) None)) (fun _ => 0) w_part
         (fun ps => Some (mkW None (Some ps))) w_full.

Definition nfl_merge (now : Z) (b : payload) (s : gmap string entry) : res (gmap string entry) :=
  match step 0 s now (OMerge (p_nfl b) (p_len b)) with
  | (_, RMergeErr) => Err "invalid"
  | (s', _) => Ok s'
  end.

Definition ops_inst : stateops payload gstate :=
  mkOps payload gstate
    (fun now b s =>
       match s with
       | SNfl st => match nfl_merge now b st with Ok s' => Ok (SNfl s') | Err c => Err c | Panic => Panic end
       | SSil _ => match p_sil b with Ok v => Ok (SSil v) | Err c => Err c | Panic => Panic end
       end)
    (fun _ => None).

Notation gpeer := (gmap string gstate) (only parsing).

Inductive dop :=
| DNotify (w : wmsg)
| DMergeRemote (w : wmsg)
| DLocalState (parts : list (string * list (option entry)))   (* observed LocalState output, decoded; sil parts carry [] *)
              (sils : list (string * list (string * Z)))      (* its silence parts: (id, UpdatedAt) of every item shipped *)
| DLog (key recv gkey : string) (firing resolved : list Z) (expiry : Z)
| DSilLocal (key : string) (v : list (string * Z))            (* a local silence Set/Expire happened: view afterwards (oracle) *)
| DTick.

Inductive kobs := ONfl (l : list (option entry)) | OSil (v : list (string * Z)).
Global Instance kobs_eq_dec : EqDecision kobs. Proof. solve_decision. Defined.

Record dout := mkOut { o_ok : bool; o_view : list (string * kobs) }.
Global Instance dout_eq_dec : EqDecision dout. Proof. solve_decision. Defined.

(* the query universe of the harness: every nflog state is queried for these (recv, gkey) pairs after every op *)
Record dcase := mkD {
  d_ret : Z;
  d_queries : list (string * string);                  (* (receiver key, group key) *)
  d_peers : list (list (string * bool));               (* per peer: registered keys; true = nflog.Log, false = silences *)
  d_hist : list (Z * nat * dop * dout) }.              (* instant, target peer, op, observed *)

Definition mask_exp (e : entry) : entry :=
  mkEntry (e_gkey e) (e_recv e) (e_ts e) 0 (e_firing e) (e_resolved e) (e_data e).

Definition view_of (qs : list (string * string)) (keys : list string) (p : gmap string gstate) : list (string * kobs) :=
  omap (fun k =>
          match p !! k with
          | Some (SNfl st) => Some (k, ONfl (map (fun '(recv, gkey) => mask_exp <$> (st !! skey_of gkey recv)) qs))
          | Some (SSil v) => Some (k, OSil v)
          | None => None
          end) keys.

Definition init_peer (regs : list (string * bool)) : gmap string gstate :=
  list_to_map (map (fun '(k, isn) => (k, if isn : bool then SNfl ∅ else SSil [])) regs).

Definition res_or {A} (r : res A) (d : A) : A * bool := match r with Ok a => (a, true) | _ => (d, false) end.

Definition sil_row_eqb (a b : string * Z) : bool := String.eqb (fst a) (fst b) && (snd a =? snd b).
(* the shipped full state is the CURRENT state: every nflog part is the model's log (any order), every silence part
   carries exactly the current (id, UpdatedAt) of the store *)
Definition local_state_ok (parts : list (string * list (option entry))) (sils : list (string * list (string * Z)))
           (p : gmap string gstate) : bool :=
  perm_eqb String.eqb (map fst parts) (map fst (map_to_list p)) &&
  forallb (fun '(k, batch) =>
             match p !! k with
             | Some (SNfl st) => perm_eqb beq batch (map (fun kv => Some (snd kv)) (map_to_list st))
             | Some (SSil v) =>
                 match find (fun kr => String.eqb (fst kr) k) sils with
                 | Some (_, rows) => perm_eqb sil_row_eqb rows v
                 | None => false
                 end
             | None => false
             end) parts.

Definition dstep (ret : Z) (now : Z) (o : dop) (p : gmap string gstate) : gmap string gstate * bool :=
  match o with
  | DNotify w => res_or (notify_msg wire_dec ops_inst now w p) p
  | DMergeRemote w => res_or (merge_remote_state wire_dec ops_inst now w p) p
  | DLocalState parts sils => (p, local_state_ok parts sils p)
  | DLog key recv gkey f r x =>
      match p !! key with
      | Some (SNfl st) => (<[key := SNfl (fst (step ret st now (OLog recv gkey f r [] x)))]> p, true)
      | _ => (p, false)
      end
  | DSilLocal key v =>
      match p !! key with
      | Some (SSil _) => (<[key := SSil v]> p, true)
      | _ => (p, false)
      end
  | DTick => (p, true)
  end.

Fixpoint drun (ret : Z) (qs : list (string * string)) (keys : list (list string)) (ps : list (gmap string gstate))
         (h : list (Z * nat * dop)) : list dout :=
  match h with
  | [] => []
  | (now, i, o) :: r =>
      match ps !! i with
      | None => [mkOut false []]
      | Some p =>
          let '(p', ok) := dstep ret now o p in
          mkOut ok (view_of qs (default [] (keys !! i)) p') :: drun ret qs keys (<[i := p']> ps) r
      end
  end.

Definition deleg_model (c : dcase) : list dout :=
  drun (d_ret c) (d_queries c) (map (map fst) (d_peers c)) (map init_peer (d_peers c)) (map fst (d_hist c)).

(* executable property on the model run: never backwards for every nflog key of the target peer on every op;
   after NotifyMsg / MergeRemoteState every unexpired entry of every decodable nflog payload addressed to a
   registered nflog key is dominated by the stored entry; a message that decodes to nothing changes nothing. *)
Definition nfl_ge (s' s : gmap string entry) : bool :=
  forallb (fun '(k, e) => match s' !! k with Some e' => e_ts e <=? e_ts e' | None => false end) (map_to_list s).
Definition peer_ge (p' p : gmap string gstate) : bool :=
  forallb (fun '(k, s) =>
             match s, p' !! k with
             | SNfl st, Some (SNfl st') => nfl_ge st' st
             | SSil _, Some (SSil _) => true
             | _, _ => false
             end) (map_to_list p).
Definition gflat (p : gmap string gstate) : list (string * (list (string * entry) + list (string * Z))) :=
  map (fun '(k, s) => (k, match s with SNfl st => inl (map_to_list st) | SSil v => inr v end)) (map_to_list p).
Definition part_covered (now : Z) (p' : gmap string gstate) (kb : string * payload) : bool :=
  match p' !! fst kb with
  | Some (SNfl st') =>
      match decode_batch (p_nfl (snd kb)) ∅ with
      | Some m => forallb (fun '(_, e) => (e_exp e <? now) ||
                                           match st' !! skey e with Some e' => e_ts e <=? e_ts e' | None => false end)
                          (map_to_list m)
      | None => true
      end
  | _ => true
  end.
Definition dstep_ok (ret now : Z) (o : dop) (p : gmap string gstate) : bool :=
  let p' := fst (dstep ret now o p) in
  peer_ge p' p &&
  match o with
  | DNotify w => match w_part w with
                 | Some kb => part_covered now p' kb
                 | None => beq (gflat p') (gflat p)
                 end
  | DMergeRemote w => match w_full w with
                      | Some parts => forallb (part_covered now p') parts
                      | None => beq (gflat p') (gflat p)
                      end
  | _ => true
  end.
Fixpoint drun_ok (ret : Z) (ps : list (gmap string gstate)) (h : list (Z * nat * dop)) : bool :=
  match h with
  | [] => true
  | (now, i, o) :: r =>
      match ps !! i with
      | None => false
      | Some p => dstep_ok ret now o p && drun_ok ret (<[i := fst (dstep ret now o p)]> ps) r
      end
  end.

(* ---------- KMember: membership histories on a real memberlist (in-memory transport, virtual time) ----------
   row = (ground-truth join/leave events so far, sender, oversized?, the sender's Members() view at send time,
          the running instances that hold the update a few seconds later).
   The model's receiver set (members by NAME, minus self) restricted to what the sender's memberlist lists must
   have received the update. *)
Definition smem (n : string) (l : list string) : bool := existsb (String.eqb n) l.
Definition mrow : Type := list mev * string * bool * list string * list string.
Definition mrow_ok (r : mrow) : bool :=
  let '(evs, sender, _, members, got) := r in
  smem sender got &&
  forallb (fun n => negb (smem n members) || smem n got) (oversize_receivers sender evs).

(* ---------- KFrame: what N goroutines wrote to one pooled TLS connection through tlsConn.writePacket ----------
   chunks = the plaintext handed to the connection, one element per conn.Write, in lock order; payloads = the
   memberlist packets given to writePacket; received = packets the reader decoded intact. *)
Fixpoint nlist_eqb (a b : list N) : bool :=
  match a, b with
  | [], [] => true
  | x :: r, y :: r' => N.eqb x y && nlist_eqb r r'
  | _, _ => false
  end.
Definition is_suffix (p f : list N) : bool :=
  (length p <=? length f)%nat && nlist_eqb (drop (length f - length p) f) p.
(* list-of-bytes form of the harness' filler payload (mkpay) *)
Fixpoint mkpayN_f (n : nat) (i cur : N) : list N :=
  match n with
  | O => []
  | S n' =>
      let i' := (i + 1)%N in
      let c := (cur + 7 + (if (N.land i' 255 =? 0)%N then 3 else 0))%N in
      cur :: mkpayN_f n' i' (if (256 <=? c)%N then (c - 256)%N else c)
  end.
Definition mkpayN (size fill : Z) : list N := mkpayN_f (Z.to_nat size) 0%N (Z.to_N (fill mod 256)).
(* every parsed frame is the envelope (at most 64 bytes of version / kind / from_addr / field headers) followed by one
   of the payloads; lengths are computed once, in Z *)
Definition frames_ok (chunks payloads : list (list N)) (received : nat) : bool :=
  match parse_frames (length payloads) (concat chunks) with
  | Some l =>
      let lp := map (fun p => (Z.of_nat (length p), p)) payloads in
      beq (length l) received && beq (length l) (length payloads) &&
      forallb (fun f => let lf := Z.of_nat (length f) in
                        existsb (fun '(n, p) => (n <=? lf) && (lf - n <=? 64) &&
                                                nlist_eqb (drop (Z.to_nat (lf - n)) f) p) lp) l
  | None => false
  end.

(* ---------- cases ---------- *)
Inductive case :=
| KChan (key : string) (marshal_ok : bool) (qcap : Z) (h : list (cop string * cobs))   (* qcap: the measured queue capacity *)
| KWire (parts : list (string * string * string)) (full : string) (cap : Z)
| KDeleg (c : dcase)
| KMember (rows : list mrow)
| KFrame (chunks payloads : list (list N)) (received : nat).

Inductive shown := ShChan (l : list cobs) | ShWire (l : list string) (cap : Z) | ShDeleg (l : list dout)
| ShMember (l : list (list string)) | ShFrame (l : option (list (list N))).

Definition show_case (c : case) : shown :=
  match c with
  | KChan key ok qcap h => ShChan (chan_model key ok qcap (map fst h))
  | KWire parts _ cap => ShWire (map (fun '(k, d, _) => enc_part k d) parts ++ [enc_full (map fst parts)]) cap
  | KDeleg d => ShDeleg (deleg_model d)
  | KMember rows => ShMember (map (fun '(evs, sender, _, _, _) => oversize_receivers sender evs) rows)
  | KFrame chunks payloads _ => ShFrame (parse_frames (length payloads) (concat chunks))
  end.

Fixpoint all2 {A C} (f : A -> C -> bool) (l1 : list A) (l2 : list C) : bool :=
  match l1, l2 with
  | [], [] => true
  | x :: r1, y :: r2 => f x y && all2 f r1 r2
  | _, _ => false
  end.

Definition check_case (c : case) : bool :=
  match c with
  | KChan key ok qcap h => all2 cobs_eqb (chan_model key ok qcap (map fst h)) (map snd h)
  | KWire parts full cap =>
      forallb (fun '(k, d, w) => String.eqb (enc_part k d) w && (slen w =? part_size (slen k) (slen d))) parts &&
      String.eqb (enc_full (map fst parts)) full && (0 <? cap)   (* the queue is bounded; its length is tuning *)
  | KDeleg d => beq (deleg_model d) (map snd (d_hist d))
  | KMember rows => forallb mrow_ok rows
  | KFrame chunks payloads received => frames_ok chunks payloads received
  end.

(* executable form of the property on the model run *)
Definition chan_prop (key : string) (ok : bool) (qcap : Z) (os : list (cop string)) : bool :=
  (* every gossiped message is at most the threshold, every reliably sent one is above it; the dropped counter
     never decreases *)
  let outs := chan_model key ok qcap os in
  forallb (fun '(evs, _) =>
             forallb (fun ev => match ev with
                                | ESend w => negb (oversized_len (slen w))
                                | EReliable _ w => oversized_len (slen w)
                                end) evs) outs.

Definition prop_case (c : case) : bool :=
  match c with
  | KChan key ok qcap h => chan_prop key ok qcap (map fst h)
  | KWire _ _ _ => true
  | KDeleg d => drun_ok (d_ret d) (map init_peer (d_peers d)) (map fst (d_hist d))
  | KMember rows => forallb (fun '(evs, sender, _, _, _) => smem sender (map fst (members_after evs))) rows
  | KFrame chunks _ _ => match parse_frames (length chunks) (concat chunks) with Some _ => true | None => false end
  end.
