(* Correspondence interface for C20. One check, four engines; a case is one observation of the real code:
     CTrunc   : notify.TruncateInRunes / TruncateInBytes on (s, n)  -> outcome (panic captured)
     CRCheck  : notify.Retrier.Check on (retry codes, status)      -> (retry, failed)
   check_case: the model on the same input gives the observed output.
   prop_case : executable form of the property evaluated on the model's output. *)
From AM Require Export Base.Prelude Model.TemplateData Model.Retry Model.Utf8 Model.Truncate.

Global Instance res_eq_dec {A} `{EqDecision A} : EqDecision (res A).
Proof. solve_decision. Defined.
Global Instance alert_eq_dec : EqDecision alert.
Proof. solve_decision. Defined.
Global Instance talert_eq_dec : EqDecision talert.
Proof. solve_decision. Defined.
Global Instance data_eq_dec : EqDecision data.
Proof. solve_decision. Defined.

Inductive case :=
| CTrunc (in_bytes : bool) (s : string) (n : Z) (obs : res (string * bool))
| CRCheck (codes : list Z) (code : Z) (obs : bool * bool)
| CData (now : Z) (group : kv) (alerts : list alert) (obs : data)
| CWebhook (max now : Z) (group : kv) (alerts : list alert) (obs : data * Z)
(* RetryStage.Exec: inputs, then the observed Notify calls (instant, outcome) — their instants are the tick
   oracle —, the alerts handed to Notify, the error class, the alerts returned, the return instant *)
| CRetry (send_resolved : bool) (firing_ctx : option nat) (alerts : list alert) (start dl : Z)
         (script : list outcome) (obs_attempts : list (Z * outcome)) (obs_sent : list alert)
         (obs_err : option rerr) (obs_out : list alert) (obs_end : Z)
(* the receiver pipeline: per integration its configuration (ticks = observed Notify instants), the observed
   events of each integration in order, whether the flush failed, and whether the real nflog holds an entry
   written by this flush for each integration *)
| CFanout (alerts : list alert) (start dl : Z) (gs : list integ)
          (obs_events : list (list event)) (obs_failed : bool) (obs_logged : list bool)
(* the (Name, Index) pairs of the integrations receiver.BuildReceiverIntegrations built for ONE receiver: they key
   the notification log (<receiver>/<name>/<idx>), so the chains of the fanout model are independent only if
   the pairs are pairwise distinct; expected = the pairs the configuration asks for (kind stem, position) *)
| CRecvKeys (expected built : list (string * Z))
(* a real integration with a service limit in BYTES (webex): byte lengths of the text before and of the field sent
   (the texts are 7-36 kB: only their lengths go through Coq; the contract is c20_truncate_bytes_spec) *)
| CLimitBytes (limit in_len out_len : Z) (unchanged : bool).

Inductive shown :=
| STrunc (o : res (string * bool))
| SRCheck (o : bool * bool)
| SData (d : data)
| SWebhook (d : data * Z)
| SRetry (r : retry_result)
| SFanout (evs : list (list event)) (failed : bool) (logged : list bool)
| SRecvKeys (distinct : bool) (as_configured : bool).

(* ---- truncation ---- *)
Definition trunc_model (in_bytes : bool) (s : string) (n : Z) : res (list Z * bool) :=
  if in_bytes then truncate_bytes (bytes_of_string s) n else truncate_runes (bytes_of_string s) n.
Definition trunc_out (in_bytes : bool) (s : string) (n : Z) : res (string * bool) :=
  match trunc_model in_bytes s n with
  | Ok (o, b) => Ok (string_of_bytes o, b)
  | Err e => Err e
  | Panic => Panic
  end.

Fixpoint is_prefix (a b : list Z) : bool :=
  match a, b with
  | [], _ => true
  | x :: a', y :: b' => (x =? y) && is_prefix a' b'
  | _, _ => false
  end.

(* the property on the model output: for n >= 0, not a panic; within the limit; unchanged iff it fits;
   when cut with room for the marker, the runes of the result are a prefix of the runes of s plus "…" *)
Definition trunc_prop (in_bytes : bool) (s : string) (n : Z) : bool :=
  let sb := bytes_of_string s in
  if n <? 0 then true else
  match trunc_model in_bytes s n with
  | Ok (o, b) =>
    let size := if in_bytes then byte_len o else rune_len o in
    let fits := (if in_bytes then byte_len sb else rune_len sb) <=? n in
    (size <=? n) && eqb b (negb fits) &&
    (if b then
       if (if in_bytes then 3 <=? n else 3 <? n) then
         let ro := to_runes o in
         beq (drop (length ro - 1)%nat ro) [marker_rune] && is_prefix (take (length ro - 1)%nat ro) (to_runes sb)
       else if in_bytes then true else is_prefix (to_runes o) (to_runes sb)
     else beq o sb)
  | _ => false
  end.

(* ---- template data ---- *)
Definition has_pair (k v : string) (m : kv) : bool := existsb (fun p => beq p (k, v)) m.
(* brute-force intersection, written differently from the model: a pair of ANY alert is common iff every
   alert has it *)
Definition common_ok (sel : alert -> kv) (alerts : list alert) (c : kv) : bool :=
  forallb (fun a => forallb (fun p =>
     eqb (has_pair (fst p) (snd p) c) (forallb (fun b => has_pair (fst p) (snd p) (sel b)) alerts)) (sel a)) alerts
  && forallb (fun p => match alerts with [] => false | a0 :: _ => has_pair (fst p) (snd p) (sel a0) end) c.
Definition data_prop (now : Z) (alerts : list alert) (d : data) : bool :=
  beq (map t_labels (d_alerts d)) (map a_labels alerts) &&
  beq (map t_annots (d_alerts d)) (map a_annots alerts) &&
  beq (map t_starts (d_alerts d)) (map a_starts alerts) &&
  beq (map t_firing (d_alerts d)) (map (firing_at now) alerts) &&
  eqb (d_firing d) (existsb t_firing (d_alerts d)) &&
  common_ok a_labels alerts (d_common_labels d) && common_ok a_annots alerts (d_common_annots d).

(* ---- retry ---- *)
Global Instance retry_result_eq_dec : EqDecision retry_result.
Proof. solve_decision. Defined.

Definition retry_model sr fc alerts start dl script (obs_attempts : list (Z * outcome)) : retry_result :=
  retry_exec sr fc alerts start dl (map fst obs_attempts) script.

Fixpoint all_but_last_recov (l : list (Z * outcome)) : bool :=
  match l with
  | [] | [_] => true
  | (_, o) :: r => beq o ORecov && all_but_last_recov r
  end.
Definition retry_prop (sr : bool) (fc : option nat) (alerts : list alert) (start dl : Z) (r : retry_result) : bool :=
  forallb (fun p => (start <=? fst p) && (fst p <=? dl)) (r_attempts r) &&
  all_but_last_recov (r_attempts r) &&
  (match last (r_attempts r) with
   | Some (_, OOk) => beq (r_err r) None && beq (r_out r) alerts
   | Some (_, OUnrecov) | Some (_, OHang false) => beq (r_err r) (Some EUnrecov)
   | Some (_, _) => match r_err r with Some (ECanceled _) => true | _ => false end
   | None => match r_err r with
             | None => negb sr && beq (r_out r) alerts
             | Some EUnrecov => false
             | Some _ => true
             end
   end) &&
  (match r_attempts r with
   | [] => true
   | _ => beq (r_sent r) (if sr then alerts else filter (fun a => firing_at start a) alerts)
   end).

(* ---- fanout ---- *)
Definition logged_of (g : integ) (c : chain_result) : bool :=
  existsb (fun e => match e with EvLog _ _ => true | _ => false end) (c_events c) && g_log_ok g.
Definition fanout_model alerts start dl gs : list (list event) * bool * list bool :=
  let rs := fanout gs alerts start dl in
  (map c_events rs, fanout_failed rs, zip_with logged_of gs rs).

(* a Log is the last event of its chain and is preceded by a successful Notify of the same integration,
   or it is the bookkeeping write of a send_resolved=false integration with no firing alert *)
Fixpoint log_after_success (prev : option event) (evs : list event) : bool :=
  match evs with
  | [] => true
  | EvLog i _ :: r =>
    beq r [] && match prev with Some (EvNotify j _ OOk) => beq i j | None => true | _ => false end
  | e :: r => log_after_success (Some e) r
  end.
Fixpoint indexed_from {A} (i : nat) (l : list A) : list (nat * A) :=
  match l with [] => [] | x :: r => (i, x) :: indexed_from (S i) r end.
Definition fanout_prop alerts start dl gs : bool :=
  let rs := fanout gs alerts start dl in
  forallb (fun c => log_after_success None (c_events c)) rs &&
  eqb (fanout_failed rs) (existsb c_failed rs) &&
  (* isolation: each chain equals the chain computed for that integration alone *)
  beq (map c_events rs) (map (fun '(i, g) => c_events (chain i g alerts start dl)) (indexed_from 0 gs)).

Definition check_case (c : case) : bool :=
  match c with
  | CTrunc ib s n obs => beq (trunc_out ib s n) obs
  | CRCheck codes code obs => beq (retrier_check codes code) obs
  | CData now g al obs => beq (template_data now g al) obs
  | CWebhook max now g al obs => beq (webhook_message max now g al) obs
  | CRetry sr fc al start dl script oatt osent oerr oout oend =>
    let r := retry_model sr fc al start dl script oatt in
    beq (r_attempts r) oatt && beq (r_err r) oerr && beq (r_out r) oout && (r_end r =? oend) &&
    match oatt with [] => true | _ => beq (r_sent r) osent end
  | CFanout al start dl gs oevs ofailed ologged => beq (fanout_model al start dl gs) (oevs, ofailed, ologged)
  | CRecvKeys expected built => beq expected built
  | CLimitBytes limit in_len out_len unchanged =>
    (out_len <=? limit) && eqb unchanged (in_len <=? limit) && (if unchanged then out_len =? in_len else 3 <=? out_len)
  end.

Definition prop_case (c : case) : bool :=
  match c with
  | CTrunc ib s n _ => trunc_prop ib s n
  | CRCheck codes code _ =>
    let '(retry, failed) := retrier_check codes code in
    eqb failed (negb ((200 <=? code) && (code <? 300))) &&
    eqb retry (failed && (((500 <=? code) && (code <? 600)) || bool_decide (code ∈ codes)))
  | CData now g al _ => data_prop now al (template_data now g al)
  | CWebhook max now g al _ =>
    let '(d, t) := webhook_message max now g al in
    let listed := if max =? 0 then al else take (Z.to_nat max) al in
    data_prop now listed d && (t =? Z.of_nat (length al) - Z.of_nat (length listed))
  | CRetry sr fc al start dl script oatt _ _ _ _ =>
    retry_prop sr fc al start dl (retry_model sr fc al start dl script oatt)
  | CFanout al start dl gs _ _ _ => fanout_prop al start dl gs
  | CRecvKeys expected _ => bool_decide (NoDup expected)
  | CLimitBytes limit _ _ _ => 0 <=? limit
  end.

Definition show_case (c : case) : shown :=
  match c with
  | CTrunc ib s n _ => STrunc (trunc_out ib s n)
  | CRCheck codes code _ => SRCheck (retrier_check codes code)
  | CData now g al _ => SData (template_data now g al)
  | CWebhook max now g al _ => SWebhook (webhook_message max now g al)
  | CRetry sr fc al start dl script oatt _ _ _ _ => SRetry (retry_model sr fc al start dl script oatt)
  | CFanout al start dl gs _ _ _ =>
    let '(e, f, l) := fanout_model al start dl gs in SFanout e f l
  | CRecvKeys expected built => SRecvKeys (bool_decide (NoDup built)) (beq expected built)
  | CLimitBytes limit in_len _ _ => SRCheck (in_len <=? limit, true)
  end.
