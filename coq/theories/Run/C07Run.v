(* Correspondence interface for C07: a case is a routing configuration as written in the YAML file (raw tree,
   defined receivers and time intervals), the regexp oracle table, and what the real code did with it:
   either the error class of config.Load, or the whole dispatch.Route tree built by NewRoute (every node with its
   position, RouteOpts, sorted matchers, continue flag, Idx) plus, per label set, the positions returned by
   Route.Match and the receiver names.
   check_case: the model (load_route; new_root; match_route) yields exactly that.
   prop_case : executable form of the property on the model run. *)
From AM Require Export Base.Prelude Model.Matchers Model.Route.

Record onode := mkON { on_path : list nat; on_opts : ropts; on_ms : list matcher; on_cont : bool; on_idx : nat }.
Record oquery := mkQ { q_ls : list (string * string); q_paths : list (list nat); q_recv : list string }.
Inductive loaded := LErr (code : string) | LOk (nodes : list onode) (qs : list oquery).
Record case := mkCase {
  c_re : re_table; c_receivers : list string; c_tis : list string; c_route : rroute; c_obs : loaded }.

Definition set_eqb (a b : list string) : bool :=
  forallb (fun x => smem x b) a && forallb (fun x => smem x a) b.
Definition map_eqb (a b : list (string * string)) : bool :=
  forallb (fun kv => beq (alookup b (fst kv)) (alookup a (fst kv))) a
  && forallb (fun kv => beq (alookup a (fst kv)) (alookup b (fst kv))) b.
Definition opts_eqb (a b : ropts) : bool :=
  beq (ro_receiver a) (ro_receiver b) && set_eqb (ro_group_by a) (ro_group_by b)
  && beq (ro_group_by_all a) (ro_group_by_all b)
  && beq (ro_gw a) (ro_gw b) && beq (ro_gi a) (ro_gi b) && beq (ro_ri a) (ro_ri b)
  && beq (ro_mute a) (ro_mute b) && beq (ro_active a) (ro_active b) && map_eqb (ro_labels a) (ro_labels b).

(* the model's tree, flattened in Walk order *)
Definition flatten (r : route) : list onode :=
  omap (fun p => match node_at r p, route_idx r p with
                 | Some n, Some i => Some (mkON p (r_opts n) (r_ms n) (r_cont n) i)
                 | _, _ => None
                 end) (pre_order r).
Definition onode_eqb (a b : onode) : bool :=
  beq (on_path a) (on_path b) && opts_eqb (on_opts a) (on_opts b) && beq (on_ms a) (on_ms b)
  && beq (on_cont a) (on_cont b) && beq (on_idx a) (on_idx b).
Fixpoint all2 {A B} (f : A -> B -> bool) (l : list A) (m : list B) : bool :=
  match l, m with
  | [], [] => true
  | x :: l', y :: m' => f x y && all2 f l' m'
  | _, _ => false
  end.

Definition model_query (c : case) (r : route) (ls : list (string * string)) : list (list nat) * list (option string) :=
  (match_route (re_of_table (c_re c)) ls r, receivers_of (re_of_table (c_re c)) ls r).

Definition query_lsets (c : case) : list (list (string * string)) :=
  match c_obs c with LOk _ qs => map q_ls qs | LErr _ => [] end.

Inductive shown := SErr (code : string) | SOk (nodes : list onode) (qs : list (list (list nat) * list (option string))).
Definition show_case (c : case) : shown :=
  match load_route (c_receivers c) (c_tis c) (c_route c) with
  | Ok cr => let r := new_root cr in SOk (flatten r) (map (model_query c r) (query_lsets c))
  | Err e => SErr e
  | Panic => SErr "PANIC"
  end.

Definition check_case (c : case) : bool :=
  match load_route (c_receivers c) (c_tis c) (c_route c), c_obs c with
  | Err e, LErr e' => beq e e'
  | Ok cr, LOk nodes qs =>
      let r := new_root cr in
      all2 onode_eqb (flatten r) nodes
      && forallb (fun q => let '(ps, rs) := model_query c r (q_ls q) in
                           beq ps (q_paths q) && beq rs (map Some (q_recv q))) qs
  | _, _ => false
  end.

(* ---- the property, executable, on the model run ---- *)
Definition prop_query (re : string -> string -> bool) (r : route) (ls : list (string * string)) : bool :=
  let ps := match_route re ls r in
  negb (is_nil ps)                                                        (* at least one route *)
  && beq ps (List.filter (fun p => selected re ls r p) (pre_order r))          (* exactly the chosen ones, in depth-first order *)
  && forallb (fun p => match node_at r p with                             (* each with a receiver *)
                       | Some n => negb (String.eqb (ro_receiver (r_opts n)) "")
                       | None => false end) ps.

Definition prop_case (c : case) : bool :=
  match load_route (c_receivers c) (c_tis c) (c_route c) with
  | Ok cr => let r := new_root cr in forallb (prop_query (re_of_table (c_re c)) r) (query_lsets c)
  | _ => true
  end.
