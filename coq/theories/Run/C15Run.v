(* Correspondence interface for C15.
   A case is one of
   - CContains: one parsed interval + many instants; per instant the harness recorded Go's civil fields in the
     effective location (t.In(loc): year, month, day, weekday, hour*60+minute), the zone offsets Go used, the
     value of the real daysInMonth, and the verdict of the real TimeInterval.ContainsTime.
   - CClamp: the real clamp.  - CParse*: a text through the real UnmarshalYAML functions (accept/reject + value).
   - CMutes: the real Intervener.Mutes.  - CStage: the real TimeActiveStage / TimeMuteStage / MultiStage{both}.
   - CCfg: config.Load's accept/reject on interval names.
   - CSys: a whole instance (config.Load, dispatcher, the pipeline of notify.PipelineBuilder) under virtual time:
     per flush of the group the tick instant, whether a notification left, and the API view of the marker.
   check_case: the model gives the recorded outputs (and Calendar.v gives Go's civil fields from unix + offset).
   prop_case : the model's verdict equals the declarative calendar statement evaluated on the model's fields;
               the gating statement holds on the model run. *)
From AM Require Export Base.Prelude Model.Calendar Model.TimeInterval.

Record inst := mkInst {
  i_unix : Z; i_own_off : Z; i_loc_off : Z;      (* loc_off: offset of the interval's zone at unix (0 if none) *)
  i_go : civil; i_go_dim : Z; i_go_in : bool }.

Record sysflush := mkFlush {
  f_gid : nat;                    (* which aggregation group flushed (each has its own marker entry) *)
  f_query : bool;                 (* true: no flush here, only a look at the marker / API at instant f_now *)
  f_now : Z; f_tzt : list (string * Z);
  f_silenced : bool;              (* every alert of the flush is covered by an active silence (silence stage, after the time stages) *)
  f_sink : bool;                  (* the route's receiver has at least one integration (false: a null receiver) *)
  f_notified : bool; f_by : list string; f_muted : bool;
  (* GET /api/v2/alerts/groups right after this flush: EVERY listed group of the route with its mutedBy, and
     the groups listed for ?muted=false (group ids ascending) *)
  f_api : list (nat * list string); f_api_unmuted : list nat }.

Inductive which_stage := StActive | StMute | StBoth.

Inductive case :=
| CContains (ti : tinterval) (is : list inst)
| CClamp (n lo hi out : Z)
| CParseTimeRange (st en : string) (out : option rng)
| CParseRange (k : rkind) (s : string) (out : option rng)
| CMutes (m : intervals) (tzt : list (string * Z)) (names : list string) (now : Z) (out : res (bool * list string))
| CStage (w : which_stage) (m : intervals) (tzt : list (string * Z)) (x : sctx) (marker0 : option (list string))
         (pass : bool) (err : option string) (muted_by : list string) (is_muted : bool)
(* ONE long-lived Intervener asked a sequence of questions (names, instant): Mutes is a pure function of the
   instant, so the model answers each element on its own *)
| CMutesSeq (m : intervals) (qs : list (list string * Z * list (string * Z) * res (bool * list string)))
(* ONE long-lived stage object + Intervener + marker, Exec'd at a sequence of instants; marker threaded *)
| CStageSeq (w : which_stage) (m : intervals) (x : sctx) (marker0 : option (list string))
            (steps : list (Z * list (string * Z) * (bool * option string * (list string * bool))))
(* dispatch.NewRoute on a loaded config: per route (pre-order) the lists in RouteOpts *)
| CRoutes (tree : rnode) (eff : list (list string * list string))
| CCfg (defined root_used : list string) (routes_used : list (list string)) (accepted : bool)
(* whole instance: the flushes of one group, in order; the marker is threaded from flush to flush *)
| CSys (m : intervals) (mute active : list string) (fl : list sysflush).

Definition tz_const (off : Z) : string -> Z -> Z := fun _ _ => off.
Definition tz_table (t : list (string * Z)) : string -> Z -> Z :=
  fun n _ => match assoc n t with Some v => v | None => 0 end.

(* model outputs for one instant: civil fields from unix+offset, month length, verdict.
   `contains tz ti unix own` unfolds to `contains_fields ti (civil_fields (unix + eff_off ...))`; the fields are
   computed once and shared (vm_compute does not share common subterms). *)
Definition inst_local (ti : tinterval) (i : inst) : Z :=
  i_unix i + eff_off (tz_const (i_loc_off i)) ti (i_unix i) (i_own_off i).
Definition model_inst (ti : tinterval) (i : inst) : civil * Z * bool :=
  let c := civil_fields (inst_local ti i) in
  (c, days_in_month (c_year c) (c_month c), contains_fields ti c).
Lemma model_inst_is_contains ti i :
  snd (model_inst ti i) = contains (tz_const (i_loc_off i)) ti (i_unix i) (i_own_off i).
Proof. reflexivity. Qed.

Definition stage_model (w : which_stage) (m : intervals) (tzt : list (string * Z)) (x : sctx)
  (marker0 : option (list string)) : bool * option string * (list string * bool) :=
  let tz := tz_table tzt in
  match w with
  | StActive => let r := time_active_stage tz m x in
                (s_pass r, s_err r, marker_muted (apply_set marker0 (s_set r)))
  | StMute => let r := time_mute_stage tz m x in
              (s_pass r, s_err r, marker_muted (apply_set marker0 (s_set r)))
  | StBoth => let '(p, e, mk) := time_stages tz m x marker0 in (p, e, marker_muted mk)
  end.

(* the dispatcher puts route id, group key, the route's two name lists and the tick instant into the context *)
Definition sys_ctx (mute active : list string) (now : Z) : sctx :=
  mkCtx (Some "route") (Some "group") (Some mute) (Some active) (Some now).
Definition upd (f : nat -> option (list string)) (g : nat) (v : option (list string)) : nat -> option (list string) :=
  fun k => if Nat.eqb k g then v else f k.
Definition sys_step (m : intervals) (mute active : list string) (markers : nat -> option (list string))
  (f : sysflush) : bool * option string * option (list string) :=
  if f_query f then (false, None, markers (f_gid f))   (* nothing runs: the marker entry stays what it was *)
  else time_stages (tz_table (f_tzt f)) m (sys_ctx mute active (f_now f)) (markers (f_gid f)).
Fixpoint sys_model (m : intervals) (mute active : list string) (markers : nat -> option (list string))
  (fl : list sysflush) : list (bool * option string * (list string * bool)) :=
  match fl with
  | [] => []
  | f :: r =>
      let '(p, e, mk) := sys_step m mute active markers f in
      (* a notification leaves iff the time stages pass and the silencer leaves an alert; the marker is written
         by the time stages at EVERY flush, silenced or not *)
      (p && negb (f_silenced f) && f_sink f, e, marker_muted mk) :: sys_model m mute active (upd markers (f_gid f) mk) r
  end.

(* what the API must report after each flush, for every group it lists: that group's own marker entry (written at
   that group's own last flush); ?muted=false lists exactly the groups whose entry is empty *)
Fixpoint sys_api_model (m : intervals) (mute active : list string) (markers : nat -> option (list string))
  (fl : list sysflush) : list (list (nat * list string) * list nat) :=
  match fl with
  | [] => []
  | f :: r =>
      let '(_, _, mk) := sys_step m mute active markers f in
      let markers' := upd markers (f_gid f) mk in
      let view := map (fun '(g, _) => (g, fst (marker_muted (markers' g)))) (f_api f) in
      (view, map fst (List.filter (fun '(_, by_) => beq by_ []) view)) :: sys_api_model m mute active markers' r
  end.

Definition with_now (x : sctx) (now : Z) : sctx :=
  mkCtx (x_route x) (x_gkey x) (x_mute x) (x_active x) (Some now).
(* one Exec: observable outcome and the marker value afterwards *)
Definition stage_step (w : which_stage) (m : intervals) (tzt : list (string * Z)) (x : sctx)
  (mk : option (list string)) : bool * option string * option (list string) :=
  let tz := tz_table tzt in
  match w with
  | StActive => let r := time_active_stage tz m x in (s_pass r, s_err r, apply_set mk (s_set r))
  | StMute => let r := time_mute_stage tz m x in (s_pass r, s_err r, apply_set mk (s_set r))
  | StBoth => time_stages tz m x mk
  end.
Fixpoint stage_seq_model (w : which_stage) (m : intervals) (x : sctx) (mk : option (list string))
  (steps : list (Z * list (string * Z))) : list (bool * option string * (list string * bool)) :=
  match steps with
  | [] => []
  | (now, tzt) :: r =>
      let '(p, e, mk') := stage_step w m tzt (with_now x now) mk in
      (p, e, marker_muted mk') :: stage_seq_model w m x mk' r
  end.
Fixpoint stage_seq_prop (w : which_stage) (m : intervals) (x : sctx) (mk : option (list string))
  (steps : list (Z * list (string * Z))) (ok : sctx -> list (string * Z) -> option (list string) -> bool) : bool :=
  match steps with
  | [] => true
  | (now, tzt) :: r =>
      ok (with_now x now) tzt mk && stage_seq_prop w m x (snd (stage_step w m tzt (with_now x now) mk)) r ok
  end.

(* Error classes are recognised from the message text (the stages use inline errors.New, no sentinels). A text
   the harness does not recognise is recorded as "unclassified": an error whose reason is unknown. It agrees
   with ANY error of the model and never with success; recognised classes are compared exactly. *)
Definition err_compat (model obs : option string) : bool :=
  match obs with
  | Some o => if String.eqb o "unclassified" then match model with Some _ => true | None => false end
              else beq model obs
  | None => beq model obs
  end.
Definition out_compat (model obs : bool * option string * (list string * bool)) : bool :=
  let '(p, e, mk) := model in let '(p', e', mk') := obs in
  beq p p' && err_compat e e' && beq mk mk'.
Fixpoint outs_compat (ms os : list (bool * option string * (list string * bool))) : bool :=
  match ms, os with
  | [], [] => true
  | a :: r, b :: r' => out_compat a b && outs_compat r r'
  | _, _ => false
  end.

Inductive shown :=
| ShInsts (l : list (civil * Z * bool))
| ShZ (z : Z) | ShR (o : option rng) | ShM (o : res (bool * list string))
| ShS (o : bool * option string * (list string * bool))
| ShB (b : bool)
| ShRoutes (l : list (list string * list string))
| ShMs (l : list (res (bool * list string)))
| ShSysApi (l : list (bool * option string * (list string * bool))) (a : list (list (nat * list string) * list nat))
| ShSys (l : list (bool * option string * (list string * bool))).

Definition show_case (c : case) : shown :=
  match c with
  | CContains ti is_ => ShInsts (map (model_inst ti) is_)
  | CClamp n lo hi _ => ShZ (clamp n lo hi)
  | CParseTimeRange st en _ => ShR (parse_time_range st en)
  | CParseRange k s _ => ShR (parse_range k s)
  | CMutes m tzt names now _ => ShM (mutes (tz_table tzt) m names now)
  | CStage w m tzt x mk0 _ _ _ _ => ShS (stage_model w m tzt x mk0)
  | CMutesSeq m qs => ShMs (map (fun '(names, now, tzt, _) => mutes (tz_table tzt) m names now) qs)
  | CStageSeq w m x mk0 steps => ShSys (stage_seq_model w m x mk0 (map fst steps))
  | CRoutes tree _ => ShRoutes (route_lists tree)
  | CCfg d ru us _ => ShB (cfg_names_ok d ru us)
  | CSys m mute active fl => ShSysApi (sys_model m mute active (fun _ => None) fl) (sys_api_model m mute active (fun _ => None) fl)
  end.

Global Instance res_eq_dec {A} `{EqDecision A} : EqDecision (res A). Proof. solve_decision. Defined.

Definition check_case (c : case) : bool :=
  match c with
  | CContains ti is_ =>
      forallb (fun i => beq (model_inst ti i) (i_go i, i_go_dim i, i_go_in i)) is_
  | CClamp n lo hi out => clamp n lo hi =? out
  | CParseTimeRange st en out => beq (parse_time_range st en) out
  | CParseRange k s out => beq (parse_range k s) out
  | CMutes m tzt names now out => beq (mutes (tz_table tzt) m names now) out
  | CStage w m tzt x mk0 pass err by_ ism => out_compat (stage_model w m tzt x mk0) (pass, err, (by_, ism))
  | CMutesSeq m qs => forallb (fun '(names, now, tzt, out) => beq (mutes (tz_table tzt) m names now) out) qs
  | CStageSeq w m x mk0 steps => outs_compat (stage_seq_model w m x mk0 (map fst steps)) (map snd steps)
  | CRoutes tree eff => beq (route_lists tree) eff
  | CCfg d ru us acc => beq (cfg_names_ok d ru us) acc
  | CSys m mute active fl =>
      beq (sys_model m mute active (fun _ => None) fl) (map (fun f => (f_notified f, None, (f_by f, f_muted f))) fl)
      && beq (sys_api_model m mute active (fun _ => None) fl) (map (fun f => (f_api f, f_api_unmuted f)) fl)
  end.

(* calendar sanity of the model's own fields: a valid date that converts back to the same day, weekday in 0..6 *)
Definition fields_ok (local : Z) (c : civil) : bool :=
  valid_date (c_year c, c_month c, c_day c) &&
  (days_of_civil (c_year c) (c_month c) (c_day c) =? local / 86400) &&
  (0 <=? c_wday c) && (c_wday c <=? 6) && (0 <=? c_min c) && (c_min c <? 1440).

Definition gating_ok (m : intervals) (tzt : list (string * Z)) (x : sctx) (mk0 : option (list string)) : bool :=
  let tz := tz_table tzt in
  match x_route x, x_gkey x, x_now x, x_mute x, x_active x with
  | Some _, Some _, Some now, Some mute, Some active =>
      match mutes tz m mute now, mutes tz m active now with
      | Ok (mu, muby), Ok (ac, _) =>
          let '(p, e, mk) := time_stages tz m x mk0 in
          let blocked_active := negb (beq active []) && negb ac in
          let blocked_mute := negb (beq mute []) && mu in
          beq e None && beq p (negb blocked_active && negb blocked_mute) &&
          beq mk (Some (if blocked_active then active else if blocked_mute then muby else []))
      | _, _ => true
      end
  | _, _, _, _, _ => true
  end.

Definition prop_case (c : case) : bool :=
  match c with
  | CContains ti is_ =>
      forallb (fun i =>
        let local := inst_local ti i in
        let c := civil_fields local in
        fields_ok local c &&
        beq (contains_fields ti c) (spec_fields ti c)) is_
  | CClamp n lo hi _ => negb (lo <=? hi) || ((lo <=? clamp n lo hi) && (clamp n lo hi <=? hi))
  | CParseTimeRange st en _ =>
      match parse_time_range st en with Some r => valid_time r | None => true end
  | CParseRange k s _ =>
      match parse_range k s with Some r => kind_valid k r | None => true end
  | CMutes m tzt names now _ =>
      match mutes (tz_table tzt) m names now with
      | Ok (b, l) => beq b (negb (beq l [])) && forallb (fun n => bool_decide (n ∈ names)) l
      | _ => true
      end
  | CStage StBoth m tzt x mk0 _ _ _ _ => gating_ok m tzt x mk0
  | CStage _ _ _ _ _ _ _ _ _ => true
  | CMutesSeq m qs =>
      forallb (fun '(names, now, tzt, _) =>
        match mutes (tz_table tzt) m names now with
        | Ok (b, l) => beq b (negb (beq l [])) && forallb (fun n => bool_decide (n ∈ names)) l
        | _ => true
        end) qs
  | CStageSeq StBoth m x mk0 steps =>
      stage_seq_prop StBoth m x mk0 (map fst steps) (fun x' tzt mk => gating_ok m tzt x' mk)
  | CStageSeq _ _ _ _ _ => true
  | CRoutes tree _ =>   (* a route without lists of its own has none, whatever its ancestors carry *)
      match tree with RNode mu ac _ => beq (hd ([], []) (route_lists tree)) (mu, ac) end
  | CCfg d ru us _ =>
      negb (cfg_names_ok d ru us) || forallb (forallb (fun n => bool_decide (n ∈ d))) us
  | CSys m mute active fl =>
      forallb (fun f => f_query f || gating_ok m (f_tzt f) (sys_ctx mute active (f_now f)) None
                        && gating_ok m (f_tzt f) (sys_ctx mute active (f_now f)) (Some ["stale"])) fl
  end.
