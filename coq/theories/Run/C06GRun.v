(* grouping cases of C06: getGroupLabels on the real dispatcher's groups vs Model/Grouping.v *)
From AM Require Export Base.Prelude Model.Matchers Model.Route Model.Grouping.

Record case := mkGC { gc_group_by : list string; gc_all : bool; gc_alert : list (string * string); gc_obs : list (string * string) }.
Definition opts_of (c : case) : ropts := mkRO "" (gc_group_by c) (gc_all c) 0 0 0 [] [] [].
Definition show_case (c : case) := group_labels (opts_of c) (gc_alert c).
Definition check_case (c : case) : bool := beq (show_case c) (gc_obs c).
(* every label of the group is a label of the alert with a grouped name, and every grouped label of the alert is there *)
Definition prop_case (c : case) : bool :=
  forallb (fun kv => grouped (opts_of c) (fst kv) && bool_decide (kv ∈ gc_alert c)) (show_case c) &&
  forallb (fun kv => negb (grouped (opts_of c) (fst kv)) || bool_decide (kv ∈ show_case c)) (gc_alert c).
