(* Correspondence interface for C10: a case is a retention and a history of (instant, op, observed output).
   check_case: the model, run on the same ops at the same instants, produces the observed outputs.
   prop_case : executable form of the property on the model run (guards against a vacuous theorem). *)
From AM Require Export Base.Prelude Model.Nflog.

Record case := mkCase { c_ret : Z; c_hist : list (Z * op * out) }.

(* Query returns the Entry without ExpiresAt: the harness records exp = 0 *)
Definition RFoundE (e : entry) : out := RFound e.
Definition mask (o : out) : out :=
  match o with
  | RFound e => RFound (mkEntry (e_gkey e) (e_recv e) (e_ts e) 0 (e_firing e) (e_resolved e) (e_data e))
  | _ => o
  end.

Definition model_outs (c : case) : list out :=
  map mask (snd (run (c_ret c) ∅ (map fst (c_hist c)))).
Definition show_case := model_outs.
Definition check_case (c : case) : bool := beq (model_outs c) (map snd (c_hist c)).

(* never backwards: along the model run, for every key present before and after a step, the timestamp
   does not decrease; and entries only disappear in a GC step, and then only expired ones *)
Definition step_ok (ret : Z) (s : st) (now : Z) (o : op) : bool :=
  let s' := fst (step ret s now o) in
  forallb (fun '(k, e) =>
    match s' !! k with
    | Some e' => (e_ts e <=? e_ts e') && (negb (e_ts e =? e_ts e') || beq e e')
    | None => match o with OGC => e_exp e <=? now | _ => false end
    end) (map_to_list s).

Fixpoint hist_ok (ret : Z) (s : st) (h : list (Z * op)) : bool :=
  match h with
  | [] => true
  | (now, o) :: r => step_ok ret s now o && hist_ok ret (fst (step ret s now o)) r
  end.
Definition prop_case (c : case) : bool := hist_ok (c_ret c) ∅ (map fst (c_hist c)).
