From AM Require Export Run.GroupRun.
Definition prop_case (c : case) : bool := true.
