(* Correspondence interface for C03: a case is a regexp table, a rule set, the label sets observed, and a history
   of (instant, operation, observation of the real Inhibitor right after the operation).
   check_case: the model, run on the same operations at the same instants, mutes exactly the label sets the real
               Inhibitor muted, the inhibiting fingerprint the real one reported (marker status inhibitedBy) is one
               the model allows (Go map order decides which), and the real per-rule cache/index contents (read
               through inhibit/verif_export.go) equal the model's as sets.
   prop_case : executable form of the property on the model run: at every observation point the model's verdict
               equals the documented existential rule evaluated over the alerts firing in the WHOLE history
               (latest published update per fingerprint, restarts included), every fingerprint the model may
               report is a witness, and the recorded history satisfies the theorems' hypothesis hist_ok (every
               restart's snapshot is what the provider contract says: latest versions, all unresolved present). *)
From AM Require Export Base.Prelude Model.Matchers Model.Inhibit.

Record obs := mkObs {
  o_mutes : list Z;
    (* per label set of the case: -1 = Mutes said false; i >= 0 = Mutes said true and the marker's inhibitedBy is
       the fingerprint of label set number i of the case (any other number: an unknown fingerprint) *)
  o_state : list (list Z * list (list Z))
    (* per rule: fingerprints in the source cache, and the index's classes (as label set numbers) *)
}.

(* operations as the harness writes them (label sets by number, to keep the case files small) *)
Inductive xop :=
| XPut (l : Z) (starts ends upd : Z)  (* the inhibitor was sent this update of label set number l *)
| XGC
| XTick
| XRestart (snap pend : list (Z * Z * Z * Z)).
    (* a NEW Inhibitor is started (initial start, configuration reload): the provider handed it the snapshot
       snap (in the provider's order) and the updates pend were published after the snapshot was taken and
       before the inhibitor processed any of it; entries are (label set number, StartsAt, EndsAt, UpdatedAt) *)

Record case := mkCase {
  c_re : re_table;
  c_rules : list rule;
  c_lsets : list (list (string * string));
  c_hist : list (Z * xop * option obs) }.

Definition lset_of (c : case) (i : Z) : list (string * string) :=
  if i <? 0 then [("<unknown>", "")] else nth (Z.to_nat i) (c_lsets c) [("<unknown>", "")].
Definition alert_of (c : case) (x : Z * Z * Z * Z) : alert :=
  let '(l, s, e, u) := x in mkA (lset_of c l) s e u.
Definition op_of (c : case) (x : xop) : op :=
  match x with
  | XPut l s e u => OProcess (mkA (lset_of c l) s e u)
  | XGC => OGC (fun _ => true)
  | XTick => OTick
  | XRestart snap pend => ORestart (map (alert_of c) snap) (map (alert_of c) pend)
  end.

Definition subset_b {A} `{EqDecision A} (l1 l2 : list A) : bool := forallb (fun x => bool_decide (x ∈ l2)) l1.
Definition same_set {A} `{EqDecision A} (l1 l2 : list A) : bool := subset_b l1 l2 && subset_b l2 l1.
Definition same_classes {A} `{EqDecision A} (l1 l2 : list (list A)) : bool :=
  forallb (fun c => existsb (same_set c) l2) l1 && forallb (fun c => existsb (same_set c) l1) l2 &&
  (length l1 =? length l2)%nat.

(* the model state and the history so far, after each operation *)
Fixpoint points (c : case) (ih : list irule) (seg : list (Z * op))
    (h : list (Z * xop * option obs)) : list (list irule * list (Z * op) * Z * option obs) :=
  match h with
  | [] => []
  | (now, x, ob) :: rest =>
      let o := op_of c x in
      let ih' := step (re_of_table (c_re c)) ih now o in
      let seg' := seg ++ [(now, o)] in
      (ih', seg', now, ob) :: points c ih' seg' rest
  end.
Definition case_points (c : case) := points c (map new_rule (c_rules c)) [] (c_hist c).

Definition model_state (ih : list irule) :=
  map (fun r => (map fst (map_to_list (ir_sc r)), map (fun kv => elements (snd kv)) (map_to_list (ir_ix r)))) ih.

Definition model_obs (c : case) (p : list irule * list (Z * op) * Z * option obs) :=
  let '(ih, _, now, _) := p in
  (map (fun ls => mutes (re_of_table (c_re c)) ih ls now) (c_lsets c), model_state ih).
Definition show_case (c : case) := map (model_obs c) (case_points c).

Definition mutes_agree (c : case) (m : option (list (list (string * string)))) (o : Z) : bool :=
  match m with
  | None => o =? -1
  | Some fs => (0 <=? o) && bool_decide (lset_of c o ∈ fs)
  end.
Fixpoint all2 {A B} (f : A -> B -> bool) (l1 : list A) (l2 : list B) : bool :=
  match l1, l2 with
  | [], [] => true
  | a :: r1, b :: r2 => f a b && all2 f r1 r2
  | _, _ => false
  end.
(* cache and index contents as sets, in time linear in their size (the scale cases hold thousands of sources):
   the harness lists label set numbers in strictly increasing order (so they are distinct) *)
Fixpoint increasing (l : list Z) : bool :=
  match l with
  | a :: (b :: _) as r => (a <? b) && increasing r
  | _ => true
  end.
Definition cache_agree (c : case) (r : irule) (o : list Z) : bool :=
  increasing o && (length o =? size (ir_sc r))%nat &&
  forallb (fun i => match ir_sc r !! lset_of c i with Some _ => true | None => false end) o.
Definition class_key (c : case) (r : irule) (cl : list Z) : list string :=
  match cl with [] => [] | i :: _ => eqkey (ir_cfg r) (lset_of c i) end.
Definition class_agree (c : case) (r : irule) (cl : list Z) : bool :=
  let s := ix_get (ir_ix r) (class_key c r cl) in
  negb (beq cl []) && increasing cl && (length cl =? size s)%nat &&
  forallb (fun j => bool_decide (lset_of c j ∈ s)) cl.
Definition index_agree (c : case) (r : irule) (cls : list (list Z)) : bool :=
  (length cls =? size (ir_ix r))%nat && bool_decide (NoDup (map (class_key c r) cls)) &&
  forallb (class_agree c r) cls.
Definition state_agree (c : case) (r : irule) (o : list Z * list (list Z)) : bool :=
  cache_agree c r (fst o) && index_agree c r (snd o).

Definition check_point (c : case) (p : list irule * list (Z * op) * Z * option obs) : bool :=
  match p with
  | (_, _, _, None) => true
  | (ih, _, now, Some ob) =>
      (* the observed list covers a prefix of the case's label sets (all of them, except in the scale cases, where
         thousands of sources exist and only the first few label sets are asked about) *)
      all2 (mutes_agree c) (map (fun ls => mutes (re_of_table (c_re c)) ih ls now)
                                (firstn (length (o_mutes ob)) (c_lsets c))) (o_mutes ob) &&
      all2 (state_agree c) ih (o_state ob)
  end.
Definition check_case (c : case) : bool := forallb (check_point c) (case_points c).

(* alerts firing at now according to a history: latest published update per fingerprint, unresolved at now *)
Definition firing_list (seg : list (Z * op)) (now : Z) : list alert :=
  filter (fun a => resolved_at a now = false) (map snd (map_to_list (latest_map seg))).

Definition prop_point (c : case) (p : list irule * list (Z * op) * Z * option obs) : bool :=
  let '(ih, seg, now, ob) := p in
  match ob with None => true | Some ob =>   (* evaluated where the implementation was observed, for the observed label sets *)
  let re := re_of_table (c_re c) in
  let lm := latest_map seg in
  let fire := filter (fun a => resolved_at a now = false) (map snd (map_to_list lm)) in
  forallb (fun ls =>
    match mutes re ih ls now with
    | None => negb (inhibitedb re (c_rules c) fire ls)
    | Some fs =>
        inhibitedb re (c_rules c) fire ls &&
        negb (beq fs []) &&
        forallb (fun f => match lm !! f with   (* every reportable fingerprint is a firing witness *)
                          | Some s => negb (resolved_at s now) && existsb (fun r => inhibitsb re r s ls) (c_rules c)
                          | None => false
                          end) fs
    end) (firstn (length (o_mutes ob)) (c_lsets c))
  end.
Definition case_hist (c : case) : list (Z * op) := map (fun x => (fst (fst x), op_of c (snd (fst x)))) (c_hist c).
Definition prop_case (c : case) : bool := forallb (prop_point c) (case_points c) && hist_okb [] (case_hist c).
