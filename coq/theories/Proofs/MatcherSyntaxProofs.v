(* Proofs about Model/MatcherSyntax.v. Every statement holds for all oracles is_space / is_print / compiles unless a
   hypothesis about them is written out. *)
From AM Require Import Base.Prelude Model.Matchers Model.MatcherSyntax.

(* ---------- fallback combinator ---------- *)
Section Fallback.
  Context {A : Type} `{EqDecision A}.
  Lemma fallback_both_accept (nv cv : A) : fallback (Ok nv) (Ok cv) = Ok cv.
  Proof. unfold fallback. destruct (decide (nv = cv)); congruence. Qed.
  Lemma fallback_both_accept_equal (v : A) : fallback (Ok v) (Ok v) = Ok v.
  Proof. apply fallback_both_accept. Qed.
  Lemma fallback_classic_only (n : res A) (cv : A) : fallback n (Ok cv) = Ok cv.
  Proof. destruct n; [apply fallback_both_accept|reflexivity|reflexivity]. Qed.
  Lemma fallback_utf8_only (nv : A) e : fallback (Ok nv) (Err e) = Ok nv.
  Proof. reflexivity. Qed.
  Lemma fallback_both_reject e1 e2 : fallback (Err e1 : res A) (Err e2) = Err e2.
  Proof. reflexivity. Qed.
  Lemma fallback_spec (n c : res A) :
    match n, c with
    | _, Panic => fallback n c = Panic
    | Ok nv, Ok cv => fallback n c = Ok cv /\ (nv = cv -> fallback n c = Ok nv)
    | Ok nv, Err _ => fallback n c = Ok nv
    | _, Ok cv => fallback n c = Ok cv
    | _, Err ce => fallback n c = Err ce
    end.
  Proof.
    destruct n, c; simpl; try reflexivity.
    split; [apply fallback_both_accept|]. intros ->. apply fallback_both_accept.
  Qed.
End Fallback.

(* ---------- outcomes that are neither a panic nor fuel exhaustion ---------- *)
Definition fine {A} (r : res A) : Prop :=
  match r with Panic => False | Err e => e <> "fuel" | Ok _ => True end.

Lemma fine_res_map {A B} (f : A -> B) r : fine r -> fine (res_map f r).
Proof. destruct r; simpl; auto. Qed.
Lemma fine_res_bind {A B} (f : A -> res B) r : fine r -> (forall a, fine (f a)) -> fine (res_bind r f).
Proof. destruct r; simpl; auto. Qed.

(* ---------- UTF-8 decoding ---------- *)
Lemma decode1_width s : s <> [] -> (1 <= snd (decode1 s) <= length s)%nat.
Proof.
  destruct s as [|b0 r]; [congruence|]. intros _. unfold decode1.
  destruct ((0 <=? b0) && (b0 <? 128)); [simpl; lia|].
  destruct ((194 <=? b0) && (b0 <=? 223)).
  { destruct r as [|b1 r]; [simpl; lia|]. destruct (cont b1); simpl; lia. }
  destruct ((224 <=? b0) && (b0 <=? 239)).
  { destruct r as [|b1 [|b2 r]]; try (simpl; lia).
    match goal with |- context [if ?c then _ else _] => destruct c end; simpl; lia. }
  destruct ((240 <=? b0) && (b0 <=? 244)).
  { destruct r as [|b1 [|b2 [|b3 r]]]; try (simpl; lia).
    match goal with |- context [if ?c then _ else _] => destruct c end; simpl; lia. }
  simpl; lia.
Qed.

(* ---------- strconv.Unquote never runs out of fuel ---------- *)
Lemma unhex_n_len n : forall s v v' tl, unhex_n n s v = Some (v', tl) -> (length tl <= length s)%nat.
Proof.
  induction n as [|n IH]; simpl; intros s v v' tl H.
  - inversion H; subst; lia.
  - destruct s as [|c r]; [discriminate|]. destruct (unhex c); [|discriminate].
    apply IH in H. simpl. lia.
Qed.

Lemma unquote_char_shorter s r mb tl : unquote_char s = Some (r, mb, tl) -> (length tl < length s)%nat.
Proof.
  unfold unquote_char. destruct s as [|c t]; [discriminate|].
  destruct (c =? 34); [discriminate|].
  destruct (128 <=? c).
  { pose proof (decode1_width (c :: t) ltac:(discriminate)) as Hw.
    destruct (decode1 (c :: t)) as [r' w]. simpl in Hw. intros H; inversion H; subst.
    rewrite drop_length. simpl in *. lia. }
  destruct (negb (c =? 92)); [intros H; inversion H; subst; simpl; lia|].
  destruct t as [|e t2]; [discriminate|].
  repeat (match goal with |- context [if ?b then _ else _] => destruct b end;
          [try (intros H; inversion H; subst; simpl; lia)|]).
  all: try (intros H; inversion H; subst; simpl; lia).
  all: try discriminate.
  - destruct (unhex_n 2 t2 0) as [[v t3]|] eqn:E; [|discriminate].
    apply unhex_n_len in E. intros H; inversion H; subst; simpl; lia.
  - destruct (unhex_n 4 t2 0) as [[v t3]|] eqn:E; [|discriminate].
    apply unhex_n_len in E. destruct (valid_rune v); [|discriminate]. intros H; inversion H; subst; simpl; lia.
  - destruct (unhex_n 8 t2 0) as [[v t3]|] eqn:E; [|discriminate].
    apply unhex_n_len in E. destruct (valid_rune v); [|discriminate]. intros H; inversion H; subst; simpl; lia.
  - destruct t2 as [|d1 [|d2 t3]]; try discriminate.
    destruct (octd d1); [|discriminate]. destruct (octd d2); [|discriminate].
    match goal with |- context [if ?b then _ else _] => destruct b end; [discriminate|].
    intros H; inversion H; subst; simpl; lia.
Qed.

Lemma unquote_body_fine fuel : forall s, (length s < fuel)%nat -> fine (unquote_body fuel s).
Proof.
  induction fuel as [|f IH]; intros s Hl; [lia|]. simpl.
  destruct s as [|c tl]; [simpl; discriminate|].
  destruct (c =? 34). { destruct tl; simpl; [exact I|discriminate]. }
  destruct (c =? 10); [simpl; discriminate|].
  destruct (unquote_char (c :: tl)) as [[[r mb] tail]|] eqn:E; [|simpl; discriminate].
  apply unquote_char_shorter in E. apply fine_res_map. apply IH. simpl in *. lia.
Qed.

Lemma go_unquote_fine s : fine (go_unquote s).
Proof.
  unfold go_unquote. destruct s as [|c [|d body]]; try (simpl; discriminate).
  - destruct c; try (simpl; discriminate). repeat (destruct p; try (simpl; discriminate)).
  - assert (Hf : fine (unquote_body (length (c :: d :: body)) (d :: body))) by (apply unquote_body_fine; simpl; lia).
    destruct c; try (simpl; discriminate). repeat (destruct p; try (simpl; discriminate)). exact Hf.
Qed.

Lemma dropw_length {A} (f : A -> bool) l : (length (dropw f l) <= length l)%nat.
Proof. induction l as [|x r IH]; simpl; [lia|]. destruct (f x); simpl; lia. Qed.

(* ---------- the UTF-8 lexer and parser: total, no panic, fuel suffices ---------- *)
Section Total.
  Variable is_space : Z -> bool.
  Variable compiles : list Z -> bool.
  Notation scan_go := (scan_go is_space).
  Notation scan := (scan is_space).
  Notation peek := (peek is_space).
  Notation pstep := (pstep is_space compiles).
  Notation parse_loop := (parse_loop is_space compiles).

  (* what a lexer call can return: never a panic; an error code that is neither "fuel" nor "eof"; a token that,
     unless it is the EOF token, consumed at least one rune *)
  Definition lex_ok (rs : list (Z * list Z)) (out : res token * list (Z * list Z)) : Prop :=
    match out with
    | (Panic, _) => False
    | (Err e, _) => e <> "fuel" /\ e <> "eof"
    | (Ok t, r) => (length r <= length rs)%nat /\ (t_kind t <> TEOF -> (length r < length rs)%nat)
    end.

  Lemma scan_operator_ok rs : rs <> [] -> lex_ok rs (scan_operator rs).
  Proof.
    destruct rs as [|x r]; [congruence|]. intros _. unfold scan_operator.
    destruct (fst x =? 33).
    { destruct r as [|y r']; [simpl; split; discriminate|].
      destruct (fst y =? 61); [simpl; split; [lia|intros _; lia]|].
      destruct (fst y =? 126); [simpl; split; [lia|intros _; lia]|]. simpl; split; discriminate. }
    destruct (fst x =? 61); [|simpl; split; discriminate].
    destruct r as [|y r']; [simpl; split; [lia|intros _; lia]|].
    destruct (fst y =? 126); simpl; split; try lia; intros _; lia.
  Qed.

  Lemma quoted_body_len rs : forall esc a b, quoted_body rs esc = Some (a, b) -> (length b < length rs)%nat.
  Proof.
    induction rs as [|x r IH]; simpl; intros esc a b H; [discriminate|].
    destruct esc.
    { destruct (quoted_body r false) as [[a' b']|] eqn:E; simpl in H; [|discriminate].
      inversion H; subst. apply IH in E. simpl in *. lia. }
    destruct (fst x =? 92).
    { destruct (quoted_body r true) as [[a' b']|] eqn:E; simpl in H; [|discriminate].
      inversion H; subst. apply IH in E. simpl in *. lia. }
    destruct (fst x =? 34); [inversion H; subst; lia|].
    destruct (quoted_body r false) as [[a' b']|] eqn:E; simpl in H; [|discriminate].
    inversion H; subst. apply IH in E. simpl in *. lia.
  Qed.

  Lemma scan_quoted_ok rs : lex_ok rs (scan_quoted rs).
  Proof.
    unfold scan_quoted. destruct rs as [|x r]; [simpl; split; discriminate|].
    destruct (fst x =? 34); [|simpl; split; discriminate].
    destruct (quoted_body r false) as [[a b]|] eqn:E; [|simpl; split; discriminate].
    apply quoted_body_len in E. simpl. split; [lia|intros _; lia].
  Qed.

  Lemma scan_go_ok rs : lex_ok rs (scan_go rs).
  Proof.
    induction rs as [|x r IH]; [simpl; split; [lia|congruence]|].
    cbn [MatcherSyntax.scan_go].
    destruct (fst x =? 123); [simpl; split; [lia|intros _; lia]|].
    destruct (fst x =? 125); [simpl; split; [lia|intros _; lia]|].
    destruct (fst x =? 44); [simpl; split; [lia|intros _; lia]|].
    destruct ((fst x =? 61) || (fst x =? 33)); [apply scan_operator_ok; discriminate|].
    destruct (fst x =? 34); [apply scan_quoted_ok|].
    destruct (negb (is_reserved is_space (fst x))) eqn:Er.
    { unfold scan_unquoted. simpl. rewrite Er. pose proof (dropw_length (fun x => negb (is_reserved is_space (fst x))) r).
      split; [lia|intros _; lia]. }
    destruct (is_space (fst x)); [|simpl; split; discriminate].
    unfold lex_ok in *. destruct (scan_go r) as [[t| e|] r']; [|exact IH|exact IH].
    destruct IH as [H1 H2]. simpl. split; [lia|]. intros Hk. specialize (H2 Hk). lia.
  Qed.

  Definition lxlen (l : lexer) : nat := length (lx_rest l).

  Lemma scan_cases l :
    match scan l with
    | (Panic, _) => False
    | (Err e, l') => e <> "fuel" /\ e <> "eof" /\ lx_rest l' = lx_rest l \/ e <> "fuel" /\ e <> "eof"
    | (Ok t, l') => lx_err l = false /\ lx_err l' = false /\ (lxlen l' <= lxlen l)%nat /\
                    (t_kind t <> TEOF -> (lxlen l' < lxlen l)%nat)
    end.
  Proof.
    unfold MatcherSyntax.scan. destruct (lx_err l) eqn:El.
    { left. repeat split; discriminate. }
    pose proof (scan_go_ok (lx_rest l)) as H. unfold lex_ok in H.
    destruct (scan_go (lx_rest l)) as [[t|e|] r]; [|right; exact H|exact H].
    destruct H as [H1 H2]. unfold lxlen. simpl. auto.
  Qed.

  Lemma peek_cases l :
    match peek l with
    | (Panic, _) => False
    | (Err e, l1) => e <> "fuel" /\ e <> "eof" /\ lx_rest l1 = lx_rest l
    | (Ok t, l1) => l1 = l /\ exists l2, scan l = (Ok t, l2) /\ lx_err l2 = false /\ (lxlen l2 <= lxlen l)%nat /\
                    (t_kind t <> TEOF -> (lxlen l2 < lxlen l)%nat)
    end.
  Proof.
    unfold MatcherSyntax.peek. pose proof (scan_cases l) as H.
    destruct (scan l) as [[t|e|] l2]; [| |exact H].
    - destruct H as (H0 & H1 & H2 & H3). simpl. rewrite H1. split.
      + destruct l as [r e]; simpl in *. subst. reflexivity.
      + exists l2. auto.
    - simpl. destruct H as [(?&?&?)|(?&?)]; auto.
  Qed.

  Lemma one_of_in t ks : one_of t ks = true -> In (t_kind t) ks.
  Proof.
    unfold one_of. rewrite existsb_exists. intros [k [Hin Hk]]. unfold beq in Hk. apply bool_decide_eq_true in Hk. subst. exact Hin.
  Qed.

  Lemma is_eof_false t : is_eof t = false -> t_kind t <> TEOF.
  Proof. unfold is_eof. intros H E. rewrite E in H. discriminate. Qed.

  Lemma expect_peek_cases l ks :
    match expect_peek is_space l ks with
    | (Panic, _) => False
    | (Err e, l1) => e <> "fuel" /\ lx_rest l1 = lx_rest l
    | (Ok t, l1) => l1 = l /\ one_of t ks = true /\ t_kind t <> TEOF /\
                    exists l2, scan l = (Ok t, l2) /\ lx_err l2 = false /\ (lxlen l2 < lxlen l)%nat
    end.
  Proof.
    unfold expect_peek. pose proof (peek_cases l) as H.
    destruct (peek l) as [[t|e|] l1]; simpl; [| |exact H].
    - destruct H as [-> [l2 (Hs & He & Hle & Hlt)]].
      destruct (is_eof t) eqn:Ee; [split; [discriminate|reflexivity]|].
      destruct (one_of t ks) eqn:Eo; [|split; [discriminate|reflexivity]].
      apply is_eof_false in Ee. repeat split; auto. exists l2. auto.
    - destruct H as (?&?&?). auto.
  Qed.

  Lemma accept_peek_cases l ks :
    match accept_peek is_space l ks with
    | (Panic, _) => False
    | (Err e, l1) => e <> "fuel" /\ lx_rest l1 = lx_rest l
    | (Ok b, l1) => l1 = l /\ exists t l2, b = one_of t ks /\ t_kind t <> TEOF /\
                    scan l = (Ok t, l2) /\ lx_err l2 = false /\ (lxlen l2 < lxlen l)%nat
    end.
  Proof.
    unfold accept_peek. pose proof (peek_cases l) as H.
    destruct (peek l) as [[t|e|] l1]; simpl; [| |exact H].
    - destruct H as [-> [l2 (Hs & He & Hle & Hlt)]].
      destruct (is_eof t) eqn:Ee; [split; [discriminate|reflexivity]|].
      apply is_eof_false in Ee. split; [reflexivity|]. exists t, l2. repeat split; auto.
    - destruct H as (?&?&?). auto.
  Qed.

  Lemma expect_cases l ks :
    match expect is_space l ks with
    | (Panic, _) => False
    | (Err e, l1) => e <> "fuel" /\ lx_rest l1 = lx_rest l
    | (Ok t, l2) => one_of t ks = true /\ (lxlen l2 < lxlen l)%nat
    end.
  Proof.
    unfold expect. pose proof (expect_peek_cases l ks) as H.
    destruct (expect_peek is_space l ks) as [[t|e|] l1]; [|exact H|exact H].
    destruct H as (-> & Ho & Hk & l2 & Hs & He & Hlt). rewrite Hs. auto.
  Qed.

  Lemma accept_cases l ks :
    match accept is_space l ks with
    | (Panic, _) => False
    | (Err e, l1) => e <> "fuel" /\ lx_rest l1 = lx_rest l
    | (Ok b, l2) => (lxlen l2 <= lxlen l)%nat
    end.
  Proof.
    unfold accept. pose proof (accept_peek_cases l ks) as H.
    destruct (accept_peek is_space l ks) as [[b|e|] l1]; [|exact H|exact H].
    destruct H as (-> & t & l2 & Hb & Hk & Hs & He & Hlt).
    destruct b; [rewrite Hs; lia|lia].
  Qed.

  Lemma tok_unquote_fine t : fine (tok_unquote t).
  Proof.
    unfold tok_unquote. destruct (beq (t_kind t) TQuoted); [|exact I].
    apply fine_res_bind; [apply go_unquote_fine|]. intros u. destruct (valid_utf8 u); simpl; [exact I|discriminate].
  Qed.

  (* potential: an upper bound on the number of state-machine steps still to run *)
  Definition phi (st : pstate) (p : parser) : nat :=
    let n := lxlen (p_lx p) in
    match st with
    | SEOF => 1 | SCloseBrace => 2 | SComma => n + 3 | SMatcher => n + 3 | SEndOfMatcher => n + 4 | SOpenBrace => n + 5
    end.

  Definition step_ok (st : pstate) (p : parser) (out : res (option pstate * parser)) : Prop :=
    match out with
    | Panic => False
    | Err e => e <> "fuel"
    | Ok (None, _) => True
    | Ok (Some st', p') => (phi st' p' < phi st p)%nat
    end.

  Lemma is_eof_err_true {A} (r : res A) : is_eof_err r = true -> exists e, r = Err e.
  Proof. destruct r; simpl; try discriminate. eauto. Qed.

  Lemma new_matcher_fine t n v : fine (new_matcher compiles t n v).
  Proof. unfold new_matcher. destruct (is_regex t && negb (compiles v)); simpl; [discriminate|exact I]. Qed.

  Lemma parse_matcher_step_ok p : step_ok SMatcher p (parse_matcher_step is_space compiles p).
  Proof.
    unfold parse_matcher_step.
    pose proof (expect_cases (p_lx p) [TQuoted; TUnquoted]) as H1.
    destruct (expect is_space (p_lx p) [TQuoted; TUnquoted]) as [[t1|e1|] l1]; [|simpl; discriminate|exact H1].
    destruct H1 as [_ Hl1].
    pose proof (tok_unquote_fine t1) as Hu1. destruct (tok_unquote t1) as [name|?|]; [|simpl; discriminate|exact Hu1].
    pose proof (expect_cases l1 [TEquals; TNotEquals; TMatches; TNotMatches]) as H2.
    destruct (expect is_space l1 [TEquals; TNotEquals; TMatches; TNotMatches]) as [[t2|e2|] l2]; [|simpl; discriminate|exact H2].
    destruct H2 as [Ho2 Hl2]. apply one_of_in in Ho2.
    destruct (t_kind t2) eqn:Ek; simpl in Ho2; try (exfalso; intuition discriminate).
    all: pose proof (expect_cases l2 [TUnquoted; TQuoted]) as H3;
      destruct (expect is_space l2 [TUnquoted; TQuoted]) as [[t3|e3|] l3]; [|simpl; discriminate|exact H3];
      destruct H3 as [_ Hl3];
      pose proof (tok_unquote_fine t3) as Hu3; destruct (tok_unquote t3) as [value|?|]; [|simpl; discriminate|exact Hu3];
      match goal with |- context [new_matcher compiles ?t ?n ?v] =>
        pose proof (new_matcher_fine t n v) as Hn; destruct (new_matcher compiles t n v) as [m|?|] end;
      simpl; [|exact Hn|exact Hn]; unfold lxlen in *; simpl; lia.
  Qed.

  Lemma pstep_ok st p : step_ok st p (pstep st p).
  Proof.
    destruct st; cbn [MatcherSyntax.pstep].
    - (* SOpenBrace *)
      pose proof (accept_cases (p_lx p) [TOpenBrace]) as H1.
      destruct (accept is_space (p_lx p) [TOpenBrace]) as [r l1].
      destruct (is_eof_err r) eqn:E1; [simpl; lia|].
      destruct r as [has|e|]; [|simpl; tauto|exact H1]. cbn [res_bind].
      pose proof (accept_peek_cases l1 [TCloseBrace]) as H2.
      destruct (accept_peek is_space l1 [TCloseBrace]) as [r2 l2].
      destruct (is_eof_err r2) eqn:E2; [simpl; lia|].
      destruct r2 as [cb|e|]; [|simpl; tauto|exact H2]. cbn [res_bind].
      destruct H2 as [-> _]. destruct cb; simpl; unfold lxlen in *; simpl; lia.
    - (* SCloseBrace *)
      pose proof (expect_cases (p_lx p) [TCloseBrace]) as H1.
      destruct (expect is_space (p_lx p) [TCloseBrace]) as [r l1].
      destruct (p_open p); destruct r; simpl; try lia; try discriminate; try exact H1.
    - apply parse_matcher_step_ok.
    - (* SEndOfMatcher *)
      pose proof (expect_peek_cases (p_lx p) [TComma; TCloseBrace]) as H1.
      destruct (expect_peek is_space (p_lx p) [TComma; TCloseBrace]) as [r l1].
      destruct (is_eof_err r) eqn:E1; [simpl; lia|].
      destruct r as [t|e|]; [|simpl; discriminate|exact H1].
      destruct H1 as (-> & Ho & _). apply one_of_in in Ho.
      destruct (t_kind t); simpl in Ho; try (exfalso; intuition discriminate); simpl; unfold lxlen; simpl; lia.
    - (* SComma *)
      pose proof (expect_cases (p_lx p) [TComma]) as H1.
      destruct (expect is_space (p_lx p) [TComma]) as [[t|e|] l1]; [|simpl; discriminate|exact H1].
      destruct H1 as [_ Hl1].
      pose proof (expect_peek_cases l1 [TCloseBrace; TUnquoted; TQuoted]) as H2.
      destruct (expect_peek is_space l1 [TCloseBrace; TUnquoted; TQuoted]) as [r2 l2].
      destruct (is_eof_err r2) eqn:E2; [simpl; lia|].
      destruct r2 as [t2|e|]; [|simpl; discriminate|exact H2].
      destruct H2 as (-> & _). destruct (beq (t_kind t2) TCloseBrace); simpl; unfold lxlen in *; simpl; lia.
    - (* SEOF *)
      pose proof (scan_cases (p_lx p)) as H1.
      destruct (scan (p_lx p)) as [[t|e|] l1]; [|simpl; discriminate|exact H1].
      destruct (is_eof t); simpl; [exact I|discriminate].
  Qed.

  Lemma parse_loop_fine fuel : forall st p, (phi st p <= fuel)%nat -> fine (parse_loop fuel st p).
  Proof.
    induction fuel as [|f IH]; intros st p Hphi.
    - destruct st; simpl in Hphi; lia.
    - simpl. pose proof (pstep_ok st p) as H. destruct (pstep st p) as [[[st'|] p']|e|]; simpl in H |- *.
      + apply IH. lia.
      + exact I.
      + exact H.
      + exact H.
  Qed.
End Total.

Lemma decode_all_f_length f : forall s, (length (decode_all_f f s) <= length s)%nat.
Proof.
  induction f as [|f IH]; intros s; simpl; [lia|].
  destruct s as [|b r]; [simpl; lia|].
  pose proof (decode1_width (b :: r) ltac:(discriminate)) as Hw.
  destruct (decode1 (b :: r)) as [c w]. simpl in Hw. cbn [length].
  specialize (IH (drop w (b :: r))). rewrite drop_length in IH. simpl in *. lia.
Qed.

(* parse.Matchers before its recover: never panics, never runs out of fuel, on any input and any tables *)
Lemma utf8_parse_raw_fine is_space compiles s : fine (utf8_parse_raw is_space compiles s).
Proof.
  unfold utf8_parse_raw. apply parse_loop_fine. unfold phi, lxlen. simpl.
  pose proof (decode_all_f_length (length s) s). unfold decode_all. lia.
Qed.

(* hence the deferred recover in parse.Matchers is dead code *)
Lemma utf8_matchers_eq_raw is_space compiles s :
  utf8_matchers is_space compiles s = utf8_parse_raw is_space compiles s.
Proof.
  unfold utf8_matchers. pose proof (utf8_parse_raw_fine is_space compiles s) as H.
  destruct (utf8_parse_raw is_space compiles s); simpl in H; [reflexivity|reflexivity|contradiction].
Qed.

(* ---------- the classic parser: total by construction (structural recursion), and it has no panic outcome ---------- *)
Lemma classic_unescape_fine rs : forall esc q, fine (classic_unescape rs esc q).
Proof.
  induction rs as [|x r IH]; intros esc q; simpl.
  - destruct q; simpl; [discriminate|exact I].
  - destruct esc; [apply fine_res_map, IH|].
    destruct (fst x =? 92). { destruct r; [apply fine_res_map, IH|apply IH]. }
    destruct (fst x =? 34). { destruct r; [destruct q; [apply IH|simpl; discriminate]|simpl; discriminate]. }
    apply fine_res_map, IH.
Qed.

Lemma classic_matcher_fine compiles s : fine (classic_matcher compiles s).
Proof.
  unfold classic_matcher. destruct (classic_split s) as [[[name ty] rawv]|]; [|simpl; discriminate].
  match goal with |- context [let '(a, b) := ?e in _] => destruct e as [rawv' q] end.
  destruct (negb (valid_utf8 rawv')); [simpl; discriminate|].
  apply fine_res_bind; [apply classic_unescape_fine|]. intros v. apply new_matcher_fine.
Qed.

Lemma map_res_fine {A B} (f : A -> res B) l : (forall a, fine (f a)) -> fine (map_res f l).
Proof.
  intros Hf. induction l as [|x r IH]; simpl; [exact I|].
  apply fine_res_bind; [apply Hf|]. intros y. apply fine_res_map, IH.
Qed.

Lemma classic_matchers_fine is_space compiles s : fine (classic_matchers is_space compiles s).
Proof.
  unfold classic_matchers.
  match goal with |- context [let '(a, b) := ?e in _] => destruct e as [ts last] end.
  apply map_res_fine. intros a. apply classic_matcher_fine.
Qed.

Lemma fallback_fine {A} `{EqDecision A} (n c : res A) : fine n -> fine c -> fine (fallback n c).
Proof.
  unfold fallback. destruct c; simpl; intros Hn Hc; [|destruct n; simpl; auto|contradiction].
  destruct n; [destruct (decide _)|..]; exact I.
Qed.

Lemma single_fine r : fine r -> fine (single r).
Proof. intros H. unfold single. apply fine_res_bind; [exact H|]. intros [|m [|m' l]]; simpl; [discriminate|exact I|discriminate]. Qed.

(* every entry point of matcher/compat, in every mode *)
Lemma compat_matchers_fine is_space compiles md s : fine (compat_matchers is_space compiles md s).
Proof.
  destruct md; simpl.
  - apply classic_matchers_fine.
  - rewrite utf8_matchers_eq_raw. apply utf8_parse_raw_fine.
  - apply fallback_fine; [rewrite utf8_matchers_eq_raw; apply utf8_parse_raw_fine|apply classic_matchers_fine].
Qed.

Lemma compat_matcher_fine is_space compiles md s : fine (compat_matcher is_space compiles md s).
Proof.
  assert (Hu : fine (utf8_matcher is_space compiles s)).
  { unfold utf8_matcher. apply single_fine. rewrite utf8_matchers_eq_raw. apply utf8_parse_raw_fine. }
  destruct md; simpl.
  - apply classic_matcher_fine.
  - destruct (has_brace s); [simpl; discriminate|exact Hu].
  - destruct (has_brace s); [simpl; discriminate|]. apply fallback_fine; [exact Hu|apply classic_matcher_fine].
Qed.

(* ---------- UTF-8: canonical runes, decode/encode inverse ---------- *)
(* a well-formed decoded rune: non-empty bytes that decode to exactly this rune, and not the error rune of width 1 *)
Definition canon (x : Z * list Z) : Prop :=
  snd x <> [] /\ decode1 (snd x) = (fst x, length (snd x)) /\ bad_rune x = false.

Ltac split_hyp_ifs :=
  repeat match goal with H : context [if ?c then _ else _] |- _ => destruct c eqn:? end.
Ltac split_ifs :=
  repeat match goal with |- context [if ?c then _ else _] => destruct c eqn:? end.

Lemma decode1_app r bs rest : canon (r, bs) -> decode1 (bs ++ rest) = (r, length bs).
Proof.
  intros (Hne & Hd & Hb). simpl in *. unfold bad_rune in Hb. simpl in Hb. revert Hd Hb.
  destruct bs as [|b0 [|b1 [|b2 [|b3 [|b4 bs']]]]]; [congruence|..]; unfold decode1; simpl app; simpl length;
    split_ifs; intros Hd Hb; inversion Hd; subst; try reflexivity; try (simpl in Hb; discriminate).
Qed.

Lemma decode1_take s r w : s <> [] -> decode1 s = (r, w) -> decode1 (take w s) = (r, w).
Proof.
  intros Hne. destruct s as [|b0 [|b1 [|b2 [|b3 s']]]]; [congruence|..]; unfold decode1;
    split_ifs; intros Hd; inversion Hd; subst; simpl take; unfold decode1;
    repeat match goal with H : ?c = _ |- context [?c] => rewrite H end; try reflexivity.
Qed.

Local Arguments decode1 : simpl never.

Lemma decode_all_f_enough f1 : forall f2 s, (length s <= f1)%nat -> (length s <= f2)%nat ->
  decode_all_f f1 s = decode_all_f f2 s.
Proof.
  induction f1 as [|f1 IH]; intros f2 s H1 H2.
  - destruct s; [|simpl in H1; lia]. destruct f2; reflexivity.
  - destruct s as [|b r]; [destruct f2; reflexivity|].
    destruct f2 as [|f2]; [simpl in H2; lia|]. simpl.
    pose proof (decode1_width (b :: r) ltac:(discriminate)) as Hw.
    destruct (decode1 (b :: r)) as [c w]. simpl in Hw. f_equal.
    apply IH; rewrite drop_length; simpl in *; lia.
Qed.

Lemma decode_all_nil : decode_all [] = [].
Proof. reflexivity. Qed.

Lemma decode_all_cons s : s <> [] ->
  decode_all s = (fst (decode1 s), take (snd (decode1 s)) s) :: decode_all (drop (snd (decode1 s)) s).
Proof.
  intros Hne. destruct s as [|b r]; [congruence|]. unfold decode_all at 1. simpl length. simpl decode_all_f.
  pose proof (decode1_width (b :: r) ltac:(discriminate)) as Hw.
  destruct (decode1 (b :: r)) as [c w]. simpl in *. f_equal.
  apply decode_all_f_enough; rewrite ?drop_length; simpl; lia.
Qed.

Lemma decode_all_canon_app r bs rest : canon (r, bs) -> decode_all (bs ++ rest) = (r, bs) :: decode_all rest.
Proof.
  intros Hc. pose proof Hc as (Hne & _ & _). simpl in Hne.
  rewrite decode_all_cons by (destruct bs; [congruence|discriminate]).
  rewrite (decode1_app r bs rest Hc). simpl. rewrite (take_app bs rest), (drop_app bs rest). reflexivity.
Qed.

Lemma decode_all_raw X rest : Forall canon X -> decode_all (raw X ++ rest) = X ++ decode_all rest.
Proof.
  induction 1 as [|[r bs] X Hc HX IH]; [reflexivity|].
  unfold raw in *. simpl. rewrite <- app_assoc. rewrite (decode_all_canon_app r bs _ Hc). rewrite IH. reflexivity.
Qed.

Lemma decode_all_f_props f : forall s, (length s <= f)%nat ->
  raw (decode_all_f f s) = s /\ Forall (fun x => bad_rune x = false -> canon x) (decode_all_f f s).
Proof.
  induction f as [|f IH]; intros s Hl.
  - destruct s; [|simpl in Hl; lia]. split; [reflexivity|constructor].
  - destruct s as [|b r]; [split; [reflexivity|constructor]|]. simpl.
    pose proof (decode1_width (b :: r) ltac:(discriminate)) as Hw.
    pose proof (decode1_take (b :: r) (fst (decode1 (b :: r))) (snd (decode1 (b :: r))) ltac:(discriminate)) as Ht.
    destruct (decode1 (b :: r)) as [c w] eqn:Ed. simpl in Hw, Ht. specialize (Ht eq_refl).
    destruct (IH (drop w (b :: r))) as [Hr Hf]. { rewrite drop_length. simpl in *. lia. }
    split.
    + unfold raw in *. simpl. rewrite Hr. apply take_drop.
    + constructor; [|exact Hf]. intros Hb. unfold canon. simpl.
      assert (Hlen : length (take w (b :: r)) = w) by (apply take_length_le; simpl; lia).
      split; [destruct w; [lia|simpl; discriminate]|]. split; [rewrite Hlen; exact Ht|exact Hb].
Qed.

Lemma raw_decode_all s : raw (decode_all s) = s.
Proof. apply decode_all_f_props. lia. Qed.

Lemma valid_decode_canon s : valid_utf8 s = true -> Forall canon (decode_all s).
Proof.
  unfold valid_utf8. rewrite forallb_forall. intros Hv.
  destruct (decode_all_f_props (length s) s ltac:(lia)) as [_ Hf]. fold (decode_all s) in Hf.
  rewrite List.Forall_forall in Hf |- *. intros x Hin. apply Hf; [exact Hin|].
  specialize (Hv x Hin). apply negb_true_iff in Hv. exact Hv.
Qed.

Lemma canon_ascii_intro c : 0 <= c < 128 -> canon (c, [c]).
Proof.
  intros Hc. unfold canon, bad_rune, decode1. simpl. split; [discriminate|].
  destruct ((0 <=? c) && (c <? 128)) eqn:E; [|lia]. split; [reflexivity|]. unfold RuneError.
  destruct (c =? 65533) eqn:E2; [lia|reflexivity].
Qed.

(* an ASCII rune is read from exactly its own byte; a rune >= 128 from bytes that are all >= 128 *)
Lemma canon_ascii r bs : canon (r, bs) -> r < 128 -> bs = [r].
Proof.
  intros (Hne & Hd & Hb) Hr. simpl in *. unfold bad_rune in Hb. simpl in Hb. revert Hd Hb.
  destruct bs as [|b0 [|b1 [|b2 [|b3 [|b4 bs']]]]]; [congruence|..]; unfold decode1; simpl length;
    split_ifs; intros Hd Hb; inversion Hd; subst; try reflexivity; try (simpl in Hb; discriminate);
    unfold RuneError, cont in *; exfalso; split_hyp_ifs; lia.
Qed.

Lemma canon_multi r bs : canon (r, bs) -> 128 <= r -> Forall (fun b => 128 <= b) bs.
Proof.
  intros (Hne & Hd & Hb) Hr. simpl in *. unfold bad_rune in Hb. simpl in Hb. revert Hd Hb.
  destruct bs as [|b0 [|b1 [|b2 [|b3 [|b4 bs']]]]]; [congruence|..]; unfold decode1; simpl length;
    split_ifs; intros Hd Hb; inversion Hd; subst; try (simpl in Hb; discriminate);
    unfold cont in *; repeat constructor; split_hyp_ifs; lia.
Qed.

(* utf8.AppendRune inverts utf8.DecodeRune on every well-formed rune *)
Lemma encode_decode r bs : canon (r, bs) -> encode_rune r = bs.
Proof.
  intros (Hne & Hd & Hb). simpl in *. unfold bad_rune in Hb. simpl in Hb. revert Hd Hb.
  destruct bs as [|b0 [|b1 [|b2 [|b3 [|b4 bs']]]]]; [congruence|..]; unfold decode1; simpl length;
    split_ifs; intros Hd Hb; inversion Hd; subst; try (simpl in Hb; discriminate);
    unfold encode_rune, cont, RuneError in *; split_hyp_ifs; split_ifs; try (exfalso; lia);
    repeat f_equal; Z.div_mod_to_equations; lia.
Qed.

Lemma raw_app X Y : raw (X ++ Y) = raw X ++ raw Y.
Proof. unfold raw. rewrite map_app, concat_app. reflexivity. Qed.

(* ---------- the printed form of a matcher, as runes ---------- *)
Definition asc (b : Z) : Z * list Z := (b, [b]).
Definition esc_rune (x : Z * list Z) : list (Z * list Z) :=
  if fst x =? 92 then [asc 92; asc 92] else if fst x =? 10 then [asc 92; asc 110]
  else if fst x =? 34 then [asc 92; asc 34] else [x].
Definition mrunes (m : bm) : list (Z * list Z) :=
  decode_all (b_name m) ++ map asc (op_bytes (b_type m)) ++ [asc 34] ++
  flat_map esc_rune (decode_all (b_value m)) ++ [asc 34].

Lemma om_escape_app a b : om_escape (a ++ b) = om_escape a ++ om_escape b.
Proof. unfold om_escape. apply flat_map_app. Qed.

Lemma om_escape_high bs : Forall (fun b => 128 <= b) bs -> om_escape bs = bs.
Proof.
  induction 1 as [|b bs Hb _ IH]; [reflexivity|]. unfold om_escape in *. simpl. rewrite IH.
  destruct (b =? 92) eqn:E1; [lia|]. destruct (b =? 10) eqn:E2; [lia|]. destruct (b =? 34) eqn:E3; [lia|]. reflexivity.
Qed.

Lemma raw_esc V : Forall canon V -> raw (flat_map esc_rune V) = om_escape (raw V).
Proof.
  induction 1 as [|[r bs] V Hc _ IH]; [reflexivity|].
  simpl. rewrite raw_app, IH. unfold raw at 3. simpl. fold (raw V). rewrite om_escape_app. f_equal.
  unfold esc_rune. simpl.
  destruct (r =? 92) eqn:E1. { rewrite (canon_ascii r bs Hc) by lia. assert (r = 92) by lia. subst. reflexivity. }
  destruct (r =? 10) eqn:E2. { rewrite (canon_ascii r bs Hc) by lia. assert (r = 10) by lia. subst. reflexivity. }
  destruct (r =? 34) eqn:E3. { rewrite (canon_ascii r bs Hc) by lia. assert (r = 34) by lia. subst. reflexivity. }
  unfold raw. simpl. rewrite app_nil_r.
  destruct (Z_lt_le_dec r 128) as [Hlt|Hge].
  - rewrite (canon_ascii r bs Hc Hlt). unfold om_escape. simpl. rewrite E1, E2, E3. reflexivity.
  - symmetry. apply om_escape_high. apply (canon_multi r bs Hc Hge).
Qed.

Lemma canon_esc V : Forall canon V -> Forall canon (flat_map esc_rune V).
Proof.
  induction 1 as [|x V Hc _ IH]; [constructor|]. simpl. apply Forall_app. split; [|exact IH].
  unfold esc_rune, asc.
  repeat case_match; repeat (apply List.Forall_cons; [first [exact Hc | apply canon_ascii_intro; lia]|]); apply List.Forall_nil.
Qed.

Lemma canon_ops t : Forall canon (map asc (op_bytes t)).
Proof.
  destruct t; simpl; unfold asc; repeat (apply List.Forall_cons; [apply canon_ascii_intro; lia|]); apply List.Forall_nil.
Qed.

Lemma raw_ops t : raw (map asc (op_bytes t)) = op_bytes t.
Proof. destruct t; reflexivity. Qed.

Section RoundTrip.
  Variable is_space : Z -> bool.
  Variable is_print : Z -> bool.
  Variable compiles : list Z -> bool.

  (* the sub-class of the partial round-trip theorem: non-empty valid-UTF-8 name without reserved runes (printed in
     the OpenMetrics form), valid-UTF-8 value, and a value that compiles when the operator is a regexp one *)
  Definition plain (m : bm) : Prop :=
    b_name m <> [] /\ valid_utf8 (b_name m) = true /\
    existsb (fun x => is_reserved is_space (fst x)) (decode_all (b_name m)) = false /\
    valid_utf8 (b_value m) = true /\ (is_regex (b_type m) = true -> compiles (b_value m) = true).

  Lemma mrunes_canon m : plain m -> Forall canon (mrunes m).
  Proof.
    intros (Hne & Hvn & Hres & Hvv & Hre). unfold mrunes.
    repeat (apply Forall_app; split).
    - apply valid_decode_canon, Hvn.
    - apply canon_ops.
    - apply List.Forall_cons; [apply canon_ascii_intro; lia|apply List.Forall_nil].
    - apply canon_esc, valid_decode_canon, Hvv.
    - apply List.Forall_cons; [apply canon_ascii_intro; lia|apply List.Forall_nil].
  Qed.

  Lemma raw_mrunes m : plain m -> raw (mrunes m) = print_b is_space is_print m.
  Proof.
    intros (Hne & Hvn & Hres & Hvv & Hre). unfold mrunes, print_b. rewrite Hres.
    rewrite !raw_app, raw_decode_all, raw_ops, raw_esc by (apply valid_decode_canon, Hvv).
    rewrite raw_decode_all. reflexivity.
  Qed.

  Lemma decode_print m rest : plain m ->
    decode_all (print_b is_space is_print m ++ rest) = mrunes m ++ decode_all rest.
  Proof. intros Hp. rewrite <- (raw_mrunes m Hp). apply decode_all_raw, mrunes_canon, Hp. Qed.

  Notation scan_go := (scan_go is_space).
  Notation is_reserved := (is_reserved is_space).

  Lemma existsb_false_forallb {A} (g : A -> bool) l :
    existsb g l = false -> forallb (fun x => negb (g x)) l = true.
  Proof. induction l as [|x r IH]; simpl; [reflexivity|]. intros H. apply orb_false_elim in H as [H1 H2]. rewrite H1, IH by exact H2. reflexivity. Qed.

  Lemma takew_dropw_app {A} (f : A -> bool) N rest :
    forallb f N = true -> match rest with [] => True | y :: _ => f y = false end ->
    takew f (N ++ rest) = N /\ dropw f (N ++ rest) = rest.
  Proof.
    intros HN Hr. induction N as [|x N IH].
    - destruct rest as [|y r]; [split; reflexivity|]. unfold takew, dropw. simpl. rewrite Hr. split; reflexivity.
    - simpl in HN. apply andb_true_iff in HN as [Hx HN]. destruct (IH HN) as [IH1 IH2].
      unfold takew, dropw in *. simpl. rewrite Hx. rewrite IH1, IH2. split; reflexivity.
  Qed.

  Lemma scan_name N rest :
    N <> [] -> forallb (fun x => negb (is_reserved (fst x))) N = true ->
    match rest with [] => True | y :: _ => is_reserved (fst y) = true end ->
    scan_go (N ++ rest) = (Ok (mkTok TUnquoted (raw N)), rest).
  Proof.
    intros Hne HN Hr. destruct N as [|x N']; [congruence|].
    pose proof HN as HN0. simpl in HN0. apply andb_true_iff in HN0 as [Hx _].
    apply negb_true_iff in Hx. pose proof Hx as Hx0. unfold MatcherSyntax.is_reserved in Hx0.
    repeat (apply orb_false_elim in Hx0 as [Hx0 ?]).
    destruct (takew_dropw_app (fun x => negb (is_reserved (fst x))) (x :: N') rest HN) as [Ht Hd].
    { destruct rest; [exact I|]. rewrite Hr. reflexivity. }
    change ((x :: N') ++ rest) with (x :: (N' ++ rest)) in *.
    cbn [MatcherSyntax.scan_go].
    repeat match goal with H : (_ =? _) = false |- _ => rewrite H; clear H end.
    simpl orb. cbv iota. rewrite Hx. simpl negb. cbv iota.
    unfold scan_unquoted. rewrite Ht, Hd. reflexivity.
  Qed.

  Definition op_kind (t : mtype) : tkind :=
    match t with MEq => TEquals | MNeq => TNotEquals | MRe => TMatches | MNre => TNotMatches end.

  Lemma scan_op t rest :
    scan_go (map asc (op_bytes t) ++ asc 34 :: rest) = (Ok (mkTok (op_kind t) (op_bytes t)), asc 34 :: rest).
  Proof. destruct t; reflexivity. Qed.

  Lemma quoted_body_esc V rest :
    quoted_body (flat_map esc_rune V ++ asc 34 :: rest) false = Some (flat_map esc_rune V ++ [asc 34], rest).
  Proof.
    induction V as [|x V IH]; [reflexivity|]. simpl. unfold esc_rune at 1 3.
    destruct (fst x =? 92) eqn:E1; [simpl; rewrite IH; reflexivity|].
    destruct (fst x =? 10) eqn:E2; [simpl; rewrite IH; reflexivity|].
    destruct (fst x =? 34) eqn:E3; [simpl; rewrite IH; reflexivity|].
    simpl. rewrite E1, E3, IH. reflexivity.
  Qed.

  Lemma scan_value V rest :
    scan_go (asc 34 :: flat_map esc_rune V ++ asc 34 :: rest)
    = (Ok (mkTok TQuoted (34 :: raw (flat_map esc_rune V) ++ [34])), rest).
  Proof.
    cbn [MatcherSyntax.scan_go]. simpl fst. simpl Z.eqb. simpl orb. cbv iota.
    unfold scan_quoted. simpl fst. simpl Z.eqb. cbv iota.
    rewrite quoted_body_esc. simpl snd. rewrite raw_app. reflexivity.
  Qed.

  Lemma unquote_esc V : Forall canon V -> forall fuel, (length (raw (flat_map esc_rune V)) < fuel)%nat ->
    unquote_body fuel (raw (flat_map esc_rune V) ++ [34]) = Ok (raw V).
  Proof.
    induction 1 as [|[r bs] V Hc HV IH]; intros fuel Hf.
    - destruct fuel; [simpl in Hf; lia|]. reflexivity.
    - simpl flat_map in *. set (EV := flat_map esc_rune V) in *.
      rewrite raw_app in *. rewrite app_length in Hf.
      change (raw ((r, bs) :: V)) with (bs ++ raw V).
      rewrite <- app_assoc. remember (raw EV ++ [34]) as tq eqn:Htq.
      destruct fuel as [|f]; [lia|].
      unfold esc_rune in *. simpl fst in *.
      destruct (r =? 92) eqn:E1.
      { assert (r = 92) by lia. subst r. rewrite (canon_ascii 92 bs Hc) by lia.
        simpl. rewrite IH by (simpl in Hf; lia). reflexivity. }
      destruct (r =? 10) eqn:E2.
      { assert (r = 10) by lia. subst r. rewrite (canon_ascii 10 bs Hc) by lia.
        simpl. rewrite IH by (simpl in Hf; lia). reflexivity. }
      destruct (r =? 34) eqn:E3.
      { assert (r = 34) by lia. subst r. rewrite (canon_ascii 34 bs Hc) by lia.
        simpl. rewrite IH by (simpl in Hf; lia). reflexivity. }
      change (raw [(r, bs)]) with (bs ++ []) in *. rewrite app_nil_r in *.
      destruct (Z_lt_le_dec r 128) as [Hlt|Hge].
      + rewrite (canon_ascii r bs Hc Hlt) in *. simpl app. cbn [unquote_body]. rewrite E3, E2.
        unfold unquote_char. rewrite E3. destruct (128 <=? r) eqn:E4; [lia|]. rewrite E1. simpl negb. cbv iota.
        destruct (r <? 128) eqn:E5; [|lia]. simpl orb. cbv iota.
        rewrite IH by (simpl in Hf; lia). reflexivity.
      + pose proof (canon_multi r bs Hc Hge) as Hhigh. pose proof Hc as (Hne & _ & _). simpl in Hne.
        destruct bs as [|b0 bs']; [congruence|]. apply Forall_cons in Hhigh as [Hb0 _].
        change ((b0 :: bs') ++ tq) with (b0 :: (bs' ++ tq)). cbn [unquote_body].
        destruct (b0 =? 34) eqn:E4; [lia|]. destruct (b0 =? 10) eqn:E5; [lia|].
        unfold unquote_char. rewrite E4. destruct (128 <=? b0) eqn:E6; [|lia].
        change (b0 :: bs' ++ tq) with ((b0 :: bs') ++ tq).
        rewrite (decode1_app r (b0 :: bs') tq Hc). rewrite (drop_app (b0 :: bs') tq).
        destruct (r <? 128) eqn:E7; [lia|]. simpl orb. cbv iota.
        rewrite (encode_decode r (b0 :: bs') Hc).
        rewrite IH by (simpl in Hf; lia). reflexivity.
  Qed.

  Lemma tok_unquote_printed v : valid_utf8 v = true ->
    tok_unquote (mkTok TQuoted (34 :: raw (flat_map esc_rune (decode_all v)) ++ [34])) = Ok v.
  Proof.
    intros Hv. unfold tok_unquote. simpl t_kind. simpl t_value.
    assert (Hg : go_unquote (34 :: raw (flat_map esc_rune (decode_all v)) ++ [34]) = Ok v).
    { unfold go_unquote.
      pose proof (unquote_esc (decode_all v) (valid_decode_canon v Hv)
                    (length (34 :: raw (flat_map esc_rune (decode_all v)) ++ [34]))) as H.
      rewrite raw_decode_all in H.
      destruct (raw (flat_map esc_rune (decode_all v)) ++ [34]) as [|d body] eqn:E.
      { destruct (raw (flat_map esc_rune (decode_all v))); discriminate. }
      apply H. apply (f_equal length) in E. rewrite app_length in E. simpl in *. lia. }
    replace (beq TQuoted TQuoted) with true by reflexivity.
    rewrite Hg. simpl. rewrite Hv. reflexivity.
  Qed.

  (* ----- parser level ----- *)
  Notation expect := (expect is_space).
  Notation expect_peek := (expect_peek is_space).
  Notation pstep := (pstep is_space compiles).
  Notation parse_loop := (parse_loop is_space compiles).

  Lemma parse_loop_irrel f : forall f' st p, (phi st p <= f)%nat -> (phi st p <= f')%nat ->
    parse_loop f st p = parse_loop f' st p.
  Proof.
    induction f as [|f IH]; intros f' st p H1 H2.
    - destruct st; simpl in H1; lia.
    - destruct f' as [|f']; [destruct st; simpl in H2; lia|]. simpl.
      pose proof (pstep_ok is_space compiles st p) as H. destruct (pstep st p) as [[[st'|] p']|e|]; simpl in H; try reflexivity.
      apply IH; lia.
  Qed.

  Lemma expect_scan rs t rs' ks :
    scan_go rs = (Ok t, rs') -> is_eof t = false -> one_of t ks = true ->
    expect (mkLx rs false) ks = (Ok t, mkLx rs' false).
  Proof.
    intros Hs He Ho. unfold MatcherSyntax.expect, MatcherSyntax.expect_peek, MatcherSyntax.peek, MatcherSyntax.scan.
    simpl. rewrite Hs. simpl. rewrite He, Ho. simpl. rewrite Hs. reflexivity.
  Qed.

  Lemma expect_peek_scan rs t rs' ks :
    scan_go rs = (Ok t, rs') -> is_eof t = false -> one_of t ks = true ->
    expect_peek (mkLx rs false) ks = (Ok t, mkLx rs false).
  Proof.
    intros Hs He Ho. unfold MatcherSyntax.expect_peek, MatcherSyntax.peek, MatcherSyntax.scan.
    simpl. rewrite Hs. simpl. rewrite He, Ho. reflexivity.
  Qed.

  Lemma op_reserved t rest : match map asc (op_bytes t) ++ rest with [] => True | y :: _ => is_reserved (fst y) = true end.
  Proof. destruct t; simpl; unfold MatcherSyntax.is_reserved; destruct (is_space _); reflexivity. Qed.

  Lemma mrunes_shape m rest :
    mrunes m ++ rest =
    decode_all (b_name m) ++ (map asc (op_bytes (b_type m)) ++ asc 34 :: (flat_map esc_rune (decode_all (b_value m)) ++ asc 34 :: rest)).
  Proof. unfold mrunes. rewrite <- !app_assoc. reflexivity. Qed.

  Lemma first_token m rest : plain m ->
    scan_go (mrunes m ++ rest) =
    (Ok (mkTok TUnquoted (b_name m)),
     map asc (op_bytes (b_type m)) ++ asc 34 :: (flat_map esc_rune (decode_all (b_value m)) ++ asc 34 :: rest)).
  Proof.
    intros (Hne & Hvn & Hres & Hvv & Hre). rewrite mrunes_shape.
    rewrite scan_name.
    - rewrite raw_decode_all. reflexivity.
    - intros E. apply Hne. rewrite <- (raw_decode_all (b_name m)), E. reflexivity.
    - apply existsb_false_forallb. exact Hres.
    - apply op_reserved.
  Qed.

  Lemma op_kind_one_of t v : one_of (mkTok (op_kind t) v) [TEquals; TNotEquals; TMatches; TNotMatches] = true.
  Proof. destruct t; reflexivity. Qed.

  Lemma matcher_step m acc opn rest : plain m ->
    parse_matcher_step is_space compiles (mkP acc opn (mkLx (mrunes m ++ rest) false))
    = Ok (Some SEndOfMatcher, mkP (acc ++ [m]) opn (mkLx rest false)).
  Proof.
    intros Hp. pose proof Hp as (Hne & Hvn & Hres & Hvv & Hre).
    unfold parse_matcher_step. simpl p_lx.
    rewrite (expect_scan _ _ _ _ (first_token m rest Hp)) by reflexivity.
    unfold tok_unquote at 1. simpl t_kind. replace (beq TUnquoted TQuoted) with false by reflexivity. simpl t_value.
    rewrite (expect_scan _ _ _ _ (scan_op (b_type m) _)); [|destruct (b_type m); reflexivity|apply op_kind_one_of].
    rewrite (expect_scan _ _ _ _ (scan_value (decode_all (b_value m)) rest)) by reflexivity.
    rewrite tok_unquote_printed by exact Hvv.
    assert (Hnm : new_matcher compiles (b_type m) (b_name m) (b_value m) = Ok m).
    { unfold new_matcher. destruct (is_regex (b_type m)) eqn:Er; [rewrite (Hre eq_refl)|]; destruct m; reflexivity. }
    destruct (b_type m) eqn:Et; simpl t_kind; cbv iota; rewrite Hnm; reflexivity.
  Qed.

  Definition closer (opn : bool) : list (Z * list Z) := if opn then [asc 125] else [].

  Lemma parse_loop_S f st p :
    parse_loop (S f) st p =
    match pstep st p with
    | Ok (None, p') => Ok (p_ms p')
    | Ok (Some st', p') => parse_loop f st' p'
    | Err e => Err e
    | Panic => Panic
    end.
  Proof. reflexivity. Qed.

  Lemma step_end_comma acc opn X :
    pstep SEndOfMatcher (mkP acc opn (mkLx (asc 44 :: X) false)) = Ok (Some SComma, mkP acc opn (mkLx (asc 44 :: X) false)).
  Proof. reflexivity. Qed.

  (* after the last matcher: close brace (if one was opened) and end of input *)
  Lemma tail_steps acc opn f :
    parse_loop (S (S (S f))) SEndOfMatcher (mkP acc opn (mkLx (closer opn) false)) = Ok acc.
  Proof. destruct opn; reflexivity. Qed.

  Lemma accept_peek_scan rs t rs' ks :
    scan_go rs = (Ok t, rs') -> is_eof t = false ->
    accept_peek is_space (mkLx rs false) ks = (Ok (one_of t ks), mkLx rs false).
  Proof.
    intros Hs He. unfold accept_peek, MatcherSyntax.peek, MatcherSyntax.scan. simpl. rewrite Hs. simpl. rewrite He. reflexivity.
  Qed.

  Lemma phi_open s :
    (phi SOpenBrace (mkP [] false (mkLx (decode_all s) false)) <= length s + 6)%nat.
  Proof. unfold phi, lxlen. simpl. pose proof (decode_all_f_length (length s) s). unfold decode_all. lia. Qed.

End RoundTrip.

Lemma fine_iff {A} (r : res A) : fine r <-> r <> Panic /\ r <> Err "fuel".
Proof.
  destruct r; simpl.
  - split; [intros _; split; discriminate|tauto].
  - split; [intros H; split; [discriminate|congruence]|intros [_ H] E; subst; congruence].
  - split; [tauto|intros [H _]; congruence].
Qed.

(* fallback mode on a printed text: the UTF-8 result stands unless the classic parser accepts the text with a
   different result *)
Lemma fallback_roundtrip_cond {A} `{EqDecision A} (c : res A) (v : A) :
  c <> Panic -> (forall cv, c = Ok cv -> cv = v) -> fallback (Ok v) c = Ok v.
Proof.
  intros Hp Hc. destruct c as [cv|e|]; [|reflexivity|congruence].
  rewrite (Hc cv eq_refl). apply fallback_both_accept.
Qed.

Lemma classic_matchers_no_panic is_space compiles s : classic_matchers is_space compiles s <> Panic.
Proof. pose proof (classic_matchers_fine is_space compiles s) as H. intros E. rewrite E in H. exact H. Qed.

(* ---------- classic parser on the printed form of a matcher whose name is a classic label name ---------- *)
Definition cname (n : list Z) : bool := match n with c :: r => name_start c && forallb name_char r | [] => false end.

Lemma name_char_not_space c : name_char c = true -> re_space c = false.
Proof. unfold name_char, name_start, re_space. intros H. lia. Qed.

Lemma valid_raw X : Forall canon X -> valid_utf8 (raw X) = true.
Proof.
  intros HX. unfold valid_utf8. pose proof (decode_all_raw X [] HX) as H. rewrite app_nil_r in H.
  change (decode_all []) with (@nil (Z * list Z)) in H. rewrite app_nil_r in H. rewrite H.
  apply forallb_forall. intros x Hin. rewrite List.Forall_forall in HX. destruct (HX x Hin) as (_ & _ & Hb). rewrite Hb. reflexivity.
Qed.

Lemma rtrim_last X : rtrim_ws (X ++ [34]) = X ++ [34].
Proof. unfold rtrim_ws. rewrite rev_app_distr. simpl. unfold dropw. simpl. rewrite rev_involutive. reflexivity. Qed.

Lemma classic_unescape_esc V : Forall canon V ->
  classic_unescape (flat_map esc_rune V ++ [asc 34]) false true = Ok (raw V).
Proof.
  induction 1 as [|[r bs] V Hc HV IH]; [reflexivity|].
  simpl flat_map. change (raw ((r, bs) :: V)) with (bs ++ raw V). unfold esc_rune at 1. simpl fst.
  destruct (r =? 92) eqn:E1.
  { assert (r = 92) by lia. subst r. rewrite (canon_ascii 92 bs Hc) by lia.
    simpl app. cbn [classic_unescape]. simpl. rewrite IH. reflexivity. }
  destruct (r =? 10) eqn:E2.
  { assert (r = 10) by lia. subst r. rewrite (canon_ascii 10 bs Hc) by lia.
    simpl app. cbn [classic_unescape]. simpl. rewrite IH. reflexivity. }
  destruct (r =? 34) eqn:E3.
  { assert (r = 34) by lia. subst r. rewrite (canon_ascii 34 bs Hc) by lia.
    simpl app. cbn [classic_unescape]. simpl. rewrite IH. reflexivity. }
  simpl app. cbn [classic_unescape]. simpl fst. rewrite E1, E3. rewrite IH. simpl. rewrite (encode_decode r bs Hc). reflexivity.
Qed.

Lemma dropw_head_false {A} (f : A -> bool) x l : f x = false -> dropw f (x :: l) = x :: l.
Proof. intros H. unfold dropw. rewrite H. reflexivity. Qed.

Lemma op_head t rest : exists c tl, op_bytes t ++ rest = c :: tl /\ name_char c = false /\ re_space c = false.
Proof. destruct t; simpl; eexists _, _; repeat split; reflexivity. Qed.

Lemma classic_split_printed n t body :
  cname n = true ->
  classic_split (n ++ op_bytes t ++ 34 :: body ++ [34]) = Some (n, t, 34 :: body ++ [34]).
Proof.
  intros Hn. destruct n as [|c n']; [discriminate|]. simpl in Hn. apply andb_true_iff in Hn as [Hc Hn'].
  assert (Hcc : name_char c = true) by (unfold name_char; rewrite Hc; reflexivity).
  unfold classic_split.
  change ((c :: n') ++ op_bytes t ++ 34 :: body ++ [34]) with (c :: (n' ++ op_bytes t ++ 34 :: body ++ [34])).
  rewrite (dropw_head_false re_space c _ (name_char_not_space c Hcc)). rewrite Hc.
  destruct (op_head t (34 :: body ++ [34])) as (oc & otl & Ho & Hon & Hos).
  assert (Hall : forallb name_char (c :: n') = true) by (simpl; rewrite Hcc, Hn'; reflexivity).
  change (c :: (n' ++ op_bytes t ++ 34 :: body ++ [34])) with ((c :: n') ++ (op_bytes t ++ 34 :: body ++ [34])).
  destruct (takew_dropw_app name_char (c :: n') (op_bytes t ++ 34 :: body ++ [34]) Hall) as [Ht Hd].
  { rewrite Ho. exact Hon. }
  rewrite Ht, Hd. rewrite Ho. rewrite (dropw_head_false re_space oc otl Hos).
  assert (Hv : rtrim_ws (dropw re_space (34 :: body ++ [34])) = 34 :: body ++ [34]).
  { rewrite dropw_head_false by reflexivity. apply (rtrim_last (34 :: body)). }
  destruct t; simpl in Ho; injection Ho as <- <-; cbv iota; rewrite ?Hv; try reflexivity.
Qed.

Section ClassicRT.
  Variable is_space : Z -> bool.
  Variable is_print : Z -> bool.
  Variable compiles : list Z -> bool.

  Lemma classic_roundtrip_single m :
    plain is_space compiles m -> cname (b_name m) = true ->
    classic_matcher compiles (print_b is_space is_print m) = Ok m.
  Proof.
    intros Hp Hn. pose proof Hp as (Hne & Hvn & Hres & Hvv & Hre).
    unfold print_b. rewrite Hres. unfold classic_matcher.
    change ([34] ++ om_escape (b_value m) ++ [34]) with (34 :: om_escape (b_value m) ++ [34]).
    rewrite classic_split_printed by exact Hn.
    pose proof (valid_decode_canon _ Hvv) as HV.
    assert (Hesc : om_escape (b_value m) = raw (flat_map esc_rune (decode_all (b_value m)))).
    { rewrite raw_esc by exact HV. rewrite raw_decode_all. reflexivity. }
    rewrite Hesc.
    assert (HE : Forall canon (flat_map esc_rune (decode_all (b_value m)) ++ [asc 34])).
    { apply Forall_app. split; [apply canon_esc, HV|]. apply List.Forall_cons; [apply canon_ascii_intro; lia|apply List.Forall_nil]. }
    assert (Hraw : raw (flat_map esc_rune (decode_all (b_value m))) ++ [34]
                   = raw (flat_map esc_rune (decode_all (b_value m)) ++ [asc 34])) by (rewrite raw_app; reflexivity).
    rewrite Hraw. rewrite (valid_raw _ HE). simpl negb. cbv iota.
    pose proof (decode_all_raw _ [] HE) as Hd. rewrite app_nil_r in Hd.
    change (decode_all []) with (@nil (Z * list Z)) in Hd. rewrite app_nil_r in Hd. rewrite Hd.
    rewrite classic_unescape_esc by exact HV. rewrite raw_decode_all. simpl res_bind.
    unfold new_matcher. destruct (is_regex (b_type m)) eqn:Er; [rewrite (Hre eq_refl)|]; destruct m; reflexivity.
  Qed.
End ClassicRT.

(* ---------- strconv.Quote / Unquote ---------- *)
Definition hexok (b : Z) : Prop := (48 <= b <= 57) \/ (97 <= b <= 102).

Lemma hexd_ok d : 0 <= d < 16 -> hexok (hexd d).
Proof. unfold hexok, hexd. intros H. destruct (d <? 10) eqn:E; lia. Qed.

Lemma unhex_hexd d : 0 <= d < 16 -> unhex (hexd d) = Some d.
Proof.
  intros H. unfold unhex, hexd. destruct (d <? 10) eqn:E.
  - destruct ((48 <=? 48 + d) && (48 + d <=? 57)) eqn:E1; [f_equal; lia|lia].
  - destruct ((48 <=? 87 + d) && (87 + d <=? 57)) eqn:E1; [lia|].
    destruct ((97 <=? 87 + d) && (87 + d <=? 102)) eqn:E2; [f_equal; lia|lia].
Qed.

Lemma mod16 x : 0 <= x mod 16 < 16.
Proof. apply Z.mod_pos_bound. lia. Qed.

Lemma canon_valid r bs : canon (r, bs) -> valid_rune r = true /\ 0 <= r.
Proof.
  intros (Hne & Hd & Hb). simpl in *. unfold bad_rune in Hb. simpl in Hb. revert Hd Hb.
  destruct bs as [|b0 [|b1 [|b2 [|b3 [|b4 bs']]]]]; [congruence|..]; unfold decode1; simpl length;
    split_ifs; intros Hd Hb; inversion Hd; subst; try (simpl in Hb; discriminate);
    unfold valid_rune, cont, RuneError in *; split_hyp_ifs; lia.
Qed.

Lemma unhex_n_2 r tq : 0 <= r < 256 ->
  unhex_n 2 (hexd (r / 16 mod 16) :: hexd (r mod 16) :: tq) 0 = Some (r, tq).
Proof.
  intros H. simpl. rewrite !unhex_hexd by apply mod16. f_equal. f_equal. Z.div_mod_to_equations. lia.
Qed.

Lemma unhex_n_4 r tq : 0 <= r < 65536 ->
  unhex_n 4 (hexd (r / 4096 mod 16) :: hexd (r / 256 mod 16) :: hexd (r / 16 mod 16) :: hexd (r mod 16) :: tq) 0
  = Some (r, tq).
Proof.
  intros H. simpl. rewrite !unhex_hexd by apply mod16. f_equal. f_equal. Z.div_mod_to_equations. lia.
Qed.

Lemma unhex_n_8 r tq : 0 <= r < 4294967296 ->
  unhex_n 8 (hexd (r / 268435456 mod 16) :: hexd (r / 16777216 mod 16) :: hexd (r / 1048576 mod 16) ::
             hexd (r / 65536 mod 16) :: hexd (r / 4096 mod 16) :: hexd (r / 256 mod 16) :: hexd (r / 16 mod 16) ::
             hexd (r mod 16) :: tq) 0 = Some (r, tq).
Proof.
  intros H. simpl. rewrite !unhex_hexd by apply mod16. f_equal. f_equal. Z.div_mod_to_equations. lia.
Qed.

Section Quote.
  Variable is_print : Z -> bool.
  (* the runes of what Quote emits for one well-formed rune *)
  Definition qrunes (x : Z * list Z) : list (Z * list Z) :=
    if (fst x =? 34) || (fst x =? 92) then [asc 92; asc (fst x)]
    else if is_print (fst x) then [x] else map asc (quote_rune is_print (fst x)).

  Lemma raw_map_asc l : raw (map asc l) = l.
  Proof. induction l as [|b l IH]; [reflexivity|]. unfold raw in *. simpl. rewrite IH. reflexivity. Qed.

  (* the escape sequences Quote emits: a backslash, a letter, then hex digits *)
  Lemma quote_rune_shape r : 0 <= r -> ((r =? 34) || (r =? 92)) = false -> is_print r = false ->
    exists c l, quote_rune is_print r = 92 :: c :: l /\ 44 < c < 128 /\ Forall hexok l.
  Proof.
    intros Hr E0 Ep. unfold quote_rune. rewrite E0, Ep.
    repeat match goal with |- context [if ?b then _ else _] => destruct b end;
      eexists _, _; (split; [reflexivity|]); (split; [lia|]);
      repeat (apply List.Forall_cons; [apply hexd_ok, mod16|]); apply List.Forall_nil.
  Qed.

  Lemma hexok_ascii l : Forall hexok l -> Forall (fun b => 0 <= b < 128) l.
  Proof. intros H. eapply Forall_impl; [exact H|]. unfold hexok. intros; simpl in *; lia. Qed.

  Lemma canon_map_asc l : Forall (fun b => 0 <= b < 128) l -> Forall canon (map asc l).
  Proof. induction 1; simpl; constructor; [apply canon_ascii_intro; assumption|assumption]. Qed.

  Lemma raw_qrunes x : canon x -> raw (qrunes x) = quote_rune is_print (fst x).
  Proof.
    destruct x as [r bs]. intros Hc. unfold qrunes. simpl fst.
    destruct ((r =? 34) || (r =? 92)) eqn:E0.
    { unfold quote_rune. rewrite E0. reflexivity. }
    destruct (is_print r) eqn:Ep.
    { unfold quote_rune. rewrite E0, Ep. rewrite (encode_decode r bs Hc). unfold raw. simpl. apply app_nil_r. }
    apply raw_map_asc.
  Qed.

  Lemma canon_qrunes x : canon x -> Forall canon (qrunes x).
  Proof.
    destruct x as [r bs]. intros Hc. destruct (canon_valid r bs Hc) as [_ Hr0]. unfold qrunes. simpl fst.
    destruct ((r =? 34) || (r =? 92)) eqn:E0.
    { unfold asc. apply List.Forall_cons; [apply canon_ascii_intro; lia|].
      apply List.Forall_cons; [apply canon_ascii_intro; lia|apply List.Forall_nil]. }
    destruct (is_print r) eqn:Ep; [apply List.Forall_cons; [exact Hc|apply List.Forall_nil]|].
    destruct (quote_rune_shape r Hr0 E0 Ep) as (c & l & -> & Hc' & Hl).
    apply canon_map_asc. apply List.Forall_cons; [lia|]. apply List.Forall_cons; [lia|apply hexok_ascii, Hl].
  Qed.

  Lemma canon_flat_qrunes V : Forall canon V -> Forall canon (flat_map qrunes V).
  Proof. induction 1 as [|x V Hc _ IH]; [constructor|]. simpl. apply Forall_app. split; [apply canon_qrunes, Hc|exact IH]. Qed.

  (* go_quote on valid UTF-8, as runes *)
  Lemma go_quote_raw s : valid_utf8 s = true ->
    go_quote is_print s = 34 :: raw (flat_map qrunes (decode_all s)) ++ [34].
  Proof.
    intros Hv. unfold go_quote. f_equal. f_equal.
    pose proof (valid_decode_canon s Hv) as HV. induction HV as [|x V Hc _ IH]; [reflexivity|].
    simpl. rewrite raw_app, IH, (raw_qrunes x Hc). f_equal.
    destruct Hc as (_ & _ & Hb). rewrite Hb. reflexivity.
  Qed.

  (* the lexer's quoted-string scan runs over a Quote body up to the closing quote *)
  Lemma quoted_body_plain l R : Forall hexok l ->
    quoted_body (map asc l ++ R) false = option_map (fun ab => (map asc l ++ fst ab, snd ab)) (quoted_body R false).
  Proof.
    induction 1 as [|b l Hb _ IH]; simpl.
    - destruct (quoted_body R false) as [[a b]|]; reflexivity.
    - destruct (b =? 92) eqn:E1; [unfold hexok in Hb; lia|]. destruct (b =? 34) eqn:E2; [unfold hexok in Hb; lia|].
      rewrite IH. destruct (quoted_body R false) as [[a c]|]; reflexivity.
  Qed.

  Lemma quoted_body_qrunes x R : canon x ->
    quoted_body (qrunes x ++ R) false = option_map (fun ab => (qrunes x ++ fst ab, snd ab)) (quoted_body R false).
  Proof.
    destruct x as [r bs]. intros Hc. destruct (canon_valid r bs Hc) as [_ Hr0]. unfold qrunes. simpl fst.
    destruct ((r =? 34) || (r =? 92)) eqn:E0.
    { simpl. destruct (quoted_body R false) as [[a c]|]; reflexivity. }
    destruct (is_print r) eqn:Ep.
    { apply orb_false_elim in E0 as [E34 E92]. simpl. rewrite E92, E34. destruct (quoted_body R false) as [[a c]|]; reflexivity. }
    destruct (quote_rune_shape r Hr0 E0 Ep) as (c & l & -> & Hc' & Hl).
    change (map asc (92 :: c :: l) ++ R) with (asc 92 :: asc c :: (map asc l ++ R)).
    simpl. rewrite quoted_body_plain by exact Hl. destruct (quoted_body R false) as [[a d]|]; reflexivity.
  Qed.

  Lemma quoted_body_quote V rest : Forall canon V ->
    quoted_body (flat_map qrunes V ++ asc 34 :: rest) false = Some (flat_map qrunes V ++ [asc 34], rest).
  Proof.
    induction 1 as [|x V Hc _ IH]; [reflexivity|]. simpl. rewrite <- app_assoc.
    rewrite quoted_body_qrunes by exact Hc. rewrite IH. simpl. rewrite <- app_assoc. reflexivity.
  Qed.

  Hypothesis print_lf : is_print 10 = false.

  Lemma unquote_step r bs tq f : canon (r, bs) ->
    unquote_body (S f) (quote_rune is_print r ++ tq) = res_map (app bs) (unquote_body f tq).
  Proof.
    intros Hc. destruct (canon_valid r bs Hc) as [Hv Hr0].
    assert (Hasc : r < 128 -> bs = [r]) by (apply canon_ascii; exact Hc).
    unfold quote_rune.
    destruct ((r =? 34) || (r =? 92)) eqn:E0.
    { rewrite Hasc by lia. destruct (r =? 34) eqn:E; [assert (r = 34) by lia|assert (r = 92) by lia]; subst r; reflexivity. }
    apply orb_false_elim in E0 as [E34 E92].
    destruct (is_print r) eqn:Ep.
    { rewrite (encode_decode r bs Hc).
      assert (E10 : (r =? 10) = false). { destruct (r =? 10) eqn:E; [|reflexivity]. assert (r = 10) by lia. subst. congruence. }
      destruct (Z_lt_le_dec r 128) as [Hlt|Hge].
      - rewrite (Hasc Hlt). simpl app. cbn [unquote_body]. rewrite E34, E10.
        unfold unquote_char. rewrite E34. destruct (128 <=? r) eqn:E4; [lia|]. rewrite E92. simpl negb. cbv iota.
        destruct (r <? 128) eqn:E5; [|lia]. reflexivity.
      - pose proof (canon_multi r bs Hc Hge) as Hhigh. pose proof Hc as (Hne & _ & _). simpl in Hne.
        destruct bs as [|b0 bs']; [congruence|]. apply Forall_cons in Hhigh as [Hb0 _].
        change ((b0 :: bs') ++ tq) with (b0 :: (bs' ++ tq)). cbn [unquote_body].
        destruct (b0 =? 34) eqn:E4; [lia|]. destruct (b0 =? 10) eqn:E5; [lia|].
        unfold unquote_char. rewrite E4. destruct (128 <=? b0) eqn:E6; [|lia].
        change (b0 :: bs' ++ tq) with ((b0 :: bs') ++ tq).
        rewrite (decode1_app r (b0 :: bs') tq Hc). rewrite (drop_app (b0 :: bs') tq).
        destruct (r <? 128) eqn:E7; [lia|]. simpl orb. cbv iota.
        rewrite (encode_decode r (b0 :: bs') Hc). reflexivity. }
    destruct (r =? 7) eqn:E7. { rewrite Hasc by lia. assert (r = 7) by lia. subst. reflexivity. }
    destruct (r =? 8) eqn:E8. { rewrite Hasc by lia. assert (r = 8) by lia. subst. reflexivity. }
    destruct (r =? 12) eqn:E12. { rewrite Hasc by lia. assert (r = 12) by lia. subst. reflexivity. }
    destruct (r =? 10) eqn:E10. { rewrite Hasc by lia. assert (r = 10) by lia. subst. reflexivity. }
    destruct (r =? 13) eqn:E13. { rewrite Hasc by lia. assert (r = 13) by lia. subst. reflexivity. }
    destruct (r =? 9) eqn:E9. { rewrite Hasc by lia. assert (r = 9) by lia. subst. reflexivity. }
    destruct (r =? 11) eqn:E11. { rewrite Hasc by lia. assert (r = 11) by lia. subst. reflexivity. }
    destruct ((r <? 32) || (r =? 127)) eqn:Ex.
    { rewrite Hasc by lia.
      change ([92; 120; hexd (r / 16 mod 16); hexd (r mod 16)] ++ tq)
        with (92 :: 120 :: hexd (r / 16 mod 16) :: hexd (r mod 16) :: tq).
      cbn [unquote_body]. change (92 =? 34) with false. change (92 =? 10) with false. cbv iota.
      assert (Hu : unquote_char (92 :: 120 :: hexd (r / 16 mod 16) :: hexd (r mod 16) :: tq) = Some (r, false, tq)).
      { unfold unquote_char. change (92 =? 34) with false. change (128 <=? 92) with false. change (negb (92 =? 92)) with false.
        cbv iota. change (120 =? 97) with false. change (120 =? 98) with false. change (120 =? 102) with false.
        change (120 =? 110) with false. change (120 =? 114) with false. change (120 =? 116) with false.
        change (120 =? 118) with false. change (120 =? 120) with true. cbv iota.
        rewrite unhex_n_2 by lia. reflexivity. }
      rewrite Hu. destruct (r <? 128) eqn:E; [|lia]. reflexivity. }
    rewrite Hv.
    destruct (r <? 65536) eqn:E16.
    { change ([92; 117; hexd (r / 4096 mod 16); hexd (r / 256 mod 16); hexd (r / 16 mod 16); hexd (r mod 16)] ++ tq)
        with (92 :: 117 :: hexd (r / 4096 mod 16) :: hexd (r / 256 mod 16) :: hexd (r / 16 mod 16) :: hexd (r mod 16) :: tq).
      cbn [unquote_body]. change (92 =? 34) with false. change (92 =? 10) with false. cbv iota.
      assert (Hu : unquote_char (92 :: 117 :: hexd (r / 4096 mod 16) :: hexd (r / 256 mod 16) :: hexd (r / 16 mod 16) :: hexd (r mod 16) :: tq)
                   = Some (r, true, tq)).
      { unfold unquote_char. change (92 =? 34) with false. change (128 <=? 92) with false. change (negb (92 =? 92)) with false.
        cbv iota. change (117 =? 97) with false. change (117 =? 98) with false. change (117 =? 102) with false.
        change (117 =? 110) with false. change (117 =? 114) with false. change (117 =? 116) with false.
        change (117 =? 118) with false. change (117 =? 120) with false. change (117 =? 117) with true. cbv iota.
        rewrite unhex_n_4 by lia. rewrite Hv. reflexivity. }
      rewrite Hu. destruct (r <? 128) eqn:E.
      - rewrite Hasc by lia. reflexivity.
      - simpl orb. cbv iota. rewrite (encode_decode r bs Hc). reflexivity. }
    { assert (Hmax : r <= 1114111) by (unfold valid_rune in Hv; lia).
      match goal with |- unquote_body _ (?l ++ tq) = _ =>
        change (l ++ tq) with (92 :: 85 :: hexd (r / 268435456 mod 16) :: hexd (r / 16777216 mod 16) :: hexd (r / 1048576 mod 16) ::
            hexd (r / 65536 mod 16) :: hexd (r / 4096 mod 16) :: hexd (r / 256 mod 16) :: hexd (r / 16 mod 16) :: hexd (r mod 16) :: tq) end.
      cbn [unquote_body]. change (92 =? 34) with false. change (92 =? 10) with false. cbv iota.
      match goal with |- context [unquote_char ?l] =>
        assert (Hu : unquote_char l = Some (r, true, tq)) end.
      { unfold unquote_char. change (92 =? 34) with false. change (128 <=? 92) with false. change (negb (92 =? 92)) with false.
        cbv iota. change (85 =? 97) with false. change (85 =? 98) with false. change (85 =? 102) with false.
        change (85 =? 110) with false. change (85 =? 114) with false. change (85 =? 116) with false.
        change (85 =? 118) with false. change (85 =? 120) with false. change (85 =? 117) with false.
        change (85 =? 85) with true. cbv iota.
        rewrite unhex_n_8 by lia. rewrite Hv. reflexivity. }
      rewrite Hu. destruct (r <? 128) eqn:E; [lia|]. simpl orb. cbv iota. rewrite (encode_decode r bs Hc). reflexivity. }
  Qed.

  (* Unquote inverts Quote on valid UTF-8 *)
  Lemma unquote_quote_body V : Forall canon V -> forall fuel, (length (raw (flat_map qrunes V)) < fuel)%nat ->
    unquote_body fuel (raw (flat_map qrunes V) ++ [34]) = Ok (raw V).
  Proof.
    induction 1 as [|[r bs] V Hc _ IH]; intros fuel Hf.
    - destruct fuel; [simpl in Hf; lia|]. reflexivity.
    - simpl flat_map in *. rewrite raw_app in *. rewrite app_length in Hf.
      rewrite (raw_qrunes _ Hc) in *. simpl fst in *.
      assert (Hlen : (1 <= length (quote_rune is_print r))%nat).
      { unfold quote_rune. pose proof Hc as (Hne & _ & _). simpl in Hne.
        repeat match goal with |- context [if ?b then _ else _] => destruct b end; simpl; try lia.
        rewrite (encode_decode r bs Hc). destruct bs; [congruence|simpl; lia]. }
      destruct fuel as [|f]; [lia|]. rewrite <- app_assoc.
      rewrite (unquote_step r bs _ f Hc). rewrite IH by lia. reflexivity.
  Qed.

  Lemma go_unquote_quote s : valid_utf8 s = true -> go_unquote (go_quote is_print s) = Ok s.
  Proof.
    intros Hv. rewrite go_quote_raw by exact Hv. unfold go_unquote.
    pose proof (unquote_quote_body (decode_all s) (valid_decode_canon s Hv)
                  (length (34 :: raw (flat_map qrunes (decode_all s)) ++ [34]))) as H.
    rewrite raw_decode_all in H.
    destruct (raw (flat_map qrunes (decode_all s)) ++ [34]) as [|d body] eqn:E.
    { destruct (raw (flat_map qrunes (decode_all s))); discriminate. }
    apply H. apply (f_equal length) in E. rewrite app_length in E. simpl in *. lia.
  Qed.
End Quote.

(* ---------- the printed form of ANY printable matcher, as runes; the parser on it ---------- *)
Section General.
  Variable is_space : Z -> bool.
  Variable is_print : Z -> bool.
  Variable compiles : list Z -> bool.
  Hypothesis print_lf : is_print 10 = false.
  Notation qr := (qrunes is_print).
  Notation scan_go := (scan_go is_space).
  Notation pstep := (pstep is_space compiles).
  Notation parse_loop := (parse_loop is_space compiles).

  Definition name_reserved (m : bm) : bool :=
    existsb (fun x => is_reserved is_space (fst x)) (decode_all (b_name m)).
  (* the matchers the round-trip clause speaks about (DESIGN I6) *)
  Definition dom (m : bm) : Prop :=
    b_name m <> [] /\ valid_utf8 (b_name m) = true /\ valid_utf8 (b_value m) = true /\
    (is_regex (b_type m) = true -> compiles (b_value m) = true).
  Definition qmrunes (m : bm) : list (Z * list Z) :=
    asc 34 :: flat_map qr (decode_all (b_name m)) ++ asc 34 :: map asc (op_bytes (b_type m)) ++
    asc 34 :: flat_map qr (decode_all (b_value m)) ++ [asc 34].
  Definition grunes (m : bm) : list (Z * list Z) := if name_reserved m then qmrunes m else mrunes m.

  Lemma dom_plain m : dom m -> name_reserved m = false -> plain is_space compiles m.
  Proof. intros (H1 & H2 & H3 & H4) Hr. repeat split; assumption. Qed.

  Lemma canon_q : canon (asc 34).
  Proof. apply canon_ascii_intro. lia. Qed.

  Lemma qmrunes_canon m : dom m -> Forall canon (qmrunes m).
  Proof.
    intros (Hne & Hvn & Hvv & Hre). unfold qmrunes.
    apply List.Forall_cons; [apply canon_q|]. apply Forall_app. split; [apply canon_flat_qrunes, valid_decode_canon, Hvn|].
    apply List.Forall_cons; [apply canon_q|]. apply Forall_app. split; [apply canon_ops|].
    apply List.Forall_cons; [apply canon_q|]. apply Forall_app. split; [apply canon_flat_qrunes, valid_decode_canon, Hvv|].
    apply List.Forall_cons; [apply canon_q|apply List.Forall_nil].
  Qed.

  Lemma raw_cons_asc b X : raw (asc b :: X) = b :: raw X.
  Proof. reflexivity. Qed.

  Lemma raw_qmrunes m : dom m -> name_reserved m = true -> raw (qmrunes m) = print_b is_space is_print m.
  Proof.
    intros (Hne & Hvn & Hvv & Hre) Hr. unfold print_b. unfold name_reserved in Hr. rewrite Hr.
    rewrite !go_quote_raw by assumption. unfold qmrunes.
    rewrite raw_cons_asc, raw_app, raw_cons_asc, raw_app, raw_ops, raw_cons_asc, raw_app.
    simpl. rewrite <- !app_assoc. reflexivity.
  Qed.

  Lemma g_decode_print m rest : dom m ->
    decode_all (print_b is_space is_print m ++ rest) = grunes m ++ decode_all rest.
  Proof.
    intros Hd. unfold grunes. destruct (name_reserved m) eqn:Hr.
    - rewrite <- (raw_qmrunes m Hd Hr). apply decode_all_raw, qmrunes_canon, Hd.
    - apply (decode_print is_space is_print compiles). apply dom_plain; assumption.
  Qed.

  Lemma scan_quoted_tok B rest :
    quoted_body (B ++ asc 34 :: rest) false = Some (B ++ [asc 34], rest) ->
    scan_go (asc 34 :: B ++ asc 34 :: rest) = (Ok (mkTok TQuoted (34 :: raw B ++ [34])), rest).
  Proof.
    intros H. cbn [MatcherSyntax.scan_go]. simpl fst. simpl Z.eqb. simpl orb. cbv iota.
    unfold scan_quoted. simpl fst. simpl Z.eqb. cbv iota.
    rewrite H. simpl snd. rewrite raw_app. reflexivity.
  Qed.

  Lemma scan_go_quote s rest : valid_utf8 s = true ->
    scan_go (asc 34 :: flat_map qr (decode_all s) ++ asc 34 :: rest) = (Ok (mkTok TQuoted (go_quote is_print s)), rest).
  Proof.
    intros Hv. rewrite scan_quoted_tok by (apply quoted_body_quote, valid_decode_canon, Hv).
    rewrite go_quote_raw by exact Hv. reflexivity.
  Qed.

  Lemma tok_unquote_quote s : valid_utf8 s = true -> tok_unquote (mkTok TQuoted (go_quote is_print s)) = Ok s.
  Proof.
    intros Hv. unfold tok_unquote. simpl t_kind. simpl t_value.
    replace (beq TQuoted TQuoted) with true by reflexivity.
    rewrite go_unquote_quote by assumption. simpl. rewrite Hv. reflexivity.
  Qed.

  Lemma qmrunes_shape m rest :
    qmrunes m ++ rest =
    asc 34 :: flat_map qr (decode_all (b_name m)) ++ asc 34 ::
      (map asc (op_bytes (b_type m)) ++ asc 34 :: (flat_map qr (decode_all (b_value m)) ++ asc 34 :: rest)).
  Proof. unfold qmrunes. simpl. rewrite <- !app_assoc. simpl. rewrite <- !app_assoc. simpl. rewrite <- !app_assoc. reflexivity. Qed.

  (* the first token of a printed matcher is its name, bare or quoted *)
  Lemma g_first_token m rest : dom m ->
    exists t r1, scan_go (grunes m ++ rest) = (Ok t, r1) /\ (t_kind t = TUnquoted \/ t_kind t = TQuoted).
  Proof.
    intros Hd. unfold grunes. destruct (name_reserved m) eqn:Hr.
    - destruct Hd as (Hne & Hvn & Hvv & Hre). rewrite qmrunes_shape.
      eexists _, _. split; [apply scan_go_quote, Hvn|]. right. reflexivity.
    - eexists _, _. split; [apply (first_token is_space compiles), dom_plain; assumption|]. left. reflexivity.
  Qed.

  Lemma g_matcher_step m acc opn rest : dom m ->
    parse_matcher_step is_space compiles (mkP acc opn (mkLx (grunes m ++ rest) false))
    = Ok (Some SEndOfMatcher, mkP (acc ++ [m]) opn (mkLx rest false)).
  Proof.
    intros Hd. unfold grunes. destruct (name_reserved m) eqn:Hr; [|apply matcher_step, dom_plain; assumption].
    pose proof Hd as (Hne & Hvn & Hvv & Hre).
    rewrite qmrunes_shape. unfold parse_matcher_step. cbn [p_lx].
    rewrite (expect_scan _ _ _ _ _ (scan_go_quote (b_name m) _ Hvn)) by reflexivity.
    rewrite tok_unquote_quote by exact Hvn.
    rewrite (expect_scan _ _ _ _ _ (scan_op is_space (b_type m) _)); [|destruct (b_type m); reflexivity|apply op_kind_one_of].
    rewrite (expect_scan _ _ _ _ _ (scan_go_quote (b_value m) rest Hvv)) by reflexivity.
    rewrite tok_unquote_quote by exact Hvv.
    assert (Hnm : new_matcher compiles (b_type m) (b_name m) (b_value m) = Ok m).
    { unfold new_matcher. destruct (is_regex (b_type m)) eqn:Er; [rewrite (Hre eq_refl)|]; destruct m; reflexivity. }
    destruct (b_type m) eqn:Et; simpl t_kind; cbv iota; rewrite Hnm; reflexivity.
  Qed.

  (* a printed matcher list, as runes *)
  Fixpoint gjr (ms : list bm) : list (Z * list Z) :=
    match ms with
    | [] => []
    | m :: r => match r with [] => grunes m | _ => grunes m ++ asc 44 :: gjr r end
    end.

  Lemma g_decode_join ms rest : Forall dom ms ->
    decode_all (join_comma (map (print_b is_space is_print) ms) ++ rest) = gjr ms ++ decode_all rest.
  Proof.
    induction 1 as [|m r Hm Hr IH]; [reflexivity|].
    destruct r as [|m' r'].
    - simpl. apply g_decode_print, Hm.
    - change (join_comma (map (print_b is_space is_print) (m :: m' :: r')))
        with (print_b is_space is_print m ++ [44] ++ join_comma (map (print_b is_space is_print) (m' :: r'))).
      change (gjr (m :: m' :: r')) with (grunes m ++ asc 44 :: gjr (m' :: r')).
      rewrite <- !app_assoc. rewrite g_decode_print by exact Hm.
      rewrite (decode_all_canon_app 44 [44]) by (apply canon_ascii_intro; lia).
      rewrite IH. reflexivity.
  Qed.

  Lemma gjr_first m r : exists tl, forall T, gjr (m :: r) ++ T = grunes m ++ tl T.
  Proof.
    destruct r as [|m' r'].
    - exists (fun T => T). reflexivity.
    - exists (fun T => asc 44 :: gjr (m' :: r') ++ T). intros T. simpl. rewrite <- app_assoc. reflexivity.
  Qed.

  Lemma kind_facts t : t_kind t = TUnquoted \/ t_kind t = TQuoted ->
    is_eof t = false /\ one_of t [TCloseBrace; TUnquoted; TQuoted] = true /\ beq (t_kind t) TCloseBrace = false /\
    one_of t [TOpenBrace] = false /\ one_of t [TCloseBrace] = false.
  Proof. unfold is_eof, one_of. intros [H|H]; rewrite H; repeat split; reflexivity. Qed.

  Lemma g_step_comma_matcher acc opn m X : dom m ->
    pstep SComma (mkP acc opn (mkLx (asc 44 :: (grunes m ++ X)) false))
    = Ok (Some SMatcher, mkP acc opn (mkLx (grunes m ++ X) false)).
  Proof.
    intros Hm. destruct (g_first_token m X Hm) as (t & r1 & Hs & Hk).
    destruct (kind_facts t Hk) as (He & Ho & Hb & _ & _).
    cbn [MatcherSyntax.pstep p_lx].
    rewrite (expect_scan is_space _ (mkTok TComma [44]) (grunes m ++ X)) by reflexivity.
    rewrite (expect_peek_scan is_space _ _ _ _ Hs He Ho).
    cbn [is_eof_err]. rewrite Hb. reflexivity.
  Qed.

  Lemma g_loop_matchers ms : Forall dom ms -> ms <> [] -> forall acc opn fuel, (3 * length ms + 2 <= fuel)%nat ->
    parse_loop fuel SMatcher (mkP acc opn (mkLx (gjr ms ++ closer opn) false)) = Ok (acc ++ ms).
  Proof.
    induction 1 as [|m r Hm Hr IH]; [congruence|]. intros _ acc opn fuel Hf.
    destruct r as [|m' r'].
    - do 4 (destruct fuel as [|fuel]; [simpl in Hf; lia|]).
      rewrite parse_loop_S. change (gjr [m]) with (grunes m).
      change (pstep SMatcher) with (parse_matcher_step is_space compiles).
      rewrite g_matcher_step by exact Hm. apply tail_steps.
    - do 3 (destruct fuel as [|fuel]; [simpl in Hf; lia|]).
      change (gjr (m :: m' :: r')) with (grunes m ++ asc 44 :: gjr (m' :: r')).
      rewrite <- app_assoc. rewrite parse_loop_S.
      change (pstep SMatcher) with (parse_matcher_step is_space compiles).
      rewrite g_matcher_step by exact Hm.
      change ((asc 44 :: gjr (m' :: r')) ++ closer opn) with (asc 44 :: (gjr (m' :: r') ++ closer opn)).
      rewrite parse_loop_S, step_end_comma.
      destruct (gjr_first m' r') as [tl Htl]. rewrite Htl.
      rewrite parse_loop_S, g_step_comma_matcher by exact (Forall_inv Hr).
      rewrite <- Htl.
      rewrite (IH ltac:(discriminate) (acc ++ [m]) opn fuel) by (simpl in *; lia).
      rewrite <- app_assoc. reflexivity.
  Qed.

  Lemma g_step_open_nobrace m X : dom m ->
    pstep SOpenBrace (mkP [] false (mkLx (grunes m ++ X) false))
    = Ok (Some SMatcher, mkP [] false (mkLx (grunes m ++ X) false)).
  Proof.
    intros Hm. destruct (g_first_token m X Hm) as (t & r1 & Hs & Hk).
    destruct (kind_facts t Hk) as (He & _ & _ & Hob & Hcb).
    cbn [MatcherSyntax.pstep p_lx p_ms]. unfold accept.
    rewrite (accept_peek_scan is_space _ _ _ _ Hs He). rewrite Hob. cbn [is_eof_err res_bind].
    rewrite (accept_peek_scan is_space _ _ _ _ Hs He). rewrite Hcb. reflexivity.
  Qed.

  Lemma g_step_open_brace m X : dom m ->
    pstep SOpenBrace (mkP [] false (mkLx (asc 123 :: (grunes m ++ X)) false))
    = Ok (Some SMatcher, mkP [] true (mkLx (grunes m ++ X) false)).
  Proof.
    intros Hm. destruct (g_first_token m X Hm) as (t & r1 & Hs & Hk).
    destruct (kind_facts t Hk) as (He & _ & _ & Hob & Hcb).
    cbn [MatcherSyntax.pstep p_lx p_ms]. unfold accept.
    rewrite (accept_peek_scan is_space _ (mkTok TOpenBrace [123]) (grunes m ++ X)) by reflexivity.
    replace (one_of _ [TOpenBrace]) with true by reflexivity.
    replace (MatcherSyntax.scan is_space (mkLx (asc 123 :: (grunes m ++ X)) false))
      with (Ok (mkTok TOpenBrace [123]), mkLx (grunes m ++ X) false) by reflexivity.
    cbn [is_eof_err res_bind].
    rewrite (accept_peek_scan is_space _ _ _ _ Hs He). rewrite Hcb. reflexivity.
  Qed.

  (* print then parse with the UTF-8 parser: one matcher (no braces) *)
  Lemma g_roundtrip_single m : dom m ->
    utf8_matchers is_space compiles (print_b is_space is_print m) = Ok [m].
  Proof.
    intros Hm. rewrite utf8_matchers_eq_raw. unfold utf8_parse_raw.
    set (s := print_b is_space is_print m).
    rewrite (parse_loop_irrel is_space compiles _ (S (length s + 6)) _ _ (phi_open compiles s)) by (pose proof (phi_open compiles s); lia).
    pose proof (g_decode_print m [] Hm) as Hd. rewrite app_nil_r in Hd. change (decode_all []) with (@nil (Z * list Z)) in Hd.
    fold s in Hd. rewrite Hd.
    rewrite parse_loop_S. rewrite g_step_open_nobrace by exact Hm.
    apply (g_loop_matchers [m] ltac:(constructor; [exact Hm|constructor]) ltac:(discriminate) [] false).
    simpl. lia.
  Qed.

  (* ... and a braced list of any length *)
  Lemma g_roundtrip_list ms : Forall dom ms ->
    utf8_matchers is_space compiles (print_list_b is_space is_print ms) = Ok ms.
  Proof.
    intros Hms. rewrite utf8_matchers_eq_raw. unfold utf8_parse_raw.
    set (s := print_list_b is_space is_print ms).
    rewrite (parse_loop_irrel is_space compiles _ (S (length s + 6 + 3 * length ms)) _ _ (phi_open compiles s)) by (pose proof (phi_open compiles s); lia).
    assert (Hd : decode_all s = asc 123 :: (gjr ms ++ [asc 125])).
    { unfold s, print_list_b. rewrite (decode_all_canon_app 123 [123]) by (apply canon_ascii_intro; lia).
      rewrite g_decode_join by exact Hms. reflexivity. }
    rewrite Hd. destruct ms as [|m r].
    - reflexivity.
    - destruct (gjr_first m r) as [tl Htl]. rewrite parse_loop_S, Htl.
      rewrite g_step_open_brace by exact (Forall_inv Hms). rewrite <- Htl.
      apply (g_loop_matchers (m :: r) Hms ltac:(discriminate) [] true). simpl. lia.
  Qed.
End General.

Lemma head_not_123 (s : list Z) c tl : s = c :: tl -> c <> 123 -> match s with 123 :: _ => true | _ => false end = false.
Proof.
  intros -> H. destruct c as [|p|p]; try reflexivity.
  do 7 (destruct p as [p|p|]; try reflexivity). congruence.
Qed.

(* ---------- the classic parser on ANY printed matcher: same matcher or rejection ---------- *)
Lemma takew_dropw_split {A} (f : A -> bool) l :
  l = takew f l ++ dropw f l /\ forallb f (takew f l) = true /\
  match dropw f l with [] => True | y :: _ => f y = false end.
Proof.
  induction l as [|x l IH]; [repeat split|]. unfold takew, dropw in *. simpl.
  destruct (f x) eqn:E; simpl.
  - destruct IH as (H1 & H2 & H3). rewrite E. repeat split; [f_equal; exact H1|exact H2|exact H3].
  - rewrite E. repeat split.
Qed.

Lemma name_char_ascii b : name_char b = true -> 0 <= b < 128.
Proof. unfold name_char, name_start. lia. Qed.

Lemma forallb_name_ascii p : forallb name_char p = true -> Forall (fun b => 0 <= b < 128) p.
Proof.
  rewrite forallb_forall. intros H. apply List.Forall_forall. intros b Hb. apply name_char_ascii, H, Hb.
Qed.

(* a byte below 128 that follows an all-ASCII prefix is a rune of the string *)
Lemma ascii_prefix_rune p d q : Forall (fun b => 0 <= b < 128) p -> 0 <= d < 128 ->
  In (asc d) (decode_all (p ++ d :: q)).
Proof.
  intros Hp Hd.
  assert (HX : Forall canon (map asc p ++ [asc d])).
  { apply Forall_app. split; [apply canon_map_asc, Hp|]. apply List.Forall_cons; [apply canon_ascii_intro, Hd|apply List.Forall_nil]. }
  pose proof (decode_all_raw _ q HX) as H. rewrite raw_app, raw_map_asc in H.
  change (raw [asc d]) with [d] in H. rewrite <- app_assoc in H. simpl in H. rewrite H.
  apply in_or_app. left. apply in_or_app. right. left. reflexivity.
Qed.

Section ClassicAny.
  Variable is_space : Z -> bool.
  Variable is_print : Z -> bool.
  Variable compiles : list Z -> bool.
  Hypothesis print_lf : is_print 10 = false.
  (* what the proofs need of unicode.IsSpace: the five ASCII blanks of the RE2 class are spaces, the double quote
     is not, and no label-name character is *)
  Hypothesis blanks_are_spaces : forall b, re_space b = true -> is_space b = true.
  Hypothesis quote_not_space : is_space 34 = false.

  Lemma not_reserved_byte n p d q : name_reserved is_space (mkBM MEq n []) = false -> n = p ++ d :: q ->
    Forall (fun b => 0 <= b < 128) p -> 0 <= d < 128 -> is_reserved is_space d = false.
  Proof.
    unfold name_reserved. simpl. intros Hr -> Hp Hd.
    pose proof (ascii_prefix_rune p d q Hp Hd) as Hin.
    destruct (is_reserved is_space d) eqn:E; [|reflexivity].
    assert (existsb (fun x => is_reserved is_space (fst x)) (decode_all (p ++ d :: q)) = true).
    { apply existsb_exists. exists (asc d). split; [exact Hin|exact E]. }
    congruence.
  Qed.

  Lemma reserved_facts d : is_reserved is_space d = false -> re_space d = false /\ d <> 61 /\ d <> 33 /\ d <> 123 /\ d <> 34 /\ d <> 44 /\ d <> 92.
  Proof.
    intros H. unfold MatcherSyntax.is_reserved in H. repeat (apply orb_false_elim in H as [H ?]).
    split; [|lia]. destruct (re_space d) eqn:E; [|reflexivity]. rewrite (blanks_are_spaces d E) in H. discriminate.
  Qed.

  (* a byte of a non-reserved name after an ASCII prefix: not a blank, not an operator character *)
  Lemma name_byte_facts n p d q : name_reserved is_space (mkBM MEq n []) = false -> n = p ++ d :: q ->
    Forall (fun b => 0 <= b < 128) p -> re_space d = false /\ d <> 61 /\ d <> 33 /\ d <> 123.
  Proof.
    intros Hr Hn Hp. destruct (Z_lt_le_dec d 0) as [Hneg|Hpos]; [unfold re_space; lia|].
    destruct (Z_lt_le_dec d 128) as [Hlt|Hge]; [|unfold re_space; lia].
    pose proof (not_reserved_byte n p d q Hr Hn Hp ltac:(lia)) as H. apply reserved_facts in H. tauto.
  Qed.

  Lemma classic_rejects_nonclassic n rest :
    name_reserved is_space (mkBM MEq n []) = false -> n <> [] -> cname n = false ->
    classic_split (n ++ rest) = None.
  Proof.
    intros Hr Hne Hc. destruct n as [|c n']; [congruence|].
    destruct (name_byte_facts (c :: n') [] c n' Hr eq_refl ltac:(constructor)) as (Hsp & _).
    unfold classic_split. change ((c :: n') ++ rest) with (c :: (n' ++ rest)).
    rewrite (dropw_head_false re_space c _ Hsp).
    destruct (name_start c) eqn:Hs; [|reflexivity].
    simpl in Hc. rewrite Hs in Hc. simpl in Hc.
    (* the name-character prefix stops inside the name *)
    destruct (takew_dropw_split name_char (c :: n')) as (Hsplit & Hall & Hhead).
    remember (takew name_char (c :: n')) as p eqn:Hp_def.
    destruct (dropw name_char (c :: n')) as [|d q] eqn:Ed.
    { exfalso. rewrite app_nil_r in Hsplit. rewrite <- Hsplit in Hall. simpl in Hall.
      apply andb_true_iff in Hall as [_ Hall]. congruence. }
    change (c :: n' ++ rest) with ((c :: n') ++ rest). rewrite Hsplit. rewrite <- app_assoc.
    destruct (takew_dropw_app name_char p ((d :: q) ++ rest) Hall Hhead) as [Ht Hd].
    rewrite Hd.
    destruct (name_byte_facts (c :: n') _ d q Hr Hsplit (forallb_name_ascii _ Hall)) as (Hsd & H61 & H33 & _).
    change ((d :: q) ++ rest) with (d :: (q ++ rest)). rewrite (dropw_head_false re_space d _ Hsd).
    destruct d as [|pd|pd]; try reflexivity.
    do 7 (try (destruct pd as [pd|pd|]; try reflexivity)); congruence.
  Qed.

  Lemma name_reserved_eq m : name_reserved is_space (mkBM MEq (b_name m) []) = name_reserved is_space m.
  Proof. reflexivity. Qed.

  (* on the printed text of a matcher the classic parser returns that matcher (bare classic name) or rejects *)
  Lemma classic_on_print m : dom compiles m ->
    (name_reserved is_space m = false /\ cname (b_name m) = true /\
     classic_matcher compiles (print_b is_space is_print m) = Ok m) \/
    classic_matcher compiles (print_b is_space is_print m) = Err "bad-format".
  Proof.
    intros Hd. destruct (name_reserved is_space m) eqn:Hr.
    - right. unfold print_b. unfold name_reserved in Hr. rewrite Hr. reflexivity.
    - destruct (cname (b_name m)) eqn:Hc.
      + left. repeat split. apply classic_roundtrip_single; [apply dom_plain; assumption|exact Hc].
      + right. destruct Hd as (Hne & _). unfold print_b. unfold name_reserved in Hr. rewrite Hr.
        unfold classic_matcher. rewrite classic_rejects_nonclassic; [reflexivity|exact Hr|exact Hne|exact Hc].
  Qed.

  Lemma classic_on_print_same m c : dom compiles m ->
    classic_matcher compiles (print_b is_space is_print m) = Ok c -> c = m.
  Proof. intros Hd H. destruct (classic_on_print m Hd) as [(_ & _ & E)|E]; rewrite E in H; congruence. Qed.

  Lemma last_not_125 (s : list Z) : match rev (s ++ [34]) with 125 :: _ => true | _ => false end = false.
  Proof. rewrite rev_app_distr. reflexivity. Qed.

  Lemma print_ends_quote m : exists s, print_b is_space is_print m = s ++ [34].
  Proof.
    unfold print_b. destruct (existsb _ _).
    - unfold go_quote. eexists. rewrite !app_comm_cons, !app_assoc. reflexivity.
    - eexists. rewrite !app_assoc. reflexivity.
  Qed.

  Lemma print_head m : dom compiles m -> exists c tl, print_b is_space is_print m = c :: tl /\ c <> 123.
  Proof.
    intros (Hne & _). unfold print_b. destruct (existsb _ _) eqn:Hr.
    - eexists _, _. split; [reflexivity|lia].
    - destruct (b_name m) as [|c n'] eqn:En; [congruence|].
      eexists _, _. split; [reflexivity|].
      destruct (name_byte_facts (c :: n') [] c n') as (_ & _ & _ & H); [|reflexivity|constructor|exact H].
      unfold name_reserved. simpl. exact Hr.
  Qed.

  Lemma print_no_brace m : dom compiles m -> has_brace (print_b is_space is_print m) = false.
  Proof.
    intros Hd. unfold has_brace. destruct (print_head m Hd) as (c & tl & E & Hc).
    destruct (print_ends_quote m) as (s & Es).
    rewrite Es at 2. rewrite last_not_125. rewrite (head_not_123 _ c tl E Hc). reflexivity.
  Qed.

  (* compat.Matcher on the printed text of one matcher, in UTF-8-strict and in fallback mode; and in classic mode
     when the name is a classic label name that is printed bare *)
  Lemma compat_single_roundtrip m : dom compiles m ->
    compat_matcher is_space compiles Utf8Strict (print_b is_space is_print m) = Ok m /\
    compat_matcher is_space compiles Fallback (print_b is_space is_print m) = Ok m.
  Proof.
    intros Hd. simpl. rewrite (print_no_brace m Hd).
    unfold utf8_matcher. rewrite (g_roundtrip_single is_space is_print compiles print_lf m Hd). simpl.
    split; [reflexivity|]. apply fallback_roundtrip_cond.
    - pose proof (classic_matcher_fine compiles (print_b is_space is_print m)) as H. intros E. rewrite E in H. exact H.
    - intros cv. apply classic_on_print_same, Hd.
  Qed.

(* ---------- the classic quote-aware comma split on a printed list ---------- *)
Lemma encode_asc c : 0 <= c < 128 -> encode_rune c = [c].
Proof. intros H. exact (encode_decode c [c] (canon_ascii_intro c H)). Qed.

(* runes outside quotes that are neither a comma, a quote nor a backslash: appended, state unchanged *)
Lemma ctok_outside G : Forall canon G -> Forall (fun x => fst x <> 44 /\ fst x <> 34 /\ fst x <> 92) G ->
  forall rest tok, classic_tokens (G ++ rest) false false tok = classic_tokens rest false false (tok ++ raw G).
Proof.
  induction 1 as [|[r bs] G Hc _ IH]; intros Hs rest tok.
  - unfold raw. simpl. rewrite app_nil_r. reflexivity.
  - apply Forall_cons in Hs as [(H44 & H34 & H92) Hs]. simpl in H44, H34, H92. simpl app. cbn [classic_tokens]. simpl fst.
    destruct (r =? 44) eqn:E1; [lia|]. destruct (r =? 34) eqn:E2; [lia|]. destruct (r =? 92) eqn:E3; [lia|].
    simpl andb. cbv iota. rewrite (encode_decode r bs Hc). rewrite (IH Hs). rewrite <- app_assoc. reflexivity.
Qed.

(* inside quotes *)
Lemma ctok_in_plain x R tok : canon x -> fst x <> 34 -> fst x <> 92 ->
  classic_tokens (x :: R) true false tok = classic_tokens R true false (tok ++ snd x).
Proof.
  destruct x as [r bs]. intros Hc H34 H92. simpl in *. cbn [classic_tokens]. simpl fst.
  rewrite andb_false_r. destruct (r =? 34) eqn:E2; [lia|]. destruct (r =? 92) eqn:E3; [lia|].
  rewrite (encode_decode r bs Hc). destruct (r =? 44); reflexivity.
Qed.

Lemma ctok_in_esc c R tok : 0 <= c < 128 -> c <> 44 ->
  classic_tokens (asc 92 :: asc c :: R) true false tok = classic_tokens R true false (tok ++ [92; c]).
Proof.
  intros Hc H44. cbn [classic_tokens]. simpl fst. change (92 =? 44) with false. change (92 =? 34) with false.
  change (92 =? 92) with true. simpl andb. cbv iota. simpl negb.
  destruct (c =? 44) eqn:E1; [lia|]. simpl andb. cbv iota.
  change (encode_rune 92) with [92]. rewrite (encode_asc c Hc). rewrite <- app_assoc.
  destruct (c =? 34); [reflexivity|]. destruct (c =? 92); reflexivity.
Qed.

Lemma ctok_in_hex l : Forall hexok l -> forall R tok,
  classic_tokens (map asc l ++ R) true false tok = classic_tokens R true false (tok ++ l).
Proof.
  induction 1 as [|b l Hb _ IH]; intros R tok; [rewrite app_nil_r; reflexivity|].
  unfold hexok in Hb. change (map asc (b :: l) ++ R) with (asc b :: (map asc l ++ R)).
  rewrite ctok_in_plain by (try apply canon_ascii_intro; simpl; lia).
  rewrite IH. simpl snd. rewrite <- app_assoc. reflexivity.
Qed.

Lemma ctok_group_esc x : canon x -> forall R tok,
  classic_tokens (esc_rune x ++ R) true false tok = classic_tokens R true false (tok ++ raw (esc_rune x)).
Proof.
  destruct x as [r bs]. intros Hc R tok. unfold esc_rune. simpl fst.
  destruct (r =? 92) eqn:E1; [simpl app; rewrite ctok_in_esc by lia; reflexivity|].
  destruct (r =? 10) eqn:E2; [simpl app; rewrite ctok_in_esc by lia; reflexivity|].
  destruct (r =? 34) eqn:E3; [simpl app; rewrite ctok_in_esc by lia; reflexivity|].
  simpl app. rewrite ctok_in_plain by (try exact Hc; simpl; lia). unfold raw. simpl. rewrite app_nil_r. reflexivity.
Qed.

Lemma ctok_groups (g : Z * list Z -> list (Z * list Z)) V :
  (forall x, In x V -> forall R tok, classic_tokens (g x ++ R) true false tok = classic_tokens R true false (tok ++ raw (g x))) ->
  forall R tok, classic_tokens (flat_map g V ++ R) true false tok = classic_tokens R true false (tok ++ raw (flat_map g V)).
Proof.
  induction V as [|x V IH]; intros Hg R tok; [unfold raw; simpl; rewrite app_nil_r; reflexivity|].
  simpl flat_map. rewrite <- app_assoc. rewrite (Hg x ltac:(left; reflexivity)).
  rewrite IH by (intros y Hy; apply Hg; right; exact Hy). rewrite raw_app, app_assoc. reflexivity.
Qed.

  Notation qr := (qrunes is_print).

  Lemma ctok_group_q x : canon x -> forall R tok,
    classic_tokens (qr x ++ R) true false tok = classic_tokens R true false (tok ++ raw (qr x)).
  Proof.
    destruct x as [r bs]. intros Hc R tok. destruct (canon_valid r bs Hc) as [_ Hr0]. unfold qrunes. simpl fst.
    destruct ((r =? 34) || (r =? 92)) eqn:E0.
    { simpl app. rewrite ctok_in_esc by lia. reflexivity. }
    apply orb_false_elim in E0 as [E34 E92].
    destruct (is_print r) eqn:Ep.
    { simpl app. rewrite ctok_in_plain by (try exact Hc; simpl; lia). unfold raw. simpl. rewrite app_nil_r. reflexivity. }
    destruct (quote_rune_shape is_print r Hr0) as (c & l & -> & Hc' & Hl); [rewrite E34, E92; reflexivity|exact Ep|].
    change (map asc (92 :: c :: l) ++ R) with (asc 92 :: asc c :: (map asc l ++ R)).
    rewrite ctok_in_esc by lia. rewrite ctok_in_hex by exact Hl. rewrite raw_map_asc.
    rewrite <- app_assoc. reflexivity.
  Qed.

  Lemma ctok_open rest tok : classic_tokens (asc 34 :: rest) false false tok = classic_tokens rest true false (tok ++ [34]).
  Proof. reflexivity. Qed.
  Lemma ctok_close rest tok : classic_tokens (asc 34 :: rest) true false tok = classic_tokens rest false false (tok ++ [34]).
  Proof. reflexivity. Qed.

  (* a quoted part: opening quote, a body of escape groups, closing quote *)
  Lemma ctok_quoted (g : Z * list Z -> list (Z * list Z)) V rest tok :
    (forall x, In x V -> forall R tok, classic_tokens (g x ++ R) true false tok = classic_tokens R true false (tok ++ raw (g x))) ->
    classic_tokens (asc 34 :: flat_map g V ++ asc 34 :: rest) false false tok
    = classic_tokens rest false false (tok ++ 34 :: raw (flat_map g V) ++ [34]).
  Proof.
    intros Hg. rewrite ctok_open, (ctok_groups g V Hg), ctok_close. rewrite <- !app_assoc. reflexivity.
  Qed.

  Lemma ops_outside t : Forall (fun x : Z * list Z => fst x <> 44 /\ fst x <> 34 /\ fst x <> 92) (map asc (op_bytes t)).
  Proof. destruct t; simpl; repeat (apply List.Forall_cons; [simpl; lia|]); apply List.Forall_nil. Qed.

  (* across one printed matcher no split happens and the quote state returns to "outside" *)
  Lemma ctok_matcher m rest tok : dom compiles m ->
    classic_tokens (grunes is_space is_print m ++ rest) false false tok
    = classic_tokens rest false false (tok ++ print_b is_space is_print m).
  Proof.
    intros Hd. pose proof Hd as (Hne & Hvn & Hvv & Hre). unfold grunes.
    destruct (name_reserved is_space m) eqn:Hr.
    - rewrite <- (raw_qmrunes is_space is_print compiles m Hd Hr). rewrite qmrunes_shape.
      rewrite (ctok_quoted qr) by (intros x Hx; apply ctok_group_q; exact (proj1 (List.Forall_forall _ _) (valid_decode_canon _ Hvn) x Hx)).
      rewrite (ctok_outside _ (canon_ops _) (ops_outside _)).
      rewrite (ctok_quoted qr) by (intros x Hx; apply ctok_group_q; exact (proj1 (List.Forall_forall _ _) (valid_decode_canon _ Hvv) x Hx)).
      f_equal. unfold qmrunes. rewrite raw_cons_asc, raw_app, raw_cons_asc, raw_app, raw_ops, raw_cons_asc, raw_app.
      rewrite <- !app_assoc. simpl. rewrite <- !app_assoc. reflexivity.
    - pose proof (dom_plain is_space compiles m Hd Hr) as Hp.
      rewrite <- (raw_mrunes is_space is_print compiles m Hp). rewrite mrunes_shape.
      assert (HN : Forall (fun x : Z * list Z => fst x <> 44 /\ fst x <> 34 /\ fst x <> 92) (decode_all (b_name m))).
      { unfold name_reserved in Hr. apply List.Forall_forall. intros x Hx.
        destruct (is_reserved is_space (fst x)) eqn:E.
        - assert (existsb (fun x => is_reserved is_space (fst x)) (decode_all (b_name m)) = true)
            by (apply existsb_exists; exists x; split; assumption). congruence.
        - unfold MatcherSyntax.is_reserved in E. repeat (apply orb_false_elim in E as [E ?]). lia. }
      rewrite (ctok_outside _ (valid_decode_canon _ Hvn) HN).
      rewrite (ctok_outside _ (canon_ops _) (ops_outside _)).
      rewrite (ctok_quoted esc_rune) by (intros x Hx; apply ctok_group_esc; exact (proj1 (List.Forall_forall _ _) (valid_decode_canon _ Hvv) x Hx)).
      f_equal. unfold mrunes. rewrite !raw_app, raw_ops. rewrite <- !app_assoc. reflexivity.
  Qed.

  Notation pb := (print_b is_space is_print).

  (* the tokens the split produces for a printed list: (finished tokens, current token) *)
  Fixpoint ctoks (tok : list Z) (ms : list bm) : list (list Z) * list Z :=
    match ms with
    | [] => ([], tok)
    | m :: r => match r with
                | [] => ([], tok ++ pb m)
                | _ => let '(ts, l) := ctoks [] r in ((tok ++ pb m) :: ts, l)
                end
    end.

  Lemma ctok_list ms : Forall (dom compiles) ms -> forall tok,
    classic_tokens (gjr is_space is_print ms) false false tok = ctoks tok ms.
  Proof.
    induction 1 as [|m r Hm Hr IH]; intros tok; [reflexivity|].
    destruct r as [|m' r'].
    - change (gjr is_space is_print [m]) with (grunes is_space is_print m).
      rewrite <- (app_nil_r (grunes is_space is_print m)). rewrite ctok_matcher by exact Hm. reflexivity.
    - change (gjr is_space is_print (m :: m' :: r')) with (grunes is_space is_print m ++ asc 44 :: gjr is_space is_print (m' :: r')).
      rewrite ctok_matcher by exact Hm.
      change (ctoks tok (m :: m' :: r')) with (let '(ts, l) := ctoks [] (m' :: r') in ((tok ++ pb m) :: ts, l)).
      rewrite <- IH. reflexivity.
  Qed.

  Lemma ctoks_all ms : ms <> [] -> exists ts ml, ctoks [] ms = (ts, pb ml) /\ ts ++ [pb ml] = map pb ms /\ In ml ms.
  Proof.
    induction ms as [|m r IH]; [congruence|]. intros _. destruct r as [|m' r'].
    - exists [], m. repeat split. left. reflexivity.
    - destruct (IH ltac:(discriminate)) as (ts & ml & E & Hall & Hin).
      exists (pb m :: ts), ml. change (ctoks [] (m :: m' :: r')) with (let '(ts, l) := ctoks [] (m' :: r') in (([] ++ pb m) :: ts, l)).
      rewrite E. repeat split; [simpl; f_equal; exact Hall|right; exact Hin].
  Qed.

  Lemma grunes_head m : dom compiles m -> exists x0 tl, grunes is_space is_print m = x0 :: tl /\ is_space (fst x0) = false.
  Proof.
    intros (Hne & Hvn & _). unfold grunes. destruct (name_reserved is_space m) eqn:Hr.
    - eexists _, _. split; [reflexivity|exact quote_not_space].
    - unfold mrunes. destruct (decode_all (b_name m)) as [|x0 N] eqn:EN.
      { exfalso. apply Hne. rewrite <- (raw_decode_all (b_name m)), EN. reflexivity. }
      eexists _, _. split; [reflexivity|]. unfold name_reserved in Hr. rewrite EN in Hr. simpl in Hr.
      apply orb_false_elim in Hr as [Hr _]. unfold MatcherSyntax.is_reserved in Hr.
      repeat (apply orb_false_elim in Hr as [Hr ?]). exact Hr.
  Qed.

  Lemma grunes_last m : exists Y, grunes is_space is_print m = Y ++ [asc 34].
  Proof.
    unfold grunes. destruct (name_reserved is_space m).
    - unfold qmrunes. eexists. rewrite !app_comm_cons, !app_assoc. reflexivity.
    - unfold mrunes. eexists. rewrite !app_assoc. reflexivity.
  Qed.

  Lemma trim_space_print m : dom compiles m -> trim_space is_space (pb m) = pb m.
  Proof.
    intros Hd. unfold trim_space.
    pose proof (g_decode_print is_space is_print compiles print_lf m [] Hd) as Hdec. rewrite app_nil_r in Hdec.
    change (decode_all []) with (@nil (Z * list Z)) in Hdec. rewrite app_nil_r in Hdec.
    rewrite Hdec. destruct (grunes_head m Hd) as (x0 & tl & E & Hx0). destruct (grunes_last m) as (Y & EY).
    rewrite E at 1. rewrite (dropw_head_false (fun x => is_space (fst x)) x0 tl Hx0). rewrite <- E. rewrite EY.
    rewrite rev_app_distr. simpl rev at 1. simpl app.
    rewrite quote_not_space. simpl rev. rewrite rev_involutive. rewrite <- EY, <- Hdec. apply raw_decode_all.
  Qed.

  Lemma print_nonempty m : pb m <> [].
  Proof. destruct (print_ends_quote m) as (s & ->). destruct s; discriminate. Qed.

  Definition bare_classic (m : bm) : Prop := name_reserved is_space m = false /\ cname (b_name m) = true.

  Lemma map_res_classic ms : Forall (dom compiles) ms ->
    (Forall bare_classic ms /\ map_res (classic_matcher compiles) (map pb ms) = Ok ms) \/
    map_res (classic_matcher compiles) (map pb ms) = Err "bad-format".
  Proof.
    induction 1 as [|m r Hm _ IH]; [left; split; [constructor|reflexivity]|].
    simpl. destruct (classic_on_print m Hm) as [(H1 & H2 & E)|E]; rewrite E; simpl.
    - destruct IH as [[Hall E2]|E2]; rewrite E2; simpl.
      + left. split; [constructor; [split; assumption|exact Hall]|reflexivity].
      + right. reflexivity.
    - right. reflexivity.
  Qed.

  Lemma last_tok (l : list Z) : l <> [] -> match l with [] => [] | _ => [l] end = [l].
  Proof. destruct l; [congruence|reflexivity]. Qed.

  Lemma trim_braces J : trim_suffix 125 (trim_prefix 123 ([123] ++ J ++ [125])) = J.
  Proof.
    change (trim_prefix 123 ([123] ++ J ++ [125])) with (J ++ [125]).
    unfold trim_suffix. rewrite rev_app_distr. simpl. apply rev_involutive.
  Qed.

  Lemma map_res_classic_ok ms : Forall (dom compiles) ms -> Forall bare_classic ms ->
    map_res (classic_matcher compiles) (map pb ms) = Ok ms.
  Proof.
    intros Hd Hb. destruct (map_res_classic ms Hd) as [[_ E]|E]; [exact E|]. exfalso.
    revert E. induction Hd as [|m r Hm _ IH]; [discriminate|]. apply Forall_cons in Hb as [[H1 H2] Hb]. simpl.
    rewrite (classic_roundtrip_single is_space is_print compiles m (dom_plain is_space compiles m Hm H1) H2). simpl.
    destruct (map_res (classic_matcher compiles) (map pb r)) eqn:E2; simpl; try discriminate.
    intros E. injection E as E. apply IH; [exact Hb|]. rewrite E. reflexivity.
  Qed.

  (* labels.ParseMatchers on a printed list splits it into exactly the printed matchers *)
  Lemma classic_list_tokens ms : Forall (dom compiles) ms ->
    classic_matchers is_space compiles (print_list_b is_space is_print ms) = map_res (classic_matcher compiles) (map pb ms).
  Proof.
    intros Hms. unfold classic_matchers, print_list_b. rewrite trim_braces.
    pose proof (g_decode_join is_space is_print compiles print_lf ms [] Hms) as Hdec. rewrite app_nil_r in Hdec.
    change (decode_all []) with (@nil (Z * list Z)) in Hdec. rewrite app_nil_r in Hdec. rewrite Hdec.
    rewrite ctok_list by exact Hms.
    destruct ms as [|m r]; [reflexivity|].
    destruct (ctoks_all (m :: r) ltac:(discriminate)) as (ts & ml & E & Hall & Hin). rewrite E.
    assert (Hml : dom compiles ml) by (exact (proj1 (List.Forall_forall _ _) Hms ml Hin)).
    rewrite (trim_space_print ml Hml). rewrite (last_tok (pb ml) (print_nonempty ml)). rewrite Hall. reflexivity.
  Qed.

  (* ... and on the printed text of a single matcher (no braces) *)
  Lemma classic_single_tokens m : dom compiles m ->
    classic_matchers is_space compiles (pb m) = map_res (classic_matcher compiles) [pb m].
  Proof.
    intros Hm. unfold classic_matchers.
    destruct (print_head m Hm) as (c & tl & E & Hc). destruct (print_ends_quote m) as (s & Es).
    assert (Hp : trim_prefix 123 (pb m) = pb m).
    { rewrite E. unfold trim_prefix. destruct (c =? 123) eqn:E1; [lia|reflexivity]. }
    rewrite Hp.
    assert (Hs : trim_suffix 125 (pb m) = pb m).
    { rewrite Es. unfold trim_suffix. rewrite rev_app_distr. simpl. rewrite rev_involutive. reflexivity. }
    rewrite Hs.
    pose proof (g_decode_print is_space is_print compiles print_lf m [] Hm) as Hdec. rewrite app_nil_r in Hdec.
    change (decode_all []) with (@nil (Z * list Z)) in Hdec. rewrite app_nil_r in Hdec. rewrite Hdec.
    change (grunes is_space is_print m) with (gjr is_space is_print [m]).
    rewrite (ctok_list [m]) by (constructor; [exact Hm|constructor]). simpl ctoks. cbv beta iota. simpl app.
    rewrite (trim_space_print m Hm). rewrite (last_tok (pb m) (print_nonempty m)). reflexivity.
  Qed.

  Lemma classic_list_on_print ms : Forall (dom compiles) ms ->
    (Forall bare_classic ms /\ classic_matchers is_space compiles (print_list_b is_space is_print ms) = Ok ms) \/
    classic_matchers is_space compiles (print_list_b is_space is_print ms) = Err "bad-format".
  Proof. intros Hms. rewrite classic_list_tokens by exact Hms. exact (map_res_classic ms Hms). Qed.

  (* compat.Matchers on a printed list, in UTF-8-strict and fallback mode *)
  Lemma compat_list_roundtrip ms : Forall (dom compiles) ms ->
    compat_matchers is_space compiles Utf8Strict (print_list_b is_space is_print ms) = Ok ms /\
    compat_matchers is_space compiles Fallback (print_list_b is_space is_print ms) = Ok ms.
  Proof.
    intros Hms. simpl. rewrite (g_roundtrip_list is_space is_print compiles print_lf ms Hms).
    split; [reflexivity|]. apply fallback_roundtrip_cond; [apply classic_matchers_no_panic|].
    intros cv E. destruct (classic_list_on_print ms Hms) as [[_ E2]|E2]; rewrite E2 in E; congruence.
  Qed.

  (* compat.Matchers on the printed text of one matcher *)
  Lemma compat_list_single_roundtrip m : dom compiles m ->
    compat_matchers is_space compiles Utf8Strict (pb m) = Ok [m] /\
    compat_matchers is_space compiles Fallback (pb m) = Ok [m].
  Proof.
    intros Hm. simpl. rewrite (g_roundtrip_single is_space is_print compiles print_lf m Hm).
    split; [reflexivity|]. apply fallback_roundtrip_cond; [apply classic_matchers_no_panic|].
    intros cv E. rewrite classic_single_tokens in E by exact Hm. simpl in E.
    destruct (classic_on_print m Hm) as [(_ & _ & E2)|E2]; rewrite E2 in E; simpl in E; congruence.
  Qed.

  (* classic mode: names that are classic label names (and are printed bare) *)
  Lemma classic_list_roundtrip ms : Forall (dom compiles) ms -> Forall bare_classic ms ->
    classic_matchers is_space compiles (print_list_b is_space is_print ms) = Ok ms /\
    compat_matchers is_space compiles Classic (print_list_b is_space is_print ms) = Ok ms.
  Proof.
    intros Hd Hb. simpl. rewrite classic_list_tokens by exact Hd. rewrite map_res_classic_ok by assumption. split; reflexivity.
  Qed.

  Lemma classic_single_roundtrip m : dom compiles m -> bare_classic m ->
    compat_matcher is_space compiles Classic (pb m) = Ok m /\ compat_matchers is_space compiles Classic (pb m) = Ok [m].
  Proof.
    intros Hd [H1 H2]. simpl.
    pose proof (classic_roundtrip_single is_space is_print compiles m (dom_plain is_space compiles m Hd H1) H2) as E.
    split; [exact E|]. rewrite classic_single_tokens by exact Hd. simpl. rewrite E. reflexivity.
  Qed.

  (* with the third fact about unicode.IsSpace - no label-name character is a space - a classic label name never
     contains a reserved rune, so it is always printed bare *)
  Hypothesis name_chars_not_space : forall r, is_space r = true -> name_char r = false.

  Lemma cname_ascii n : cname n = true -> Forall (fun b => 0 <= b < 128) n /\ forallb name_char n = true /\ n <> [].
  Proof.
    destruct n as [|c r]; [discriminate|]. simpl. intros H. apply andb_true_iff in H as [Hs Hr].
    assert (Hc : name_char c = true) by (unfold name_char; rewrite Hs; reflexivity).
    assert (Hall : forallb name_char (c :: r) = true) by (simpl; rewrite Hc, Hr; reflexivity).
    split; [apply forallb_name_ascii, Hall|]. split; [exact Hall|discriminate].
  Qed.

  Lemma decode_ascii n : Forall (fun b => 0 <= b < 128) n -> decode_all n = map asc n.
  Proof.
    intros H. pose proof (decode_all_raw (map asc n) [] (canon_map_asc n H)) as E.
    rewrite raw_map_asc, !app_nil_r in E. exact E.
  Qed.

  Lemma cname_dom m : cname (b_name m) = true -> valid_utf8 (b_value m) = true ->
    (is_regex (b_type m) = true -> compiles (b_value m) = true) -> dom compiles m /\ bare_classic m.
  Proof.
    intros Hc Hv Hre. destruct (cname_ascii _ Hc) as (Hasc & Hall & Hne).
    assert (Hvalid : valid_utf8 (b_name m) = true).
    { rewrite <- (raw_map_asc (b_name m)). apply valid_raw, canon_map_asc, Hasc. }
    split; [repeat split; assumption|]. split; [|exact Hc].
    unfold name_reserved. rewrite (decode_ascii _ Hasc).
    destruct (existsb _ _) eqn:E; [|reflexivity]. exfalso.
    apply existsb_exists in E as (x & Hin & Hx). apply in_map_iff in Hin as (c & <- & Hin). simpl in Hx.
    rewrite forallb_forall in Hall. specialize (Hall c Hin).
    unfold MatcherSyntax.is_reserved in Hx.
    destruct (is_space c) eqn:Es. { rewrite (name_chars_not_space c Es) in Hall. discriminate. }
    unfold name_char, name_start in Hall. simpl in Hx. lia.
  Qed.
End ClassicAny.


(* ---------- the round-trip clause in all three modes, with the library contracts named ---------- *)
(* what is assumed of unicode.IsSpace: the ASCII blanks of the RE2 class are spaces, the double quote is not, and no
   label-name character (letter, digit, underscore, colon) is. (The harness checks these on the real tables.) *)
Definition space_contract (is_space : Z -> bool) : Prop :=
  (forall b, re_space b = true -> is_space b = true) /\ is_space 34 = false /\
  (forall r, is_space r = true -> name_char r = false).
(* what is assumed of strconv.IsPrint: the line feed is not printable *)
Definition print_contract (is_print : Z -> bool) : Prop := is_print 10 = false.

(* a matcher whose name is a classic label name *)
Definition classic_dom (compiles : list Z -> bool) (m : bm) : Prop :=
  cname (b_name m) = true /\ valid_utf8 (b_value m) = true /\ (is_regex (b_type m) = true -> compiles (b_value m) = true).

Section AllModes.
  Variable is_space : Z -> bool.
  Variable is_print : Z -> bool.
  Variable compiles : list Z -> bool.
  Hypothesis Hpr : print_contract is_print.
  Hypothesis Hsp : space_contract is_space.

  Lemma classic_dom_dom m : classic_dom compiles m -> dom compiles m /\ bare_classic is_space m.
  Proof.
    intros (H1 & H2 & H3). destruct Hsp as (S1 & S2 & S3).
    exact (cname_dom is_space is_print compiles Hpr S1 S2 S3 m H1 H2 H3).
  Qed.

  Lemma modes_single m : dom compiles m ->
    compat_matcher is_space compiles Utf8Strict (print_b is_space is_print m) = Ok m /\
    compat_matcher is_space compiles Fallback (print_b is_space is_print m) = Ok m /\
    compat_matchers is_space compiles Utf8Strict (print_b is_space is_print m) = Ok [m] /\
    compat_matchers is_space compiles Fallback (print_b is_space is_print m) = Ok [m].
  Proof.
    intros Hd. destruct Hsp as (S1 & S2 & S3).
    destruct (compat_single_roundtrip is_space is_print compiles Hpr S1 S2 m Hd) as [A B].
    destruct (compat_list_single_roundtrip is_space is_print compiles Hpr S1 S2 m Hd) as [C D]. auto.
  Qed.

  Lemma modes_list ms : Forall (dom compiles) ms ->
    compat_matchers is_space compiles Utf8Strict (print_list_b is_space is_print ms) = Ok ms /\
    compat_matchers is_space compiles Fallback (print_list_b is_space is_print ms) = Ok ms.
  Proof. intros Hd. destruct Hsp as (S1 & S2 & S3). exact (compat_list_roundtrip is_space is_print compiles Hpr S1 S2 ms Hd). Qed.

  Lemma classic_mode_single m : classic_dom compiles m ->
    compat_matcher is_space compiles Classic (print_b is_space is_print m) = Ok m /\
    compat_matchers is_space compiles Classic (print_b is_space is_print m) = Ok [m].
  Proof.
    intros Hc. destruct (classic_dom_dom m Hc) as [Hd Hb]. destruct Hsp as (S1 & S2 & S3).
    exact (classic_single_roundtrip is_space is_print compiles Hpr S1 S2 m Hd Hb).
  Qed.

  Lemma classic_mode_list ms : Forall (classic_dom compiles) ms ->
    compat_matchers is_space compiles Classic (print_list_b is_space is_print ms) = Ok ms.
  Proof.
    intros Hc. destruct Hsp as (S1 & S2 & S3).
    apply (classic_list_roundtrip is_space is_print compiles Hpr S1 S2 ms).
    - eapply Forall_impl; [exact Hc|]. intros m Hm. exact (proj1 (classic_dom_dom m Hm)).
    - eapply Forall_impl; [exact Hc|]. intros m Hm. exact (proj2 (classic_dom_dom m Hm)).
  Qed.

  (* parser agreement on printed text: the classic parser returns the same matchers or rejects (never a different
     result) *)
  Lemma classic_never_disagrees ms : Forall (dom compiles) ms ->
    classic_matchers is_space compiles (print_list_b is_space is_print ms) = Ok ms \/
    classic_matchers is_space compiles (print_list_b is_space is_print ms) = Err "bad-format".
  Proof.
    intros Hd. destruct Hsp as (S1 & S2 & S3).
    destruct (classic_list_on_print is_space is_print compiles Hpr S1 S2 ms Hd) as [[_ E]|E]; auto.
  Qed.
End AllModes.
