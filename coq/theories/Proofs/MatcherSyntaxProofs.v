(* Proofs about Model/MatcherSyntax.v. Every statement holds for all oracles is_space / is_print / compiles unless a
   hypothesis about them is written out. *)
From AM Require Import Base.Prelude Model.Matchers Model.MatcherSyntax.

(* ---------- fallback combinator ---------- *)
Section Fallback.
  Context {A : Type} `{EqDecision A}.
  Lemma fallback_both_accept (nv cv : A) : fallback (Ok nv) (Ok cv) = Ok cv.
  Proof. unfold fallback. destruct (decide (nv = cv)); congruence. Qed.
  Lemma fallback_both_accept_equal (v : A) : fallback (Ok v) (Ok v) = Ok v.
  Proof. apply fallback_both_accept. Qed.
  Lemma fallback_classic_only (n : res A) (cv : A) : fallback n (Ok cv) = Ok cv.
  Proof. destruct n; [apply fallback_both_accept|reflexivity|reflexivity]. Qed.
  Lemma fallback_utf8_only (nv : A) e : fallback (Ok nv) (Err e) = Ok nv.
  Proof. reflexivity. Qed.
  Lemma fallback_both_reject e1 e2 : fallback (Err e1 : res A) (Err e2) = Err e2.
  Proof. reflexivity. Qed.
  Lemma fallback_spec (n c : res A) :
    match n, c with
    | _, Panic => fallback n c = Panic
    | Ok nv, Ok cv => fallback n c = Ok cv /\ (nv = cv -> fallback n c = Ok nv)
    | Ok nv, Err _ => fallback n c = Ok nv
    | _, Ok cv => fallback n c = Ok cv
    | _, Err ce => fallback n c = Err ce
    end.
  Proof.
    destruct n, c; simpl; try reflexivity.
    split; [apply fallback_both_accept|]. intros ->. apply fallback_both_accept.
  Qed.
End Fallback.

(* ---------- outcomes that are neither a panic nor fuel exhaustion ---------- *)
Definition fine {A} (r : res A) : Prop :=
  match r with Panic => False | Err e => e <> "fuel" | Ok _ => True end.

Lemma fine_res_map {A B} (f : A -> B) r : fine r -> fine (res_map f r).
Proof. destruct r; simpl; auto. Qed.
Lemma fine_res_bind {A B} (f : A -> res B) r : fine r -> (forall a, fine (f a)) -> fine (res_bind r f).
Proof. destruct r; simpl; auto. Qed.

(* ---------- UTF-8 decoding ---------- *)
Lemma decode1_width s : s <> [] -> (1 <= snd (decode1 s) <= length s)%nat.
Proof.
  destruct s as [|b0 r]; [congruence|]. intros _. unfold decode1.
  destruct (b0 <? 128); [simpl; lia|].
  destruct ((194 <=? b0) && (b0 <=? 223)).
  { destruct r as [|b1 r]; [simpl; lia|]. destruct (cont b1); simpl; lia. }
  destruct ((224 <=? b0) && (b0 <=? 239)).
  { destruct r as [|b1 [|b2 r]]; try (simpl; lia).
    match goal with |- context [if ?c then _ else _] => destruct c end; simpl; lia. }
  destruct ((240 <=? b0) && (b0 <=? 244)).
  { destruct r as [|b1 [|b2 [|b3 r]]]; try (simpl; lia).
    match goal with |- context [if ?c then _ else _] => destruct c end; simpl; lia. }
  simpl; lia.
Qed.

(* ---------- strconv.Unquote never runs out of fuel ---------- *)
Lemma unhex_n_len n : forall s v v' tl, unhex_n n s v = Some (v', tl) -> (length tl <= length s)%nat.
Proof.
  induction n as [|n IH]; simpl; intros s v v' tl H.
  - inversion H; subst; lia.
  - destruct s as [|c r]; [discriminate|]. destruct (unhex c); [|discriminate].
    apply IH in H. simpl. lia.
Qed.

Lemma unquote_char_shorter s r mb tl : unquote_char s = Some (r, mb, tl) -> (length tl < length s)%nat.
Proof.
  unfold unquote_char. destruct s as [|c t]; [discriminate|].
  destruct (c =? 34); [discriminate|].
  destruct (128 <=? c).
  { pose proof (decode1_width (c :: t) ltac:(discriminate)) as Hw.
    destruct (decode1 (c :: t)) as [r' w]. simpl in Hw. intros H; inversion H; subst.
    rewrite drop_length. simpl in *. lia. }
  destruct (negb (c =? 92)); [intros H; inversion H; subst; simpl; lia|].
  destruct t as [|e t2]; [discriminate|].
  repeat (match goal with |- context [if ?b then _ else _] => destruct b end;
          [try (intros H; inversion H; subst; simpl; lia)|]).
  all: try (intros H; inversion H; subst; simpl; lia).
  all: try discriminate.
  - destruct (unhex_n 2 t2 0) as [[v t3]|] eqn:E; [|discriminate].
    apply unhex_n_len in E. intros H; inversion H; subst; simpl; lia.
  - destruct (unhex_n 4 t2 0) as [[v t3]|] eqn:E; [|discriminate].
    apply unhex_n_len in E. destruct (valid_rune v); [|discriminate]. intros H; inversion H; subst; simpl; lia.
  - destruct (unhex_n 8 t2 0) as [[v t3]|] eqn:E; [|discriminate].
    apply unhex_n_len in E. destruct (valid_rune v); [|discriminate]. intros H; inversion H; subst; simpl; lia.
  - destruct t2 as [|d1 [|d2 t3]]; try discriminate.
    destruct (octd d1); [|discriminate]. destruct (octd d2); [|discriminate].
    match goal with |- context [if ?b then _ else _] => destruct b end; [discriminate|].
    intros H; inversion H; subst; simpl; lia.
Qed.

Lemma unquote_body_fine fuel : forall s, (length s < fuel)%nat -> fine (unquote_body fuel s).
Proof.
  induction fuel as [|f IH]; intros s Hl; [lia|]. simpl.
  destruct s as [|c tl]; [simpl; discriminate|].
  destruct (c =? 34). { destruct tl; simpl; [exact I|discriminate]. }
  destruct (c =? 10); [simpl; discriminate|].
  destruct (unquote_char (c :: tl)) as [[[r mb] tail]|] eqn:E; [|simpl; discriminate].
  apply unquote_char_shorter in E. apply fine_res_map. apply IH. simpl in *. lia.
Qed.

Lemma go_unquote_fine s : fine (go_unquote s).
Proof.
  unfold go_unquote. destruct s as [|c [|d body]]; try (simpl; discriminate).
  - destruct c; try (simpl; discriminate). repeat (destruct p; try (simpl; discriminate)).
  - assert (Hf : fine (unquote_body (length (c :: d :: body)) (d :: body))) by (apply unquote_body_fine; simpl; lia).
    destruct c; try (simpl; discriminate). repeat (destruct p; try (simpl; discriminate)). exact Hf.
Qed.

Lemma dropw_length {A} (f : A -> bool) l : (length (dropw f l) <= length l)%nat.
Proof. induction l as [|x r IH]; simpl; [lia|]. destruct (f x); simpl; lia. Qed.

(* ---------- the UTF-8 lexer and parser: total, no panic, fuel suffices ---------- *)
Section Total.
  Variable is_space : Z -> bool.
  Variable compiles : list Z -> bool.
  Notation scan_go := (scan_go is_space).
  Notation scan := (scan is_space).
  Notation peek := (peek is_space).
  Notation pstep := (pstep is_space compiles).
  Notation parse_loop := (parse_loop is_space compiles).

  (* what a lexer call can return: never a panic; an error code that is neither "fuel" nor "eof"; a token that,
     unless it is the EOF token, consumed at least one rune *)
  Definition lex_ok (rs : list (Z * list Z)) (out : res token * list (Z * list Z)) : Prop :=
    match out with
    | (Panic, _) => False
    | (Err e, _) => e <> "fuel" /\ e <> "eof"
    | (Ok t, r) => (length r <= length rs)%nat /\ (t_kind t <> TEOF -> (length r < length rs)%nat)
    end.

  Lemma scan_operator_ok rs : rs <> [] -> lex_ok rs (scan_operator rs).
  Proof.
    destruct rs as [|x r]; [congruence|]. intros _. unfold scan_operator.
    destruct (fst x =? 33).
    { destruct r as [|y r']; [simpl; split; discriminate|].
      destruct (fst y =? 61); [simpl; split; [lia|intros _; lia]|].
      destruct (fst y =? 126); [simpl; split; [lia|intros _; lia]|]. simpl; split; discriminate. }
    destruct (fst x =? 61); [|simpl; split; discriminate].
    destruct r as [|y r']; [simpl; split; [lia|intros _; lia]|].
    destruct (fst y =? 126); simpl; split; try lia; intros _; lia.
  Qed.

  Lemma quoted_body_len rs : forall esc a b, quoted_body rs esc = Some (a, b) -> (length b < length rs)%nat.
  Proof.
    induction rs as [|x r IH]; simpl; intros esc a b H; [discriminate|].
    destruct esc.
    { destruct (quoted_body r false) as [[a' b']|] eqn:E; simpl in H; [|discriminate].
      inversion H; subst. apply IH in E. simpl in *. lia. }
    destruct (fst x =? 92).
    { destruct (quoted_body r true) as [[a' b']|] eqn:E; simpl in H; [|discriminate].
      inversion H; subst. apply IH in E. simpl in *. lia. }
    destruct (fst x =? 34); [inversion H; subst; lia|].
    destruct (quoted_body r false) as [[a' b']|] eqn:E; simpl in H; [|discriminate].
    inversion H; subst. apply IH in E. simpl in *. lia.
  Qed.

  Lemma scan_quoted_ok rs : lex_ok rs (scan_quoted rs).
  Proof.
    unfold scan_quoted. destruct rs as [|x r]; [simpl; split; discriminate|].
    destruct (fst x =? 34); [|simpl; split; discriminate].
    destruct (quoted_body r false) as [[a b]|] eqn:E; [|simpl; split; discriminate].
    apply quoted_body_len in E. simpl. split; [lia|intros _; lia].
  Qed.

  Lemma scan_go_ok rs : lex_ok rs (scan_go rs).
  Proof.
    induction rs as [|x r IH]; [simpl; split; [lia|congruence]|].
    cbn [MatcherSyntax.scan_go].
    destruct (fst x =? 123); [simpl; split; [lia|intros _; lia]|].
    destruct (fst x =? 125); [simpl; split; [lia|intros _; lia]|].
    destruct (fst x =? 44); [simpl; split; [lia|intros _; lia]|].
    destruct ((fst x =? 61) || (fst x =? 33)); [apply scan_operator_ok; discriminate|].
    destruct (fst x =? 34); [apply scan_quoted_ok|].
    destruct (negb (is_reserved is_space (fst x))) eqn:Er.
    { unfold scan_unquoted. simpl. rewrite Er. pose proof (dropw_length (fun x => negb (is_reserved is_space (fst x))) r).
      split; [lia|intros _; lia]. }
    destruct (is_space (fst x)); [|simpl; split; discriminate].
    unfold lex_ok in *. destruct (scan_go r) as [[t| e|] r']; [|exact IH|exact IH].
    destruct IH as [H1 H2]. simpl. split; [lia|]. intros Hk. specialize (H2 Hk). lia.
  Qed.

  Definition lxlen (l : lexer) : nat := length (lx_rest l).

  Lemma scan_cases l :
    match scan l with
    | (Panic, _) => False
    | (Err e, l') => e <> "fuel" /\ e <> "eof" /\ lx_rest l' = lx_rest l \/ e <> "fuel" /\ e <> "eof"
    | (Ok t, l') => lx_err l = false /\ lx_err l' = false /\ (lxlen l' <= lxlen l)%nat /\
                    (t_kind t <> TEOF -> (lxlen l' < lxlen l)%nat)
    end.
  Proof.
    unfold MatcherSyntax.scan. destruct (lx_err l) eqn:El.
    { left. repeat split; discriminate. }
    pose proof (scan_go_ok (lx_rest l)) as H. unfold lex_ok in H.
    destruct (scan_go (lx_rest l)) as [[t|e|] r]; [|right; exact H|exact H].
    destruct H as [H1 H2]. unfold lxlen. simpl. auto.
  Qed.

  Lemma peek_cases l :
    match peek l with
    | (Panic, _) => False
    | (Err e, l1) => e <> "fuel" /\ e <> "eof" /\ lx_rest l1 = lx_rest l
    | (Ok t, l1) => l1 = l /\ exists l2, scan l = (Ok t, l2) /\ lx_err l2 = false /\ (lxlen l2 <= lxlen l)%nat /\
                    (t_kind t <> TEOF -> (lxlen l2 < lxlen l)%nat)
    end.
  Proof.
    unfold MatcherSyntax.peek. pose proof (scan_cases l) as H.
    destruct (scan l) as [[t|e|] l2]; [| |exact H].
    - destruct H as (H0 & H1 & H2 & H3). simpl. rewrite H1. split.
      + destruct l as [r e]; simpl in *. subst. reflexivity.
      + exists l2. auto.
    - simpl. destruct H as [(?&?&?)|(?&?)]; auto.
  Qed.

  Lemma one_of_in t ks : one_of t ks = true -> In (t_kind t) ks.
  Proof.
    unfold one_of. rewrite existsb_exists. intros [k [Hin Hk]]. unfold beq in Hk. apply bool_decide_eq_true in Hk. subst. exact Hin.
  Qed.

  Lemma is_eof_false t : is_eof t = false -> t_kind t <> TEOF.
  Proof. unfold is_eof. intros H E. rewrite E in H. discriminate. Qed.

  Lemma expect_peek_cases l ks :
    match expect_peek is_space l ks with
    | (Panic, _) => False
    | (Err e, l1) => e <> "fuel" /\ lx_rest l1 = lx_rest l
    | (Ok t, l1) => l1 = l /\ one_of t ks = true /\ t_kind t <> TEOF /\
                    exists l2, scan l = (Ok t, l2) /\ lx_err l2 = false /\ (lxlen l2 < lxlen l)%nat
    end.
  Proof.
    unfold expect_peek. pose proof (peek_cases l) as H.
    destruct (peek l) as [[t|e|] l1]; simpl; [| |exact H].
    - destruct H as [-> [l2 (Hs & He & Hle & Hlt)]].
      destruct (is_eof t) eqn:Ee; [split; [discriminate|reflexivity]|].
      destruct (one_of t ks) eqn:Eo; [|split; [discriminate|reflexivity]].
      apply is_eof_false in Ee. repeat split; auto. exists l2. auto.
    - destruct H as (?&?&?). auto.
  Qed.

  Lemma accept_peek_cases l ks :
    match accept_peek is_space l ks with
    | (Panic, _) => False
    | (Err e, l1) => e <> "fuel" /\ lx_rest l1 = lx_rest l
    | (Ok b, l1) => l1 = l /\ exists t l2, b = one_of t ks /\ t_kind t <> TEOF /\
                    scan l = (Ok t, l2) /\ lx_err l2 = false /\ (lxlen l2 < lxlen l)%nat
    end.
  Proof.
    unfold accept_peek. pose proof (peek_cases l) as H.
    destruct (peek l) as [[t|e|] l1]; simpl; [| |exact H].
    - destruct H as [-> [l2 (Hs & He & Hle & Hlt)]].
      destruct (is_eof t) eqn:Ee; [split; [discriminate|reflexivity]|].
      apply is_eof_false in Ee. split; [reflexivity|]. exists t, l2. auto.
    - destruct H as (?&?&?). auto.
  Qed.

  Lemma expect_cases l ks :
    match expect is_space l ks with
    | (Panic, _) => False
    | (Err e, l1) => e <> "fuel" /\ lx_rest l1 = lx_rest l
    | (Ok t, l2) => one_of t ks = true /\ (lxlen l2 < lxlen l)%nat
    end.
  Proof.
    unfold expect. pose proof (expect_peek_cases l ks) as H.
    destruct (expect_peek is_space l ks) as [[t|e|] l1]; [|exact H|exact H].
    destruct H as (-> & Ho & Hk & l2 & Hs & He & Hlt). rewrite Hs. auto.
  Qed.

  Lemma accept_cases l ks :
    match accept is_space l ks with
    | (Panic, _) => False
    | (Err e, l1) => e <> "fuel" /\ lx_rest l1 = lx_rest l
    | (Ok b, l2) => (lxlen l2 <= lxlen l)%nat
    end.
  Proof.
    unfold accept. pose proof (accept_peek_cases l ks) as H.
    destruct (accept_peek is_space l ks) as [[b|e|] l1]; [|exact H|exact H].
    destruct H as (-> & t & l2 & Hb & Hk & Hs & He & Hlt).
    destruct b; [rewrite Hs; lia|lia].
  Qed.

  Lemma tok_unquote_fine t : fine (tok_unquote t).
  Proof.
    unfold tok_unquote. destruct (beq (t_kind t) TQuoted); [|exact I].
    apply fine_res_bind; [apply go_unquote_fine|]. intros u. destruct (valid_utf8 u); simpl; [exact I|discriminate].
  Qed.
