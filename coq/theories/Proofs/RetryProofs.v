(* Proofs about Model/Retry.v: retry policy (for all scripts, tick sequences and deadlines), record-after-success,
   sibling isolation. *)
From AM Require Import Base.Prelude Model.TemplateData Model.Retry Proofs.TemplateDataProofs.

(* the k-th Notify call gets the k-th entry of the script (recoverable failure once the script is exhausted) *)
Definition script_at (script : list outcome) (k : nat) : outcome := nth k script ORecov.

Lemma script_at_tl script k : script_at (tl script) k = script_at script (S k).
Proof. destruct script; [destruct k; reflexivity|reflexivity]. Qed.
Lemma script_at_0 script : script_at script 0 = hd ORecov script.
Proof. destruct script; reflexivity. Qed.

(* one unfolding step of the loop, as an equation *)
Lemma retry_loop_eq dl ticks script now i ierr :
  retry_loop dl ticks script now i ierr =
  if dl <=? now then ([], FCanceled now ierr) else
  match ticks with
  | [] => ([], FCanceled dl ierr)
  | t :: ticks' =>
    let a := Z.max t now in
    if dl <? a then ([], FCanceled dl ierr) else
    let o := hd ORecov script in
    match o with
    | OOk => ([(a, o)], FOk a)
    | OUnrecov => ([(a, o)], FUnrecov a)
    | OHang false => ([(a, o)], FUnrecov dl)
    | OHang true => ([(a, o)], FCanceled dl ierr)
    | ORecov =>
      let '(l, f) := retry_loop dl ticks' (tl script) a (S i) (if a <? dl then Some (S i) else ierr) in
      ((a, o) :: l, f)
    end
  end.
Proof. destruct ticks; reflexivity. Qed.

(* a first attempt happens iff the context is live and a tick occurs no later than the deadline *)
Lemma retry_loop_first dl ticks script now i ierr :
  fst (retry_loop dl ticks script now i ierr) <> [] <->
  now < dl /\ exists t ticks', ticks = t :: ticks' /\ Z.max t now <= dl.
Proof.
  rewrite retry_loop_eq. destruct (dl <=? now) eqn:E1.
  { simpl. split; [congruence|lia]. }
  destruct ticks as [|t ticks'].
  { simpl. split; [congruence|]. intros (_ & t & tk & [=] & _). }
  cbv zeta. destruct (dl <? Z.max t now) eqn:E2.
  { simpl. split; [congruence|]. intros (_ & t' & tk & [= <- <-] & H). lia. }
  assert (Hne : forall x (l : list (Z * outcome)), x :: l <> []) by (intros; discriminate).
  split.
  - intros _. split; [lia|]. exists t, ticks'. split; [reflexivity|lia].
  - intros _. destruct (hd ORecov script) as [| | |[]]; simpl; try apply Hne.
    destruct (retry_loop dl ticks' (tl script) (Z.max t now) (S i) _). simpl. apply Hne.
Qed.

(* ----- no attempt starts after the deadline; attempts never go back in time ----- *)
Lemma retry_loop_before_deadline dl ticks : forall script now i ierr,
  Forall (fun p => now <= fst p <= dl) (fst (retry_loop dl ticks script now i ierr)).
Proof.
  induction ticks as [|t ticks' IH]; intros script now i ierr; rewrite retry_loop_eq.
  { destruct (dl <=? now); constructor. }
  destruct (dl <=? now) eqn:E1; [constructor|]. cbv zeta.
  destruct (dl <? Z.max t now) eqn:E2; [constructor|].
  assert (Ha : now <= Z.max t now <= dl) by lia.
  destruct (hd ORecov script) as [| | |[]]; simpl; try (constructor; [exact Ha|constructor]).
  specialize (IH (tl script) (Z.max t now) (S i) (if Z.max t now <? dl then Some (S i) else ierr)).
  destruct (retry_loop dl ticks' (tl script) (Z.max t now) (S i) _) as [l f]. simpl in *.
  constructor; [exact Ha|]. eapply Forall_impl; [exact IH|]. intros p Hp. simpl in Hp. lia.
Qed.

(* ----- the k-th attempt has the k-th scripted outcome ----- *)
Lemma retry_loop_outcomes dl ticks : forall script now i ierr k a o,
  fst (retry_loop dl ticks script now i ierr) !! k = Some (a, o) -> o = script_at script k.
Proof.
  induction ticks as [|t ticks' IH]; intros script now i ierr k a o; rewrite retry_loop_eq.
  { destruct (dl <=? now); simpl; intros H; inversion H. }
  destruct (dl <=? now) eqn:E1; [simpl; intros H; inversion H|]. cbv zeta.
  destruct (dl <? Z.max t now) eqn:E2; [simpl; intros H; inversion H|].
  destruct (hd ORecov script) as [| | |[]] eqn:Eo;
    try (simpl; destruct k; simpl; [intros [= <- <-]; rewrite script_at_0; symmetry; exact Eo|intros H; inversion H]).
  specialize (IH (tl script) (Z.max t now) (S i) (if Z.max t now <? dl then Some (S i) else ierr)).
  destruct (retry_loop dl ticks' (tl script) (Z.max t now) (S i) _) as [l f]. simpl in *.
  destruct k; simpl.
  - intros [= <- <-]. rewrite script_at_0. symmetry. exact Eo.
  - intros H. rewrite <- script_at_tl. eapply IH. exact H.
Qed.

(* ----- only a recoverable failure is followed by another attempt ----- *)
Lemma retry_loop_stop dl ticks : forall script now i ierr k a o,
  fst (retry_loop dl ticks script now i ierr) !! k = Some (a, o) ->
  is_Some (fst (retry_loop dl ticks script now i ierr) !! S k) -> o = ORecov.
Proof.
  induction ticks as [|t ticks' IH]; intros script now i ierr k a o; rewrite retry_loop_eq.
  { destruct (dl <=? now); simpl; intros H; inversion H. }
  destruct (dl <=? now) eqn:E1; [simpl; intros H; inversion H|]. cbv zeta.
  destruct (dl <? Z.max t now) eqn:E2; [simpl; intros H; inversion H|].
  destruct (hd ORecov script) as [| | |[]] eqn:Eo;
    try (simpl; destruct k; simpl; intros H [x Hx]; inversion Hx; fail).
  specialize (IH (tl script) (Z.max t now) (S i) (if Z.max t now <? dl then Some (S i) else ierr)).
  destruct (retry_loop dl ticks' (tl script) (Z.max t now) (S i) _) as [l f]. simpl in *.
  destruct k; simpl.
  - intros [= <- <-] _. reflexivity.
  - intros H Hs. eapply IH; [exact H|exact Hs].
Qed.

(* ----- a recoverable failure is followed by another attempt iff the context is still live and the next
         tick occurs no later than the deadline ----- *)
Lemma retry_loop_next dl ticks : forall script now i ierr k a,
  fst (retry_loop dl ticks script now i ierr) !! k = Some (a, ORecov) ->
  (is_Some (fst (retry_loop dl ticks script now i ierr) !! S k) <->
   a < dl /\ exists t', ticks !! S k = Some t' /\ t' <= dl).
Proof.
  induction ticks as [|t ticks' IH]; intros script now i ierr k a.
  { rewrite retry_loop_eq. destruct (dl <=? now); simpl; intros H; inversion H. }
  pose proof (retry_loop_first dl ticks' (tl script) (Z.max t now) (S i)
                (if Z.max t now <? dl then Some (S i) else ierr)) as Hfirst.
  rewrite retry_loop_eq.
  destruct (dl <=? now) eqn:E1; [simpl; intros H; inversion H|]. cbv zeta.
  destruct (dl <? Z.max t now) eqn:E2; [simpl; intros H; inversion H|].
  destruct (hd ORecov script) as [| | |[]] eqn:Eo;
    try (simpl; destruct k; simpl; intros H; inversion H; fail).
  specialize (IH (tl script) (Z.max t now) (S i) (if Z.max t now <? dl then Some (S i) else ierr)).
  destruct (retry_loop dl ticks' (tl script) (Z.max t now) (S i) _) as [l f]. simpl in *.
  destruct k; simpl.
  - intros [= <-]. split.
    + intros Hs. assert (Hne : l <> []) by (destruct l; [destruct Hs as [x Hx]; inversion Hx|discriminate]).
      apply Hfirst in Hne. destruct Hne as (Hlt & t0 & tk & -> & Hm). split; [exact Hlt|].
      exists t0. split; [reflexivity|lia].
    + intros (Hlt & t' & Ht & Hle). destruct ticks' as [|t0 tk]; [inversion Ht|]. simpl in Ht. injection Ht as ->.
      assert (Hne : l <> []).
      { apply Hfirst. split; [exact Hlt|]. exists t', tk. split; [reflexivity|lia]. }
      destruct l; [congruence|]. eexists. reflexivity.
  - intros H. apply IH. exact H.
Qed.

(* ----- how the loop ends is determined by the last attempt ----- *)
Definition last_outcome (l : list (Z * outcome)) : option outcome := option_map snd (last l).

Lemma retry_loop_fin dl ticks : forall script now i ierr,
  let '(l, f) := retry_loop dl ticks script now i ierr in
  match last_outcome l with
  | None => exists a, f = FCanceled a ierr
  | Some OOk => exists a, f = FOk a
  | Some OUnrecov | Some (OHang false) => exists a, f = FUnrecov a
  | Some ORecov | Some (OHang true) => exists a last, f = FCanceled a last
  end.
Proof.
  induction ticks as [|t ticks' IH]; intros script now i ierr; rewrite retry_loop_eq.
  { destruct (dl <=? now); simpl; eauto. }
  destruct (dl <=? now) eqn:E1; [simpl; eauto|]. cbv zeta.
  destruct (dl <? Z.max t now) eqn:E2; [simpl; eauto|].
  destruct (hd ORecov script) as [| | |[]] eqn:Eo; try (simpl; eauto; fail).
  specialize (IH (tl script) (Z.max t now) (S i) (if Z.max t now <? dl then Some (S i) else ierr)).
  destruct (retry_loop dl ticks' (tl script) (Z.max t now) (S i) _) as [l f].
  unfold last_outcome in *. destruct l as [|p l]; [simpl in *; destruct IH; eauto|].
  change (last ((Z.max t now, ORecov) :: p :: l)) with (last (p :: l)).
  destruct (last (p :: l)) eqn:El; [exact IH|]. apply last_None in El. discriminate.
Qed.

(* the stage returns an error unless the last attempt succeeded *)
Lemma retry_loop_err dl ticks script now i ierr :
  let '(l, f) := retry_loop dl ticks script now i ierr in
  (fin_err f = None <-> last_outcome l = Some OOk).
Proof.
  pose proof (retry_loop_fin dl ticks script now i ierr) as H.
  destruct (retry_loop dl ticks script now i ierr) as [l f].
  destruct (last_outcome l) as [[| | |[]]|]; destruct H as (a & H); try destruct H as (b & H); subst f; simpl;
    split; congruence.
Qed.

(* ----- statements about exec ----- *)

Definition runs (send_resolved : bool) (firing_ctx : option nat) : bool :=
  send_resolved || match firing_ctx with Some (S _) => true | _ => false end.

Lemma retry_exec_runs sr fc alerts start dl ticks script :
  runs sr fc = true ->
  retry_exec sr fc alerts start dl ticks script =
    let '(l, f) := retry_loop dl ticks script start 0 None in
    mkRR l (if sr then alerts else filter (fun a => firing_at start a) alerts)
         (fin_err f) (fin_out f alerts) (fin_at f).
Proof.
  unfold runs, retry_exec. destruct sr; simpl.
  - intros _. destruct (retry_loop dl ticks script start 0 None). reflexivity.
  - destruct fc as [[|n]|]; try discriminate. intros _.
    destruct (retry_loop dl ticks script start 0 None). reflexivity.
Qed.

Lemma retry_exec_attempts sr fc alerts start dl ticks script :
  r_attempts (retry_exec sr fc alerts start dl ticks script) =
  if runs sr fc then fst (retry_loop dl ticks script start 0 None) else [].
Proof.
  destruct (runs sr fc) eqn:E.
  - rewrite retry_exec_runs by exact E. destruct (retry_loop dl ticks script start 0 None). reflexivity.
  - unfold runs, retry_exec in *. destruct sr; [discriminate|]. destruct fc as [[|n]|]; try discriminate; reflexivity.
Qed.

Section RetrySpec.
  Variables (sr : bool) (fc : option nat) (alerts : list alert) (start dl : Z)
            (ticks : list Z) (script : list outcome).
  Let r := retry_exec sr fc alerts start dl ticks script.

  (* I12: no attempt starts strictly after the deadline (nor before the stage started) *)
  Lemma retry_no_attempt_after_deadline k a o :
    r_attempts r !! k = Some (a, o) -> start <= a <= dl.
  Proof.
    subst r. rewrite retry_exec_attempts. destruct (runs sr fc); [|intros H; inversion H].
    intros H. pose proof (retry_loop_before_deadline dl ticks script start 0 None) as F.
    rewrite Forall_lookup in F. apply (F k (a, o) H).
  Qed.

  Lemma retry_attempt_outcome k a o :
    r_attempts r !! k = Some (a, o) -> o = script_at script k.
  Proof.
    subst r. rewrite retry_exec_attempts. destruct (runs sr fc); [|intros H; inversion H].
    apply retry_loop_outcomes.
  Qed.

  (* success, an unrecoverable error and a hang are each the LAST attempt *)
  Lemma retry_stops k a o :
    r_attempts r !! k = Some (a, o) -> o <> ORecov -> r_attempts r !! S k = None.
  Proof.
    subst r. rewrite retry_exec_attempts. destruct (runs sr fc); [|intros H; inversion H].
    intros H Hne. destruct (fst (retry_loop dl ticks script start 0 None) !! S k) eqn:E; [|reflexivity].
    exfalso. apply Hne. eapply retry_loop_stop; [exact H|]. rewrite E. eexists. reflexivity.
  Qed.

  (* recoverable => next attempt iff (context live and) a tick occurs no later than the deadline *)
  Lemma retry_recoverable_next k a :
    r_attempts r !! k = Some (a, ORecov) ->
    (is_Some (r_attempts r !! S k) <-> a < dl /\ exists t', ticks !! S k = Some t' /\ t' <= dl).
  Proof.
    subst r. rewrite retry_exec_attempts. destruct (runs sr fc); [|intros H; inversion H].
    apply retry_loop_next.
  Qed.

  (* the error verdict: when the stage ran its loop, no error iff the last attempt succeeded *)
  Lemma retry_error_iff :
    runs sr fc = true ->
    (r_err r = None <-> last_outcome (r_attempts r) = Some OOk).
  Proof.
    intros Hr. subst r. rewrite retry_exec_runs by exact Hr.
    pose proof (retry_loop_err dl ticks script start 0 None) as H.
    destruct (retry_loop dl ticks script start 0 None) as [l f]. simpl. exact H.
  Qed.

  Lemma retry_error_class :
    runs sr fc = true ->
    match last_outcome (r_attempts r) with
    | None => r_err r = Some (ECanceled None)                            (* deadline before any attempt *)
    | Some OOk => r_err r = None
    | Some OUnrecov | Some (OHang false) => r_err r = Some EUnrecov
    | Some ORecov | Some (OHang true) => exists last, r_err r = Some (ECanceled last)
    end.
  Proof.
    intros Hr. subst r. rewrite retry_exec_runs by exact Hr.
    pose proof (retry_loop_fin dl ticks script start 0 None) as H.
    destruct (retry_loop dl ticks script start 0 None) as [l f]. simpl.
    destruct (last_outcome l) as [[| | |[]]|]; destruct H as (a & H); try destruct H as (b & H); subst f; simpl; eauto.
  Qed.

  (* what is handed to the integration: the batch, minus resolved alerts when send_resolved is off *)
  Lemma retry_sent :
    r_attempts r <> [] ->
    r_sent r = if sr then alerts else filter (fun a => firing_at start a) alerts.
  Proof.
    subst r. destruct (runs sr fc) eqn:Hr.
    - rewrite retry_exec_runs by exact Hr. destruct (retry_loop dl ticks script start 0 None). reflexivity.
    - rewrite retry_exec_attempts, Hr. congruence.
  Qed.

  (* "nothing to send": send_resolved off and no firing alert => no attempt, no error, the batch goes on to
     SetNotifies (bookkeeping write) *)
  Lemma retry_nothing_to_send :
    sr = false -> fc = Some O ->
    r_attempts r = [] /\ r_err r = None /\ r_out r = alerts.
  Proof. intros -> ->. subst r. unfold retry_exec. auto. Qed.

  (* no error => every alert of the batch goes on to SetNotifies *)
  Lemma retry_ok_out : r_err r = None -> r_out r = alerts.
  Proof.
    subst r. unfold retry_exec.
    destruct sr; [|destruct fc as [[|n]|]]; simpl; try discriminate; try reflexivity;
      destruct (retry_loop dl ticks script start 0 None) as [l [a|a|a last]]; simpl; try discriminate; reflexivity.
  Qed.
End RetrySpec.

(* ---------- receiver pipeline ---------- *)

Definition notifies_of (i : nat) (evs : list event) : list (Z * outcome) :=
  omap (fun e => match e with EvNotify j t o => if decide (j = i) then Some (t, o) else None | _ => None end) evs.

Lemma chain_events_own i g alerts start dl e :
  e ∈ c_events (chain i g alerts start dl) ->
  match e with EvNotify j _ _ | EvLog j _ => j = i end.
Proof.
  unfold chain. destruct alerts as [|a0 al]; [simpl; intros H; inversion H|].
  destruct (negb (g_needs_update g)); [simpl; intros H; inversion H|].
  set (r := retry_exec _ _ _ _ _ _ _).
  assert (Hev : forall e, e ∈ map (fun '(t, o) => EvNotify i t o) (r_attempts r) ->
                          match e with EvNotify j _ _ | EvLog j _ => j = i end).
  { intros e' He. apply elem_of_list_fmap in He. destruct He as ([t o] & -> & _). reflexivity. }
  destruct (r_err r); [simpl; apply Hev|].
  destruct (r_out r); [simpl; apply Hev|]. simpl.
  intros H. apply elem_of_app in H. destruct H as [H|H]; [apply Hev; exact H|].
  apply elem_of_list_singleton in H. subst e. reflexivity.
Qed.

(* record-after-success: in the events of a chain, a Log is the last event, happens only when the stage
   reported no error, and is immediately preceded by a successful Notify of the same integration — unless the
   integration has send_resolved off and no alert of the batch fires (the bookkeeping write, no Notify at all) *)
Lemma chain_record_after_success i g alerts start dl pre post t :
  c_events (chain i g alerts start dl) = pre ++ EvLog i t :: post ->
  post = [] /\
  ((exists pre' a, pre = pre' ++ [EvNotify i a OOk]) \/
   (pre = [] /\ g_send_resolved g = false /\ filter (fun a => firing_at start a) alerts = [])).
Proof.
  unfold chain. destruct alerts as [|a0 al]; [simpl; intros H; destruct pre; inversion H|].
  destruct (negb (g_needs_update g)); [simpl; intros H; destruct pre; inversion H|].
  set (alerts := a0 :: al) in *.
  set (fc := Some (length (filter (fun a => firing_at start a) alerts))).
  pose proof (retry_error_iff (g_send_resolved g) fc alerts start dl (g_ticks g) (g_script g)) as Herr.
  pose proof (retry_nothing_to_send (g_send_resolved g) fc alerts start dl (g_ticks g) (g_script g)) as Hnts.
  set (r := retry_exec (g_send_resolved g) fc alerts start dl (g_ticks g) (g_script g)) in *.
  set (evs := map (fun '(t0, o) => EvNotify i t0 o) (r_attempts r)).
  assert (Hnolog : forall p q t', evs <> p ++ EvLog i t' :: q).
  { intros p q t' E. assert (Hin : EvLog i t' ∈ evs) by (rewrite E; apply elem_of_app; right; left).
    apply elem_of_list_fmap in Hin. destruct Hin as ([t0 o] & Hx & _). discriminate. }
  destruct (r_err r) eqn:Ee; [simpl; intros H; exfalso; eapply Hnolog; exact H|].
  destruct (r_out r) eqn:Eo; [simpl; intros H; exfalso; eapply Hnolog; exact H|]. simpl.
  intros H.
  assert (Hpost : post = [] /\ pre = evs).
  { destruct post as [|x post'].
    - apply app_inj_tail in H. destruct H as [-> _]. auto.
    - exfalso. assert (Hl : last (evs ++ [EvLog i (r_end r)]) = last (pre ++ EvLog i t :: x :: post')) by (rewrite H; reflexivity).
      rewrite last_snoc in Hl.
      assert (exists q y, EvLog i t :: x :: post' = q ++ [y] /\ q <> []) as (q & y & Hq & Hqne).
      { destruct (exists_last (l := x :: post')) as (q' & y & Hq'); [discriminate|].
        exists (EvLog i t :: q'), y. rewrite Hq'. split; [reflexivity|discriminate]. }
      rewrite Hq, app_assoc, last_snoc in Hl. injection Hl as <-.
      rewrite Hq, app_assoc in H. apply app_inj_tail in H. destruct H as [H _].
      destruct q as [|z q]; [congruence|]. injection Hq as <- Hq2.
      eapply Hnolog. exact H. }
  destruct Hpost as [-> ->]. split; [reflexivity|].
  destruct (runs (g_send_resolved g) fc) eqn:Hr.
  - left. clear Hr. pose proof (proj1 (Herr eq_refl) eq_refl) as Hr.
    unfold last_outcome in Hr. destruct (last (r_attempts r)) as [[a1 o1]|] eqn:El; [|discriminate].
    simpl in Hr. injection Hr as ->.
    destruct (exists_last (l := r_attempts r)) as (l' & x & Hl'); [intros E; rewrite E in El; discriminate|].
    rewrite Hl', last_snoc in El. injection El as ->.
    exists (map (fun '(t0, o) => EvNotify i t0 o) l'), a1. subst evs. rewrite Hl', map_app. reflexivity.
  - right. unfold runs in Hr. destruct (g_send_resolved g) eqn:Esr; [discriminate|]. simpl in Hr.
    subst fc. destruct (filter (fun a => firing_at start a) alerts) eqn:Ef; [|simpl in Hr; discriminate].
    destruct Hnts as (Hna & _); [reflexivity|reflexivity|]. subst evs. rewrite Hna. auto.
Qed.

(* the chain of integration i (its Notify calls, its Log, its verdict) is a function of i's own configuration
   and script only: fanout_from computes it without looking at any other integration *)
Lemma fanout_from_lookup gs : forall i0 alerts start dl j g,
  gs !! j = Some g ->
  fanout_from i0 gs alerts start dl !! j = Some (chain (i0 + j) g alerts start dl).
Proof.
  induction gs as [|g0 gs IH]; intros i0 alerts start dl j g H; [inversion H|].
  destruct j; simpl in *.
  - injection H as ->. rewrite Nat.add_0_r. reflexivity.
  - rewrite (IH (S i0) alerts start dl j g H). f_equal. f_equal. lia.
Qed.

Lemma fanout_length gs : forall i0 alerts start dl, length (fanout_from i0 gs alerts start dl) = length gs.
Proof. induction gs as [|g gs IH]; intros; simpl; [reflexivity|]. rewrite IH. reflexivity. Qed.

Lemma fanout_isolation gs gs' alerts start dl j g :
  gs !! j = Some g -> gs' !! j = Some g ->
  fanout gs alerts start dl !! j = fanout gs' alerts start dl !! j.
Proof.
  intros H H'. unfold fanout.
  rewrite (fanout_from_lookup gs 0 alerts start dl j g H), (fanout_from_lookup gs' 0 alerts start dl j g H').
  reflexivity.
Qed.

Lemma fanout_failed_iff gs alerts start dl :
  fanout_failed (fanout gs alerts start dl) = true <->
  exists j g, gs !! j = Some g /\ c_failed (chain j g alerts start dl) = true.
Proof.
  unfold fanout_failed, fanout. rewrite existsb_exists. split.
  - intros (c & Hin & Hf). apply elem_of_list_In, elem_of_list_lookup in Hin. destruct Hin as (j & Hj).
    assert (Hlt : (j < length gs)%nat).
    { rewrite <- (fanout_length gs 0 alerts start dl). eapply lookup_lt_Some. exact Hj. }
    destruct (lookup_lt_is_Some_2 gs j Hlt) as (g & Hg).
    rewrite (fanout_from_lookup gs 0 alerts start dl j g Hg) in Hj. injection Hj as <-.
    exists j, g. auto.
  - intros (j & g & Hg & Hf). exists (chain j g alerts start dl). split; [|exact Hf].
    apply elem_of_list_In, elem_of_list_lookup. exists j.
    rewrite (fanout_from_lookup gs 0 alerts start dl j g Hg). reflexivity.
Qed.

(* integration j sends and logs iff j's own chain succeeds *)
Lemma chain_logs_iff i g alerts start dl :
  (exists t, EvLog i t ∈ c_events (chain i g alerts start dl)) <->
  alerts <> [] /\ g_needs_update g = true /\
  r_err (retry_exec (g_send_resolved g) (Some (length (filter (fun a => firing_at start a) alerts)))
                    alerts start dl (g_ticks g) (g_script g)) = None.
Proof.
  unfold chain. destruct alerts as [|a0 al].
  { simpl. split; [intros (t & H); inversion H|intros (H & _); congruence]. }
  destruct (g_needs_update g); simpl.
  2:{ split; [intros (t & H); inversion H|intros (_ & H & _); discriminate]. }
  set (alerts := a0 :: al) in *.
  pose proof (retry_ok_out (g_send_resolved g) (Some (length (filter (fun a => firing_at start a) alerts)))
                alerts start dl (g_ticks g) (g_script g)) as Hout.
  set (r := retry_exec _ _ _ _ _ _ _) in *.
  assert (Hnolog : forall t, ~ EvLog i t ∈ map (fun '(t0, o) => EvNotify i t0 o) (r_attempts r)).
  { intros t Hin. apply elem_of_list_fmap in Hin. destruct Hin as ([t0 o] & Hx & _). discriminate. }
  destruct (r_err r) eqn:Ee; simpl.
  { split; [intros (t & H); exfalso; eapply Hnolog; exact H|intros (_ & _ & H); discriminate]. }
  rewrite (Hout eq_refl). simpl. split; [intros _; repeat split; discriminate|].
  intros _. exists (r_end r). apply elem_of_app. right. left.
Qed.

(* end to end for a webhook integration: RetryStage's filter composed with the webhook's max_alerts *)
Lemma payload_exact sr fc alerts start dl ticks script max g :
  0 <= max ->
  r_attempts (retry_exec sr fc alerts start dl ticks script) <> [] ->
  let sent := if sr then alerts else filter (fun a => firing_at start a) alerts in
  let listed := if max =? 0 then sent else take (Z.to_nat max) sent in
  r_sent (retry_exec sr fc alerts start dl ticks script) = sent /\
  d_alerts (fst (webhook_message max start g sent)) = map (view start) listed /\
  snd (webhook_message max start g sent) = Z.of_nat (length sent) - Z.of_nat (length listed).
Proof.
  intros Hm Hne. cbv zeta.
  split; [exact (retry_sent sr fc alerts start dl ticks script Hne)|].
  pose proof (webhook_message_spec max start g (if sr then alerts else filter (fun a => firing_at start a) alerts) Hm) as H.
  destruct (webhook_message max start g _) as [d t]. simpl. destruct H as (_ & H1 & H2 & _). auto.
Qed.

(* a chain fails iff it had something to do and its retry stage returned an error or its log write failed *)
Lemma chain_failed_iff i g alerts start dl :
  c_failed (chain i g alerts start dl) = true <->
  alerts <> [] /\ g_needs_update g = true /\
  (r_err (retry_exec (g_send_resolved g) (Some (length (filter (fun a => firing_at start a) alerts)))
                     alerts start dl (g_ticks g) (g_script g)) <> None \/ g_log_ok g = false).
Proof.
  unfold chain. destruct alerts as [|a0 al].
  { simpl. split; [discriminate|intros (H & _); congruence]. }
  destruct (g_needs_update g); simpl.
  2:{ split; [discriminate|intros (_ & H & _); discriminate]. }
  set (alerts := a0 :: al) in *.
  pose proof (retry_ok_out (g_send_resolved g) (Some (length (filter (fun a => firing_at start a) alerts)))
                alerts start dl (g_ticks g) (g_script g)) as Hout.
  set (r := retry_exec _ _ _ _ _ _ _) in *.
  destruct (r_err r) eqn:Ee; simpl.
  { split; [intros _; repeat split; try discriminate; left; discriminate|reflexivity]. }
  rewrite (Hout eq_refl). simpl. rewrite negb_true_iff. split.
  - intros H. repeat split; try discriminate. right. exact H.
  - intros (_ & _ & [H|H]); [congruence|exact H].
Qed.
