(* Proofs about Model/Semaphore.v: for every event sequence, the machine's token count is the number of GETs that
   were served and have not completed; a GET is refused iff that number is c; POSTs are never refused; the counter
   counts exactly the refusals. *)
From AM Require Import Base.Prelude Model.Semaphore.

(* ---- an independent reading of a trace: which GETs are in flight, how many were refused ---- *)
(* in-flight GETs after a trace of (event, verdict): served GET arrivals whose completion has not occurred *)
Fixpoint inflight (acc : list nat) (tr : list (ev * verdict)) : list nat :=
  match tr with
  | [] => acc
  | (Arrive id GET, Served) :: r => inflight (id :: acc) r
  | (Complete id, _) :: r => inflight (filter (fun x => x ≠ id) acc) r
  | _ :: r => inflight acc r
  end.
Definition refusals (tr : list (ev * verdict)) : nat :=
  length (filter (fun p => bool_decide (snd p = Refused503)) tr).

Definition trace (c : nat) (s : sem) (es : list ev) : list (ev * verdict) := zip es (snd (sem_run c s es)).

(* the machine invariant *)
Definition sem_inv (c : nat) (s : sem) : Prop := tokens s = length (holders s) /\ NoDup (holders s) /\ (tokens s <= c)%nat.

Lemma filter_ne_length_notin (l : list nat) id : id ∉ l -> filter (fun x => x ≠ id) l = l.
Proof.
  intros H. induction l as [|x r IH]; [reflexivity|].
  rewrite filter_cons. apply not_elem_of_cons in H as [H1 H2].
  destruct (decide (x ≠ id)) as [_|n]; [rewrite IH by exact H2; reflexivity|].
  exfalso. apply n. congruence.
Qed.

Lemma filter_ne_length_in (l : list nat) id :
  NoDup l -> id ∈ l -> S (length (filter (fun x => x ≠ id) l)) = length l.
Proof.
  intros Hnd Hin. induction l as [|x r IH]; [inversion Hin|].
  apply NoDup_cons in Hnd as [Hx Hnd]. rewrite filter_cons.
  destruct (decide (x ≠ id)) as [Hne|Heq].
  - simpl. f_equal. apply IH; [exact Hnd|]. apply elem_of_cons in Hin as [->|Hin]; [congruence|exact Hin].
  - assert (x = id) as -> by (destruct (decide (x = id)); [assumption|contradiction]).
    rewrite filter_ne_length_notin by exact Hx. reflexivity.
Qed.

Lemma sem_step_inv c s e :
  sem_inv c s -> (match e with Arrive id _ => id ∉ holders s | _ => True end) -> sem_inv c (fst (sem_step c s e)).
Proof.
  intros (Ht & Hnd & Hc) Hf. destruct e as [id [|]|id]; simpl.
  - destruct (tokens s <? c)%nat eqn:E; simpl; (split; [|split]); simpl; try assumption.
    + f_equal. exact Ht.
    + apply NoDup_cons. split; assumption.
    + apply Nat.ltb_lt in E. lia.
  - repeat split; assumption.
  - destruct (bool_decide (id ∈ holders s)) eqn:E; simpl; [|repeat split; assumption].
    apply bool_decide_eq_true in E. split; [|split]; simpl.
    + pose proof (filter_ne_length_in (holders s) id Hnd E). lia.
    + apply NoDup_filter. exact Hnd.
    + lia.
Qed.

(* one step, all clauses *)
Lemma sem_step_spec c s e :
  sem_inv c s ->
  match e with
  | Arrive id GET =>
      (snd (sem_step c s e) = Refused503 <-> (c <= length (holders s))%nat) /\
      (snd (sem_step c s e) = Served <-> (length (holders s) < c)%nat) /\
      exceeded (fst (sem_step c s e)) = (exceeded s + if bool_decide (snd (sem_step c s e) = Refused503) then 1 else 0)%nat /\
      holders (fst (sem_step c s e)) = if bool_decide (snd (sem_step c s e) = Served) then id :: holders s else holders s
  | Arrive id POST =>
      sem_step c s e = (s, Served)
  | Complete id =>
      snd (sem_step c s e) = Done /\ exceeded (fst (sem_step c s e)) = exceeded s /\
      holders (fst (sem_step c s e)) = filter (fun x => x ≠ id) (holders s)
  end.
Proof.
  intros (Ht & Hnd & Hc). destruct e as [id [|]|id]; simpl.
  - destruct (tokens s <? c)%nat eqn:E; simpl.
    + apply Nat.ltb_lt in E. repeat split; try discriminate; try lia.
    + apply Nat.ltb_ge in E. repeat split; try discriminate; try lia.
  - reflexivity.
  - destruct (bool_decide (id ∈ holders s)) eqn:E; simpl; repeat split.
    apply bool_decide_eq_false in E. symmetry. apply filter_ne_length_notin. exact E.
Qed.

(* ---- all event sequences ---- *)
Fixpoint ids_fresh (c : nat) (s : sem) (es : list ev) : Prop :=
  match es with
  | [] => True
  | e :: r => (match e with Arrive id _ => id ∉ holders s | _ => True end) /\ ids_fresh c (fst (sem_step c s e)) r
  end.

Lemma sem_run_cons c s e r :
  sem_run c s (e :: r) =
  (fst (sem_run c (fst (sem_step c s e)) r), snd (sem_step c s e) :: snd (sem_run c (fst (sem_step c s e)) r)).
Proof. simpl. destruct (sem_step c s e) as [s1 v]. simpl. destruct (sem_run c s1 r) as [s2 vs]. reflexivity. Qed.

(* the holders of the machine are exactly the in-flight GETs read off the trace *)
Lemma run_holders c es : forall s,
  sem_inv c s -> ids_fresh c s es ->
  holders (fst (sem_run c s es)) = inflight (holders s) (trace c s es) /\
  exceeded (fst (sem_run c s es)) = (exceeded s + refusals (trace c s es))%nat /\
  sem_inv c (fst (sem_run c s es)).
Proof.
  induction es as [|e r IH]; intros s Hinv Hfr.
  - simpl. unfold refusals. simpl. repeat split; try apply Hinv. lia.
  - destruct Hfr as [Hf Hfr]. unfold trace. rewrite sem_run_cons. simpl.
    pose proof (sem_step_inv c s e Hinv Hf) as Hinv'.
    pose proof (sem_step_spec c s e Hinv) as Hs.
    destruct (IH _ Hinv' Hfr) as (IH1 & IH2 & IH3). fold (trace c (fst (sem_step c s e)) r).
    rewrite IH1, IH2. split; [|split; [|exact IH3]].
    + destruct e as [id [|]|id].
      * destruct Hs as (_ & _ & _ & Hh). rewrite Hh.
        destruct (snd (sem_step c s (Arrive id GET))); reflexivity.
      * rewrite Hs. reflexivity.
      * destruct Hs as (Hv & _ & Hh). rewrite Hh. reflexivity.
    + unfold refusals at 2. rewrite filter_cons. simpl.
      destruct e as [id [|]|id].
      * destruct Hs as (_ & _ & He & _). rewrite He.
        destruct (decide (bool_decide (snd (sem_step c s (Arrive id GET)) = Refused503))) as [d|d].
        -- rewrite (Is_true_true_1 _ d). simpl. unfold refusals. lia.
        -- rewrite (Is_true_false_1 _ d). unfold refusals. lia.
      * rewrite Hs. simpl. unfold refusals. lia.
      * destruct Hs as (Hv & He & _). rewrite He, Hv. simpl. unfold refusals. lia.
Qed.

(* The property, for every event sequence from the initial machine and every prefix point: *)
Theorem get_semaphore c (pre : list ev) (e : ev) :
  ids_fresh c sem0 (pre ++ [e]) ->
  let s := fst (sem_run c sem0 pre) in
  let n := length (inflight [] (trace c sem0 pre)) in    (* GETs in flight when e arrives *)
  let v := snd (sem_step c s e) in
  (n <= c)%nat /\
  match e with
  | Arrive _ GET => (v = Refused503 <-> n = c) /\ (v = Served <-> (n < c)%nat) /\
                    exceeded (fst (sem_step c s e)) = (refusals (trace c sem0 pre) + if bool_decide (v = Refused503) then 1 else 0)%nat
  | Arrive _ POST => v = Served /\ fst (sem_step c s e) = s
  | Complete _ => v = Done
  end.
Proof.
  intros Hfr s n v.
  assert (Hfr' : ids_fresh c sem0 pre).
  { clear -Hfr. revert Hfr. generalize sem0. induction pre as [|x r IH]; intros s0 H; [exact I|].
    destruct H as [H1 H2]. split; [exact H1|]. apply IH. exact H2. }
  assert (Hinv0 : sem_inv c sem0) by (split; [reflexivity|split; [constructor|simpl; lia]]).
  destruct (run_holders c pre sem0 Hinv0 Hfr') as (Hh & He & Hinv). simpl in Hh, He. fold s in Hh, He, Hinv.
  assert (Hn : n = length (holders s)) by (subst n; rewrite Hh; reflexivity).
  pose proof (sem_step_spec c s e Hinv) as Hs. destruct Hinv as (Ht & Hnd & Hc).
  split; [lia|].
  destruct e as [id [|]|id].
  - destruct Hs as (H1 & H2 & H3 & _). fold v in H1, H2, H3. rewrite H3, He.
    split; [|split; [|reflexivity]].
    + rewrite H1. lia.
    + rewrite H2. lia.
  - rewrite Hs. split; reflexivity.
  - apply Hs.
Qed.
