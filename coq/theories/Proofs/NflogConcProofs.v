(* Linearisation-independence of the notification log's operations (C10, C04).
   nflog.Log, nflog.GC and nflog.Merge each run under the log's write lock, so a concurrent execution is some
   sequential order of them at one instant.  These lemmas show that the order does not matter for the cases the
   properties depend on: garbage collection commutes with logging a notification and with merging an unexpired
   entry.  Hence whatever position a GC takes among concurrent Log calls, the state afterwards is the same, and the
   entry of a notification delivered "during" a GC is there afterwards.  The harness (harness/nfrace) runs the real
   operations concurrently and compares against this order-independent result; an implementation whose GC is not
   atomic with respect to Log (e.g. scan under a read lock, delete later) fails it. *)
From AM Require Import Base.Prelude Gen.Consts Model.Nflog Proofs.NflogProofs.

Definition wf_st (s : st) : Prop := forall k e, s !! k = Some e -> e_ts e < e_exp e.

Lemma log_expiry_later ret now x : 0 < ret -> now < log_expiry ret now x.
Proof. intros H. unfold log_expiry. destruct (_ && _) eqn:E; [|lia]. apply andb_prop in E. lia. Qed.

Lemma log_state_lookup ret s now recv gkey f r d x k :
  0 < ret ->
  fst (step ret s now (OLog recv gkey f r d x)) !! k =
  if decide (k = skey_of gkey recv) then
    match s !! k with
    | Some p => if e_ts p <? now then Some (log_entry ret now recv gkey f r d x) else Some p
    | None => Some (log_entry ret now recv gkey f r d x)
    end
  else s !! k.
Proof.
  intros Hret. rewrite step_log_state, merge1_lookup, skey_log_entry.
  destruct (decide _) as [->|]; [|reflexivity]. unfold lww.
  pose proof (log_expiry_later ret now x Hret) as Hl.
  assert (Hexp : e_exp (log_entry ret now recv gkey f r d x) <? now = false) by (cbn; lia).
  rewrite Hexp. reflexivity.
Qed.

Lemma wf_log ret s now recv gkey f r d x :
  0 < ret -> wf_st s -> wf_st (fst (step ret s now (OLog recv gkey f r d x))).
Proof.
  intros Hret Hwf k e. rewrite log_state_lookup by exact Hret.
  pose proof (log_expiry_later ret now x Hret) as Hl.
  destruct (decide _) as [->|]; [|apply Hwf].
  destruct (s !! skey_of gkey recv) as [p|] eqn:Hp.
  - destruct (e_ts p <? now); intros [= <-]; [cbn; lia|exact (Hwf _ _ Hp)].
  - intros [= <-]. cbn. lia.
Qed.

Lemma wf_gc ret s now : wf_st s -> wf_st (fst (step ret s now OGC)).
Proof.
  intros Hwf k e. rewrite gc_lookup. destruct (s !! k) as [p|] eqn:Hp; [|discriminate].
  destruct (now <? e_exp p); [|discriminate]. intros [= <-]. exact (Hwf _ _ Hp).
Qed.

(* GC and Log at one instant commute *)
Lemma gc_log_commute ret s now recv gkey f r d x :
  0 < ret -> wf_st s ->
  fst (step ret (fst (step ret s now OGC)) now (OLog recv gkey f r d x)) =
  fst (step ret (fst (step ret s now (OLog recv gkey f r d x))) now OGC).
Proof.
  intros Hret Hwf. apply map_eq. intros k.
  rewrite log_state_lookup by exact Hret. rewrite !gc_lookup. rewrite log_state_lookup by exact Hret.
  pose proof (log_expiry_later ret now x Hret) as Hl.
  assert (Hle : now <? e_exp (log_entry ret now recv gkey f r d x) = true) by (cbn; lia).
  destruct (decide _) as [->|]; [|reflexivity].
  destruct (s !! skey_of gkey recv) as [p|] eqn:Hp.
  - pose proof (Hwf _ _ Hp) as Hw. destruct (now <? e_exp p) eqn:Hx.
    + destruct (e_ts p <? now) eqn:Ht; [rewrite Hle|rewrite Hx]; reflexivity.
    + assert (Ht : e_ts p <? now = true) by lia. rewrite Ht, Hle. reflexivity.
  - rewrite Hle. reflexivity.
Qed.

(* GC and the merge of one unexpired entry commute when expiry is monotone in the timestamp for that key *)
Lemma gc_merge1_commute ret s now e :
  now < e_exp e ->
  (forall p, s !! skey e = Some p -> e_ts e <= e_ts p -> e_exp e <= e_exp p) ->
  fst (merge1 now (fst (step ret s now OGC)) e) = fst (step ret (fst (merge1 now s e)) now OGC).
Proof.
  intros Hexp Hmono. apply map_eq. intros k.
  rewrite merge1_lookup, !gc_lookup, merge1_lookup.
  destruct (decide _) as [->|]; [|reflexivity]. unfold lww.
  assert (Hx : e_exp e <? now = false) by lia. rewrite Hx.
  assert (Hle : now <? e_exp e = true) by lia.
  destruct (s !! skey e) as [p|] eqn:Hp.
  - destruct (now <? e_exp p) eqn:Hxp.
    + destruct (e_ts p <? e_ts e); [rewrite Hle|rewrite Hxp]; reflexivity.
    + destruct (e_ts p <? e_ts e) eqn:Ht; [rewrite Hle; reflexivity|].
      specialize (Hmono p eq_refl). lia.
  - rewrite Hle. reflexivity.
Qed.

(* ---- any position of the GC among concurrent Log calls gives the same state ---- *)

Definition is_log (o : op) : Prop := match o with OLog _ _ _ _ _ _ => True | _ => False end.

Definition run_at (ret now : Z) (s : st) (ops : list op) : st := foldl (fun s o => fst (step ret s now o)) s ops.

Lemma wf_run_logs ret now ops : forall s,
  0 < ret -> Forall is_log ops -> wf_st s -> wf_st (run_at ret now s ops).
Proof.
  induction ops as [|o ops IH]; intros s Hret Hl Hwf; [exact Hwf|].
  inversion Hl as [|? ? Ho Hr]; subst. cbn [run_at foldl]. apply IH; [exact Hret|exact Hr|].
  destruct o; try (exfalso; exact Ho). apply wf_log; assumption.
Qed.

Theorem gc_position_irrelevant ret now l1 l2 : forall s,
  0 < ret -> wf_st s -> Forall is_log l1 ->
  run_at ret now s (l1 ++ OGC :: l2) = run_at ret now s (OGC :: l1 ++ l2).
Proof.
  induction l1 as [|o l1 IH]; intros s Hret Hwf Hl; [reflexivity|].
  inversion Hl as [|? ? Ho Hr]; subst.
  destruct o as [recv gkey f r d x| | | |]; try (exfalso; exact Ho).
  change (run_at ret now s ((OLog recv gkey f r d x :: l1) ++ OGC :: l2))
    with (run_at ret now (fst (step ret s now (OLog recv gkey f r d x))) (l1 ++ OGC :: l2)).
  rewrite IH by (try apply wf_log; assumption).
  change (run_at ret now (fst (step ret s now (OLog recv gkey f r d x))) (OGC :: l1 ++ l2))
    with (run_at ret now (fst (step ret (fst (step ret s now (OLog recv gkey f r d x))) now OGC)) (l1 ++ l2)).
  rewrite <- gc_log_commute by assumption. reflexivity.
Qed.

(* the user-visible consequence: a notification logged concurrently with a GC is in the log afterwards, wherever
   the GC was linearised, as long as no stored entry for the key is from the future *)
Theorem logged_entry_survives_concurrent_gc ret now l1 l2 s recv gkey f r d x :
  0 < ret -> wf_st s -> Forall is_log l1 -> Forall is_log l2 ->
  In (OLog recv gkey f r d x) (l1 ++ l2) ->
  exists e, run_at ret now s (l1 ++ OGC :: l2) !! skey_of gkey recv = Some e /\ now < e_exp e /\ now <= e_ts e.
Proof.
  intros Hret Hwf H1 H2 Hin. rewrite gc_position_irrelevant by assumption.
  change (run_at ret now s (OGC :: l1 ++ l2)) with (run_at ret now (fst (step ret s now OGC)) (l1 ++ l2)).
  assert (Hl : Forall is_log (l1 ++ l2)) by (apply Forall_app; split; assumption).
  pose proof (wf_gc ret s now Hwf) as Hwf'.
  assert (Hgc : forall k p, fst (step ret s now OGC) !! k = Some p -> now < e_exp p).
  { intros k p. rewrite gc_lookup. destruct (s !! k) as [q|]; [|discriminate].
    destruct (now <? e_exp q) eqn:E; [|discriminate]. intros [= <-]. lia. }
  revert Hwf' Hgc Hl Hin. generalize (fst (step ret s now OGC)) as s0. generalize (l1 ++ l2) as l.
  clear H1 H2 Hwf s l1 l2.
  (* invariant while folding: every stored entry is unexpired; once the key was logged it holds an entry
     with timestamp >= now *)
  assert (Hkeep : forall l s0, Forall is_log l ->
            (exists e, s0 !! skey_of gkey recv = Some e /\ now < e_exp e /\ now <= e_ts e) ->
            exists e, run_at ret now s0 l !! skey_of gkey recv = Some e /\ now < e_exp e /\ now <= e_ts e).
  { induction l as [|o l IH]; intros s0 Hl Hex; [exact Hex|].
    inversion Hl as [|? ? Ho Hr]; subst. cbn [run_at foldl]. apply IH; [exact Hr|].
    destruct o as [recv' gkey' f' r' d' x'| | | |]; try (exfalso; exact Ho).
    destruct Hex as (e & He & Hx1 & Hx2). rewrite log_state_lookup by exact Hret.
    pose proof (log_expiry_later ret now x' Hret) as Hl'.
    destruct (decide _) as [Heq|]; [|eauto]. rewrite He.
    destruct (e_ts e <? now) eqn:Ht; [lia|eauto]. }
  induction l as [|o l IH]; intros s0 Hwf Hgc Hl Hin; [destruct Hin|].
  inversion Hl as [|? ? Ho Hr]; subst. cbn [run_at foldl].
  destruct Hin as [->|Hin].
  - apply Hkeep; [exact Hr|]. rewrite log_state_lookup by exact Hret.
    pose proof (log_expiry_later ret now x Hret) as Hl'.
    destruct (decide _) as [_|]; [|congruence].
    destruct (s0 !! skey_of gkey recv) as [p|] eqn:Hp.
    + destruct (e_ts p <? now) eqn:Ht.
      * eexists; split; [reflexivity|]. cbn. lia.
      * exists p. split; [reflexivity|]. split; [exact (Hgc _ _ Hp)|lia].
    + eexists; split; [reflexivity|]. cbn. lia.
  - destruct o as [recv' gkey' f' r' d' x'| | | |]; try (exfalso; exact Ho).
    apply IH; [apply wf_log; assumption| |exact Hr|exact Hin].
    intros k p. rewrite log_state_lookup by exact Hret.
    pose proof (log_expiry_later ret now x' Hret) as Hl'.
    destruct (decide _) as [->|]; [|apply Hgc].
    destruct (s0 !! skey_of gkey' recv') as [q|] eqn:Hq.
    + destruct (e_ts q <? now); intros [= <-]; [cbn; lia|exact (Hgc _ _ Hq)].
    + intros [= <-]. cbn. lia.
Qed.

(* a computable check of wf_st (for examples and case evaluation) *)
Lemma wf_st_check (s : st) :
  forallb (fun kv : string * entry => e_ts (snd kv) <? e_exp (snd kv)) (map_to_list s) = true -> wf_st s.
Proof.
  intros H k e He. rewrite forallb_forall in H.
  apply elem_of_map_to_list in He. apply elem_of_list_In in He.
  specialize (H _ He). cbn in H. lia.
Qed.
