(* Proofs about Model/Silence.v (C12; reused by C09 and C02). *)
From AM Require Import Base.Prelude Gen.Consts Model.Matchers Model.Silence.

(* ---------- basic facts ---------- *)

Definition norm (s : silence) (now : Z) : silence :=
  if s_start s =? 0 then with_times s now (s_end s) (s_upd s) else s.

(* every entry is stored under its own id *)
Definition key_ok (S : store) : Prop := forall k e, st S !! k = Some e -> m_id e = k.

Definition lww (now : Z) (cur : option msil) (e : msil) : option msil :=
  if m_exp e <? now then cur else
  match cur with
  | Some p => if m_upd p <? m_upd e then Some e else Some p
  | None => Some e
  end.

Definition mst (r : gmap string msil * bool * bool) := fst (fst r).
Definition mch (r : gmap string msil * bool * bool) := snd (fst r).
Definition mad (r : gmap string msil * bool * bool) := snd r.

Lemma st_merge_lookup now s e k :
  mst (st_merge now s e) !! k = if decide (k = m_id e) then lww now (s !! k) e else s !! k.
Proof.
  unfold st_merge, lww, mst. destruct (m_exp e <? now) eqn:Hx.
  - cbn. destruct (decide _); subst; reflexivity.
  - destruct (s !! m_id e) as [p|] eqn:Hp.
    + destruct (m_upd p <? m_upd e) eqn:Ht; cbn.
      * destruct (decide (k = m_id e)) as [->|Hn].
        -- rewrite lookup_insert, Hp, Ht. reflexivity.
        -- rewrite lookup_insert_ne by congruence. reflexivity.
      * destruct (decide (k = m_id e)) as [->|Hn]; [rewrite Hp, Ht|]; reflexivity.
    + cbn. destruct (decide (k = m_id e)) as [->|Hn].
      * rewrite lookup_insert, Hp. reflexivity.
      * rewrite lookup_insert_ne by congruence. reflexivity.
Qed.

Lemma st_merge_unchanged now s e : mch (st_merge now s e) = false -> mst (st_merge now s e) = s.
Proof.
  unfold st_merge, mch, mst. destruct (m_exp e <? now); [reflexivity|].
  destruct (s !! m_id e) as [p|]; [destruct (m_upd p <? m_upd e)|]; cbn; congruence.
Qed.

Lemma st_merge_added now s e : mad (st_merge now s e) = true -> s !! m_id e = None /\ mch (st_merge now s e) = true.
Proof.
  unfold st_merge, mad, mch. destruct (m_exp e <? now); [discriminate|].
  destruct (s !! m_id e) as [p|]; [destruct (m_upd p <? m_upd e)|]; cbn; try discriminate. auto.
Qed.

Lemma st_merge_not_added now s e p : s !! m_id e = Some p -> mad (st_merge now s e) = false.
Proof.
  intros H. unfold st_merge, mad. destruct (m_exp e <? now); [reflexivity|]. rewrite H.
  destruct (m_upd p <? m_upd e); reflexivity.
Qed.

Lemma st_merge_key_ok now s e :
  (forall k p, s !! k = Some p -> m_id p = k) -> forall k p, mst (st_merge now s e) !! k = Some p -> m_id p = k.
Proof.
  intros Hk k p. rewrite st_merge_lookup. destruct (decide (k = m_id e)) as [->|Hn]; [|apply Hk].
  unfold lww. destruct (m_exp e <? now); [apply Hk|].
  destruct (s !! m_id e) as [q|] eqn:Hq; [destruct (m_upd q <? m_upd e)|]; intros [= <-]; auto.
Qed.

(* ---------- setSilence ---------- *)

Lemma set_silence_spec x now S e :
  set_silence x now S e =
  if negb (marshal_ok x (m_sil e)) then None else
  let r := st_merge now (st S) e in
  Some (if mad r then index_silence x (with_st S (mst r)) (m_sil e) else with_st S (mst r), mch r, mad r).
Proof.
  unfold set_silence, mst, mch, mad. destruct (negb _); [reflexivity|].
  destruct (st_merge now (st S) e) as [[s' ch] ad]. reflexivity.
Qed.

Lemma set_silence_st x now S e S' ch ad :
  set_silence x now S e = Some (S', ch, ad) ->
  st S' = mst (st_merge now (st S) e) /\ ch = mch (st_merge now (st S) e) /\ ad = mad (st_merge now (st S) e).
Proof.
  rewrite set_silence_spec. destruct (negb _); [discriminate|]. cbn zeta. intros [= <- <- <-].
  destruct (mad _); cbn; auto.
Qed.

Lemma set_silence_marshal x now S e : marshal_ok x (m_sil e) = true -> set_silence x now S e <> None.
Proof. rewrite set_silence_spec. intros ->. cbn. discriminate. Qed.

(* when nothing is added the indexes are untouched *)
Lemma set_silence_frame x now S e S' ch :
  set_silence x now S e = Some (S', ch, false) -> mi S' = mi S /\ vi S' = vi S /\ ver S' = ver S.
Proof.
  rewrite set_silence_spec. destruct (negb _); [discriminate|]. cbn zeta.
  destruct (mad _); intros [= <- <-]; cbn; auto.
Qed.

(* ---------- expire ---------- *)

Lemma sil_state_expired s t : sil_state s t = SExpired <-> s_start s <= t /\ s_end s < t.
Proof. unfold sil_state. destruct (t <? s_start s) eqn:H1; [|destruct (s_end s <? t) eqn:H2]; split; try discriminate; try lia; auto. Qed.
Lemma sil_state_pending s t : sil_state s t = SPending <-> t < s_start s.
Proof. unfold sil_state. destruct (t <? s_start s) eqn:H1; [|destruct (s_end s <? t) eqn:H2]; split; try discriminate; try lia; auto. Qed.
Lemma sil_state_active s t : sil_state s t = SActive <-> s_start s <= t <= s_end s.
Proof. unfold sil_state. destruct (t <? s_start s) eqn:H1; [|destruct (s_end s <? t) eqn:H2]; split; try discriminate; try lia; auto. Qed.

Lemma expired_version_id s now : s_id (expired_version s now) = s_id s.
Proof. unfold expired_version. destruct (sil_state s now); reflexivity. Qed.

Lemma expired_version_marshal x s now : marshal_ok x (expired_version s now) = marshal_ok x s.
Proof. unfold expired_version. destruct (sil_state s now); reflexivity. Qed.

(* after expire() the silence is expired at every later instant, whatever it was *)
Lemma expired_version_expired s now t : now < t -> sil_state s now <> SExpired -> sil_state (expired_version s now) t = SExpired.
Proof.
  intros Ht Hs. apply sil_state_expired. unfold expired_version.
  destruct (sil_state s now) eqn:E; try contradiction; cbn.
  - lia.
  - apply sil_state_active in E. lia.
Qed.

Lemma expire_unknown c x now S id : st S !! id = None -> expire_op c x now S id = (S, RErr "notfound").
Proof. intros H. unfold expire_op, expire. rewrite H. reflexivity. Qed.

Lemma expire_idempotent c x now S id p :
  st S !! id = Some p -> sil_state (m_sil p) now = SExpired -> expire_op c x now S id = (S, RExpireOk []).
Proof. intros H Hs. unfold expire_op, expire. rewrite H, Hs. reflexivity. Qed.

(* an error from Expire leaves the store unchanged *)
Lemma expire_err_unchanged c x now S id S' code : expire_op c x now S id = (S', RErr code) -> S' = S.
Proof.
  unfold expire_op. destruct (expire c x now S id) as [[S1 bc]|code'|]; intros [= <-]; reflexivity.
Qed.

Definition expire_result (c : cfg) (p : msil) (now : Z) : msil := mesh c (expired_version (m_sil p) now).

Lemma expire_spec c x now S id p :
  key_ok S -> st S !! id = Some p -> sil_state (m_sil p) now <> SExpired ->
  marshal_ok x (m_sil p) = true ->
  let e := expire_result c p now in
  let ch := negb (m_exp e <? now) && (m_upd p <? now) in
  exists S', expire c x now S id = Ok (S', if ch then [e] else []) /\
    st S' = (if ch then <[id := e]> (st S) else st S) /\ mi S' = mi S /\ vi S' = vi S /\ ver S' = ver S.
Proof.
  intros Hk Hp Hs Hm e ch. unfold expire. rewrite Hp.
  assert (Hid : m_id e = id).
  { unfold e, expire_result, m_id, mesh. cbn. rewrite expired_version_id. apply (Hk _ _ Hp). }
  fold (expire_result c p now). fold e.
  destruct (sil_state (m_sil p) now) eqn:E; try contradiction.
  all: rewrite set_silence_spec;
    replace (marshal_ok x (m_sil e)) with true
      by (unfold e, expire_result, mesh; cbn; rewrite expired_version_marshal; auto);
    cbn [negb]; cbn zeta;
    assert (Hupd : m_upd e = now) by (unfold e, expire_result, m_upd, mesh, expired_version; cbn; rewrite E; reflexivity);
    unfold st_merge, mad, mst, mch; rewrite Hid, Hp, Hupd; unfold ch;
    destruct (m_exp e <? now); cbn;
    [eexists; split; [reflexivity|]; cbn; auto|];
    destruct (m_upd p <? now); cbn; (eexists; split; [reflexivity|]; cbn; auto).
Qed.

(* Expire takes effect immediately: with a clock that moved since the silence was last written and a
   non-negative retention, the stored silence is the old one with end := now (start := now if pending), and it
   is expired at every instant strictly after the call. *)
Lemma expire_immediate c x now S id p :
  key_ok S -> st S !! id = Some p -> sil_state (m_sil p) now <> SExpired ->
  marshal_ok x (m_sil p) = true -> 0 <= c_ret c -> m_upd p < now ->
  exists S', expire_op c x now S id = (S', RExpireOk [expire_result c p now]) /\
    st S' = <[id := expire_result c p now]> (st S) /\ mi S' = mi S /\ vi S' = vi S /\ ver S' = ver S /\
    forall t, now < t -> sil_state (m_sil (expire_result c p now)) t = SExpired.
Proof.
  intros Hk Hp Hs Hm Hr Hu.
  destruct (expire_spec c x now S id p Hk Hp Hs Hm) as (S' & He & Hst & Hmi & Hvi & Hver).
  assert (Hexp : m_exp (expire_result c p now) <? now = false).
  { unfold expire_result, mesh, expired_version. cbn.
    destruct (sil_state (m_sil p) now) eqn:E; try contradiction; cbn; lia. }
  rewrite Hexp in He, Hst. assert (Hlt : m_upd p <? now = true) by lia. rewrite Hlt in He, Hst. cbn in He, Hst.
  exists S'. unfold expire_op. rewrite He. repeat split; auto.
  intros t Ht. apply expired_version_expired; assumption.
Qed.

(* ---------- Set ---------- *)

Definition create_path (c : cfg) (x : ext) (now : Z) (S : store) (s : silence) (prev : option msil) (fresh : string) (sz : Z)
  : store * out :=
  if over_count c S then (S, RErr "toomany") else
  let e := mesh c (created_version s fresh now) in
  if over_size c sz then (S, RErr "toobig") else
  if negb (marshal_ok x (m_sil e)) then (S, RErr "marshal") else
  let r1 := match prev with
            | Some p => match sil_state (m_sil p) now with
                        | SExpired => Ok (S, [])
                        | _ => expire c x now S (m_id p)
                        end
            | None => Ok (S, [])
            end in
  match r1 with
  | Ok (S1, bc1) =>
      match set_silence x now S1 e with
      | None => (S1, RErr "marshal")
      | Some (S2, changed, _) => (S2, RSetOk fresh (bc1 ++ if changed then [e] else []))
      end
  | _ => (S, RErr "marshal")
  end.

Definition update_path (c : cfg) (x : ext) (now : Z) (S : store) (s : silence) (sz : Z) : store * out :=
  let e := mesh c (with_times s (s_start s) (s_end s) now) in
  if over_size c sz then (S, RErr "toobig") else
  match set_silence x now S e with
  | None => (S, RErr "marshal")
  | Some (S', changed, _) => (S', RSetOk (s_id s) (if changed then [e] else []))
  end.

Lemma set_op_eq c x now S s0 fresh sz :
  set_op c x now S s0 fresh sz =
  let s := norm s0 now in
  if negb (validate x s) then (S, RErr "invalid") else
  match st S !! s_id s with
  | None => if negb (String.eqb (s_id s) "") then (S, RErr "notfound") else create_path c x now S s None fresh sz
  | Some p => if can_update (m_sil p) s now then update_path c x now S s sz
              else create_path c x now S s (Some p) fresh sz
  end.
Proof.
  unfold set_op, norm. cbn zeta. destruct (negb (validate x _)); [reflexivity|].
  destruct (st S !! _) as [p|] eqn:Hp.
  - rewrite bool_decide_eq_true_2 by eauto. rewrite andb_false_r.
    destruct (can_update _ _ _); reflexivity.
  - rewrite bool_decide_eq_false_2 by (intros [? ?]; discriminate). rewrite andb_true_r.
    destruct (negb (String.eqb _ "")); reflexivity.
Qed.

Lemma update_path_err c x now S s sz S' code : update_path c x now S s sz = (S', RErr code) -> S' = S.
Proof.
  unfold update_path. destruct (over_size c sz); [intros [= <-]; reflexivity|].
  destruct (set_silence _ _ _ _) as [[[S1 ch] ad]|]; [discriminate|intros [= <-]; reflexivity].
Qed.

Lemma create_path_err c x now S s prev fresh sz S' code : create_path c x now S s prev fresh sz = (S', RErr code) -> S' = S.
Proof.
  unfold create_path. destruct (over_count c S); [intros [= <-]; reflexivity|].
  destruct (over_size c sz); [intros [= <-]; reflexivity|].
  destruct (negb (marshal_ok x _)) eqn:Hm; [intros [= <-]; reflexivity|].
  match goal with |- context [match ?r with Ok _ => _ | _ => _ end] => destruct r as [[S1 bc1]| |] end;
    try (intros [= <-]; reflexivity).
  pose proof (set_silence_marshal x now S1 (mesh c (created_version s fresh now))) as Hn.
  destruct (set_silence _ _ _ _) as [[[S2 ch] ad]|]; [discriminate|].
  exfalso. apply Hn; [|reflexivity]. apply negb_false_iff in Hm. exact Hm.
Qed.

(* EVERY rejected Set (validation, unknown id, count limit, size limit, marshalling) leaves the store unchanged *)
Theorem set_err_unchanged c x now S s0 fresh sz S' code :
  set_op c x now S s0 fresh sz = (S', RErr code) -> S' = S.
Proof.
  rewrite set_op_eq. cbn zeta. destruct (negb (validate x _)); [intros [= <-]; reflexivity|].
  destruct (st S !! _) as [p|].
  - destruct (can_update _ _ _); [apply update_path_err|apply create_path_err].
  - destruct (negb (String.eqb _ "")); [intros [= <-]; reflexivity|apply create_path_err].
Qed.

Lemma set_invalid_rejected c x now S s0 fresh sz :
  validate x (norm s0 now) = false -> set_op c x now S s0 fresh sz = (S, RErr "invalid").
Proof. intros H. rewrite set_op_eq. cbn zeta. rewrite H. reflexivity. Qed.

Lemma set_unknown_id_rejected c x now S s0 fresh sz :
  s_id s0 <> "" -> st S !! s_id s0 = None ->
  exists code, set_op c x now S s0 fresh sz = (S, RErr code) /\ (code = "invalid" \/ code = "notfound").
Proof.
  intros Hid Hn. rewrite set_op_eq. cbn zeta.
  assert (Hi : s_id (norm s0 now) = s_id s0) by (unfold norm; destruct (_ =? 0); reflexivity).
  destruct (negb (validate x _)); [eauto|]. rewrite Hi, Hn.
  destruct (String.eqb_spec (s_id s0) ""); [contradiction|]. cbn. eauto.
Qed.

(* the exact condition for an edit in place, as a proposition *)
Definition can_update_spec (a b : silence) (now : Z) : Prop :=
  s_ms a = s_ms b /\
  ( (s_start a <= now <= s_end a /\ s_start a / second = s_start b / second /\ now <= s_end b)   (* active *)
  \/ (now < s_start a /\ now <= s_start b) ).                                                    (* pending *)

Lemma can_update_iff a b now : can_update a b now = true <-> can_update_spec a b now.
Proof.
  unfold can_update, can_update_spec. rewrite andb_true_iff, beq_true.
  split; intros [Hm H]; (split; [exact Hm|]).
  - destruct (sil_state a now) eqn:E.
    + right. apply sil_state_pending in E. split; [lia|]. apply negb_true_iff in H. lia.
    + left. apply sil_state_active in E. apply andb_true_iff in H as [H1 H2]. apply negb_true_iff in H2.
      split; [lia|]. split; lia.
    + discriminate.
  - destruct H as [(Ha & Hs & He)|(Ha & Hs)].
    + assert (E : sil_state a now = SActive) by (apply sil_state_active; lia). rewrite E.
      apply andb_true_iff. split; [lia|]. apply negb_true_iff. lia.
    + assert (E : sil_state a now = SPending) by (apply sil_state_pending; lia). rewrite E.
      apply negb_true_iff. lia.
Qed.

Lemma update_path_ok_id c x now S s sz S' i bc : update_path c x now S s sz = (S', RSetOk i bc) -> i = s_id s.
Proof.
  unfold update_path. destruct (over_size c sz); [discriminate|].
  destruct (set_silence _ _ _ _) as [[[S1 ch] ad]|]; [|discriminate]. intros [= _ <- _]. reflexivity.
Qed.

Lemma create_path_ok_id c x now S s prev fresh sz S' i bc : create_path c x now S s prev fresh sz = (S', RSetOk i bc) -> i = fresh.
Proof.
  unfold create_path. destruct (over_count c S); [discriminate|]. destruct (over_size c sz); [discriminate|].
  destruct (negb (marshal_ok x _)); [discriminate|].
  match goal with |- context [match ?r with Ok _ => _ | _ => _ end] => destruct r as [[S1 bc1]| |] end; try discriminate.
  destruct (set_silence _ _ _ _) as [[[S2 ch] ad]|]; [|discriminate]. intros [= _ <- _]. reflexivity.
Qed.

(* EDIT IN PLACE IFF: a successful Set keeps the submitted id exactly when the id is stored, the matchers are
   equal and the times are compatible with the stored silence's state; otherwise the answer is the fresh id. *)
Theorem set_edit_in_place_iff c x now S s0 fresh sz S' i bc :
  set_op c x now S s0 fresh sz = (S', RSetOk i bc) -> fresh <> s_id s0 ->
  (i = s_id s0 <-> exists p, st S !! s_id s0 = Some p /\ can_update_spec (m_sil p) (norm s0 now) now) /\
  (i <> s_id s0 -> i = fresh).
Proof.
  rewrite set_op_eq. cbn zeta.
  assert (Hi : s_id (norm s0 now) = s_id s0) by (unfold norm; destruct (_ =? 0); reflexivity).
  destruct (negb (validate x _)); [discriminate|]. rewrite Hi.
  destruct (st S !! s_id s0) as [p|] eqn:Hp.
  - destruct (can_update _ _ _) eqn:Hc.
    + intros H Hf. apply update_path_ok_id in H. rewrite Hi in H. subst i. split; [|congruence].
      split; [|reflexivity]. intros _. exists p. split; [reflexivity|]. apply can_update_iff. exact Hc.
    + intros H Hf. apply create_path_ok_id in H. subst i. split; [|auto].
      split; [congruence|]. intros (q & [= <-] & Hq). apply can_update_iff in Hq. congruence.
  - destruct (negb (String.eqb _ "")); [discriminate|].
    intros H Hf. apply create_path_ok_id in H. subst i. split; [|auto].
    split; [congruence|]. intros (q & [=] & _).
Qed.

(* the store content after a successful create / replace *)
Definition not_expired (p : msil) (now : Z) : bool := negb (beq (sil_state (m_sil p) now) SExpired).
Definition expire_applies (c : cfg) (p : msil) (now : Z) : bool :=
  not_expired p now && negb (m_exp (expire_result c p now) <? now) && (m_upd p <? now).

Definition st_after_expire (c : cfg) (S : store) (prev : option msil) (now : Z) : gmap string msil :=
  match prev with
  | Some p => if expire_applies c p now then <[m_id p := expire_result c p now]> (st S) else st S
  | None => st S
  end.

Lemma create_path_st c x now S s prev fresh sz S' i bc :
  create_path c x now S s prev fresh sz = (S', RSetOk i bc) -> key_ok S ->
  (forall p, prev = Some p -> st S !! m_id p = Some p /\ marshal_ok x (m_sil p) = true) ->
  st S' = mst (st_merge now (st_after_expire c S prev now) (mesh c (created_version s fresh now))).
Proof.
  unfold create_path. destruct (over_count c S); [discriminate|]. destruct (over_size c sz); [discriminate|].
  destruct (negb (marshal_ok x _)); [discriminate|]. intros H Hk Hprev.
  assert (Hr : exists S1 bc1,
    match prev with
    | Some p => match sil_state (m_sil p) now with SExpired => Ok (S, []) | _ => expire c x now S (m_id p) end
    | None => Ok (S, [])
    end = Ok (S1, bc1) /\ st S1 = st_after_expire c S prev now).
  { destruct prev as [p|]; [|exists S, []; auto].
    destruct (Hprev p eq_refl) as [Hp Hm]. unfold st_after_expire, expire_applies, not_expired.
    destruct (sil_state (m_sil p) now) eqn:E.
    - destruct (expire_spec c x now S (m_id p) p Hk Hp ltac:(rewrite E; discriminate) Hm) as (S1 & He & Hst & _).
      exists S1. eexists. split; [exact He|]. rewrite Hst. cbn. reflexivity.
    - destruct (expire_spec c x now S (m_id p) p Hk Hp ltac:(rewrite E; discriminate) Hm) as (S1 & He & Hst & _).
      exists S1. eexists. split; [exact He|]. rewrite Hst. cbn. reflexivity.
    - exists S, []. split; reflexivity. }
  destruct Hr as (S1 & bc1 & Hr & Hst1). rewrite Hr in H.
  destruct (set_silence x now S1 _) as [[[S2 ch] ad]|] eqn:Hs; [|discriminate].
  injection H as <- _ _. apply set_silence_st in Hs as (Hs & _). rewrite Hs, Hst1. reflexivity.
Qed.

(* CREATE: the answered id is the fresh one; if it was not in the store, the store now holds under it exactly the
   submitted silence with start := max(start, now) — never in the past — unless the silence is already past its
   retention (end + retention < now), in which case nothing is stored; nothing else changes. *)
Theorem set_create c x now S s0 fresh sz S' i bc :
  set_op c x now S s0 fresh sz = (S', RSetOk i bc) -> key_ok S ->
  st S !! s_id s0 = None -> st S !! fresh = None ->
  let n := created_version (norm s0 now) fresh now in
  i = fresh /\ now <= s_start n /\ s_start n = Z.max (s_start (norm s0 now)) now /\
  st S' !! fresh = (if s_end s0 + c_ret c <? now then None else Some (mesh c n)) /\
  forall k, k <> fresh -> st S' !! k = st S !! k.
Proof.
  rewrite set_op_eq. cbn zeta.
  assert (Hi : s_id (norm s0 now) = s_id s0) by (unfold norm; destruct (_ =? 0); reflexivity).
  assert (He : s_end (norm s0 now) = s_end s0) by (unfold norm; destruct (_ =? 0); reflexivity).
  destruct (negb (validate x _)); [discriminate|]. rewrite Hi. intros H Hk Hn Hf. rewrite Hn in H.
  destruct (negb (String.eqb _ "")); [discriminate|].
  pose proof (create_path_ok_id _ _ _ _ _ _ _ _ _ _ _ H) as ->.
  apply create_path_st in H; [|exact Hk|intros p [=]]. cbn [st_after_expire] in H.
  split; [reflexivity|]. split; [cbn; lia|]. split; [reflexivity|]. split.
  - rewrite H, st_merge_lookup. cbn [m_id mesh m_sil created_version s_id].
    destruct (decide (fresh = fresh)); [|congruence]. unfold lww. cbn [m_exp mesh created_version s_end]. rewrite He, Hf.
    destruct (_ <? now); reflexivity.
  - intros k Hne. rewrite H, st_merge_lookup. cbn [m_id mesh m_sil created_version s_id].
    destruct (decide (k = fresh)); [contradiction|reflexivity].
Qed.

(* REPLACE (history rewrite): the submitted id is stored but cannot be edited in place. The answer is the fresh
   id; the old silence stays under its id, untouched if it had expired, else with end := now (start := now if
   it was pending); the new silence is stored under the fresh id; nothing else changes. *)
Theorem set_replace c x now S s0 fresh sz S' i bc p :
  set_op c x now S s0 fresh sz = (S', RSetOk i bc) -> key_ok S ->
  st S !! s_id s0 = Some p -> ~ can_update_spec (m_sil p) (norm s0 now) now ->
  st S !! fresh = None -> marshal_ok x (m_sil p) = true ->
  let n := created_version (norm s0 now) fresh now in
  i = fresh /\
  st S' !! s_id s0 = Some (if expire_applies c p now then expire_result c p now else p) /\
  st S' !! fresh = (if s_end s0 + c_ret c <? now then None else Some (mesh c n)) /\
  forall k, k <> fresh -> k <> s_id s0 -> st S' !! k = st S !! k.
Proof.
  rewrite set_op_eq. cbn zeta.
  assert (Hi : s_id (norm s0 now) = s_id s0) by (unfold norm; destruct (_ =? 0); reflexivity).
  assert (He : s_end (norm s0 now) = s_end s0) by (unfold norm; destruct (_ =? 0); reflexivity).
  destruct (negb (validate x _)); [discriminate|]. rewrite Hi. intros H Hk Hp Hc Hf Hm. rewrite Hp in H.
  destruct (can_update _ _ _) eqn:Hcu; [exfalso; apply Hc, can_update_iff, Hcu|].
  pose proof (create_path_ok_id _ _ _ _ _ _ _ _ _ _ _ H) as ->.
  assert (Hidp : m_id p = s_id s0) by (apply (Hk _ _ Hp)).
  assert (Hne : fresh <> s_id s0) by (intros ->; congruence).
  apply create_path_st in H; [|exact Hk|intros q [= <-]; rewrite Hidp; auto]. cbn [st_after_expire] in H.
  rewrite Hidp in H.
  split; [reflexivity|]. split; [|split].
  - rewrite H, st_merge_lookup. cbn [m_id mesh m_sil created_version s_id].
    destruct (decide (s_id s0 = fresh)); [congruence|].
    destruct (expire_applies c p now); [rewrite lookup_insert; reflexivity|exact Hp].
  - rewrite H, st_merge_lookup. cbn [m_id mesh m_sil created_version s_id].
    destruct (decide (fresh = fresh)); [|congruence]. unfold lww. cbn [m_exp mesh created_version s_end]. rewrite He.
    assert (Hold : (if expire_applies c p now then <[s_id s0 := expire_result c p now]> (st S) else st S) !! fresh = None).
    { destruct (expire_applies c p now); [rewrite lookup_insert_ne by congruence|]; exact Hf. }
    rewrite Hold. destruct (_ <? now); reflexivity.
  - intros k Hk1 Hk2. rewrite H, st_merge_lookup. cbn [m_id mesh m_sil created_version s_id].
    destruct (decide (k = fresh)); [contradiction|].
    destruct (expire_applies c p now); [rewrite lookup_insert_ne by congruence|]; reflexivity.
Qed.

(* when does the expiry of the previous silence take hold: it was not expired, the clock moved since its last
   update, and the retention is not negative *)
Lemma expire_applies_true c p now :
  sil_state (m_sil p) now <> SExpired -> m_upd p < now -> 0 <= c_ret c -> expire_applies c p now = true.
Proof.
  intros Hs Hu Hr. unfold expire_applies, not_expired.
  destruct (sil_state (m_sil p) now) eqn:E; try contradiction; cbn.
  all: unfold expire_result, mesh, expired_version; rewrite E; cbn.
  all: apply andb_true_iff; split; [apply negb_true_iff|]; lia.
Qed.

Lemma expire_applies_expired c p now : sil_state (m_sil p) now = SExpired -> expire_applies c p now = false.
Proof. intros E. unfold expire_applies, not_expired. rewrite E. reflexivity. Qed.

(* UPDATE IN PLACE: content after a successful in-place edit *)
Theorem set_update c x now S s0 fresh sz S' i bc p :
  set_op c x now S s0 fresh sz = (S', RSetOk i bc) -> key_ok S ->
  st S !! s_id s0 = Some p -> can_update_spec (m_sil p) (norm s0 now) now ->
  let s := norm s0 now in
  let e := mesh c (with_times s (s_start s) (s_end s) now) in
  i = s_id s0 /\
  st S' !! s_id s0 = Some (if negb (m_exp e <? now) && (m_upd p <? now) then e else p) /\
  (forall k, k <> s_id s0 -> st S' !! k = st S !! k) /\
  mi S' = mi S /\ vi S' = vi S /\ ver S' = ver S.
Proof.
  rewrite set_op_eq. cbn zeta.
  assert (Hi : s_id (norm s0 now) = s_id s0) by (unfold norm; destruct (_ =? 0); reflexivity).
  destruct (negb (validate x _)); [discriminate|]. rewrite Hi. intros H Hk Hp Hc. rewrite Hp in H.
  apply can_update_iff in Hc. rewrite Hc in H. unfold update_path in H.
  destruct (over_size c sz); [discriminate|].
  destruct (set_silence _ _ _ _) as [[[S1 ch] ad]|] eqn:Hs; [|discriminate].
  injection H as <- <- _. rewrite Hi.
  pose proof (set_silence_st _ _ _ _ _ _ _ Hs) as (Hst & _ & Had).
  set (e := mesh c _) in *.
  assert (Hide : m_id e = s_id s0) by (unfold e, m_id, mesh; cbn; exact Hi).
  rewrite (st_merge_not_added now (st S) e p) in Had by (rewrite Hide; exact Hp). subst ad.
  apply set_silence_frame in Hs. split; [reflexivity|]. split; [|split; [|exact Hs]].
  - rewrite Hst, st_merge_lookup, Hide. destruct (decide _); [|congruence].
    unfold lww. rewrite Hp. assert (Hu : m_upd e = now) by reflexivity. rewrite Hu.
    destruct (m_exp e <? now); [reflexivity|]. destruct (m_upd p <? now); reflexivity.
  - intros k Hne. rewrite Hst, st_merge_lookup, Hide. destruct (decide _); [contradiction|reflexivity].
Qed.
