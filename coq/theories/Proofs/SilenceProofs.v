(* Proofs about Model/Silence.v (C12; reused by C09 and C02). *)
From AM Require Import Base.Prelude Gen.Consts Model.Matchers Model.Silence.

(* ---------- basic facts ---------- *)

Definition norm (s : silence) (now : Z) : silence :=
  if s_start s =? 0 then with_times s now (s_end s) (s_upd s) else s.

(* every entry is stored under its own id *)
Definition key_ok (S : store) : Prop := forall k e, st S !! k = Some e -> m_id e = k.

Definition lww (now : Z) (cur : option msil) (e : msil) : option msil :=
  if m_exp e <? now then cur else
  match cur with
  | Some p => if m_upd p <? m_upd e then Some e else Some p
  | None => Some e
  end.

Definition mst (r : gmap string msil * bool * bool) := fst (fst r).
Definition mch (r : gmap string msil * bool * bool) := snd (fst r).
Definition mad (r : gmap string msil * bool * bool) := snd r.

Lemma st_merge_lookup now s e k :
  mst (st_merge now s e) !! k = if decide (k = m_id e) then lww now (s !! k) e else s !! k.
Proof.
  unfold st_merge, lww, mst. destruct (m_exp e <? now) eqn:Hx.
  - cbn. destruct (decide _); subst; reflexivity.
  - destruct (s !! m_id e) as [p|] eqn:Hp.
    + destruct (m_upd p <? m_upd e) eqn:Ht; cbn.
      * destruct (decide (k = m_id e)) as [->|Hn].
        -- rewrite lookup_insert, Hp, Ht. reflexivity.
        -- rewrite lookup_insert_ne by congruence. reflexivity.
      * destruct (decide (k = m_id e)) as [->|Hn]; [rewrite Hp, Ht|]; reflexivity.
    + cbn. destruct (decide (k = m_id e)) as [->|Hn].
      * rewrite lookup_insert, Hp. reflexivity.
      * rewrite lookup_insert_ne by congruence. reflexivity.
Qed.

Lemma st_merge_unchanged now s e : mch (st_merge now s e) = false -> mst (st_merge now s e) = s.
Proof.
  unfold st_merge, mch, mst. destruct (m_exp e <? now); [reflexivity|].
  destruct (s !! m_id e) as [p|]; [destruct (m_upd p <? m_upd e)|]; cbn; congruence.
Qed.

Lemma st_merge_added now s e : mad (st_merge now s e) = true -> s !! m_id e = None /\ mch (st_merge now s e) = true.
Proof.
  unfold st_merge, mad, mch. destruct (m_exp e <? now); [discriminate|].
  destruct (s !! m_id e) as [p|]; [destruct (m_upd p <? m_upd e)|]; cbn; try discriminate. auto.
Qed.

Lemma st_merge_not_added now s e p : s !! m_id e = Some p -> mad (st_merge now s e) = false.
Proof.
  intros H. unfold st_merge, mad. destruct (m_exp e <? now); [reflexivity|]. rewrite H.
  destruct (m_upd p <? m_upd e); reflexivity.
Qed.

Lemma st_merge_key_ok now s e :
  (forall k p, s !! k = Some p -> m_id p = k) -> forall k p, mst (st_merge now s e) !! k = Some p -> m_id p = k.
Proof.
  intros Hk k p. rewrite st_merge_lookup. destruct (decide (k = m_id e)) as [->|Hn]; [|apply Hk].
  unfold lww. destruct (m_exp e <? now); [apply Hk|].
  destruct (s !! m_id e) as [q|] eqn:Hq; [destruct (m_upd q <? m_upd e)|]; intros [= <-]; auto.
Qed.

(* ---------- setSilence ---------- *)

Lemma set_silence_spec x now S e :
  set_silence x now S e =
  if negb (marshal_ok x (m_sil e)) then None else
  let r := st_merge now (st S) e in
  Some (if mad r then index_silence x (with_st S (mst r)) (m_sil e) else with_st S (mst r), mch r, mad r).
Proof.
  unfold set_silence, mst, mch, mad. destruct (negb _); [reflexivity|].
  destruct (st_merge now (st S) e) as [[s' ch] ad]. reflexivity.
Qed.

Lemma set_silence_st x now S e S' ch ad :
  set_silence x now S e = Some (S', ch, ad) ->
  st S' = mst (st_merge now (st S) e) /\ ch = mch (st_merge now (st S) e) /\ ad = mad (st_merge now (st S) e).
Proof.
  rewrite set_silence_spec. destruct (negb _); [discriminate|]. cbn zeta. intros [= <- <- <-].
  destruct (mad _); cbn; auto.
Qed.

Lemma set_silence_marshal x now S e : marshal_ok x (m_sil e) = true -> set_silence x now S e <> None.
Proof. rewrite set_silence_spec. intros ->. cbn. discriminate. Qed.

(* when nothing is added the indexes are untouched *)
Lemma set_silence_frame x now S e S' ch :
  set_silence x now S e = Some (S', ch, false) -> mi S' = mi S /\ vi S' = vi S /\ ver S' = ver S.
Proof.
  rewrite set_silence_spec. destruct (negb _); [discriminate|]. cbn zeta.
  destruct (mad _); intros [= <- <-]; cbn; auto.
Qed.

(* ---------- expire ---------- *)

Lemma sil_state_expired s t : sil_state s t = SExpired <-> s_start s <= t /\ s_end s < t.
Proof. unfold sil_state. destruct (t <? s_start s) eqn:H1; [|destruct (s_end s <? t) eqn:H2]; split; try discriminate; try lia; auto. Qed.
Lemma sil_state_pending s t : sil_state s t = SPending <-> t < s_start s.
Proof. unfold sil_state. destruct (t <? s_start s) eqn:H1; [|destruct (s_end s <? t) eqn:H2]; split; try discriminate; try lia; auto. Qed.
Lemma sil_state_active s t : sil_state s t = SActive <-> s_start s <= t <= s_end s.
Proof. unfold sil_state. destruct (t <? s_start s) eqn:H1; [|destruct (s_end s <? t) eqn:H2]; split; try discriminate; try lia; auto. Qed.

Lemma expired_version_id s now : s_id (expired_version s now) = s_id s.
Proof. unfold expired_version. destruct (sil_state s now); reflexivity. Qed.

Lemma expired_version_marshal x s now : marshal_ok x (expired_version s now) = marshal_ok x s.
Proof. unfold expired_version. destruct (sil_state s now); reflexivity. Qed.

(* after expire() the silence is expired at every later instant, whatever it was *)
Lemma expired_version_expired s now t : now < t -> sil_state s now <> SExpired -> sil_state (expired_version s now) t = SExpired.
Proof.
  intros Ht Hs. apply sil_state_expired. unfold expired_version.
  destruct (sil_state s now) eqn:E; try contradiction; cbn.
  - lia.
  - apply sil_state_active in E. lia.
Qed.

Lemma expire_unknown c x now S id : st S !! id = None -> expire_op c x now S id = (S, RErr "notfound").
Proof. intros H. unfold expire_op, expire. rewrite H. reflexivity. Qed.

Lemma expire_idempotent c x now S id p :
  st S !! id = Some p -> sil_state (m_sil p) now = SExpired -> expire_op c x now S id = (S, RExpireOk []).
Proof. intros H Hs. unfold expire_op, expire. rewrite H, Hs. reflexivity. Qed.

(* an error from Expire leaves the store unchanged *)
Lemma expire_err_unchanged c x now S id S' code : expire_op c x now S id = (S', RErr code) -> S' = S.
Proof.
  unfold expire_op. destruct (expire c x now S id) as [[S1 bc]|code'|]; intros [= <-]; reflexivity.
Qed.

Definition expire_result (c : cfg) (p : msil) (now : Z) : msil := mesh c (expired_version (m_sil p) now).

Lemma expire_spec c x now S id p :
  key_ok S -> st S !! id = Some p -> sil_state (m_sil p) now <> SExpired ->
  marshal_ok x (m_sil p) = true ->
  let e := expire_result c p now in
  let ch := negb (m_exp e <? now) && (m_upd p <? now) in
  exists S', expire c x now S id = Ok (S', if ch then [e] else []) /\
    st S' = (if ch then <[id := e]> (st S) else st S) /\ mi S' = mi S /\ vi S' = vi S /\ ver S' = ver S.
Proof.
  intros Hk Hp Hs Hm e ch. unfold expire. rewrite Hp.
  assert (Hid : m_id e = id).
  { unfold e, expire_result, m_id, mesh. cbn. rewrite expired_version_id. apply (Hk _ _ Hp). }
  fold (expire_result c p now). fold e.
  destruct (sil_state (m_sil p) now) eqn:E; try contradiction.
  all: rewrite set_silence_spec;
    replace (marshal_ok x (m_sil e)) with true
      by (unfold e, expire_result, mesh; cbn; rewrite expired_version_marshal; auto);
    cbn [negb]; cbn zeta;
    assert (Hupd : m_upd e = now) by (unfold e, expire_result, m_upd, mesh, expired_version; cbn; rewrite E; reflexivity);
    unfold st_merge, mad, mst, mch; rewrite Hid, Hp, Hupd; unfold ch;
    destruct (m_exp e <? now); cbn;
    [eexists; split; [reflexivity|]; cbn; auto|];
    destruct (m_upd p <? now); cbn; (eexists; split; [reflexivity|]; cbn; auto).
Qed.

(* Expire takes effect immediately: with a clock that moved since the silence was last written and a
   non-negative retention, the stored silence is the old one with end := now (start := now if pending), and it
   is expired at every instant strictly after the call. *)
Lemma expire_immediate c x now S id p :
  key_ok S -> st S !! id = Some p -> sil_state (m_sil p) now <> SExpired ->
  marshal_ok x (m_sil p) = true -> 0 <= c_ret c -> m_upd p < now ->
  exists S', expire_op c x now S id = (S', RExpireOk [expire_result c p now]) /\
    st S' = <[id := expire_result c p now]> (st S) /\ mi S' = mi S /\ vi S' = vi S /\ ver S' = ver S /\
    forall t, now < t -> sil_state (m_sil (expire_result c p now)) t = SExpired.
Proof.
  intros Hk Hp Hs Hm Hr Hu.
  destruct (expire_spec c x now S id p Hk Hp Hs Hm) as (S' & He & Hst & Hmi & Hvi & Hver).
  assert (Hexp : m_exp (expire_result c p now) <? now = false).
  { unfold expire_result, mesh, expired_version. cbn.
    destruct (sil_state (m_sil p) now) eqn:E; try contradiction; cbn; lia. }
  rewrite Hexp in He, Hst. assert (Hlt : m_upd p <? now = true) by lia. rewrite Hlt in He, Hst. cbn in He, Hst.
  exists S'. unfold expire_op. rewrite He. repeat split; auto.
  intros t Ht. apply expired_version_expired; assumption.
Qed.

(* ---------- Set ---------- *)

Definition create_path (c : cfg) (x : ext) (now : Z) (S : store) (s : silence) (prev : option msil) (fresh : string) (sz : Z)
  : store * out :=
  if over_count c S then (S, RErr "toomany") else
  let e := mesh c (created_version s fresh now) in
  if over_size c sz then (S, RErr "toobig") else
  if negb (marshal_ok x (m_sil e)) then (S, RErr "marshal") else
  let r1 := match prev with
            | Some p => match sil_state (m_sil p) now with
                        | SExpired => Ok (S, [])
                        | _ => expire c x now S (m_id p)
                        end
            | None => Ok (S, [])
            end in
  match r1 with
  | Ok (S1, bc1) =>
      match set_silence x now S1 e with
      | None => (S1, RErr "marshal")
      | Some (S2, changed, _) => (S2, RSetOk fresh (bc1 ++ if changed then [e] else []))
      end
  | _ => (S, RErr "marshal")
  end.

Definition update_path (c : cfg) (x : ext) (now : Z) (S : store) (s : silence) (sz : Z) : store * out :=
  let e := mesh c (with_times s (s_start s) (s_end s) now) in
  if over_size c sz then (S, RErr "toobig") else
  match set_silence x now S e with
  | None => (S, RErr "marshal")
  | Some (S', changed, _) => (S', RSetOk (s_id s) (if changed then [e] else []))
  end.

Lemma set_op_eq c x now S s0 fresh sz :
  set_op c x now S s0 fresh sz =
  let s := norm s0 now in
  if negb (validate x s) then (S, RErr "invalid") else
  match st S !! s_id s with
  | None => if negb (String.eqb (s_id s) "") then (S, RErr "notfound") else create_path c x now S s None fresh sz
  | Some p => if can_update (m_sil p) s now then update_path c x now S s sz
              else create_path c x now S s (Some p) fresh sz
  end.
Proof.
  unfold set_op, norm. cbn zeta. destruct (negb (validate x _)); [reflexivity|].
  destruct (st S !! _) as [p|] eqn:Hp.
  - rewrite bool_decide_eq_true_2 by eauto. rewrite andb_false_r.
    destruct (can_update _ _ _); reflexivity.
  - rewrite bool_decide_eq_false_2 by (intros [? ?]; discriminate). rewrite andb_true_r.
    destruct (negb (String.eqb _ "")); reflexivity.
Qed.

Lemma update_path_err c x now S s sz S' code : update_path c x now S s sz = (S', RErr code) -> S' = S.
Proof.
  unfold update_path. destruct (over_size c sz); [intros [= <-]; reflexivity|].
  destruct (set_silence _ _ _ _) as [[[S1 ch] ad]|]; [discriminate|intros [= <-]; reflexivity].
Qed.

Lemma create_path_err c x now S s prev fresh sz S' code : create_path c x now S s prev fresh sz = (S', RErr code) -> S' = S.
Proof.
  unfold create_path. destruct (over_count c S); [intros [= <-]; reflexivity|].
  destruct (over_size c sz); [intros [= <-]; reflexivity|].
  destruct (negb (marshal_ok x _)) eqn:Hm; [intros [= <-]; reflexivity|].
  match goal with |- context [match ?r with Ok _ => _ | _ => _ end] => destruct r as [[S1 bc1]| |] end;
    try (intros [= <-]; reflexivity).
  pose proof (set_silence_marshal x now S1 (mesh c (created_version s fresh now))) as Hn.
  destruct (set_silence _ _ _ _) as [[[S2 ch] ad]|]; [discriminate|].
  exfalso. apply Hn; [|reflexivity]. apply negb_false_iff in Hm. exact Hm.
Qed.

(* EVERY rejected Set (validation, unknown id, count limit, size limit, marshalling) leaves the store unchanged *)
Theorem set_err_unchanged c x now S s0 fresh sz S' code :
  set_op c x now S s0 fresh sz = (S', RErr code) -> S' = S.
Proof.
  rewrite set_op_eq. cbn zeta. destruct (negb (validate x _)); [intros [= <-]; reflexivity|].
  destruct (st S !! _) as [p|].
  - destruct (can_update _ _ _); [apply update_path_err|apply create_path_err].
  - destruct (negb (String.eqb _ "")); [intros [= <-]; reflexivity|apply create_path_err].
Qed.

Lemma set_invalid_rejected c x now S s0 fresh sz :
  validate x (norm s0 now) = false -> set_op c x now S s0 fresh sz = (S, RErr "invalid").
Proof. intros H. rewrite set_op_eq. cbn zeta. rewrite H. reflexivity. Qed.

Lemma set_unknown_id_rejected c x now S s0 fresh sz :
  s_id s0 <> "" -> st S !! s_id s0 = None ->
  exists code, set_op c x now S s0 fresh sz = (S, RErr code) /\ (code = "invalid" \/ code = "notfound").
Proof.
  intros Hid Hn. rewrite set_op_eq. cbn zeta.
  assert (Hi : s_id (norm s0 now) = s_id s0) by (unfold norm; destruct (_ =? 0); reflexivity).
  destruct (negb (validate x _)); [eauto|]. rewrite Hi, Hn.
  destruct (String.eqb_spec (s_id s0) ""); [contradiction|]. cbn. eauto.
Qed.

(* the exact condition for an edit in place, as a proposition *)
Definition can_update_spec (a b : silence) (now : Z) : Prop :=
  s_ms a = s_ms b /\
  ( (s_start a <= now <= s_end a /\ s_start a / second = s_start b / second /\ now <= s_end b)   (* active *)
  \/ (now < s_start a /\ now <= s_start b) ).                                                    (* pending *)

Lemma can_update_iff a b now : can_update a b now = true <-> can_update_spec a b now.
Proof.
  unfold can_update, can_update_spec. rewrite andb_true_iff, beq_true.
  split; intros [Hm H]; (split; [exact Hm|]).
  - destruct (sil_state a now) eqn:E.
    + right. apply sil_state_pending in E. split; [lia|]. apply negb_true_iff in H. lia.
    + left. apply sil_state_active in E. apply andb_true_iff in H as [H1 H2]. apply negb_true_iff in H2.
      split; [lia|]. split; lia.
    + discriminate.
  - destruct H as [(Ha & Hs & He)|(Ha & Hs)].
    + assert (E : sil_state a now = SActive) by (apply sil_state_active; lia). rewrite E.
      apply andb_true_iff. split; [lia|]. apply negb_true_iff. lia.
    + assert (E : sil_state a now = SPending) by (apply sil_state_pending; lia). rewrite E.
      apply negb_true_iff. lia.
Qed.

Lemma update_path_ok_id c x now S s sz S' i bc : update_path c x now S s sz = (S', RSetOk i bc) -> i = s_id s.
Proof.
  unfold update_path. destruct (over_size c sz); [discriminate|].
  destruct (set_silence _ _ _ _) as [[[S1 ch] ad]|]; [|discriminate]. intros [= _ <- _]. reflexivity.
Qed.

Lemma create_path_ok_id c x now S s prev fresh sz S' i bc : create_path c x now S s prev fresh sz = (S', RSetOk i bc) -> i = fresh.
Proof.
  unfold create_path. destruct (over_count c S); [discriminate|]. destruct (over_size c sz); [discriminate|].
  destruct (negb (marshal_ok x _)); [discriminate|].
  match goal with |- context [match ?r with Ok _ => _ | _ => _ end] => destruct r as [[S1 bc1]| |] end; try discriminate.
  destruct (set_silence _ _ _ _) as [[[S2 ch] ad]|]; [|discriminate]. intros [= _ <- _]. reflexivity.
Qed.

(* EDIT IN PLACE IFF: a successful Set keeps the submitted id exactly when the id is stored, the matchers are
   equal and the times are compatible with the stored silence's state; otherwise the answer is the fresh id. *)
Theorem set_edit_in_place_iff c x now S s0 fresh sz S' i bc :
  set_op c x now S s0 fresh sz = (S', RSetOk i bc) -> fresh <> s_id s0 ->
  (i = s_id s0 <-> exists p, st S !! s_id s0 = Some p /\ can_update_spec (m_sil p) (norm s0 now) now) /\
  (i <> s_id s0 -> i = fresh).
Proof.
  rewrite set_op_eq. cbn zeta.
  assert (Hi : s_id (norm s0 now) = s_id s0) by (unfold norm; destruct (_ =? 0); reflexivity).
  destruct (negb (validate x _)); [discriminate|]. rewrite Hi.
  destruct (st S !! s_id s0) as [p|] eqn:Hp.
  - destruct (can_update _ _ _) eqn:Hc.
    + intros H Hf. apply update_path_ok_id in H. rewrite Hi in H. subst i. split; [|congruence].
      split; [|reflexivity]. intros _. exists p. split; [reflexivity|]. apply can_update_iff. exact Hc.
    + intros H Hf. apply create_path_ok_id in H. subst i. split; [|auto].
      split; [congruence|]. intros (q & [= <-] & Hq). apply can_update_iff in Hq. congruence.
  - destruct (negb (String.eqb _ "")); [discriminate|].
    intros H Hf. apply create_path_ok_id in H. subst i. split; [|auto].
    split; [congruence|]. intros (q & [=] & _).
Qed.

(* the store content after a successful create / replace *)
Definition not_expired (p : msil) (now : Z) : bool := negb (beq (sil_state (m_sil p) now) SExpired).
Definition expire_applies (c : cfg) (p : msil) (now : Z) : bool :=
  not_expired p now && negb (m_exp (expire_result c p now) <? now) && (m_upd p <? now).

Definition st_after_expire (c : cfg) (S : store) (prev : option msil) (now : Z) : gmap string msil :=
  match prev with
  | Some p => if expire_applies c p now then <[m_id p := expire_result c p now]> (st S) else st S
  | None => st S
  end.

Lemma create_path_st c x now S s prev fresh sz S' i bc :
  create_path c x now S s prev fresh sz = (S', RSetOk i bc) -> key_ok S ->
  (forall p, prev = Some p -> st S !! m_id p = Some p /\ marshal_ok x (m_sil p) = true) ->
  st S' = mst (st_merge now (st_after_expire c S prev now) (mesh c (created_version s fresh now))).
Proof.
  unfold create_path. destruct (over_count c S); [discriminate|]. destruct (over_size c sz); [discriminate|].
  destruct (negb (marshal_ok x _)); [discriminate|]. intros H Hk Hprev.
  assert (Hr : exists S1 bc1,
    match prev with
    | Some p => match sil_state (m_sil p) now with SExpired => Ok (S, []) | _ => expire c x now S (m_id p) end
    | None => Ok (S, [])
    end = Ok (S1, bc1) /\ st S1 = st_after_expire c S prev now).
  { destruct prev as [p|]; [|exists S, []; auto].
    destruct (Hprev p eq_refl) as [Hp Hm]. unfold st_after_expire, expire_applies, not_expired.
    destruct (sil_state (m_sil p) now) eqn:E.
    - destruct (expire_spec c x now S (m_id p) p Hk Hp ltac:(rewrite E; discriminate) Hm) as (S1 & He & Hst & _).
      exists S1. eexists. split; [exact He|]. rewrite Hst. cbn. reflexivity.
    - destruct (expire_spec c x now S (m_id p) p Hk Hp ltac:(rewrite E; discriminate) Hm) as (S1 & He & Hst & _).
      exists S1. eexists. split; [exact He|]. rewrite Hst. cbn. reflexivity.
    - exists S, []. split; reflexivity. }
  destruct Hr as (S1 & bc1 & Hr & Hst1). rewrite Hr in H.
  destruct (set_silence x now S1 _) as [[[S2 ch] ad]|] eqn:Hs; [|discriminate].
  injection H as <- _ _. apply set_silence_st in Hs as (Hs & _). rewrite Hs, Hst1. reflexivity.
Qed.

(* CREATE: the answered id is the fresh one; if it was not in the store, the store now holds under it exactly the
   submitted silence with start := max(start, now) — never in the past — unless the silence is already past its
   retention (end + retention < now), in which case nothing is stored; nothing else changes. *)
Theorem set_create c x now S s0 fresh sz S' i bc :
  set_op c x now S s0 fresh sz = (S', RSetOk i bc) -> key_ok S ->
  st S !! s_id s0 = None -> st S !! fresh = None ->
  let n := created_version (norm s0 now) fresh now in
  i = fresh /\ now <= s_start n /\ s_start n = Z.max (s_start (norm s0 now)) now /\
  st S' !! fresh = (if s_end s0 + c_ret c <? now then None else Some (mesh c n)) /\
  forall k, k <> fresh -> st S' !! k = st S !! k.
Proof.
  rewrite set_op_eq. cbn zeta.
  assert (Hi : s_id (norm s0 now) = s_id s0) by (unfold norm; destruct (_ =? 0); reflexivity).
  assert (He : s_end (norm s0 now) = s_end s0) by (unfold norm; destruct (_ =? 0); reflexivity).
  destruct (negb (validate x _)); [discriminate|]. rewrite Hi. intros H Hk Hn Hf. rewrite Hn in H.
  destruct (negb (String.eqb _ "")); [discriminate|].
  pose proof (create_path_ok_id _ _ _ _ _ _ _ _ _ _ _ H) as ->.
  apply create_path_st in H; [|exact Hk|intros p [=]]. cbn [st_after_expire] in H.
  split; [reflexivity|]. split; [cbn; lia|]. split; [reflexivity|]. split.
  - rewrite H, st_merge_lookup. cbn [m_id mesh m_sil created_version s_id].
    destruct (decide (fresh = fresh)); [|congruence]. unfold lww. cbn [m_exp mesh created_version s_end]. rewrite He, Hf.
    destruct (_ <? now); reflexivity.
  - intros k Hne. rewrite H, st_merge_lookup. cbn [m_id mesh m_sil created_version s_id].
    destruct (decide (k = fresh)); [contradiction|reflexivity].
Qed.

(* REPLACE (history rewrite): the submitted id is stored but cannot be edited in place. The answer is the fresh
   id; the old silence stays under its id, untouched if it had expired, else with end := now (start := now if
   it was pending); the new silence is stored under the fresh id; nothing else changes. *)
Theorem set_replace c x now S s0 fresh sz S' i bc p :
  set_op c x now S s0 fresh sz = (S', RSetOk i bc) -> key_ok S ->
  st S !! s_id s0 = Some p -> ~ can_update_spec (m_sil p) (norm s0 now) now ->
  st S !! fresh = None -> marshal_ok x (m_sil p) = true ->
  let n := created_version (norm s0 now) fresh now in
  i = fresh /\
  st S' !! s_id s0 = Some (if expire_applies c p now then expire_result c p now else p) /\
  st S' !! fresh = (if s_end s0 + c_ret c <? now then None else Some (mesh c n)) /\
  forall k, k <> fresh -> k <> s_id s0 -> st S' !! k = st S !! k.
Proof.
  rewrite set_op_eq. cbn zeta.
  assert (Hi : s_id (norm s0 now) = s_id s0) by (unfold norm; destruct (_ =? 0); reflexivity).
  assert (He : s_end (norm s0 now) = s_end s0) by (unfold norm; destruct (_ =? 0); reflexivity).
  destruct (negb (validate x _)); [discriminate|]. rewrite Hi. intros H Hk Hp Hc Hf Hm. rewrite Hp in H.
  destruct (can_update _ _ _) eqn:Hcu; [exfalso; apply Hc, can_update_iff, Hcu|].
  pose proof (create_path_ok_id _ _ _ _ _ _ _ _ _ _ _ H) as ->.
  assert (Hidp : m_id p = s_id s0) by (apply (Hk _ _ Hp)).
  assert (Hne : fresh <> s_id s0) by (intros ->; congruence).
  apply create_path_st in H; [|exact Hk|intros q [= <-]; rewrite Hidp; auto]. cbn [st_after_expire] in H.
  rewrite Hidp in H.
  split; [reflexivity|]. split; [|split].
  - rewrite H, st_merge_lookup. cbn [m_id mesh m_sil created_version s_id].
    destruct (decide (s_id s0 = fresh)); [congruence|].
    destruct (expire_applies c p now); [rewrite lookup_insert; reflexivity|exact Hp].
  - rewrite H, st_merge_lookup. cbn [m_id mesh m_sil created_version s_id].
    destruct (decide (fresh = fresh)); [|congruence]. unfold lww. cbn [m_exp mesh created_version s_end]. rewrite He.
    assert (Hold : (if expire_applies c p now then <[s_id s0 := expire_result c p now]> (st S) else st S) !! fresh = None).
    { destruct (expire_applies c p now); [rewrite lookup_insert_ne by congruence|]; exact Hf. }
    rewrite Hold. destruct (_ <? now); reflexivity.
  - intros k Hk1 Hk2. rewrite H, st_merge_lookup. cbn [m_id mesh m_sil created_version s_id].
    destruct (decide (k = fresh)); [contradiction|].
    destruct (expire_applies c p now); [rewrite lookup_insert_ne by congruence|]; reflexivity.
Qed.

(* when does the expiry of the previous silence take hold: it was not expired, the clock moved since its last
   update, and the retention is not negative *)
Lemma expire_applies_true c p now :
  sil_state (m_sil p) now <> SExpired -> m_upd p < now -> 0 <= c_ret c -> expire_applies c p now = true.
Proof.
  intros Hs Hu Hr. unfold expire_applies, not_expired.
  destruct (sil_state (m_sil p) now) eqn:E; try contradiction; cbn.
  all: unfold expire_result, mesh, expired_version; rewrite E; cbn.
  all: apply andb_true_iff; split; [apply negb_true_iff|]; lia.
Qed.

Lemma expire_applies_expired c p now : sil_state (m_sil p) now = SExpired -> expire_applies c p now = false.
Proof. intros E. unfold expire_applies, not_expired. rewrite E. reflexivity. Qed.

(* UPDATE IN PLACE: content after a successful in-place edit *)
Theorem set_update c x now S s0 fresh sz S' i bc p :
  set_op c x now S s0 fresh sz = (S', RSetOk i bc) -> key_ok S ->
  st S !! s_id s0 = Some p -> can_update_spec (m_sil p) (norm s0 now) now ->
  let s := norm s0 now in
  let e := mesh c (with_times s (s_start s) (s_end s) now) in
  i = s_id s0 /\
  st S' !! s_id s0 = Some (if negb (m_exp e <? now) && (m_upd p <? now) then e else p) /\
  (forall k, k <> s_id s0 -> st S' !! k = st S !! k) /\
  mi S' = mi S /\ vi S' = vi S /\ ver S' = ver S.
Proof.
  rewrite set_op_eq. cbn zeta.
  assert (Hi : s_id (norm s0 now) = s_id s0) by (unfold norm; destruct (_ =? 0); reflexivity).
  destruct (negb (validate x _)); [discriminate|]. rewrite Hi. intros H Hk Hp Hc. rewrite Hp in H.
  apply can_update_iff in Hc. rewrite Hc in H. unfold update_path in H.
  destruct (over_size c sz); [discriminate|].
  destruct (set_silence _ _ _ _) as [[[S1 ch] ad]|] eqn:Hs; [|discriminate].
  injection H as <- <- _. rewrite Hi.
  pose proof (set_silence_st _ _ _ _ _ _ _ Hs) as (Hst & _ & Had).
  set (e := mesh c _) in *.
  assert (Hide : m_id e = s_id s0) by (unfold e, m_id, mesh; cbn; exact Hi).
  rewrite (st_merge_not_added now (st S) e p) in Had by (rewrite Hide; exact Hp). subst ad.
  apply set_silence_frame in Hs. split; [reflexivity|]. split; [|split; [|exact Hs]].
  - rewrite Hst, st_merge_lookup, Hide. destruct (decide _); [|congruence].
    unfold lww. rewrite Hp. assert (Hu : m_upd e = now) by reflexivity. rewrite Hu.
    destruct (m_exp e <? now); [reflexivity|]. destruct (m_upd p <? now); reflexivity.
  - intros k Hne. rewrite Hst, st_merge_lookup, Hide. destruct (decide _); [contradiction|reflexivity].
Qed.

(* ---------- GC ---------- *)

Definition live (now : Z) (s : gmap string msil) (k : string) : bool :=
  match s !! k with Some e => now <? m_exp e | None => false end.

Lemma bd_cons_eq (id : string) l : bool_decide (id ∈ id :: l) = true.
Proof. apply bool_decide_eq_true_2. left. Qed.
Lemma bd_cons_ne (k id : string) l : k <> id -> bool_decide (k ∈ id :: l) = bool_decide (k ∈ l).
Proof.
  intros Hne. destruct (bool_decide (k ∈ l)) eqn:Hb.
  - apply bool_decide_eq_true in Hb. apply bool_decide_eq_true_2. right. exact Hb.
  - apply bool_decide_eq_false in Hb. apply bool_decide_eq_false_2.
    intros Hin. apply elem_of_cons in Hin as [?|?]; contradiction.
Qed.

Definition gc_dead (now : Z) (s : gmap string msil) (ids : list string) (k : string) : bool :=
  bool_decide (k ∈ ids) && negb (live now s k).

Lemma gc_fold_spec now l : forall s m v n err,
  (forall k e, s !! k = Some e -> m_id e = k) ->
  let '(s', m', v', n', err') := foldl (gc_step now) (s, m, v, n, err) l in
  (forall k, s' !! k = if gc_dead now s (map snd l) k then None else s !! k) /\
  (forall k, m' !! k = if gc_dead now s (map snd l) k && bool_decide (is_Some (s !! k)) then None else m !! k) /\
  v' = v ++ filter (fun sv => live now s (snd sv) = true) l.
Proof.
  induction l as [|[vv id] l IH]; intros s m v n err Hk.
  - cbn. split; [|split]; [intros k; reflexivity|intros k; reflexivity|rewrite app_nil_r; reflexivity].
  - cbn [foldl gc_step snd]. destruct (s !! id) as [e|] eqn:He.
    + destruct (now <? m_exp e) eqn:Hl.
      * specialize (IH s m (v ++ [(vv, id)]) n err Hk).
        destruct (foldl _ _ l) as [[[[s' m'] v'] n'] err']. destruct IH as (H1 & H2 & H3).
        assert (Hlive : live now s id = true) by (unfold live; rewrite He; exact Hl).
        split; [|split].
        -- intros k. rewrite H1. unfold gc_dead. cbn [map snd]. destruct (decide (k = id)) as [->|Hne].
           ++ rewrite bd_cons_eq, Hlive. cbn. rewrite andb_false_r. reflexivity.
           ++ rewrite bd_cons_ne by exact Hne. reflexivity.
        -- intros k. rewrite H2. unfold gc_dead. cbn [map snd]. destruct (decide (k = id)) as [->|Hne].
           ++ rewrite bd_cons_eq, Hlive. cbn. rewrite andb_false_r. reflexivity.
           ++ rewrite bd_cons_ne by exact Hne. reflexivity.
        -- rewrite H3, filter_cons. cbn [snd]. destruct (decide _); [|congruence].
           rewrite <- app_assoc. reflexivity.
      * assert (Hid : m_id e = id) by (apply (Hk _ _ He)). rewrite Hid.
        assert (Hk' : forall k e0, delete id s !! k = Some e0 -> m_id e0 = k).
        { intros k e0 H. apply lookup_delete_Some in H as [_ H]. apply (Hk _ _ H). }
        specialize (IH (delete id s) (delete id m) v (S n) err Hk').
        destruct (foldl _ _ l) as [[[[s' m'] v'] n'] err']. destruct IH as (H1 & H2 & H3).
        assert (Hdead : live now s id = false) by (unfold live; rewrite He; exact Hl).
        assert (Hdead' : live now (delete id s) id = false) by (unfold live; rewrite lookup_delete; reflexivity).
        assert (Hlive' : forall k, k <> id -> live now (delete id s) k = live now s k).
        { intros k Hne. unfold live. rewrite lookup_delete_ne by congruence. reflexivity. }
        split; [|split].
        -- intros k. rewrite H1. unfold gc_dead. cbn [map snd]. destruct (decide (k = id)) as [->|Hne].
           ++ rewrite bd_cons_eq, Hdead, Hdead', lookup_delete. cbn. destruct (bool_decide _); reflexivity.
           ++ rewrite bd_cons_ne, Hlive', lookup_delete_ne by congruence. reflexivity.
        -- intros k. rewrite H2. unfold gc_dead. cbn [map snd]. destruct (decide (k = id)) as [->|Hne].
           ++ rewrite bd_cons_eq, Hdead, Hdead', He, !lookup_delete. cbn.
              destruct (_ && _); reflexivity.
           ++ rewrite bd_cons_ne, Hlive', !lookup_delete_ne by congruence. reflexivity.
        -- rewrite H3, filter_cons. cbn [snd]. destruct (decide _); [congruence|]. f_equal.
           apply list_filter_iff. intros [v0 k0]. cbn. destruct (decide (k0 = id)) as [->|Hne].
           ++ rewrite Hdead, Hdead'. reflexivity.
           ++ rewrite Hlive' by exact Hne. reflexivity.
    + specialize (IH s m v n true Hk).
      destruct (foldl _ _ l) as [[[[s' m'] v'] n'] err']. destruct IH as (H1 & H2 & H3).
      assert (Hdead : live now s id = false) by (unfold live; rewrite He; reflexivity).
      split; [|split].
      * intros k. rewrite H1. unfold gc_dead. cbn [map snd]. destruct (decide (k = id)) as [->|Hne].
        -- rewrite bd_cons_eq, Hdead, He. cbn. destruct (_ && _); reflexivity.
        -- rewrite bd_cons_ne by exact Hne. reflexivity.
      * intros k. rewrite H2. unfold gc_dead. cbn [map snd]. destruct (decide (k = id)) as [->|Hne].
        -- rewrite bd_cons_eq, Hdead, He. cbn. rewrite !andb_false_r. reflexivity.
        -- rewrite bd_cons_ne by exact Hne. reflexivity.
      * rewrite H3, filter_cons. cbn [snd]. destruct (decide _); [congruence|]. reflexivity.
Qed.

Lemma gc_op_spec now S :
  key_ok S ->
  (forall k, st (fst (gc_op now S)) !! k = if gc_dead now (st S) (map snd (vi S)) k then None else st S !! k) /\
  (forall k, mi (fst (gc_op now S)) !! k =
             if gc_dead now (st S) (map snd (vi S)) k && bool_decide (is_Some (st S !! k)) then None else mi S !! k) /\
  vi (fst (gc_op now S)) = filter (fun sv => live now (st S) (snd sv) = true) (vi S) /\
  ver (fst (gc_op now S)) = ver S.
Proof.
  intros Hk. unfold gc_op. pose proof (gc_fold_spec now (vi S) (st S) (mi S) [] O false Hk) as H.
  destruct (foldl _ _ _) as [[[[s' m'] v'] n'] err']. destruct H as (H1 & H2 & H3). cbn. auto.
Qed.

(* ---------- the bookkeeping invariant ---------- *)

Record Inv (x : ext) (S : store) : Prop := mkInv {
  inv_key : key_ok S;
  inv_vi : forall k, is_Some (st S !! k) <-> k ∈ map snd (vi S);
  inv_mi : forall k, is_Some (mi S !! k) <-> is_Some (st S !! k);
  inv_nodup : NoDup (map snd (vi S));
  inv_ver : Forall (fun sv => fst sv <= ver S) (vi S);
  inv_comp : forall k e, st S !! k = Some e -> compiles x (s_ms (m_sil e)) = true;
  inv_marshal : forall k e, st S !! k = Some e -> marshal_ok x (m_sil e) = true }.

Lemma Inv_empty x : Inv x empty_store.
Proof.
  constructor; unfold empty_store, key_ok; cbn [st mi vi ver].
  - intros k e H. rewrite lookup_empty in H. discriminate.
  - intros k. rewrite lookup_empty. split; [intros [? ?]; discriminate|intros H; inversion H].
  - intros k. rewrite !lookup_empty. split; intros [? ?]; discriminate.
  - constructor.
  - constructor.
  - intros k e H. rewrite lookup_empty in H. discriminate.
  - intros k e H. rewrite lookup_empty in H. discriminate.
Qed.

(* GC removes exactly the silences whose ExpiresAt is not after now *)
Theorem gc_exact x now S k :
  Inv x S ->
  st (fst (gc_op now S)) !! k =
  match st S !! k with Some e => if now <? m_exp e then Some e else None | None => None end.
Proof.
  intros HI. destruct (gc_op_spec now S (inv_key _ _ HI)) as (H1 & _). rewrite H1. unfold gc_dead, live.
  destruct (st S !! k) as [e|] eqn:He.
  - rewrite bool_decide_eq_true_2 by (apply (inv_vi _ _ HI); rewrite He; eauto). cbn.
    destruct (now <? m_exp e); reflexivity.
  - destruct (_ && _); reflexivity.
Qed.

Theorem gc_preserves_inv x now S : Inv x S -> Inv x (fst (gc_op now S)).
Proof.
  intros HI. destruct (gc_op_spec now S (inv_key _ _ HI)) as (H1 & H2 & H3 & H4).
  assert (Hst : forall k, st (fst (gc_op now S)) !! k =
                 match st S !! k with Some e => if now <? m_exp e then Some e else None | None => None end)
    by (intros k; apply (gc_exact x); exact HI).
  constructor.
  - intros k e. rewrite Hst. destruct (st S !! k) as [e'|] eqn:He; [|discriminate].
    destruct (now <? m_exp e'); [|discriminate]. intros [= <-]. apply (inv_key _ _ HI _ _ He).
  - intros k. rewrite H3, Hst. split.
    + intros [e He]. destruct (st S !! k) as [e'|] eqn:Hk; [|discriminate].
      destruct (now <? m_exp e') eqn:Hl; [|discriminate].
      assert (Hin : k ∈ map snd (vi S)) by (apply (inv_vi _ _ HI); rewrite Hk; eauto).
      apply elem_of_list_fmap in Hin as ([v k'] & -> & Hin). apply elem_of_list_fmap.
      exists (v, k'). split; [reflexivity|]. apply elem_of_list_filter. split; [|exact Hin].
      cbn. unfold live. cbn in Hk. rewrite Hk. exact Hl.
    + intros Hin. apply elem_of_list_fmap in Hin as ([v k'] & -> & Hin).
      apply elem_of_list_filter in Hin as [Hl Hin]. cbn in *. unfold live in Hl.
      destruct (st S !! k') as [e'|]; [|discriminate]. rewrite Hl. eauto.
  - intros k. rewrite H2, Hst. unfold gc_dead, live.
    destruct (st S !! k) as [e|] eqn:He.
    + rewrite bool_decide_eq_true_2 by (apply (inv_vi _ _ HI); rewrite He; eauto).
      rewrite (bool_decide_eq_true_2 (is_Some (Some e))) by eauto. cbn.
      destruct (now <? m_exp e); cbn.
      * rewrite (inv_mi _ _ HI), He. split; eauto.
      * split; intros [? ?]; discriminate.
    + rewrite (bool_decide_eq_false_2 (is_Some None)) by (intros [? ?]; discriminate).
      rewrite andb_false_r. rewrite (inv_mi _ _ HI), He. reflexivity.
  - rewrite H3. clear -HI. pose proof (inv_nodup _ _ HI) as Hn. revert Hn.
    generalize (vi S). intros l. induction l as [|[v k] l IH]; cbn; [constructor|].
    intros Hn. apply NoDup_cons in Hn as [Hnin Hn]. destruct (decide _).
    + cbn. apply NoDup_cons. split; [|apply IH; exact Hn].
      intros Hin. apply Hnin. apply elem_of_list_fmap in Hin as (y & -> & Hy).
      apply elem_of_list_filter in Hy as [_ Hy]. apply elem_of_list_fmap. eauto.
    + apply IH. exact Hn.
  - rewrite H3, H4. apply Forall_forall. intros sv Hin. apply elem_of_list_filter in Hin as [_ Hin].
    pose proof (inv_ver _ _ HI) as Hv. rewrite Forall_forall in Hv. apply Hv. exact Hin.
  - intros k e. rewrite Hst. destruct (st S !! k) as [e'|] eqn:He; [|discriminate].
    destruct (now <? m_exp e'); [|discriminate]. intros [= <-]. apply (inv_comp _ _ HI _ _ He).
  - intros k e. rewrite Hst. destruct (st S !! k) as [e'|] eqn:He; [|discriminate].
    destruct (now <? m_exp e'); [|discriminate]. intros [= <-]. apply (inv_marshal _ _ HI _ _ He).
Qed.

(* pending / active silences are never collected when the retention is positive and ExpiresAt = end + retention
   (a pending silence is assumed to end after it starts: Set never stores another kind that is still pending) *)
Theorem gc_never_live x c now S k e :
  Inv x S -> st S !! k = Some e -> m_exp e = s_end (m_sil e) + c_ret c -> 0 < c_ret c ->
  sil_state (m_sil e) now <> SExpired ->
  (sil_state (m_sil e) now = SPending -> s_start (m_sil e) <= s_end (m_sil e)) ->
  st (fst (gc_op now S)) !! k = Some e.
Proof.
  intros HI He Hx Hr Hs Hp. rewrite (gc_exact x) by exact HI. rewrite He.
  assert (now <= s_end (m_sil e)).
  { destruct (sil_state (m_sil e) now) eqn:E; try contradiction.
    - specialize (Hp eq_refl). apply sil_state_pending in E. lia.
    - apply sil_state_active in E. lia. }
  destruct (now <? m_exp e) eqn:Hl; [reflexivity|lia].
Qed.

(* ---------- Query ---------- *)

Lemma scan_nofilter x S now skip ids :
  (skip = true \/ forall k, k ∈ ids -> is_Some (st S !! k)) ->
  scan x S now [] skip ids = Ok (omap (fun k => m_sil <$> st S !! k) ids).
Proof.
  intros H. induction ids as [|k ids IH]; [reflexivity|]. cbn [scan omap].
  destruct (st S !! k) as [e|] eqn:He; cbn beta; rewrite ?He.
  - cbn. rewrite He. cbn. rewrite IH; [reflexivity|]. destruct H as [H|H]; [auto|right; intros; apply H; right; assumption].
  - destruct H as [->|H].
    + cbn. rewrite He. cbn. apply IH. auto.
    + destruct (H k ltac:(left)) as [? Hk]. congruence.
Qed.

Definition in_states (sts : list sstate) (now : Z) (s : silence) : bool := bool_decide (sil_state s now ∈ sts).

Lemma scan_state x S now sts skip ids :
  (skip = true \/ forall k, k ∈ ids -> is_Some (st S !! k)) ->
  scan x S now [FState sts] skip ids =
  Ok (omap (fun k => match st S !! k with
                     | Some e => if in_states sts now (m_sil e) then Some (m_sil e) else None
                     | None => None end) ids).
Proof.
  intros H. induction ids as [|k ids IH]; [reflexivity|]. cbn [scan].
  destruct (st S !! k) as [e|] eqn:He.
  - cbn [passes]. rewrite IH by (destruct H as [H|H]; [auto|right; intros; apply H; right; assumption]).
    cbn. rewrite He. unfold in_states. destruct (bool_decide _); reflexivity.
  - destruct H as [->|H].
    + rewrite IH by auto. cbn. rewrite He. reflexivity.
    + destruct (H k ltac:(left)) as [? Hk]. congruence.
Qed.

(* Query by ids returns exactly the stored silences with these ids (in the order asked) *)
Theorem query_ids_exact x now S id ids :
  query_op x now S [QIDs (id :: ids)] = RQuery (omap (fun k => m_sil <$> st S !! k) (id :: ids)) (ver S).
Proof. unfold query_op. cbn [build_query q_ids q_since q_filters app]. rewrite scan_nofilter by auto. reflexivity. Qed.

(* Query by state returns exactly the stored silences that are in one of the states now *)
Theorem query_state_exact x now S sts :
  Inv x S ->
  exists l, query_op x now S [QState sts] = RQuery l (ver S) /\
    forall s, s ∈ l <-> exists k e, st S !! k = Some e /\ m_sil e = s /\ sil_state s now ∈ sts.
Proof.
  intros HI. unfold query_op. cbn [build_query q_ids q_since q_filters app].
  rewrite scan_state by (right; intros k Hk; apply (inv_vi _ _ HI); exact Hk).
  eexists. split; [reflexivity|]. intros s. rewrite elem_of_list_omap. split.
  - intros (k & Hk & Hs). destruct (st S !! k) as [e|] eqn:He; [|discriminate].
    unfold in_states in Hs. destruct (bool_decide _) eqn:Hb; [|discriminate]. injection Hs as <-.
    apply bool_decide_eq_true in Hb. eauto.
  - intros (k & e & He & <- & Hs). exists k. split.
    + apply (inv_vi _ _ HI). rewrite He. eauto.
    + rewrite He. unfold in_states. rewrite bool_decide_eq_true_2 by exact Hs. reflexivity.
Qed.

(* ---------- shape of outputs ---------- *)

Lemma set_op_out c x now S s0 fresh sz :
  (exists code, snd (set_op c x now S s0 fresh sz) = RErr code) \/
  (exists i bc, snd (set_op c x now S s0 fresh sz) = RSetOk i bc).
Proof.
  rewrite set_op_eq. cbn zeta. destruct (negb (validate x _)); [left; eexists; reflexivity|].
  assert (Hu : forall s, (exists code, snd (update_path c x now S s sz) = RErr code) \/
                         (exists i bc, snd (update_path c x now S s sz) = RSetOk i bc)).
  { intros s. unfold update_path. destruct (over_size c sz); [left; eexists; reflexivity|].
    destruct (set_silence _ _ _ _) as [[[S1 ch] ad]|]; [right|left]; repeat eexists. }
  assert (Hc : forall s prev, (exists code, snd (create_path c x now S s prev fresh sz) = RErr code) \/
                         (exists i bc, snd (create_path c x now S s prev fresh sz) = RSetOk i bc)).
  { intros s prev. unfold create_path. destruct (over_count c S); [left; eexists; reflexivity|].
    destruct (over_size c sz); [left; eexists; reflexivity|].
    destruct (negb (marshal_ok x _)); [left; eexists; reflexivity|].
    match goal with |- context [match ?r with Ok _ => _ | _ => _ end] => destruct r as [[S1 bc1]| |] end;
      try (left; eexists; reflexivity).
    destruct (set_silence _ _ _ _) as [[[S2 ch] ad]|]; [right|left]; repeat eexists. }
  destruct (st S !! _) as [p|].
  - destruct (can_update _ _ _); auto.
  - destruct (negb (String.eqb _ "")); [left; eexists; reflexivity|auto].
Qed.

(* ---------- snapshot reload ---------- *)

Lemma decode_encode e : decode_rec (encode_rec e) = e.
Proof.
  destruct e as [[id ms a b u by_ cm an] ex]. unfold decode_rec, encode_rec. cbn.
  destruct ms as [|m0 ms]; reflexivity.
Qed.

Lemma foldl_insert_lookup {A} (l : list (string * A)) :
  NoDup (l.*1) -> forall (acc : gmap string A) k,
  foldl (fun a kv => <[fst kv := snd kv]> a) acc l !! k =
  match (list_to_map l : gmap string A) !! k with Some v => Some v | None => acc !! k end.
Proof.
  induction l as [|[k0 v0] r IH]; intros Hn acc k.
  - cbn. rewrite lookup_empty. reflexivity.
  - cbn in Hn. apply NoDup_cons in Hn as [Hnin Hn]. cbn [foldl fst snd]. rewrite IH by exact Hn.
    replace (list_to_map ((k0, v0) :: r) : gmap string A) with (<[k0 := v0]> (list_to_map r : gmap string A)) by reflexivity.
    destruct (decide (k = k0)) as [->|Hne].
    + rewrite (not_elem_of_list_to_map_1 _ _ Hnin), !lookup_insert. reflexivity.
    + rewrite !lookup_insert_ne by congruence. reflexivity.
Qed.

Lemma decode_batch_snapshot_gen l : forall acc,
  (forall k e, (k, e) ∈ l -> m_id e = k) ->
  decode_batch (map (fun kv => Some (encode_rec (snd kv))) l) acc =
  Some (foldl (fun a kv => <[fst kv := snd kv]> a) acc l).
Proof.
  induction l as [|[k e] r IH]; intros acc Hk; [reflexivity|].
  cbn [map decode_batch snd foldl fst]. rewrite decode_encode, (Hk k e) by left.
  apply IH. intros k' e' Hin. apply Hk. right. exact Hin.
Qed.

Theorem decode_snapshot S : key_ok S -> decode_batch (snapshot S) ∅ = Some (st S).
Proof.
  intros Hk. unfold snapshot. rewrite decode_batch_snapshot_gen.
  - f_equal. apply map_eq. intros k. rewrite foldl_insert_lookup by apply NoDup_fst_map_to_list.
    rewrite list_to_map_to_list, lookup_empty. destruct (st S !! k); reflexivity.
  - intros k e Hin. apply elem_of_map_to_list in Hin. apply (Hk _ _ Hin).
Qed.

(* ---------- the iteration order is a duplicate-free enumeration of the keys ---------- *)

Lemma elem_of_dedup (x : string) l : x ∈ dedup l <-> x ∈ l.
Proof.
  induction l as [|a r IH]; [reflexivity|]. cbn. destruct (bool_decide (a ∈ r)) eqn:Hb.
  - apply bool_decide_eq_true in Hb. rewrite IH, elem_of_cons. split; [auto|intros [->|?]; auto].
  - rewrite !elem_of_cons, IH. reflexivity.
Qed.

Lemma NoDup_dedup l : NoDup (dedup l).
Proof.
  induction l as [|a r IH]; [constructor|]. cbn. destruct (bool_decide (a ∈ r)) eqn:Hb; [exact IH|].
  apply bool_decide_eq_false in Hb. apply NoDup_cons. split; [rewrite elem_of_dedup; exact Hb|exact IH].
Qed.

Lemma ordered_ids_spec {A} order (m : gmap string A) :
  NoDup (ordered_ids order m) /\ forall k, k ∈ ordered_ids order m <-> is_Some (m !! k).
Proof.
  unfold ordered_ids. set (first := filter (fun k => is_Some (m !! k)) (dedup order)).
  assert (Hf : NoDup first) by (apply NoDup_filter, NoDup_dedup).
  assert (Hkeys : forall k, k ∈ (map_to_list m).*1 <-> is_Some (m !! k)).
  { intros k. rewrite elem_of_list_fmap. split.
    - intros ([k' v] & -> & Hin). apply elem_of_map_to_list in Hin. cbn. rewrite Hin. eauto.
    - intros [v Hv]. exists (k, v). split; [reflexivity|]. apply elem_of_map_to_list. exact Hv. }
  split.
  - apply NoDup_app. split; [exact Hf|]. split.
    + intros k Hk Hin. apply elem_of_list_filter in Hin as [Hn _]. contradiction.
    + apply NoDup_filter, NoDup_fst_map_to_list.
  - intros k. rewrite elem_of_app. split.
    + intros [Hin|Hin].
      * apply elem_of_list_filter in Hin as [H _]. exact H.
      * apply elem_of_list_filter in Hin as [_ H]. apply Hkeys. exact H.
    + intros Hk. destruct (decide (k ∈ first)) as [Hin|Hnin]; [left; exact Hin|].
      right. apply elem_of_list_filter. split; [exact Hnin|]. apply Hkeys. exact Hk.
Qed.

Lemma omap_lookup_all (m : gmap string msil) ids :
  (forall k e, m !! k = Some e -> m_id e = k) -> (forall k, k ∈ ids -> is_Some (m !! k)) ->
  map m_id (omap (fun k => m !! k) ids) = ids /\
  forall e, e ∈ omap (fun k => m !! k) ids -> m !! m_id e = Some e.
Proof.
  intros Hk. induction ids as [|k ids IH]; intros Hin; [split; [reflexivity|intros e H; inversion H]|].
  destruct (Hin k ltac:(left)) as [e He].
  destruct IH as [IH1 IH2]; [intros k' H; apply Hin; right; exact H|].
  cbn. rewrite He. cbn. rewrite IH1, (Hk _ _ He). split; [reflexivity|].
  intros e' Hin'. apply elem_of_cons in Hin' as [->|Hin']; [rewrite (Hk _ _ He); exact He|auto].
Qed.

Lemma ordered_vals_spec order (m : gmap string msil) :
  (forall k e, m !! k = Some e -> m_id e = k) ->
  map m_id (ordered_vals order m) = ordered_ids order m /\
  forall e, e ∈ ordered_vals order m -> m !! m_id e = Some e.
Proof.
  intros Hk. unfold ordered_vals. apply omap_lookup_all; [exact Hk|].
  intros k Hin. apply (proj2 (ordered_ids_spec order m)). exact Hin.
Qed.

(* ---------- the indexes loadSnapshot builds ---------- *)

Lemma load_fold x v es : forall m0 l0,
  Forall (fun e => compiles x (s_ms (m_sil e)) = true) es ->
  foldl (load_one x v) (m0, l0) es =
  (foldl (fun a e => <[m_id e := s_ms (m_sil e)]> a) m0 es, l0 ++ map (fun e => (v, m_id e)) es).
Proof.
  induction es as [|e es IH]; intros m0 l0 H; [cbn; rewrite app_nil_r; reflexivity|].
  apply Forall_cons in H as [He H]. cbn [foldl load_one]. rewrite He, IH by exact H.
  cbn [map]. rewrite <- app_assoc. reflexivity.
Qed.

Lemma foldl_insert_is_Some (es : list msil) : forall (m0 : gmap string (list (list matcher))) k,
  is_Some (foldl (fun a e => <[m_id e := s_ms (m_sil e)]> a) m0 es !! k) <-> is_Some (m0 !! k) \/ k ∈ map m_id es.
Proof.
  induction es as [|e es IH]; intros m0 k.
  - cbn. split; [auto|intros [?|H]; [assumption|inversion H]].
  - cbn [foldl map]. rewrite IH, lookup_insert_is_Some, elem_of_cons. split.
    + intros [[->|[_ ?]]|?]; auto.
    + intros [?|[->|?]]; auto. destruct (decide (m_id e = k)); auto.
Qed.

(* RELOAD keeps the content and re-establishes the bookkeeping invariant, for every iteration order *)
Theorem reload_spec x S order :
  Inv x S ->
  exists S', reload_op x S order = (S', RReloaded) /\ st S' = st S /\ Inv x S' /\ ver S' = 1.
Proof.
  intros HI. unfold reload_op, load_snapshot. rewrite (decode_snapshot S (inv_key _ _ HI)).
  destruct (ordered_vals_spec order (st S) (inv_key _ _ HI)) as [Hids Hvals].
  destruct (ordered_ids_spec order (st S)) as [Hnd Hin].
  assert (Hc : Forall (fun e => compiles x (s_ms (m_sil e)) = true) (ordered_vals order (st S))).
  { apply Forall_forall. intros e He. apply (inv_comp _ _ HI _ _ (Hvals e He)). }
  rewrite load_fold by exact Hc. eexists. split; [reflexivity|]. split; [reflexivity|]. split; [|reflexivity].
  constructor; unfold key_ok; cbn [st mi vi ver empty_store app].
  - apply (inv_key _ _ HI).
  - intros k. rewrite map_map. cbn. change (map (fun e => m_id e) _) with (map m_id (ordered_vals order (st S))).
    rewrite Hids. symmetry. apply Hin.
  - intros k. rewrite foldl_insert_is_Some, Hids, Hin, lookup_empty.
    split; [intros [[? ?]|?]; [discriminate|assumption]|auto].
  - rewrite map_map. cbn. change (map (fun e => m_id e) _) with (map m_id (ordered_vals order (st S))).
    rewrite Hids. exact Hnd.
  - apply Forall_forall. intros sv Hsv. apply elem_of_list_fmap in Hsv as (e & -> & _). cbn. lia.
  - apply (inv_comp _ _ HI).
  - apply (inv_marshal _ _ HI).
Qed.

(* ---------- history is immutable under local operations ---------- *)

Definition wf_local (S : store) (o : op) : Prop :=
  match o with
  | OSet _ fresh _ | OApiPost _ fresh _ => st S !! fresh = None   (* uuid uniqueness *)
  | OMerge _ _ _ => False
  | _ => True
  end.

Lemma set_op_expired_immutable c x now S s0 fresh sz k p :
  Inv x S -> st S !! fresh = None -> st S !! k = Some p -> sil_state (m_sil p) now = SExpired ->
  st (fst (set_op c x now S s0 fresh sz)) !! k = Some p.
Proof.
  intros HI Hf Hp Hs. destruct (set_op c x now S s0 fresh sz) as [S' o] eqn:E.
  destruct (set_op_out c x now S s0 fresh sz) as [[code Ho]|(i & bc & Ho)]; rewrite E in Ho; cbn in Ho; subst o.
  - apply set_err_unchanged in E. subst S'. exact Hp.
  - cbn [fst]. assert (Hkf : k <> fresh) by (intros ->; congruence).
    destruct (st S !! s_id s0) as [q|] eqn:Hq.
    + destruct (can_update (m_sil q) (norm s0 now) now) eqn:Hc.
      * apply can_update_iff in Hc.
        destruct (set_update _ _ _ _ _ _ _ _ _ _ q E (inv_key _ _ HI) Hq Hc) as (_ & H1 & H2 & _).
        destruct (decide (k = s_id s0)) as [->|Hne]; [|rewrite H2 by exact Hne; exact Hp].
        exfalso. rewrite Hq in Hp. injection Hp as ->. apply sil_state_expired in Hs.
        destruct Hc as (_ & [(Ha & _)|(Ha & _)]); lia.
      * assert (Hn : ~ can_update_spec (m_sil q) (norm s0 now) now) by (rewrite <- can_update_iff; congruence).
        destruct (set_replace _ _ _ _ _ _ _ _ _ _ q E (inv_key _ _ HI) Hq Hn Hf (inv_marshal _ _ HI _ _ Hq)) as (_ & H1 & _ & H3).
        destruct (decide (k = s_id s0)) as [->|Hne]; [|rewrite H3 by assumption; exact Hp].
        rewrite Hq in Hp. injection Hp as ->. rewrite H1, expire_applies_expired by exact Hs. reflexivity.
    + destruct (set_create _ _ _ _ _ _ _ _ _ _ E (inv_key _ _ HI) Hq Hf) as (_ & _ & _ & _ & H).
      rewrite H by exact Hkf. exact Hp.
Qed.

Lemma expire_op_expired_immutable c x now S id k p :
  Inv x S -> st S !! k = Some p -> sil_state (m_sil p) now = SExpired ->
  st (fst (expire_op c x now S id)) !! k = Some p.
Proof.
  intros HI Hp Hs. unfold expire_op. destruct (st S !! id) as [q|] eqn:Hq.
  - pose proof (inv_key _ _ HI) as Hk. pose proof (inv_marshal _ _ HI _ _ Hq) as Hm.
    destruct (beq (sil_state (m_sil q) now) SExpired) eqn:E.
    + apply (proj1 (beq_true _ _)) in E. unfold expire. rewrite Hq, E. exact Hp.
    + assert (Hn : sil_state (m_sil q) now <> SExpired) by (intros H; apply (proj2 (beq_true _ _)) in H; congruence).
      destruct (expire_spec c x now S id q Hk Hq Hn Hm) as (S' & He & Hst & _). rewrite He. cbn [fst]. rewrite Hst.
      destruct (_ && _); [|exact Hp].
      destruct (decide (k = id)) as [->|Hne]; [congruence|rewrite lookup_insert_ne by congruence; exact Hp].
  - unfold expire. rewrite Hq. exact Hp.
Qed.

(* NO RE-ACTIVATION / IMMUTABLE HISTORY, one step: a silence that is expired at the instant of a local operation
   is still stored, unchanged, afterwards — unless that operation is a GC at or after its ExpiresAt. *)
Theorem local_step_expired_immutable c x S now o k p :
  Inv x S -> wf_local S o -> st S !! k = Some p -> sil_state (m_sil p) now = SExpired ->
  st (fst (step c x S now o)) !! k = Some p \/
  (o = OGC /\ m_exp p <= now /\ st (fst (step c x S now o)) !! k = None).
Proof.
  intros HI Hwf Hp Hs. destruct o as [s fresh sz|id|b order blen| |ps|order|s fresh sz|id|id]; cbn [step wf_local] in *.
  - left. apply set_op_expired_immutable; assumption.
  - left. apply expire_op_expired_immutable; assumption.
  - contradiction.
  - rewrite (gc_exact x) by exact HI. rewrite Hp. destruct (now <? m_exp p) eqn:Hl; [left; reflexivity|].
    right. repeat split; [lia].
  - left. exact Hp.
  - left. destruct (reload_spec x S order HI) as (S' & -> & Hst & _). cbn [fst]. rewrite Hst. exact Hp.
  - left. unfold api_post. destruct (_ <=? _); [exact Hp|]. destruct (_ <? _); [exact Hp|].
    apply set_op_expired_immutable; assumption.
  - left. apply expire_op_expired_immutable; assumption.
  - left. exact Hp.
Qed.

(* ---------- the invariant is preserved ---------- *)

Lemma st_merge_added_eq now s e : mad (st_merge now s e) = true -> mst (st_merge now s e) = <[m_id e := e]> s.
Proof.
  unfold st_merge, mad, mst. destruct (m_exp e <? now); [discriminate|].
  destruct (s !! m_id e) as [p|]; [destruct (m_upd p <? m_upd e)|]; cbn; try discriminate. reflexivity.
Qed.

Lemma st_merge_not_added_eq now s e :
  mad (st_merge now s e) = false ->
  mst (st_merge now s e) = s \/ (exists p, s !! m_id e = Some p /\ mst (st_merge now s e) = <[m_id e := e]> s).
Proof.
  unfold st_merge, mad, mst. destruct (m_exp e <? now); [auto|].
  destruct (s !! m_id e) as [p|]; [destruct (m_upd p <? m_upd e)|]; cbn; try discriminate; eauto.
Qed.

Lemma validate_compiles x s : validate x s = true -> compiles x (s_ms s) = true.
Proof.
  unfold validate, compiles. intros H. repeat (apply andb_true_iff in H as [H ?]).
  destruct (s_ms s) as [|ms0 mss]; [discriminate|]. revert H. generalize (ms0 :: mss). intros l H.
  rewrite forallb_forall in *. intros ms Hin. specialize (H ms Hin). unfold valid_set in H.
  destruct ms as [|m ms]; [discriminate|]. apply andb_true_iff in H as [H _].
  rewrite forallb_forall in *. intros m' Hm. specialize (H m' Hm). unfold valid_matcher in H.
  apply andb_true_iff in H as [_ H]. destruct (is_re m'); [exact H|reflexivity].
Qed.

Lemma set_silence_inv x now S e S' ch ad :
  Inv x S -> set_silence x now S e = Some (S', ch, ad) -> compiles x (s_ms (m_sil e)) = true -> Inv x S'.
Proof.
  intros HI. rewrite set_silence_spec. destruct (negb (marshal_ok x (m_sil e))) eqn:Hm; [discriminate|].
  apply negb_false_iff in Hm. cbn zeta. intros H Hc. injection H as <- _ _.
  destruct (mad (st_merge now (st S) e)) eqn:Had.
  - pose proof (st_merge_added _ _ _ Had) as [Hnone _]. rewrite (st_merge_added_eq _ _ _ Had).
    assert (Hnin : m_id e ∉ map snd (vi S)).
    { intros Hin. apply (inv_vi _ _ HI) in Hin as [? Hin]. congruence. }
    constructor; unfold index_silence, with_st, key_ok; cbn [st mi vi ver].
    + intros k p Hp. apply lookup_insert_Some in Hp as [[<- <-]|[_ Hp]]; [reflexivity|apply (inv_key _ _ HI _ _ Hp)].
    + intros k. rewrite map_app, elem_of_app. cbn [map snd]. rewrite elem_of_list_singleton.
      rewrite lookup_insert_is_Some, (inv_vi _ _ HI). change (s_id (m_sil e)) with (m_id e).
      split.
      * intros [Heq|[_ Hk]]; [right; symmetry; exact Heq|left; exact Hk].
      * intros [Hk|Heq]; [|left; symmetry; exact Heq].
        destruct (decide (m_id e = k)); [left; assumption|right; split; assumption].
    + intros k. rewrite Hc. change (s_id (m_sil e)) with (m_id e).
      rewrite !lookup_insert_is_Some, (inv_mi _ _ HI). reflexivity.
    + rewrite map_app. cbn [map snd]. apply NoDup_app. split; [apply (inv_nodup _ _ HI)|]. split.
      * intros k Hin Hk. apply elem_of_list_singleton in Hk. subst k. contradiction.
      * apply NoDup_singleton.
    + apply Forall_app. split.
      * eapply Forall_impl; [apply (inv_ver _ _ HI)|]. cbn. intros; lia.
      * constructor; [cbn; lia|constructor].
    + intros k p Hp. apply lookup_insert_Some in Hp as [[_ <-]|[_ Hp]]; [exact Hc|apply (inv_comp _ _ HI _ _ Hp)].
    + intros k p Hp. apply lookup_insert_Some in Hp as [[_ <-]|[_ Hp]]; [exact Hm|apply (inv_marshal _ _ HI _ _ Hp)].
  - destruct (st_merge_not_added_eq _ _ _ Had) as [->|(p & Hp & ->)].
    + destruct HI; constructor; assumption.
    + constructor; unfold with_st, key_ok; cbn [st mi vi ver].
      * intros k q Hq. apply lookup_insert_Some in Hq as [[<- <-]|[_ Hq]]; [reflexivity|apply (inv_key _ _ HI _ _ Hq)].
      * intros k. rewrite lookup_insert_is_Some, <- (inv_vi _ _ HI).
        split.
        -- intros [Heq|[_ Hk]]; [rewrite <- Heq, Hp; eauto|exact Hk].
        -- intros Hk. destruct (decide (m_id e = k)); [left; assumption|right; split; assumption].
      * intros k. rewrite lookup_insert_is_Some, (inv_mi _ _ HI).
        split.
        -- intros Hk. destruct (decide (m_id e = k)); [left; assumption|right; split; assumption].
        -- intros [Heq|[_ Hk]]; [rewrite <- Heq, Hp; eauto|exact Hk].
      * apply (inv_nodup _ _ HI).
      * apply (inv_ver _ _ HI).
      * intros k q Hq. apply lookup_insert_Some in Hq as [[_ <-]|[_ Hq]]; [exact Hc|apply (inv_comp _ _ HI _ _ Hq)].
      * intros k q Hq. apply lookup_insert_Some in Hq as [[_ <-]|[_ Hq]]; [exact Hm|apply (inv_marshal _ _ HI _ _ Hq)].
Qed.

Lemma expired_version_ms s now : s_ms (expired_version s now) = s_ms s.
Proof. unfold expired_version. destruct (sil_state s now); reflexivity. Qed.

Lemma expire_inv c x now S id S' bc : Inv x S -> expire c x now S id = Ok (S', bc) -> Inv x S'.
Proof.
  intros HI. unfold expire. destruct (st S !! id) as [p|] eqn:Hp; [|discriminate].
  assert (Hc : compiles x (s_ms (m_sil (mesh c (expired_version (m_sil p) now)))) = true).
  { cbn. rewrite expired_version_ms. apply (inv_comp _ _ HI _ _ Hp). }
  destruct (sil_state (m_sil p) now).
  3: intros [= <- _]; exact HI.
  all: destruct (set_silence _ _ _ _) as [[[S1 ch] ad]|] eqn:Hs; [|discriminate];
    intros [= <- _]; eapply set_silence_inv; eauto.
Qed.

Lemma expire_op_inv c x now S id : Inv x S -> Inv x (fst (expire_op c x now S id)).
Proof.
  intros HI. unfold expire_op. destruct (expire c x now S id) as [[S' bc]| |] eqn:E; cbn; [|exact HI..].
  eapply expire_inv; eauto.
Qed.

Lemma set_op_inv c x now S s0 fresh sz : Inv x S -> Inv x (fst (set_op c x now S s0 fresh sz)).
Proof.
  intros HI. rewrite set_op_eq. cbn zeta. destruct (negb (validate x _)) eqn:Hv; [exact HI|].
  apply negb_false_iff, validate_compiles in Hv.
  assert (Hu : Inv x (fst (update_path c x now S (norm s0 now) sz))).
  { unfold update_path. destruct (over_size c sz); [exact HI|].
    destruct (set_silence _ _ _ _) as [[[S1 ch] ad]|] eqn:Hs; [|exact HI]. cbn.
    eapply set_silence_inv; [exact HI|exact Hs|exact Hv]. }
  assert (Hc : forall prev, Inv x (fst (create_path c x now S (norm s0 now) prev fresh sz))).
  { intros prev. unfold create_path. destruct (over_count c S); [exact HI|]. destruct (over_size c sz); [exact HI|].
    destruct (negb (marshal_ok x _)); [exact HI|].
    match goal with |- context [match ?r with Ok _ => _ | _ => _ end] => destruct r as [[S1 bc1]| |] eqn:Er end; try exact HI.
    assert (HI1 : Inv x S1).
    { destruct prev as [p|]; [|injection Er as <- _; exact HI].
      destruct (sil_state (m_sil p) now).
      - eapply expire_inv; [exact HI|exact Er].
      - eapply expire_inv; [exact HI|exact Er].
      - injection Er as <- _; exact HI. }
    destruct (set_silence _ _ _ _) as [[[S2 ch] ad]|] eqn:Hs; [|exact HI1]. cbn.
    eapply set_silence_inv; [exact HI1|exact Hs|exact Hv]. }
  destruct (st S !! _) as [p|].
  - destruct (can_update _ _ _); auto.
  - destruct (negb (String.eqb _ "")); [exact HI|auto].
Qed.

Theorem local_step_inv c x S now o : Inv x S -> wf_local S o -> Inv x (fst (step c x S now o)).
Proof.
  intros HI Hwf. destruct o as [s fresh sz|id|b order blen| |ps|order|s fresh sz|id|id]; cbn [step wf_local] in *.
  - apply set_op_inv; exact HI.
  - apply expire_op_inv; exact HI.
  - contradiction.
  - apply gc_preserves_inv; exact HI.
  - exact HI.
  - destruct (reload_spec x S order HI) as (S' & -> & _ & HI' & _). exact HI'.
  - unfold api_post. destruct (_ <=? _); [exact HI|]. destruct (_ <? _); [exact HI|]. apply set_op_inv; exact HI.
  - apply expire_op_inv; exact HI.
  - exact HI.
Qed.

(* ---------- whole histories of local operations ---------- *)

Fixpoint hist_wf (c : cfg) (x : ext) (S : store) (t : Z) (h : list (Z * op)) : Prop :=
  match h with
  | [] => True
  | (now, o) :: r => t <= now /\ wf_local S o /\ hist_wf c x (fst (step c x S now o)) now r
  end.

Lemma run_store_cons c x S now o h : run_store c x S ((now, o) :: h) = run_store c x (fst (step c x S now o)) h.
Proof.
  unfold run_store. cbn [run]. destruct (step c x S now o) as [S1 y]. cbn [fst].
  destruct (run c x S1 h). reflexivity.
Qed.

Theorem local_hist_inv c x h : forall S t, Inv x S -> hist_wf c x S t h -> Inv x (run_store c x S h).
Proof.
  induction h as [|[now o] h IH]; intros S t HI Hwf; [exact HI|].
  destruct Hwf as (_ & Hw & Hr). rewrite run_store_cons. eapply IH; [|exact Hr].
  apply local_step_inv; assumption.
Qed.

(* all GCs of a history happen before the instant [bound] *)
Definition gc_before (h : list (Z * op)) (bound : Z) : Prop :=
  Forall (fun d => snd d = OGC -> fst d < bound) h.

(* NO RE-ACTIVATION / IMMUTABLE HISTORY over histories: once a silence is expired at t, then after ANY history of
   local operations at instants >= t in which no GC runs at or after its ExpiresAt, it is still stored and
   unchanged (hence expired at every later instant). By [local_step_expired_immutable] the only other outcome of
   a step is its collection by a GC at or after ExpiresAt. *)
Theorem expired_stays c x h : forall S t k p,
  Inv x S -> hist_wf c x S t h -> st S !! k = Some p -> sil_state (m_sil p) t = SExpired ->
  gc_before h (m_exp p) -> st (run_store c x S h) !! k = Some p.
Proof.
  induction h as [|[now o] h IH]; intros S t k p HI Hwf Hp Hs Hg; [exact Hp|].
  destruct Hwf as (Ht & Hw & Hr). rewrite run_store_cons.
  assert (Hs' : sil_state (m_sil p) now = SExpired) by (apply sil_state_expired in Hs; apply sil_state_expired; lia).
  apply Forall_cons in Hg as [Hg1 Hg]. cbn in Hg1.
  destruct (local_step_expired_immutable c x S now o k p HI Hw Hp Hs') as [H|(-> & Hle & _)].
  - eapply IH; [apply local_step_inv; eassumption|exact Hr|exact H|exact Hs'|exact Hg].
  - specialize (Hg1 eq_refl). lia.
Qed.

(* ---------- nothing but GC removes a silence ---------- *)

Lemma set_silence_keeps x now S e S' ch ad k :
  set_silence x now S e = Some (S', ch, ad) -> is_Some (st S !! k) -> is_Some (st S' !! k).
Proof.
  intros H [p Hp]. apply set_silence_st in H as (-> & _). rewrite st_merge_lookup.
  destruct (decide (k = m_id e)) as [->|]; [|rewrite Hp; eauto].
  unfold lww. rewrite Hp. destruct (m_exp e <? now); [eauto|]. destruct (m_upd p <? m_upd e); eauto.
Qed.

Lemma expire_keeps c x now S id S' bc k : expire c x now S id = Ok (S', bc) -> is_Some (st S !! k) -> is_Some (st S' !! k).
Proof.
  unfold expire. destruct (st S !! id) as [p|]; [|discriminate].
  destruct (sil_state (m_sil p) now).
  3: intros [= <- _]; auto.
  all: destruct (set_silence _ _ _ _) as [[[S1 ch] ad]|] eqn:Hs; [|discriminate];
    intros [= <- _]; eapply set_silence_keeps; eauto.
Qed.

Lemma set_op_keeps c x now S s0 fresh sz k : is_Some (st S !! k) -> is_Some (st (fst (set_op c x now S s0 fresh sz)) !! k).
Proof.
  intros Hk. rewrite set_op_eq. cbn zeta. destruct (negb (validate x _)); [exact Hk|].
  assert (Hu : is_Some (st (fst (update_path c x now S (norm s0 now) sz)) !! k)).
  { unfold update_path. destruct (over_size c sz); [exact Hk|].
    destruct (set_silence _ _ _ _) as [[[S1 ch] ad]|] eqn:Hs; [|exact Hk]. cbn. eapply set_silence_keeps; eauto. }
  assert (Hc : forall prev, is_Some (st (fst (create_path c x now S (norm s0 now) prev fresh sz)) !! k)).
  { intros prev. unfold create_path. destruct (over_count c S); [exact Hk|]. destruct (over_size c sz); [exact Hk|].
    destruct (negb (marshal_ok x _)); [exact Hk|].
    match goal with |- context [match ?r with Ok _ => _ | _ => _ end] => destruct r as [[S1 bc1]| |] eqn:Er end; try exact Hk.
    assert (Hk1 : is_Some (st S1 !! k)).
    { destruct prev as [p|]; [|injection Er as <- _; exact Hk].
      destruct (sil_state (m_sil p) now).
      - eapply expire_keeps; [exact Er|exact Hk].
      - eapply expire_keeps; [exact Er|exact Hk].
      - injection Er as <- _; exact Hk. }
    destruct (set_silence _ _ _ _) as [[[S2 ch] ad]|] eqn:Hs; [|exact Hk1]. cbn. eapply set_silence_keeps; eauto. }
  destruct (st S !! s_id (norm s0 now)) as [p|].
  - destruct (can_update _ _ _); auto.
  - destruct (negb (String.eqb _ "")); [exact Hk|auto].
Qed.

Lemma expire_op_keeps c x now S id k : is_Some (st S !! k) -> is_Some (st (fst (expire_op c x now S id)) !! k).
Proof.
  intros Hk. unfold expire_op. destruct (expire c x now S id) as [[S' bc]| |] eqn:E; cbn; [|exact Hk..].
  eapply expire_keeps; eauto.
Qed.

(* RETENTION: a stored silence stays stored (hence queryable by id) across every local operation other than GC,
   and across a GC unless its ExpiresAt has been reached *)
Theorem local_step_keeps c x S now o k :
  Inv x S -> wf_local S o -> is_Some (st S !! k) ->
  is_Some (st (fst (step c x S now o)) !! k) \/
  (o = OGC /\ exists e, st S !! k = Some e /\ m_exp e <= now).
Proof.
  intros HI Hwf Hk. destruct o as [s fresh sz|id|b order blen| |ps|order|s fresh sz|id|id]; cbn [step wf_local] in *.
  - left. apply set_op_keeps; exact Hk.
  - left. apply expire_op_keeps; exact Hk.
  - contradiction.
  - rewrite (gc_exact x) by exact HI. destruct Hk as [e He]. rewrite He.
    destruct (now <? m_exp e) eqn:Hl; [left; eauto|right]. split; [reflexivity|]. exists e. split; [reflexivity|lia].
  - left. exact Hk.
  - left. destruct (reload_spec x S order HI) as (S' & -> & Hst & _). cbn [fst]. rewrite Hst. exact Hk.
  - left. unfold api_post. destruct (_ <=? _); [exact Hk|]. destruct (_ <? _); [exact Hk|]. apply set_op_keeps; exact Hk.
  - left. apply expire_op_keeps; exact Hk.
  - left. exact Hk.
Qed.

(* API layer: a silence that ends at or before its start, or in the past, is rejected and nothing changes *)
Theorem api_post_past_rejected c x now S s fresh sz :
  s_end s <= s_start s \/ s_end s < now ->
  exists code, api_post c x now S s fresh sz = (S, RErr code) /\ (code = "badrange" \/ code = "pastend").
Proof.
  intros H. unfold api_post. destruct (s_end s <=? s_start s) eqn:E1; [eauto|].
  destruct (s_end s <? now) eqn:E2; [eauto|]. lia.
Qed.

Theorem api_post_err_unchanged c x now S s fresh sz S' code :
  api_post c x now S s fresh sz = (S', RErr code) -> S' = S.
Proof.
  unfold api_post. destruct (_ <=? _); [intros [= <-]; reflexivity|]. destruct (_ <? _); [intros [= <-]; reflexivity|].
  apply set_err_unchanged.
Qed.
