(* Proofs about the product Silencer x Group (Model/Pipeline.v): the silence store decides what a flush may deliver.
   Everything is composed from the component theorems (Proofs/SilencerProofs.v: Mutes = brute evaluation of the
   stored silences under the cache invariant; Proofs/GroupProofs.v: what a chain sends is part of the flush's
   unsuppressed batch). *)
From AM Require Import Base.Prelude Gen.Consts Model.Matchers Model.Silence Model.Silencer Proofs.SilenceProofs
  Proofs.SilenceLwwProofs Proofs.SilencerProofs.
From AM Require Import Model.Group Proofs.GroupProofs Proofs.GroupLiveness Model.Pipeline.

(* ---------- two facts about one step of the group ---------- *)

Lemma tick_flight cfg s t tau sup s' o :
  Group.step cfg s t (ETick tau sup) = Some (s', o) ->
  exists g fl, s_group s = Some g /\ gr_flight g = None /\
    s_group s' = Some (mkGr (gr_alerts g) (t + g_interval cfg) (Some fl)) /\
    fl_start fl = t /\ fl_all fl = sort_f (map (freeze t) (gr_alerts g)) /\
    fl_post fl = filter (fun f => negb (bool_decide (f_id f ∈ sup))) (fl_all fl) /\
    s_nflog s' = s_nflog s /\ o = [OFlush (fl_all fl)].
Proof.
  intros H. unfold Group.step in H. destruct (time_ok s t); [|discriminate]. cbn [negb] in H.
  destruct (s_group s) as [g|] eqn:Hg; [|discriminate]. destruct (gr_flight g) eqn:Hf; [discriminate|].
  destruct (_ && _); [|discriminate]. cbn [negb] in H. inversion H; subst; clear H.
  exists g. eexists. split; [reflexivity|]. split; [exact Hf|]. cbn. repeat split; reflexivity.
Qed.

(* every event but a tick leaves the frozen batches of the flush in flight alone *)
Lemma nontick_flight cfg s t e s' o g' fl' :
  is_tick e = false -> Group.step cfg s t e = Some (s', o) -> s_group s' = Some g' -> gr_flight g' = Some fl' ->
  exists g fl, s_group s = Some g /\ gr_flight g = Some fl /\
    fl_start fl' = fl_start fl /\ fl_all fl' = fl_all fl /\ fl_post fl' = fl_post fl.
Proof.
  intros Hnt H Hg' Hf'. unfold Group.step in H. destruct (time_ok s t); [|discriminate]. cbn [negb] in H.
  destruct e as [a|tau sup|i|i oc|i| | |i en|i en|]; [| discriminate Hnt | | | | | | | |].
  - destruct (s_group s) as [g|] eqn:Hg; inversion H; subst; cbn in Hg'; inversion Hg'; subst; cbn in Hf'.
    + exists g, fl'. auto.
    + discriminate.
  - destruct (s_group s) as [g|] eqn:Hg; [|discriminate]. destruct (gr_flight g) as [fl|] eqn:Hf; [|discriminate].
    destruct (fl_chains fl !! i) as [ch|]; [|discriminate]. destruct ch; try discriminate.
    destruct (g_ints cfg !! i); [|discriminate]. destruct (s_nflog s !! i); [|discriminate].
    exists g, fl. split; [reflexivity|]. split; [exact Hf|].
    destruct (bool_decide _); [|destruct (_ && _)]; inversion H; subst; cbn in Hg'; inversion Hg'; subst;
      cbn in Hf'; inversion Hf'; subst; cbn; auto.
  - destruct (s_group s) as [g|] eqn:Hg; [|discriminate]. destruct (gr_flight g) as [fl|] eqn:Hf; [|discriminate].
    destruct (fl_chains fl !! i) as [ch|]; [|discriminate]. destruct ch; try discriminate.
    destruct (g_ints cfg !! i); [|discriminate]. destruct (s_nflog s !! i); [|discriminate].
    exists g, fl. split; [reflexivity|]. split; [exact Hf|].
    destruct oc; inversion H; subst; cbn in Hg'; inversion Hg'; subst; cbn in Hf'; inversion Hf'; subst; cbn; auto.
  - destruct (s_group s) as [g|] eqn:Hg; [|discriminate]. destruct (gr_flight g) as [fl|] eqn:Hf; [|discriminate].
    exists g, fl. split; [reflexivity|]. split; [exact Hf|].
    destruct (fl_chains fl !! i) as [ch|]; [|discriminate].
    destruct ch; try discriminate; (destruct (t <? fl_deadline fl); [discriminate|]); inversion H; subst;
      cbn in Hg'; inversion Hg'; subst; cbn in Hf'; inversion Hf'; subst; cbn; auto.
  - destruct (s_group s) as [g|] eqn:Hg; [|discriminate]. destruct (gr_flight g) as [fl|] eqn:Hf; [|discriminate].
    destruct (negb _); [discriminate|]. destruct (forallb chain_ok _); [destruct (is_nil _)|];
      inversion H; subst; cbn in Hg'; try discriminate; inversion Hg'; subst; cbn in Hf'; discriminate.
  - inversion H; subst. cbn in Hg'. destruct (s_group s) as [g|] eqn:Hg; [|discriminate].
    inversion Hg'; subst. exists g', fl'. auto.
  - destruct (s_nflog s !! i); [|discriminate]. inversion H; subst. cbn in Hg'.
    destruct (s_group s) as [g|] eqn:Hg; [|discriminate]. inversion Hg'; subst. exists g', fl'. auto.
  - destruct (s_nflog s !! i); [|discriminate]. inversion H; subst. cbn in Hg'.
    destruct (s_group s) as [g|] eqn:Hg; [|discriminate]. inversion Hg'; subst. exists g', fl'. auto.
  - inversion H; subst. cbn in Hg'. destruct (s_group s) as [g|] eqn:Hg; [|discriminate].
    inversion Hg'; subst. exists g', fl'. auto.
Qed.

Section Pipe.
Variable x : ext.
Variable msf : string -> list (list matcher).
Variable lbl : Z -> labels.
Variable cfg : gcfg.
Variable c : Silence.cfg.

(* the specification verdict: some stored silence is active at [now] and matches the alert's labels *)
Definition silenced (S : store) (now : Z) (a : Z) : bool := brute x S (lbl a) now.

(* ---------- MuteStage over the flush's alerts = filter by the specification verdict ---------- *)

Lemma mute_ids_correct ids : forall t S C now,
  CInv x msf t (S, C) -> t <= now ->
  exists C', mute_ids x lbl S now C ids = (C', Some (filter (fun a => silenced S now a) ids)) /\ CInv x msf now (S, C').
Proof.
  induction ids as [|a r IH]; intros t S C now HI Hle.
  - exists C. split; [reflexivity|]. destruct HI as [HS HC]. split; [exact HS|]. intros ls. eapply ci_time; eauto.
  - cbn [mute_ids]. destruct (mutes_brute x msf t S C now (lbl a) HI Hle) as (b & ids' & C1 & -> & Hb & _ & HI1).
    destruct (IH now S C1 now HI1 ltac:(lia)) as (C2 & -> & HI2). exists C2. split; [|exact HI2].
    rewrite filter_cons. unfold silenced. rewrite <- Hb. destruct b.
    + rewrite decide_True by exact I. reflexivity.
    + rewrite decide_False by (intros []). reflexivity.
Qed.

(* the same Mutes calls as MuteStage.Exec on the label sets (Model/Silencer.v mute_stage): same cache afterwards, and
   a panic in one is a panic in the other *)
Lemma mute_ids_stage ids : forall S now C,
  fst (mute_ids x lbl S now C ids) = fst (mute_stage x S now C (map lbl ids)) /\
  (snd (mute_ids x lbl S now C ids) = None <-> snd (mute_stage x S now C (map lbl ids)) = None).
Proof.
  induction ids as [|a r IH]; intros S now C; cbn [mute_ids mute_stage map].
  - split; [reflexivity|]. cbn. split; discriminate.
  - destruct (mutes x S now C (lbl a)) as [C1 [muted mk|]]; [|cbn; tauto].
    destruct (IH S now C1) as [H1 H2].
    destruct (mute_ids x lbl S now C1 r) as [C2 [sup|]]; destruct (mute_stage x S now C1 (map lbl r)) as [C2' [kept|]];
      cbn [fst snd] in *; subst; (split; [reflexivity|]); intuition congruence.
Qed.

(* ---------- the invariant of the product ---------- *)

Definition PInv (P : pstate) : Prop :=
  CInv x msf (s_clock (p_g P)) (p_sc P) /\ wf_state cfg (p_g P) /\
  forall g fl, s_group (p_g P) = Some g -> gr_flight g = Some fl ->
    fl_start fl <= s_clock (p_g P) /\
    exists Sf, p_flush P = Some (fl_start fl, Sf) /\
      forall f, In f (fl_post fl) -> silenced Sf (fl_start fl) (f_id f) = false.

(* silence operations are the well-formed ones of C02 (uuid freshness, records that marshal, one matcher assignment
   per id); nothing is asked of the group's events: a rejected one ends the run *)
Definition sil_ok (P : pstate) (t : Z) (e : pev) : Prop :=
  match e with PSil o => wf_cop x msf c (fst (p_sc P)) t o | _ => True end.

Lemma PInv_init t0 : PInv (pinit cfg t0).
Proof.
  split; [apply CInv_init|]. split; [apply wf_init|]. intros g fl H. discriminate.
Qed.

Lemma CInv_later t t' SC : CInv x msf t SC -> t <= t' -> CInv x msf t' SC.
Proof. intros [HS HC] Hle. split; [exact HS|]. intros ls. eapply ci_time; eauto. Qed.

(* the flight clause survives every step of the group that is not a tick *)
Lemma flight_clause_nontick g t e g' o fo :
  is_tick e = false -> Group.step cfg g t e = Some (g', o) ->
  (forall gr fl, s_group g = Some gr -> gr_flight gr = Some fl ->
     fl_start fl <= s_clock g /\
     exists Sf, fo = Some (fl_start fl, Sf) /\ forall f, In f (fl_post fl) -> silenced Sf (fl_start fl) (f_id f) = false) ->
  forall gr fl, s_group g' = Some gr -> gr_flight gr = Some fl ->
     fl_start fl <= s_clock g' /\
     exists Sf, fo = Some (fl_start fl, Sf) /\ forall f, In f (fl_post fl) -> silenced Sf (fl_start fl) (f_id f) = false.
Proof.
  intros Hnt Hs Hold gr fl Hgr Hfl. pose proof (step_time _ _ _ _ _ _ Hs) as [Hle Hclk].
  destruct (nontick_flight _ _ _ _ _ _ _ _ Hnt Hs Hgr Hfl) as (gr0 & fl0 & Hg0 & Hf0 & E1 & E2 & E3).
  destruct (Hold gr0 fl0 Hg0 Hf0) as (Hst & Sf & Hfo & Hsil). rewrite E1, E3. split; [lia|]. exists Sf. auto.
Qed.

Lemma pstep_inv P t e P' o : PInv P -> sil_ok P t e -> pstep cfg c x lbl P t e = Some (P', o) -> PInv P'.
Proof.
  destruct P as [[S C] g fo]. intros (HI & Hwf & Hfl) Hok H. cbn [p_sc p_g p_flush] in *.
  destruct e as [so|tau other|e]; cbn [pstep p_sc p_g p_flush fst snd] in H.
  - destruct (Group.step cfg g t EEnd) as [[g' o']|] eqn:Hs; [|discriminate]. inversion H; subst; clear H.
    pose proof (step_time _ _ _ _ _ _ Hs) as [Hle Hclk]. split; [|split]; cbn [p_sc p_g p_flush].
    + rewrite Hclk. eapply cstep_inv; eauto.
    + eapply wf_step; eauto.
    + exact (flight_clause_nontick g t EEnd _ _ fo eq_refl Hs Hfl).
  - destruct (mute_ids x lbl S t C (passed other (flush_ids g t))) as [C' [sup|]] eqn:Hm; [|discriminate].
    destruct (Group.step cfg g t (ETick tau (sup ++ other))) as [[g' o']|] eqn:Hs; [|discriminate].
    inversion H; subst; clear H. pose proof (step_time _ _ _ _ _ _ Hs) as [Hle Hclk].
    destruct (mute_ids_correct (passed other (flush_ids g t)) _ _ _ t HI Hle) as (C'' & Hm' & HI'). rewrite Hm' in Hm.
    injection Hm as <- <-.
    destruct (tick_flight _ _ _ _ _ _ _ Hs) as (g0 & fl & Hg0 & Hf0 & Hg' & Hst & Hall & Hpost & _ & _).
    split; [|split]; cbn [p_sc p_g p_flush].
    + rewrite Hclk. exact HI'.
    + eapply wf_step; eauto.
    + intros gr fl1 Hgr Hfl1. rewrite Hg' in Hgr. injection Hgr as <-. cbn in Hfl1. injection Hfl1 as <-.
      rewrite Hst, Hclk. split; [lia|]. exists S. split; [reflexivity|]. intros f Hin.
      rewrite Hpost in Hin. apply In_filter_b in Hin as [Hin Hns].
      apply negb_true_iff, bool_decide_eq_false in Hns.
      destruct (silenced S t (f_id f)) eqn:Hsil; [|reflexivity]. exfalso. apply Hns.
      apply elem_of_app. left. apply elem_of_list_filter. split; [rewrite Hsil; exact I|].
      apply elem_of_list_filter. split.
      { apply Is_true_true, negb_true_iff, bool_decide_eq_false. intros Ho. apply Hns. apply elem_of_app. right. exact Ho. }
      unfold flush_ids. rewrite Hg0, <- Hall. apply elem_of_list_In, in_map. exact Hin.
  - destruct (is_tick e) eqn:Hnt; [discriminate|].
    destruct (Group.step cfg g t e) as [[g' o']|] eqn:Hs; [|discriminate]. inversion H; subst; clear H.
    pose proof (step_time _ _ _ _ _ _ Hs) as [Hle Hclk]. split; [|split]; cbn [p_sc p_g p_flush].
    + rewrite Hclk. eapply CInv_later; eauto.
    + eapply wf_step; eauto.
    + exact (flight_clause_nontick g t e _ _ fo Hnt Hs Hfl).
Qed.

(* ---------- runs ---------- *)

Fixpoint phist_ok (P : pstate) (h : list (Z * pev)) : Prop :=
  match h with
  | [] => True
  | (t, e) :: r =>
      sil_ok P t e /\ match pstep cfg c x lbl P t e with Some (P1, _) => phist_ok P1 r | None => True end
  end.

Lemma prun_inv h : forall P P' outs,
  PInv P -> phist_ok P h -> prun cfg c x lbl P h = Some (P', outs) -> PInv P'.
Proof.
  induction h as [|[t e] h IH]; intros P P' outs HI Hok H; cbn [prun] in H.
  - inversion H; subst. exact HI.
  - destruct Hok as [Hok Hr]. destruct (pstep cfg c x lbl P t e) as [[P1 o1]|] eqn:Hs; [|discriminate].
    destruct (prun cfg c x lbl P1 h) as [[P2 o2]|] eqn:Hrun; [|discriminate]. inversion H; subst.
    eapply IH; [|exact Hr|exact Hrun]. eapply pstep_inv; eauto.
Qed.

Lemma prun_origin h : forall P P' outs y,
  PInv P -> phist_ok P h -> prun cfg c x lbl P h = Some (P', outs) -> In y outs ->
  exists h1 t e h2 P1 o1 P2 o, h = h1 ++ (t, e) :: h2 /\ prun cfg c x lbl P h1 = Some (P1, o1) /\ PInv P1 /\
    pstep cfg c x lbl P1 t e = Some (P2, o) /\ In y o.
Proof.
  induction h as [|[t e] h IH]; intros P P' outs y HI Hok H Hin; cbn [prun] in H.
  - inversion H; subst. destruct Hin.
  - destruct Hok as [Hok Hr]. destruct (pstep cfg c x lbl P t e) as [[P1 o1]|] eqn:Hs; [|discriminate].
    destruct (prun cfg c x lbl P1 h) as [[P2 o2]|] eqn:Hrun; [|discriminate]. inversion H; subst.
    apply in_app_or in Hin as [Hin|Hin].
    + exists [], t, e, h, P, [], P1, o1. cbn [prun app]. auto.
    + destruct (IH P1 P' o2 y (pstep_inv _ _ _ _ _ HI Hok Hs) Hr Hrun Hin)
        as (h1 & t' & e' & h2 & Pa & oa & Pb & ob & -> & Hra & HIa & Hsa & Hy).
      exists ((t, e) :: h1), t', e', h2, Pa, (o1 ++ oa), Pb, ob. cbn [prun app]. rewrite Hs, Hra. auto.
Qed.

(* ---------- C02 end to end: no notification contains an alert that a stored silence muted at its flush ---------- *)

Theorem silenced_never_notified t0 h P outs i r sent oc :
  prun cfg c x lbl (pinit cfg t0) h = Some (P, outs) -> phist_ok (pinit cfg t0) h -> In (ONotify i r sent oc) outs ->
  exists h1 ta h2 P1 o1 tf Sf,
    h = h1 ++ (ta, PGrp (EAttempt i oc)) :: h2 /\ prun cfg c x lbl (pinit cfg t0) h1 = Some (P1, o1) /\
    p_flush P1 = Some (tf, Sf) /\ tf <= ta /\ forall f, In f sent -> silenced Sf tf (f_id f) = false.
Proof.
  intros Hrun Hok Hin.
  destruct (prun_origin h _ _ _ _ (PInv_init t0) Hok Hrun Hin) as (h1 & ta & e & h2 & P1 & o1 & P2 & o & -> & Hr1 & HI1 & Hs & Hy).
  destruct HI1 as (_ & Hwf & Hfl). destruct e as [so|tau other|e]; cbn [pstep] in Hs.
  - destruct (Group.step cfg (p_g P1) ta EEnd) as [[g' o']|]; [|discriminate]. inversion Hs; subst. destruct Hy.
  - destruct (mute_ids x lbl (fst (p_sc P1)) ta (snd (p_sc P1)) (passed other (flush_ids (p_g P1) ta))) as [C' [sup|]]; [|discriminate].
    destruct (Group.step cfg (p_g P1) ta (ETick tau (sup ++ other))) as [[g' o']|] eqn:Hg; [|discriminate].
    inversion Hs; subst. destruct (tick_flight _ _ _ _ _ _ _ Hg) as (g0 & fl & _ & _ & _ & _ & _ & _ & _ & ->).
    destruct Hy as [Hy|[]]. discriminate.
  - destruct (is_tick e); [discriminate|].
    destruct (Group.step cfg (p_g P1) ta e) as [[g' o']|] eqn:Hg; [|discriminate]. inversion Hs; subst; clear Hs.
    pose proof (notify_origin _ _ _ _ _ _ _ _ _ _ Hg Hy) as ->.
    destruct (attempt_outputs _ _ _ _ _ _ _ Hwf Hg) as (g & fl & r' & sent' & F & R & n & ic & ent & Hgr & Hf & Hc & _ & _ & _ & _ & _ & _ & _ & _ & Ho).
    assert (Heq : sent = sent').
    { destruct oc; destruct Ho as [-> _]; cbn in Hy;
        repeat match goal with H : _ \/ _ |- _ => destruct H end; try contradiction; try discriminate;
        match goal with H : ONotify _ _ _ _ = ONotify _ _ _ _ |- _ => inversion H; subst; auto end. }
    subst sent'. destruct Hwf as [_ Hwf]. destruct (Hwf g fl Hgr Hf) as (_ & _ & _ & Hret).
    destruct (Hret i r' sent F R n Hc) as (_ & _ & _ & Hsent & _).
    destruct (Hfl g fl Hgr Hf) as (Hst & Sf & Hfo & Hsil). pose proof (step_time _ _ _ _ _ _ Hg) as [Hle _].
    exists h1, ta, h2, P1, o1, (fl_start fl), Sf. split; [reflexivity|]. split; [exact Hr1|]. split; [exact Hfo|].
    split; [lia|]. intros f Hf'. apply Hsil, Hsent, Hf'.
Qed.

(* what the history variable is: instant and silence store of the LATEST flush *)
Definition no_tick (h : list (Z * pev)) : Prop := forall t tau other, ~ In (t, PTick tau other) h.

Lemma pstep_flush P t e P' o :
  pstep cfg c x lbl P t e = Some (P', o) ->
  p_flush P' = match e with PTick _ _ => Some (t, fst (p_sc P)) | _ => p_flush P end.
Proof.
  intros H. destruct e as [so|tau other|e]; cbn [pstep] in H.
  - destruct (Group.step cfg (p_g P) t EEnd) as [[g' o']|]; [|discriminate]. inversion H; subst. reflexivity.
  - destruct (mute_ids _ _ _ _ _ _) as [C' [sup|]]; [|discriminate].
    destruct (Group.step _ _ _ _) as [[g' o']|]; [|discriminate]. inversion H; subst. reflexivity.
  - destruct (is_tick e); [discriminate|]. destruct (Group.step _ _ _ _) as [[g' o']|]; [|discriminate].
    inversion H; subst. reflexivity.
Qed.

Lemma flush_ghost h : forall P0 P outs, prun cfg c x lbl P0 h = Some (P, outs) ->
  (p_flush P = p_flush P0 /\ no_tick h) \/
  exists h1 tf tau other h2 P1 o1, h = h1 ++ (tf, PTick tau other) :: h2 /\
    prun cfg c x lbl P0 h1 = Some (P1, o1) /\ p_flush P = Some (tf, fst (p_sc P1)) /\ no_tick h2.
Proof.
  induction h as [|[t e] h IH]; intros P0 P outs H; cbn [prun] in H.
  - inversion H; subst. left. split; [reflexivity|]. intros ? ? ? [].
  - destruct (pstep cfg c x lbl P0 t e) as [[P1 o1]|] eqn:Hs; [|discriminate].
    destruct (prun cfg c x lbl P1 h) as [[P2 o2]|] eqn:Hr; [|discriminate]. inversion H; subst.
    pose proof (pstep_flush _ _ _ _ _ Hs) as Hfl1.
    destruct (IH P1 P o2 Hr) as [[Hf Hn]|(h1 & tf & tau & other & h2 & Pa & oa & -> & Hra & Hfl & Hn)].
    + destruct e as [so|tau other|e].
      * left. split; [congruence|]. intros t' tau' o' [Hc|Hc]; [discriminate|]. eapply Hn; eauto.
      * right. exists [], t, tau, other, h, P0, []. cbn [prun app]. split; [reflexivity|]. split; [reflexivity|].
        split; [congruence|exact Hn].
      * left. split; [congruence|]. intros t' tau' o' [Hc|Hc]; [discriminate|]. eapply Hn; eauto.
    + right. exists ((t, e) :: h1), tf, tau, other, h2, Pa, (o1 ++ oa). cbn [prun app]. rewrite Hs, Hra. auto.
Qed.

(* ---------- C01 side: a flush drops exactly what is silenced (or muted by the other stages), nothing else ---------- *)

Theorem tick_post_exact P t tau other P' o :
  PInv P -> pstep cfg c x lbl P t (PTick tau other) = Some (P', o) ->
  exists g' fl', s_group (p_g P') = Some g' /\ gr_flight g' = Some fl' /\ fl_start fl' = t /\
    p_flush P' = Some (t, fst (p_sc P)) /\ fst (p_sc P') = fst (p_sc P) /\ o = [OFlush (fl_all fl')] /\
    forall f, In f (fl_post fl') <->
              In f (fl_all fl') /\ silenced (fst (p_sc P)) t (f_id f) = false /\ ~ In (f_id f) other.
Proof.
  destruct P as [[S C] g fo]. intros (HI & Hwf & Hfl) H. cbn [pstep p_sc p_g p_flush fst snd] in *.
  destruct (mute_ids x lbl S t C (passed other (flush_ids g t))) as [C' [sup|]] eqn:Hm; [|discriminate].
  destruct (Group.step cfg g t (ETick tau (sup ++ other))) as [[g' o']|] eqn:Hs; [|discriminate].
  inversion H; subst; clear H. pose proof (step_time _ _ _ _ _ _ Hs) as [Hle Hclk].
  destruct (mute_ids_correct (passed other (flush_ids g t)) _ _ _ t HI Hle) as (C'' & Hm' & HI'). rewrite Hm' in Hm.
  injection Hm as <- <-.
  destruct (tick_flight _ _ _ _ _ _ _ Hs) as (g0 & fl & Hg0 & Hf0 & Hg' & Hst & Hall & Hpost & _ & Ho).
  eexists. exists fl. cbn [p_g p_sc p_flush fst]. split; [exact Hg'|]. split; [reflexivity|]. split; [exact Hst|].
  split; [reflexivity|]. split; [reflexivity|]. split; [exact Ho|]. intros f. rewrite Hpost, In_filter_b.
  rewrite negb_true_iff, bool_decide_eq_false, elem_of_app, elem_of_list_filter.
  assert (Hid : In f (fl_all fl) -> f_id f ∈ flush_ids g t).
  { intros Hin. unfold flush_ids. rewrite Hg0, <- Hall. apply elem_of_list_In, in_map. exact Hin. }
  split.
  - intros [Hin Hn]. assert (Hno : ~ In (f_id f) other).
    { intros Ho'. apply Hn. right. apply elem_of_list_In. exact Ho'. }
    split; [exact Hin|]. split; [|exact Hno].
    destruct (silenced S t (f_id f)) eqn:E; [|reflexivity]. exfalso. apply Hn. left. split; [exact I|].
    apply elem_of_list_filter. split; [|auto].
    apply Is_true_true, negb_true_iff, bool_decide_eq_false. rewrite elem_of_list_In. exact Hno.
  - intros (Hin & Hsil & Hno). split; [exact Hin|]. intros [[Hc _]|Hc]; [|apply elem_of_list_In in Hc; contradiction].
    rewrite Hsil in Hc. exact Hc.
Qed.

(* the product never refuses a tick that the group model accepts with the specified suppressed set: Mutes does not
   panic under the invariant *)
Theorem tick_accepted P t tau other s' o :
  PInv P ->
  Group.step cfg (p_g P) t
    (ETick tau (filter (fun a => silenced (fst (p_sc P)) t a) (passed other (flush_ids (p_g P) t)) ++ other)) = Some (s', o) ->
  exists P', pstep cfg c x lbl P t (PTick tau other) = Some (P', o) /\ p_g P' = s'.
Proof.
  destruct P as [[S C] g fo]. intros (HI & _ & _) Hs. cbn [pstep p_sc p_g p_flush fst snd] in *.
  pose proof (step_time _ _ _ _ _ _ Hs) as [Hle _].
  destruct (mute_ids_correct (passed other (flush_ids g t)) _ _ _ t HI Hle) as (C' & -> & _). rewrite Hs. eexists. split; reflexivity.
Qed.

(* ---------- projections: the product is a run of each component ---------- *)

Lemma prun_proj h : forall P P' outs,
  prun cfg c x lbl P h = Some (P', outs) -> Group.run cfg (p_g P) (pview cfg c x lbl P h) = Some (p_g P', outs).
Proof.
  induction h as [|[t e] h IH]; intros P P' outs H; cbn [prun pview] in *.
  - inversion H; subst. reflexivity.
  - destruct (pstep cfg c x lbl P t e) as [[P1 o1]|] eqn:Hs; [|discriminate].
    destruct (prun cfg c x lbl P1 h) as [[P2 o2]|] eqn:Hr; [|discriminate]. inversion H; subst.
    cbn [Group.run]. specialize (IH _ _ _ Hr).
    destruct e as [so|tau other|e]; cbn [pstep] in Hs.
    + destruct (Group.step cfg (p_g P) t EEnd) as [[g' o']|] eqn:Hg; [|discriminate]. inversion Hs; subst.
      assert (o' = []) as ->.
      { unfold Group.step in Hg. destruct (negb _); [discriminate|]. inversion Hg; reflexivity. }
      cbn [p_g] in IH. rewrite IH. reflexivity.
    + destruct (mute_ids _ _ _ _ _ _) as [C' [sup|]]; [|discriminate]. cbn [snd].
      destruct (Group.step cfg (p_g P) t (ETick tau (sup ++ other))) as [[g' o']|] eqn:Hg; [|discriminate].
      inversion Hs; subst. cbn [p_g] in IH. rewrite IH. reflexivity.
    + destruct (is_tick e); [discriminate|].
      destruct (Group.step cfg (p_g P) t e) as [[g' o']|] eqn:Hg; [|discriminate]. inversion Hs; subst.
      cbn [p_g] in IH. rewrite IH. reflexivity.
Qed.

(* the Silencer's side: the same (store, cache) as the instance history of C02 made of the silence operations and
   one MuteStage batch per flush *)
Fixpoint sview (P : pstate) (h : list (Z * pev)) : list (Z * cop) :=
  match h with
  | [] => []
  | (t, e) :: r =>
      match pstep cfg c x lbl P t e with
      | Some (P1, _) =>
          match e with
          | PSil o => (t, o) :: sview P1 r
          | PTick _ other => (t, CStage (map lbl (passed other (flush_ids (p_g P) t)))) :: sview P1 r
          | PGrp _ => sview P1 r
          end
      | None => []
      end
  end.

Lemma prun_sil_proj h : forall P P' outs,
  prun cfg c x lbl P h = Some (P', outs) -> fst (crun c x (p_sc P) (sview P h)) = p_sc P'.
Proof.
  induction h as [|[t e] h IH]; intros P P' outs H; cbn [prun sview] in *.
  - inversion H; subst. reflexivity.
  - destruct (pstep cfg c x lbl P t e) as [[P1 o1]|] eqn:Hs; [|discriminate].
    destruct (prun cfg c x lbl P1 h) as [[P2 o2]|] eqn:Hr; [|discriminate]. inversion H; subst.
    specialize (IH _ _ _ Hr). destruct e as [so|tau other|e]; cbn [pstep] in Hs.
    + destruct (Group.step cfg (p_g P) t EEnd) as [[g' o']|]; [|discriminate]. inversion Hs; subst.
      cbn [crun]. cbn [p_sc] in IH. destruct (cstep c x (p_sc P) t so) as [SC1 y]. cbn [fst] in IH.
      destruct (crun c x SC1 (sview _ h)) as [SC2 ys]. exact IH.
    + destruct (mute_ids x lbl (fst (p_sc P)) t (snd (p_sc P)) (passed other (flush_ids (p_g P) t))) as [C' [sup|]] eqn:Hm; [|discriminate].
      destruct (Group.step _ _ _ _) as [[g' o']|]; [|discriminate]. inversion Hs; subst.
      cbn [crun cstep]. pose proof (mute_ids_stage (passed other (flush_ids (p_g P) t)) (fst (p_sc P)) t (snd (p_sc P))) as [Hc _].
      rewrite Hm in Hc. cbn [fst] in Hc.
      destruct (mute_stage x (fst (p_sc P)) t (snd (p_sc P)) (map lbl (passed other (flush_ids (p_g P) t)))) as [C2 kept]. cbn [fst] in Hc.
      subst C2. cbn [p_sc] in IH. destruct (crun c x _ (sview _ h)) as [SC2 ys]. exact IH.
    + destruct (is_tick e); [discriminate|]. destruct (Group.step _ _ _ _) as [[g' o']|]; [|discriminate].
      inversion Hs; subst. exact IH.
Qed.

(* ---------- the other direction, composed with the group's bounded response (C01): an alert that is firing and NOT
   silenced at the flushes of a product run is notified within the batching bound ---------- *)

Section Positive.
Variables (ax : Z) (i : nat) (T : Z).

(* what "continuously firing, not silenced, not dropped by the other stages, integration accepting deliveries" means
   for a product run: the silence clause is evaluated on the silence store as it is at each flush *)
Fixpoint pfair (P : pstate) (h : list (Z * pev)) : Prop :=
  match h with
  | [] => True
  | (t, e) :: r =>
      match e with
      | PTick _ other => silenced (fst (p_sc P)) t ax = false /\ ~ In ax other
      | PGrp (EInsert b) => a_id b = ax -> firing_until T b
      | PGrp (EAttempt j oc) => j = i -> oc = OK
      | PGrp (ECtxDone j) => j <> i
      | _ => True
      end /\
      match pstep cfg c x lbl P t e with Some (P1, _) => pfair P1 r | None => True end
  end.

Lemma pfair_view h : forall P P' outs,
  PInv P -> phist_ok P h -> prun cfg c x lbl P h = Some (P', outs) -> pfair P h ->
  fair ax i T (pview cfg c x lbl P h).
Proof.
  induction h as [|[t e] h IH]; intros P P' outs HI Hok H Hf; cbn [prun pview] in *.
  - repeat split; cbn; intros; tauto.
  - destruct Hok as [Hok Hokr]. destruct Hf as [Hf Hfr].
    destruct (pstep cfg c x lbl P t e) as [[P1 o1]|] eqn:Hs; [|discriminate].
    destruct (prun cfg c x lbl P1 h) as [[P2 o2]|] eqn:Hr; [|discriminate].
    pose proof (IH P1 _ _ (pstep_inv _ _ _ _ _ HI Hok Hs) Hokr Hr Hfr) as (F1 & F2 & F3 & F4).
    destruct e as [so|tau other|e].
    + repeat split.
      * intros t' b [Hc|Hin]; [discriminate|]. eapply F1; eauto.
      * intros t' tau' sup [Hc|Hin]; [discriminate|]. eapply F2; eauto.
      * intros t' oc [Hc|Hin]; [discriminate|]. eapply F3; eauto.
      * intros t' [Hc|Hin]; [discriminate|]. eapply F4; eauto.
    + destruct P as [[S C] g fo]. destruct HI as (HC & _ & _). cbn [pstep p_sc p_g p_flush fst snd] in *.
      destruct (mute_ids x lbl S t C (passed other (flush_ids g t))) as [C' [sup|]] eqn:Hm; [|discriminate].
      destruct (Group.step cfg g t (ETick tau (sup ++ other))) as [[g' o']|] eqn:Hg; [|discriminate].
      pose proof (step_time _ _ _ _ _ _ Hg) as [Hle _].
      destruct (mute_ids_correct (passed other (flush_ids g t)) _ _ _ t HC Hle) as (C'' & Hm' & _). rewrite Hm' in Hm.
      injection Hm as <- <-. cbn [snd]. destruct Hf as [Hsil Hno]. repeat split.
      * intros t' b [Hc|Hin]; [discriminate|]. eapply F1; eauto.
      * intros t' tau' sup' [Hc|Hin]; [|eapply F2; eauto]. injection Hc as <- <- <-. intros Hin.
        apply in_app_or in Hin as [Hin|Hin]; [|contradiction].
        apply elem_of_list_In, elem_of_list_filter in Hin as [Hin _]. rewrite Hsil in Hin. exact Hin.
      * intros t' oc [Hc|Hin]; [discriminate|]. eapply F3; eauto.
      * intros t' [Hc|Hin]; [discriminate|]. eapply F4; eauto.
    + repeat split.
      * intros t' b [Hc|Hin]; [|eapply F1; eauto]. injection Hc as -> ->. exact Hf.
      * intros t' tau' sup [Hc|Hin]; [|eapply F2; eauto]. injection Hc as -> ->.
        cbn [pstep] in Hs. cbn in Hs. discriminate.
      * intros t' oc [Hc|Hin]; [|eapply F3; eauto]. injection Hc as -> ->. apply Hf. reflexivity.
      * intros t' [Hc|Hin]; [|eapply F4; eauto]. injection Hc as -> ->. apply Hf. reflexivity.
Qed.

Theorem unsilenced_is_notified h P P' outs g M :
  PInv P -> phist_ok P h -> prun cfg c x lbl P h = Some (P', outs) -> pfair P h ->
  s_group (p_g P) = Some g -> gr_flight g = None -> has_x ax T g ->
  Z.max (gr_deadline g) (s_clock (p_g P)) <= M -> M <= T -> (i < length (g_ints cfg))%nat -> 0 <= g_timeout cfg ->
  M + g_timeout cfg < s_clock (p_g P') ->
  notified ax i outs \/ ever cfg (listed ax i) (p_g P) (pview cfg c x lbl P h).
Proof.
  intros HI Hok Hrun Hf Hg Hfl Hx HM HT Hi Hto Hlt.
  pose proof (prun_proj h P P' outs Hrun) as Hproj. destruct HI as (HC & Hwf & Hcl).
  exact (idle_phase cfg ax i T _ _ _ _ g M Hproj Hwf (pfair_view h P P' outs (conj HC (conj Hwf Hcl)) Hok Hrun Hf)
           Hg Hfl Hx HM HT Hi Hto Hlt).
Qed.

End Positive.

End Pipe.
