(* Proofs about Model/StoreLimit.v: the per-alert-name limit over all histories of Put / GC at non-decreasing
   instants (repaired IsStale), and the refutation for the IsStale of the pinned commit. *)
From AM Require Import Base.Prelude Model.Bucket Model.StoreLimit Proofs.BucketProofs.

(* the end time under which bucket `name` tracks fingerprint fp *)
Definition tracked_in (s : store) (name : string) (fp : Z) : option Z :=
  s_limits s !! name ≫= (fun b => abs b !! fp).

(* ---------- what one Upsert does to a bucket, in the form the store needs ---------- *)
Lemma upsert_store_view b v p now :
  binv b -> 1 <= b_cap b ->
  let b' := fst (upsert b v p now) in
  let ok := snd (upsert b v p now) in
  binv b' /\ b_cap b' = b_cap b /\
  (ok = true -> abs b' !! v = Some p) /\
  (ok = false -> b' = b) /\
  (is_Some (abs b !! v) -> ok = true) /\
  (forall w q, w <> v -> abs b !! w = Some q -> abs b' !! w = Some q \/ (abs b' !! w = None /\ q < now)) /\
  (forall w q, abs b' !! w = Some q -> w = v \/ abs b !! w = Some q) /\
  (ok = false -> b_cap b <= Z.of_nat (size (abs b)) /\ forall w q, abs b !! w = Some q -> now <= q).
Proof.
  intros Hb Hc. destruct (upsert_refines b v p now Hb Hc) as (H1 & H2 & H3). cbv zeta.
  split; [exact H1|]. split; [exact H2|].
  destruct (abs b !! v) as [q0|] eqn:Ev.
  - destruct H3 as [Hok Habs]. rewrite Hok, Habs. split_and!; try discriminate; auto.
    + intros _. rewrite lookup_insert; reflexivity.
    + intros w q Hw Hq. left. rewrite lookup_insert_ne by congruence. exact Hq.
    + intros w q. destruct (decide (w = v)) as [->|Hw]; [auto|]. rewrite lookup_insert_ne by congruence. auto.
  - destruct (Z.of_nat (size (abs b)) <? b_cap b) eqn:Er.
    + destruct H3 as [Hok Habs]. rewrite Hok, Habs. split_and!; try discriminate; auto.
      * intros _. rewrite lookup_insert; reflexivity.
      * intros w q Hw Hq. left. rewrite lookup_insert_ne by congruence. exact Hq.
      * intros w q. destruct (decide (w = v)) as [->|Hw]; [auto|]. rewrite lookup_insert_ne by congruence. auto.
    + apply Z.ltb_ge in Er. destruct H3 as (k & q & Hk & Hmin & H3). destruct (q <? now) eqn:Eq.
      * apply Z.ltb_lt in Eq. destruct H3 as [Hok Habs]. rewrite Hok, Habs. split_and!; try discriminate; auto.
        -- intros _. rewrite lookup_insert; reflexivity.
        -- intros w q' Hw Hq'. rewrite lookup_insert_ne by congruence.
           destruct (decide (w = k)) as [->|Hwk].
           ++ right. rewrite lookup_delete. rewrite Hk in Hq'. injection Hq' as <-. auto.
           ++ left. rewrite lookup_delete_ne by congruence. exact Hq'.
        -- intros w q'. destruct (decide (w = v)) as [->|Hw]; [auto|]. rewrite lookup_insert_ne by congruence.
           intros H. right. apply lookup_delete_Some in H as [_ H]. exact H.
      * apply Z.ltb_ge in Eq. destruct H3 as [Hok Heq]. rewrite Hok, Heq. split_and!; try discriminate; auto.
        -- intros [x Hx]. discriminate.
        -- intros _. split; [lia|]. intros w q' Hq'. pose proof (Hmin w q' Hq'). lia.
Qed.

(* ---------- the store invariant ---------- *)
Definition SI (N : Z) (s : store) (now : Z) : Prop :=
  (forall name b, s_limits s !! name = Some b -> binv b /\ b_cap b = N) /\
  (forall fp a, s_alerts s !! fp = Some a -> a_fp a = fp) /\
  (forall fp a, s_alerts s !! fp = Some a -> now <= a_ends a -> tracked_in s (a_name a) fp = Some (a_ends a)).

Lemma SI_empty N now : SI N empty_store now.
Proof. split_and!; intros ? ? H; simpl in H; rewrite lookup_empty in H; discriminate. Qed.

Lemma SI_mono N s now now' : now <= now' -> SI N s now -> SI N s now'.
Proof. intros Hle (H1 & H2 & H3). split; [exact H1|]. split; [exact H2|]. intros fp a Ha He. apply H3; [exact Ha|lia]. Qed.

Lemma merge_fp old a now : a_fp old = a_fp a -> a_fp (merge old a now) = a_fp a.
Proof. intros H. unfold merge, merge_ordered. destruct (a_updated a <? a_updated old); simpl; congruence. Qed.

(* the alert that Put hands to Set *)
Definition put_alert (s : store) (a : alert) (now : Z) : alert :=
  match s_alerts s !! a_fp a with
  | Some old =>
      if ((a_starts old <? a_ends a) && (a_ends a <? a_ends old))
         || ((a_starts old <? a_starts a) && (a_starts a <? a_ends old))
      then merge old a now else a
  | None => a
  end.

Lemma put_alert_fp N s a now : SI N s now -> a_fp (put_alert s a now) = a_fp a.
Proof.
  intros (_ & H2 & _). unfold put_alert. destruct (s_alerts s !! a_fp a) as [old|] eqn:E; [|reflexivity].
  destruct (_ || _); [|reflexivity]. apply merge_fp. apply H2. exact E.
Qed.

Lemma put1_unfold N s a now :
  put1 N s a now =
  let '(s', ok) := store_set N s (put_alert s a now) now in
  if ok then (s', true) else (mkStore (s_alerts s') (s_limits s') (S (s_limited s')), false).
Proof. reflexivity. Qed.

Lemma store_set_SI N s a now :
  1 <= N -> SI N s now -> SI N (fst (store_set N s a now)) now.
Proof.
  intros HN (H1 & H2 & H3). unfold store_set. destruct (0 <? N) eqn:E0; [|lia].
  set (b := match s_limits s !! a_name a with Some b => b | None => new_bucket N end).
  assert (Hb : binv b /\ b_cap b = N).
  { subst b. destruct (s_limits s !! a_name a) as [b0|] eqn:Eb; [apply (H1 _ _ Eb)|]. split; [apply binv_new|reflexivity]. }
  destruct Hb as [Hb Hcap].
  pose proof (upsert_store_view b (a_fp a) (a_ends a) now Hb ltac:(lia)) as Hu. cbv zeta in Hu.
  destruct (upsert b (a_fp a) (a_ends a) now) as [b' ok] eqn:Eu. simpl in Hu.
  destruct Hu as (U1 & U2 & U3 & U4 & U5 & U6 & U7 & U8).
  assert (Hl1 : forall name b0, <[a_name a := b']> (s_limits s) !! name = Some b0 -> binv b0 /\ b_cap b0 = N).
  { intros name b0. destruct (decide (name = a_name a)) as [->|Hne].
    - rewrite lookup_insert. intros [= <-]. split; [exact U1|congruence].
    - rewrite lookup_insert_ne by congruence. apply H1. }
  (* alerts other than the one being set keep being tracked *)
  assert (Hkeep : forall fp x, s_alerts s !! fp = Some x -> fp <> a_fp a -> now <= a_ends x ->
            (<[a_name a := b']> (s_limits s) !! a_name x ≫= fun b0 => abs b0 !! fp) = Some (a_ends x)).
  { intros fp x Hx Hfp He. pose proof (H3 fp x Hx He) as Ht. unfold tracked_in in Ht.
    destruct (decide (a_name x = a_name a)) as [Hn|Hn].
    - rewrite Hn in *. rewrite lookup_insert. simpl.
      destruct (s_limits s !! a_name a) as [b0|] eqn:Eb; [|discriminate]. simpl in Ht. subst b.
      destruct (U6 fp (a_ends x) Hfp Ht) as [Hk|[_ Hlt]]; [exact Hk|lia].
    - rewrite lookup_insert_ne by congruence. exact Ht. }
  destruct ok; simpl.
  - split; [exact Hl1|]. split.
    + intros fp x. simpl. destruct (decide (fp = a_fp a)) as [->|Hne].
      * rewrite lookup_insert. intros [= <-]. reflexivity.
      * rewrite lookup_insert_ne by congruence. apply H2.
    + intros fp x. unfold tracked_in. simpl. destruct (decide (fp = a_fp a)) as [->|Hne].
      * rewrite lookup_insert. intros [= <-] _. rewrite lookup_insert. simpl. apply U3. reflexivity.
      * rewrite lookup_insert_ne by congruence. intros Hx He. apply Hkeep; assumption.
  - split; [exact Hl1|]. split; [exact H2|].
    intros fp x Hx He. unfold tracked_in. simpl.
    rewrite (U4 eq_refl) in *.
    pose proof (H3 fp x Hx He) as Ht. unfold tracked_in in Ht.
    destruct (decide (a_name x = a_name a)) as [Hn|Hn].
    + rewrite Hn in *. rewrite lookup_insert. simpl.
      destruct (s_limits s !! a_name a) as [b0|] eqn:Eb; [|discriminate]. simpl in Ht. subst b. exact Ht.
    + rewrite lookup_insert_ne by congruence. exact Ht.
Qed.

Lemma put1_SI N s a now : 1 <= N -> SI N s now -> SI N (fst (put1 N s a now)) now.
Proof.
  intros HN Hs. rewrite put1_unfold. pose proof (store_set_SI N s (put_alert s a now) now HN Hs) as H.
  destruct (store_set N s (put_alert s a now) now) as [s' ok]. simpl in H. destruct ok; [exact H|].
  destruct H as (H1 & H2 & H3). split; [exact H1|]. split; [exact H2|exact H3].
Qed.

Lemma gc_SI N s now : SI N s now -> SI N (gc s now) now.
Proof.
  intros (H1 & H2 & H3). unfold gc, gc_with. split; [|split]; simpl.
  - intros name b H. apply map_filter_lookup_Some in H as [H _]. apply (H1 _ _ H).
  - intros fp a Ha. apply map_filter_lookup_Some in Ha as [Ha _]. apply (H2 _ _ Ha).
  - intros fp a Ha He. apply map_filter_lookup_Some in Ha as [Ha _].
    pose proof (H3 fp a Ha He) as Ht. unfold tracked_in in *. simpl.
    destruct (s_limits s !! a_name a) as [b|] eqn:Eb; [|discriminate]. simpl in Ht.
    assert (Hf : filter (fun kv : string * bucket => negb (is_stale kv.2 now)) (s_limits s) !! a_name a = Some b).
    { apply map_filter_lookup_Some. split; [exact Eb|]. simpl.
      destruct (is_stale b now) eqn:Es; [|reflexivity].
      pose proof (proj1 (is_stale_spec b now (proj1 (proj2 (proj1 (H1 _ _ Eb))))) Es) as Es'. pose proof (Es' _ _ Ht). lia. }
    rewrite Hf. simpl. exact Ht.
Qed.

Lemma step_SI N s t now o : 1 <= N -> t <= now -> SI N s t -> SI N (fst (step N s now o)) now.
Proof.
  intros HN Hle Hs. apply (SI_mono N s t now Hle) in Hs. destruct o as [a|]; simpl.
  - apply put1_SI; assumption.
  - apply gc_SI. exact Hs.
Qed.

(* ---------- histories ---------- *)
Fixpoint mono (t : Z) (h : list (Z * op)) : Prop :=
  match h with [] => True | (now, _) :: r => t <= now /\ mono now r end.
Fixpoint last_time (t : Z) (h : list (Z * op)) : Z :=
  match h with [] => t | (now, _) :: r => last_time now r end.

Lemma run_cons N s now o r :
  run N s ((now, o) :: r) =
  (fst (run N (fst (step N s now o)) r), snd (step N s now o) :: snd (run N (fst (step N s now o)) r)).
Proof.
  unfold run, step. simpl. destruct (step_with is_stale N s now o) as [s1 x]. simpl.
  destruct (run_with is_stale N s1 r) as [s2 xs]. reflexivity.
Qed.

Lemma run_SI N h : forall s t, 1 <= N -> SI N s t -> mono t h -> SI N (fst (run N s h)) (last_time t h).
Proof.
  induction h as [|[now o] r IH]; intros s t HN Hs Hm; [exact Hs|].
  destruct Hm as [Hle Hm]. rewrite run_cons. simpl. apply IH; [exact HN| |exact Hm].
  eapply step_SI; eauto.
Qed.

(* ---------- counting ---------- *)
Lemma NoDup_map_filter {A B} (f : A -> B) (P : A -> Prop) `{forall x, Decision (P x)} (l : list A) :
  NoDup (map f l) -> NoDup (map f (filter P l)).
Proof.
  induction l as [|x r IH]; intros Hnd; [constructor|].
  simpl in Hnd. apply NoDup_cons in Hnd as [Hx Hnd]. rewrite filter_cons.
  destruct (decide (P x)); [|apply IH; exact Hnd].
  simpl. apply NoDup_cons. split; [|apply IH; exact Hnd].
  intros Hin. apply Hx. apply elem_of_list_fmap in Hin as (y & -> & Hy). apply elem_of_list_filter in Hy as [_ Hy].
  apply elem_of_list_fmap. eauto.
Qed.

Lemma count_le N s name now : 1 <= N -> SI N s now -> Z.of_nat (count_unexpired s name now) <= N.
Proof.
  intros HN (H1 & H2 & H3). unfold count_unexpired, unexpired_of.
  set (P := fun a : alert => bool_decide (a_name a = name) && (now <=? a_ends a)).
  set (L := filter P (map snd (map_to_list (s_alerts s)))).
  assert (HL : forall a, a ∈ L -> s_alerts s !! a_fp a = Some a /\ a_name a = name /\ now <= a_ends a).
  { intros a Ha. subst L. apply elem_of_list_filter in Ha as [HP Ha]. subst P. simpl in HP.
    apply Is_true_true_1 in HP. apply andb_true_iff in HP as [Hn He]. apply bool_decide_eq_true in Hn.
    apply elem_of_list_fmap in Ha as ([k x] & -> & Hkx). apply elem_of_map_to_list in Hkx. simpl.
    simpl in He, Hn. rewrite (H2 _ _ Hkx). split; [exact Hkx|]. split; [exact Hn|lia]. }
  assert (Hnd : NoDup (map a_fp L)).
  { subst L. apply NoDup_map_filter.
    assert (Heq : map a_fp (map snd (map_to_list (s_alerts s))) = (map_to_list (s_alerts s)).*1).
    { rewrite map_map. apply map_ext_in. intros [k x] Hin. simpl. apply H2. apply elem_of_map_to_list.
      apply elem_of_list_In. exact Hin. }
    rewrite Heq. apply NoDup_fst_map_to_list. }
  destruct (s_limits s !! name) as [b|] eqn:Eb.
  - destruct (H1 _ _ Eb) as [(Hheap & Hndb & Hcap) Hc].
    assert (Hsub : map a_fp L ⊆+ (map_to_list (abs b)).*1).
    { apply NoDup_submseteq; [exact Hnd|]. intros fp Hfp. apply elem_of_list_fmap in Hfp as (a & -> & Ha).
      destruct (HL a Ha) as (Hs & Hn & He). pose proof (H3 _ _ Hs He) as Ht. unfold tracked_in in Ht.
      rewrite Hn, Eb in Ht. simpl in Ht. apply elem_of_list_fmap. exists (a_fp a, a_ends a). split; [reflexivity|].
      apply elem_of_map_to_list. exact Ht. }
    apply submseteq_length in Hsub. rewrite !fmap_length in Hsub.
    change (length (map_to_list (abs b))) with (size (abs b)) in Hsub.
    unfold abs in Hsub. rewrite (abs_size _ Hndb) in Hsub. change (Z.of_nat (length L) <= N). lia.
  - change (Z.of_nat (length L) <= N). assert (L = []) as ->; [|simpl; lia].
    destruct L as [|a r]; [reflexivity|]. exfalso.
    destruct (HL a ltac:(left)) as (Hs & Hn & He). pose proof (H3 _ _ Hs He) as Ht.
    unfold tracked_in in Ht. rewrite Hn, Eb in Ht. discriminate.
Qed.

(* ---------- the theorems ---------- *)

(* never_exceeds: for every limit N >= 1 and every history of admissions / heartbeats / re-sends (Put) and garbage
   collections at non-decreasing instants, at the end (and at any later instant) at most N alerts of one name
   held by the store have not ended *)
Theorem never_exceeds N h t0 name t :
  1 <= N -> mono t0 h -> last_time t0 h <= t ->
  Z.of_nat (count_unexpired (fst (run N empty_store h)) name t) <= N.
Proof.
  intros HN Hm Ht. apply count_le; [exact HN|]. eapply SI_mono; [exact Ht|].
  apply run_SI; [exact HN|apply SI_empty|exact Hm].
Qed.

(* the same count, read as "not resolved" (firing): when every stored alert has a non-zero end (the API always
   sets one) an alert that is not resolved at t has t < EndsAt and is among those counted above *)
Lemma firing_counted a t : a_ends a <> zero_time -> resolved a t = false -> t <= a_ends a.
Proof. unfold resolved. intros H0 H. apply andb_false_iff in H as [H|H]; lia. Qed.

(* re-sends of admitted alerts are always accepted: in any reachable state, an alert the store holds and that has
   not ended is accepted again (same fingerprint, same name), whatever its new times *)
Theorem resend_always_accepted N h t0 now x a :
  1 <= N -> mono t0 h -> last_time t0 h <= now ->
  let s := fst (run N empty_store h) in
  s_alerts s !! a_fp a = Some x -> now <= a_ends x -> a_name x = a_name a ->
  snd (put1 N s a now) = true /\ s_limited (fst (put1 N s a now)) = s_limited s.
Proof.
  intros HN Hm Ht s Hx He Hname.
  assert (Hs : SI N s now).
  { eapply SI_mono; [exact Ht|]. apply run_SI; [exact HN|apply SI_empty|exact Hm]. }
  destruct Hs as (H1 & H2 & H3). rewrite put1_unfold.
  set (a' := put_alert s a now).
  assert (Hfp : a_fp a' = a_fp a) by (apply (put_alert_fp N s a now); split; [exact H1|split; [exact H2|exact H3]]).
  assert (Hnm : a_name a' = a_name a).
  { subst a'. unfold put_alert. rewrite Hx. destruct (_ || _); [|reflexivity].
    unfold merge, merge_ordered. destruct (a_updated a <? a_updated x); simpl; congruence. }
  unfold store_set. destruct (0 <? N) eqn:E0; [|lia].
  pose proof (H3 _ _ Hx He) as Htr. unfold tracked_in in Htr. rewrite Hname in Htr. rewrite Hnm.
  destruct (s_limits s !! a_name a) as [b|] eqn:Eb; [|discriminate]. simpl in Htr.
  destruct (H1 _ _ Eb) as [Hb Hcap].
  pose proof (upsert_store_view b (a_fp a') (a_ends a') now Hb ltac:(lia)) as Hu. cbv zeta in Hu.
  destruct (upsert b (a_fp a') (a_ends a') now) as [b' ok] eqn:Eu. simpl in Hu.
  destruct Hu as (_ & _ & _ & _ & U5 & _). rewrite Hfp in U5. rewrite (U5 ltac:(eauto)). simpl. auto.
Qed.

(* room is made only by expiry: a fingerprint stops being tracked under a name only at an instant after the end
   time it was tracked with (eviction of an expired root, or removal of a bucket whose items are all expired) *)
Theorem room_only_by_expiry N s t now o name fp q :
  1 <= N -> SI N s t -> t <= now ->
  tracked_in s name fp = Some q -> tracked_in (fst (step N s now o)) name fp = None -> q < now.
Proof.
  intros HN Hs Hle Htr Hnone. apply (SI_mono N s t now Hle) in Hs. destruct Hs as (H1 & H2 & H3).
  unfold tracked_in in *. destruct (s_limits s !! name) as [b|] eqn:Eb; [|discriminate]. simpl in Htr.
  destruct (H1 _ _ Eb) as [Hb Hcap].
  destruct o as [a|]; simpl in Hnone.
  - rewrite put1_unfold in Hnone. set (a' := put_alert s a now) in *.
    unfold store_set in Hnone. destruct (0 <? N) eqn:E0; [|lia].
    set (b0 := match s_limits s !! a_name a' with Some b => b | None => new_bucket N end) in *.
    destruct (decide (a_name a' = name)) as [Hn|Hn].
    + assert (b0 = b) as Hb0 by (subst b0; rewrite Hn, Eb; reflexivity). rewrite Hb0 in Hnone.
      pose proof (upsert_store_view b (a_fp a') (a_ends a') now Hb ltac:(lia)) as Hu. cbv zeta in Hu.
      destruct (upsert b (a_fp a') (a_ends a') now) as [b' ok] eqn:Eu. simpl in Hu.
      destruct Hu as (_ & _ & U3 & U4 & _ & U6 & _).
      assert (Hl : (<[a_name a' := b']> (s_limits s) !! name ≫= fun b1 => abs b1 !! fp) = None).
      { destruct ok; simpl in Hnone; exact Hnone. }
      rewrite Hn, lookup_insert in Hl. simpl in Hl.
      destruct (decide (fp = a_fp a')) as [->|Hfp].
      * destruct ok; [rewrite (U3 eq_refl) in Hl; discriminate|]. rewrite (U4 eq_refl) in Hl. congruence.
      * destruct (U6 fp q Hfp Htr) as [Hk|[_ Hlt]]; [congruence|exact Hlt].
    + exfalso.
      destruct (upsert b0 (a_fp a') (a_ends a') now) as [b' ok].
      assert (Hl : (<[a_name a' := b']> (s_limits s) !! name ≫= fun b1 => abs b1 !! fp) = None).
      { destruct ok; simpl in Hnone; exact Hnone. }
      rewrite lookup_insert_ne, Eb in Hl by congruence. simpl in Hl. congruence.
  - destruct (filter (fun kv : string * bucket => negb (is_stale kv.2 now)) (s_limits s) !! name) as [b1|] eqn:Ef.
    + apply map_filter_lookup_Some in Ef as [Ef _]. rewrite Eb in Ef. injection Ef as <-. simpl in Hnone. congruence.
    + destruct (is_stale b now) eqn:Es.
      * pose proof (proj1 (is_stale_spec b now (proj1 (proj2 Hb))) Es) as Es'. apply (Es' _ _ Htr).
      * exfalso. assert (Hsome : filter (fun kv : string * bucket => negb (is_stale kv.2 now)) (s_limits s) !! name = Some b).
        { apply map_filter_lookup_Some. split; [exact Eb|]. simpl. rewrite Es. reflexivity. }
        rewrite Hsome in Ef. discriminate.
Qed.

(* a new alert is refused only when its name's bucket tracks N alerts none of which has ended: the limit never
   bites below N *)
Theorem refused_only_when_full N s t now a :
  1 <= N -> SI N s t -> t <= now -> snd (put1 N s a now) = false ->
  exists b, s_limits s !! a_name (put_alert s a now) = Some b /\ N <= Z.of_nat (size (abs b)) /\
            forall w q, abs b !! w = Some q -> now <= q.
Proof.
  intros HN Hs Hle Hr. apply (SI_mono N s t now Hle) in Hs. destruct Hs as (H1 & H2 & H3).
  rewrite put1_unfold in Hr. set (a' := put_alert s a now) in *.
  unfold store_set in Hr. destruct (0 <? N) eqn:E0; [|lia].
  destruct (s_limits s !! a_name a') as [b|] eqn:Eb.
  - destruct (H1 _ _ Eb) as [Hb Hcap].
    pose proof (upsert_store_view b (a_fp a') (a_ends a') now Hb ltac:(lia)) as Hu. cbv zeta in Hu.
    destruct (upsert b (a_fp a') (a_ends a') now) as [b' ok] eqn:Eu. simpl in Hu.
    destruct ok; [simpl in Hr; discriminate|].
    destruct Hu as (_ & _ & _ & _ & _ & _ & _ & U8). destruct (U8 eq_refl) as [Hsz Hall].
    exists b. split; [reflexivity|]. split; [lia|exact Hall].
  - exfalso. pose proof (upsert_store_view (new_bucket N) (a_fp a') (a_ends a') now (binv_new N) ltac:(simpl; lia)) as Hu.
    cbv zeta in Hu. destruct (upsert (new_bucket N) (a_fp a') (a_ends a') now) as [b' ok] eqn:Eu. simpl in Hu.
    destruct ok; [simpl in Hr; discriminate|].
    destruct Hu as (_ & _ & _ & _ & _ & _ & _ & U8). destruct (U8 eq_refl) as [Hsz _].
    unfold abs in Hsz. simpl in Hsz. rewrite map_size_empty in Hsz. lia.
Qed.

(* every refusal is reported: a Put that does not store the alert increments alertmanager_alerts_limited_total *)
Theorem refusal_counted N s a now :
  snd (put1 N s a now) = false -> s_limited (fst (put1 N s a now)) = S (s_limited s) /\ s_alerts (fst (put1 N s a now)) = s_alerts s.
Proof.
  rewrite put1_unfold. unfold store_set. destruct (0 <? N); [|simpl; discriminate].
  destruct (upsert _ _ _ _) as [b' ok]. destruct ok; simpl; [discriminate|auto].
Qed.
Theorem accepted_stored N s a now :
  snd (put1 N s a now) = true ->
  s_limited (fst (put1 N s a now)) = s_limited s /\ s_alerts (fst (put1 N s a now)) !! a_fp (put_alert s a now) = Some (put_alert s a now).
Proof.
  rewrite put1_unfold. unfold store_set. destruct (0 <? N).
  - destruct (upsert _ _ _ _) as [b' ok]. destruct ok; simpl; [|discriminate]. intros _. split; [reflexivity|apply lookup_insert].
  - simpl. intros _. split; [reflexivity|apply lookup_insert].
Qed.

(* ---------- the IsStale of the pinned commit: refuted ---------- *)
Definition f5_alert (i : Z) (ends : Z) := mkAlert i "A" 1000 ends 1000 false.
Definition f5_hist : list (Z * op) :=
  [(1000, OPut (f5_alert 1 1030)); (1000, OPut (f5_alert 2 1010)); (1000, OPut (f5_alert 3 1020));
   (1025, OGC);
   (1026, OPut (f5_alert 4 1100)); (1026, OPut (f5_alert 5 1100)); (1026, OPut (f5_alert 6 1100))].
Lemma last_slot_refuted :
  exists N h t0 name, 1 <= N /\ mono t0 h /\
    N < Z.of_nat (count_unexpired (fst (run_with is_stale_last_slot N empty_store h)) name (last_time t0 h)).
Proof. exists 3, f5_hist, 0, "A". vm_compute. repeat split; discriminate. Qed.
