(* The composed bound of Proofs/GroupLiveness.v ([bounded_response]) lifted to the instance through the projection
   theorem of Proofs/InstanceProofs.v: an alert published to the instance is, for EVERY group the model selects for it
   and every integration of that group's receiver, successfully notified as firing (or already listed in that
   integration's log entry) once the instance clock has passed that group's flush_by + flush timeout. *)
From AM Require Import Base.Prelude Model.Group Proofs.GroupProofs Proofs.GroupLiveness.
From AM Require Import Model.Matchers Model.Route Model.Grouping Model.Instance Proofs.InstanceProofs.

(* integration i of group k was sent, successfully, a batch listing x as firing *)
Definition inotified (k : gkey) (x : Z) (i : nat) (outs : list (gkey * out)) : Prop :=
  exists r sent f, In (k, ONotify i r sent OK) outs /\ In f sent /\ f_id f = x /\ f_res f = false.

(* at some point of the run the log entry of (k, i) lists x as firing *)
Definition ilisted_sometime (cfg : inst_cfg) (k : gkey) (x : Z) (i : nat) (s : istate) (h : list (Z * iev)) : Prop :=
  exists h1 h2 s1 o1, h = h1 ++ h2 /\ irun cfg s h1 = Some (s1, o1) /\ listed x i (view cfg s1 k).

(* "continuously firing, not suppressed in k, integration (k, i) accepting deliveries", on the INSTANCE event list:
   every later publication of the label set named x that the model routes to k is firing until T; no tick of k
   suppresses x; every attempt of (k, i) succeeds; the context of (k, i)'s chain does not expire *)
Definition ifair (cfg : inst_cfg) (k : gkey) (x : Z) (i : nat) (T : Z) (h : list (Z * iev)) : Prop :=
  (forall t ls st en up, In (t, IAlert ls st en up) h -> assoc (ic_ids cfg) ls = Some x -> k ∈ Instance.targets cfg ls ->
                         firing_until T (mkA x st en up)) /\
  (forall t tau sup, In (t, IGroup k (ETick tau sup)) h -> ~ In x sup) /\
  (forall t oc, In (t, IGroup k (EAttempt i oc)) h -> oc = OK) /\
  (forall t, ~ In (t, IGroup k (ECtxDone i)) h).

(* the instance-level fairness is sufficient for the group-level one on k's projected history *)
Lemma ifair_fair cfg k x i T h :
  (forall t e, In (t, e) h -> ev_ok cfg e = true) -> ifair cfg k x i T h -> fair x i T (proj_hist cfg k h).
Proof.
  intros Hok (H1 & H2 & H3 & H4). unfold fair. repeat split.
  - intros t b Hin Hid. unfold proj_hist in Hin. apply in_map_iff in Hin as ([t' ie] & Heq & Hin). cbn [fst snd] in Heq.
    injection Heq as -> Hp.
    destruct (proj_insert cfg k ie b (Hok _ _ Hin) Hp) as (ls & -> & Hids & Hk).
    rewrite Hid in Hids. specialize (H1 t ls _ _ _ Hin Hids Hk). unfold firing_until in *. cbn [a_ends] in H1. exact H1.
  - intros t tau sup Hin. apply (H2 t tau). apply (In_proj_hist_own _ _ _ _ _ Hin). reflexivity.
  - intros t oc Hin. apply (H3 t). apply (In_proj_hist_own _ _ _ _ _ Hin). reflexivity.
  - intros t Hin. apply (H4 t). apply (In_proj_hist_own _ _ _ _ _ Hin). reflexivity.
Qed.

(* a state the projected run of k goes through is k's view of a state the instance run goes through *)
Lemma ever_lift cfg k (P : gstate -> Prop) h : forall s s' outs,
  irun cfg s h = Some (s', outs) -> ever (gcfg_of cfg (fst k)) P (view cfg s k) (proj_hist cfg k h) ->
  exists h1 h2 s1 o1, h = h1 ++ h2 /\ irun cfg s h1 = Some (s1, o1) /\ P (view cfg s1 k).
Proof.
  induction h as [|[t e] h IH]; intros s s' outs H Hev; cbn [proj_hist map ever fst snd] in Hev.
  - destruct Hev as [HP|[]]. exists [], [], s, []. auto.
  - destruct Hev as [HP|Hev]; [exists [], ((t, e) :: h), s, []; auto|].
    cbn [irun] in H. destruct (istep cfg s t e) as [[s1 o1]|] eqn:Hs; [|discriminate].
    destruct (irun cfg s1 h) as [[s2 o2]|] eqn:Hr; [|discriminate].
    rewrite (istep_proj _ _ _ _ _ _ Hs k) in Hev.
    destruct (IH _ _ _ Hr Hev) as (h1 & h2 & s1' & o1' & -> & Hrun & HP).
    exists ((t, e) :: h1), h2, s1', (o1 ++ o1'). split; [reflexivity|]. split; [|exact HP].
    cbn [irun]. rewrite Hs, Hrun. reflexivity.
Qed.

Lemma irun_app cfg h1 : forall s h2,
  irun cfg s (h1 ++ h2) =
  match irun cfg s h1 with
  | Some (s1, o1) => match irun cfg s1 h2 with Some (s2, o2) => Some (s2, o1 ++ o2) | None => None end
  | None => None
  end.
Proof.
  induction h1 as [|[t e] h1 IH]; intros s h2; cbn [irun app].
  - destruct (irun cfg s h2) as [[s2 o2]|]; reflexivity.
  - destruct (istep cfg s t e) as [[s1 o1]|]; [|reflexivity].
    rewrite IH. destruct (irun cfg s1 h1) as [[s1' o1']|]; [|reflexivity].
    destruct (irun cfg s1' h2) as [[s2 o2]|]; [|reflexivity]. rewrite app_assoc. reflexivity.
Qed.

(* THE BOUND, instance level, from any state whose view of k is well-formed *)
Theorem instance_bounded_response_from cfg s t0 ls st en up h s' outs k x i T :
  let gc := gcfg_of cfg (fst k) in
  let a := mkA x st en up in
  irun cfg s ((t0, IAlert ls st en up) :: h) = Some (s', outs) -> wf_state gc (view cfg s k) ->
  assoc (ic_ids cfg) ls = Some x -> k ∈ Instance.targets cfg ls ->
  firing_until T a -> ifair cfg k x i T h ->
  (forall g c, s_group (view cfg s k) = Some g -> In c (gr_alerts g) -> a_id c = x -> a_upd c <= up) ->
  (forall g fl f, s_group (view cfg s k) = Some g -> gr_flight g = Some fl -> In f (fl_all fl) -> f_id f = x -> f_res f = false) ->
  flush_by gc (view cfg s k) t0 a <= T -> (i < length (g_ints gc))%nat -> 0 <= g_timeout gc -> 0 <= g_wait gc ->
  flush_by gc (view cfg s k) t0 a + g_timeout gc < is_clock s' ->
  inotified k x i outs \/ ilisted_sometime cfg k x i s ((t0, IAlert ls st en up) :: h).
Proof.
  intros gc a H Hwf Hid Hk Hfa Hfair Hnew Hfr HT Hi Hto Hgw Hlt.
  pose proof (irun_proj _ _ _ _ _ H k) as Hr.
  assert (Hp : proj cfg k (IAlert ls st en up) = EInsert a).
  { cbn [proj]. unfold alert_of. rewrite Hid. rewrite bool_decide_eq_true_2 by exact Hk. reflexivity. }
  cbn [proj_hist map fst snd] in Hr. rewrite Hp in Hr. fold (proj_hist cfg k h) in Hr.
  assert (Hinv : clock_inv s').
  { cbn [irun] in H. destruct (istep cfg s t0 (IAlert ls st en up)) as [[s1 o1]|] eqn:Hs; [|discriminate].
    destruct (irun cfg s1 h) as [[s2 o2]|] eqn:Hr2; [|discriminate]. inversion H; subst.
    destruct (istep_clock _ _ _ _ _ _ Hs) as (_ & _ & Hi1). apply (irun_clock _ _ _ _ _ Hr2 Hi1). }
  rewrite <- (view_clock cfg s' k Hinv) in Hlt.
  assert (Hokall : forall t e, In (t, e) h -> ev_ok cfg e = true).
  { intros t e Hin. apply (irun_ev_ok _ _ _ _ _ H t e). right. exact Hin. }
  destruct (bounded_response gc x i T (view cfg s k) t0 a (proj_hist cfg k h) (view cfg s' k) (outs_for k outs)
              Hr Hwf eq_refl Hfa (ifair_fair _ _ _ _ _ _ Hokall Hfair) Hnew Hfr HT Hi Hto Hgw Hlt) as [Hn|He].
  - left. destruct Hn as (r & sent & f & Hin & Hrest). exists r, sent, f. split; [apply In_outs_for; exact Hin|exact Hrest].
  - right. apply (ever_lift cfg k (listed x i) _ s s' outs H).
    cbn [proj_hist map fst snd]. rewrite Hp. exact He.
Qed.

(* THE HEADLINE: the instance started at t00 ran some accepted history h0; then an alert with label set ls (identity
   x) is published at t0. For every group k the model selects for it and every integration i of k's receiver: if x
   stays firing until T in k (later publications routed to k), no tick of k suppresses it, the attempts of (k, i)
   succeed and its chain's context does not expire, then once the instance clock has passed
   flush_by(k) + timeout(k) <= T + timeout(k), integration i of k has been sent, successfully, a batch listing x as
   firing - or at some point of the run the log entry of (k, i) already listed x as firing. *)
Theorem instance_bounded_response cfg t00 h0 s t0 ls st en up h s' outs o0 k x i T :
  let gc := gcfg_of cfg (fst k) in
  let a := mkA x st en up in
  irun cfg (iinit t00) h0 = Some (s, o0) ->
  irun cfg s ((t0, IAlert ls st en up) :: h) = Some (s', outs) ->
  assoc (ic_ids cfg) ls = Some x -> k ∈ Instance.targets cfg ls ->
  (i < length (g_ints gc))%nat ->
  firing_until T a -> ifair cfg k x i T h ->
  (forall g c, s_group (view cfg s k) = Some g -> In c (gr_alerts g) -> a_id c = x -> a_upd c <= up) ->
  (forall g fl f, s_group (view cfg s k) = Some g -> gr_flight g = Some fl -> In f (fl_all fl) -> f_id f = x -> f_res f = false) ->
  flush_by gc (view cfg s k) t0 a <= T -> 0 <= g_timeout gc -> 0 <= g_wait gc ->
  flush_by gc (view cfg s k) t0 a + g_timeout gc < is_clock s' ->
  inotified k x i outs \/ ilisted_sometime cfg k x i s ((t0, IAlert ls st en up) :: h).
Proof.
  intros gc a H0 H Hid Hk Hi Hfa Hfair Hnew Hfr HT Hto Hgw Hlt.
  apply (instance_bounded_response_from cfg s t0 ls st en up h s' outs k x i T H
           (reachable_views_wellformed cfg t00 h0 s o0 k H0) Hid Hk Hfa Hfair Hnew Hfr HT Hi Hto Hgw Hlt).
Qed.

(* the two timing hypotheses in the route's own terms *)
Lemma gcfg_of_timers cfg p :
  g_wait (gcfg_of cfg p) = ro_gw (opts_at cfg p) /\ g_interval (gcfg_of cfg p) = ro_gi (opts_at cfg p) /\
  g_repeat (gcfg_of cfg p) = ro_ri (opts_at cfg p) /\
  g_timeout (gcfg_of cfg p) = Z.max (ro_gi (opts_at cfg p)) (ic_min_timeout cfg) + ic_wait cfg /\
  g_ints (gcfg_of cfg p) = ints_of cfg (ro_receiver (opts_at cfg p)).
Proof. repeat split. Qed.

(* non-vacuity of the headline on the example of InstanceProofs.v *)
Example instance_bounded_response_nonvacuous :
  let h := tl iex_hist in
  ifair iex_cfg iex_k1 1 1 1000 h /\
  flush_by (gcfg_of iex_cfg (fst iex_k1)) (view iex_cfg (iinit 0) iex_k1) 0 (mkA 1 0 0 0) = 20 /\
  g_timeout (gcfg_of iex_cfg (fst iex_k1)) = 300 /\
  inotified iex_k1 1 1 [(iex_k1, ONotify 1 RFirst [mkF 1 false 0] OK)].
Proof.
  split; [|split; [vm_compute; reflexivity|split; [vm_compute; reflexivity|]]].
  - unfold ifair. repeat split.
    + intros t ls st en up Hin _ _. left. vm_compute in Hin.
      repeat (destruct Hin as [Hin|Hin]; [inversion Hin; subst; reflexivity|]). destruct Hin.
    + intros t tau sup Hin. vm_compute in Hin.
      repeat (destruct Hin as [Hin|Hin]; [inversion Hin; subst; intros []|]). destruct Hin.
    + intros t oc Hin. vm_compute in Hin.
      repeat (destruct Hin as [Hin|Hin]; [inversion Hin; subst; reflexivity|]). destruct Hin.
    + intros t Hin. vm_compute in Hin.
      repeat (destruct Hin as [Hin|Hin]; [inversion Hin|]). destruct Hin.
  - exists RFirst, [mkF 1 false 0], (mkF 1 false 0). cbn. auto.
Qed.
