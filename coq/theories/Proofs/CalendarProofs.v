(* Proofs about Model/Calendar.v: the days <-> civil conversion is exact on ALL of Z.
   Method: the Gregorian calendar has period 146097 days = 400 years. Two finite sweeps over one era
   (vm_compute, 146097 resp. 148800 points) are lifted to every day / every date by the periodicity lemmas. *)
From AM Require Import Base.Prelude Model.Calendar.

(* ---- bounded universal quantification by computation ---- *)
Fixpoint all_from (fuel : nat) (z : Z) (f : Z -> bool) : bool :=
  match fuel with O => true | S k => f z && all_from k (z + 1) f end.

Lemma all_from_spec fuel : forall z f, all_from fuel z f = true ->
  forall i, z <= i < z + Z.of_nat fuel -> f i = true.
Proof.
  induction fuel as [|k IH]; intros z f H i Hi; [lia|].
  simpl in H. apply andb_true_iff in H as [H1 H2].
  destruct (Z.eq_dec i z) as [->|Hne]; [exact H1|]. apply (IH (z + 1) f H2). lia.
Qed.

Lemma divmod_unique a b q r : 0 <= r < b -> a = b * q + r -> a / b = q /\ a mod b = r.
Proof.
  intros Hr Ha. split.
  - symmetry. apply (Z.div_unique_pos a b q r); assumption.
  - symmetry. apply (Z.mod_unique_pos a b q r); assumption.
Qed.

(* ---- leap years and month lengths ---- *)
Lemma is_leap_spec y :
  is_leap y = true <-> (y mod 4 = 0 /\ y mod 100 <> 0) \/ y mod 400 = 0.
Proof.
  unfold is_leap. rewrite andb_true_iff, orb_true_iff, negb_true_iff, !Z.eqb_eq, Z.eqb_neq.
  split.
  - intros [H4 [H|H]]; [left; split; assumption | right; assumption].
  - intros [[H4 H100]|H400]; [split; [assumption | left; assumption]|].
    split; [|right; assumption].
    pose proof (Z.div_mod y 400 ltac:(lia)) as E. rewrite H400 in E.
    replace y with ((y / 400 * 100) * 4) by lia. apply Z.mod_mul. lia.
Qed.

Lemma mod_add_mul y k c n : n <> 0 -> c mod n = 0 -> (y + k * c) mod n = y mod n.
Proof.
  intros Hn Hc. pose proof (Z.div_mod c n Hn) as E. rewrite Hc in E.
  replace (y + k * c) with (y + (k * (c / n)) * n) by lia. apply Z.mod_add. exact Hn.
Qed.

Lemma is_leap_period y k : is_leap (y + k * 400) = is_leap y.
Proof.
  unfold is_leap.
  rewrite (mod_add_mul y k 400 4), (mod_add_mul y k 400 100), (mod_add_mul y k 400 400) by (try lia; reflexivity).
  reflexivity.
Qed.

Lemma days_in_month_period y m k : days_in_month (y + k * 400) m = days_in_month y m.
Proof. unfold days_in_month. rewrite is_leap_period. reflexivity. Qed.

(* 28/29/30/31 with the 4/100/400 rule *)
Lemma days_in_month_spec y m : 1 <= m <= 12 ->
  (m = 2 -> days_in_month y m = if is_leap y then 29 else 28) /\
  (m = 4 \/ m = 6 \/ m = 9 \/ m = 11 -> days_in_month y m = 30) /\
  (m = 1 \/ m = 3 \/ m = 5 \/ m = 7 \/ m = 8 \/ m = 10 \/ m = 12 -> days_in_month y m = 31).
Proof.
  intros Hm. unfold days_in_month. repeat split; intros H;
    repeat match goal with |- context [?a =? ?b] => destruct (Z.eqb_spec a b) end; simpl; try lia; reflexivity.
Qed.

Lemma days_in_month_bounds y m : 28 <= days_in_month y m <= 31.
Proof. unfold days_in_month. repeat case_match; lia. Qed.

(* a year has 365 or 366 days: the twelve month lengths add up *)
Definition year_length (y : Z) : Z :=
  fold_right Z.add 0 (map (days_in_month y) [1; 2; 3; 4; 5; 6; 7; 8; 9; 10; 11; 12]).
Lemma year_length_spec y : year_length y = if is_leap y then 366 else 365.
Proof. unfold year_length, days_in_month. simpl. destruct (is_leap y); reflexivity. Qed.

Lemma shift_next_day k c : next_day (shift_year k c) = shift_year k (next_day c).
Proof.
  destruct c as [[y m] d]. unfold next_day, shift_year. rewrite days_in_month_period.
  repeat case_match; simplify_eq; f_equal; try f_equal; lia.
Qed.

Lemma shift_valid k c : valid_date (shift_year k c) = valid_date c.
Proof. destruct c as [[y m] d]. unfold valid_date, shift_year. rewrite days_in_month_period. reflexivity. Qed.

(* ---- sweep 1: every day of an era ---- *)
Definition eqb3 (a b : Z * Z * Z) : bool :=
  let '(a1, a2, a3) := a in let '(b1, b2, b3) := b in (a1 =? b1) && (a2 =? b2) && (a3 =? b3).
Lemma eqb3_eq a b : eqb3 a b = true -> a = b.
Proof.
  destruct a as [[a1 a2] a3], b as [[b1 b2] b3]. unfold eqb3.
  rewrite !andb_true_iff, !Z.eqb_eq. intros [[-> ->] ->]. reflexivity.
Qed.

Definition chk1 (doe : Z) : bool :=
  let '(y0, m, d) := civil0_of_doe doe in
  let yoe := if m <=? 2 then y0 - 1 else y0 in
  (0 <=? yoe) && (yoe <? 400) && (doe_of_civil0 yoe m d =? doe) && valid_date (y0, m, d) &&
  ((146096 <=? doe) || eqb3 (civil0_of_doe (doe + 1)) (next_day (y0, m, d))).

Lemma sweep1 : all_from (Z.to_nat 146097) 0 chk1 = true.
Proof. vm_cast_no_check (eq_refl true). Qed.

Lemma chk1_all doe : 0 <= doe < 146097 -> chk1 doe = true.
Proof. intros H. apply (all_from_spec _ _ _ sweep1). lia. Qed.

Lemma era_day doe : 0 <= doe < 146097 ->
  exists y0 m d, civil0_of_doe doe = (y0, m, d) /\
    let yoe := if m <=? 2 then y0 - 1 else y0 in
    0 <= yoe < 400 /\ doe_of_civil0 yoe m d = doe /\ valid_date (y0, m, d) = true /\
    (doe < 146096 -> civil0_of_doe (doe + 1) = next_day (y0, m, d)).
Proof.
  intros H. pose proof (chk1_all doe H) as C. unfold chk1 in C.
  destruct (civil0_of_doe doe) as [[y0 m] d]. exists y0, m, d. split; [reflexivity|].
  cbv zeta in *. rewrite !andb_true_iff in C. destruct C as [[[[C1 C2] C3] C4] C5].
  repeat split; try lia; try assumption.
  intros Hlt. apply orb_true_iff in C5 as [C5|C5]; [lia|]. apply eqb3_eq. exact C5.
Qed.

Lemma era_first : civil0_of_doe 0 = (0, 3, 1). Proof. reflexivity. Qed.
Lemma era_last : civil0_of_doe 146096 = (400, 2, 29). Proof. reflexivity. Qed.

(* ---- sweep 2: every valid date of an era ---- *)
Definition chk2 (i : Z) : bool :=
  let yoe := i / 372 in let m := (i mod 372) / 31 + 1 in let d := i mod 31 + 1 in
  let y0 := if m <=? 2 then yoe + 1 else yoe in
  negb (valid_date (y0, m, d)) ||
  (let doe := doe_of_civil0 yoe m d in
   (0 <=? doe) && (doe <? 146097) && eqb3 (civil0_of_doe doe) (y0, m, d)).

Lemma sweep2 : all_from (Z.to_nat 148800) 0 chk2 = true.
Proof. vm_cast_no_check (eq_refl true). Qed.

Lemma era_date yoe m d :
  0 <= yoe < 400 -> 1 <= m <= 12 -> 1 <= d <= 31 ->
  let y0 := if m <=? 2 then yoe + 1 else yoe in
  valid_date (y0, m, d) = true ->
  0 <= doe_of_civil0 yoe m d < 146097 /\ civil0_of_doe (doe_of_civil0 yoe m d) = (y0, m, d).
Proof.
  intros Hy Hm Hd y0 Hv.
  set (i := yoe * 372 + (m - 1) * 31 + (d - 1)).
  assert (Hi : 0 <= i < 148800) by (unfold i; lia).
  pose proof (all_from_spec _ _ _ sweep2 i ltac:(lia)) as C. unfold chk2 in C.
  destruct (divmod_unique i 372 yoe ((m - 1) * 31 + (d - 1)) ltac:(lia) ltac:(unfold i; lia)) as [E1 E2].
  destruct (divmod_unique ((m - 1) * 31 + (d - 1)) 31 (m - 1) (d - 1) ltac:(lia) ltac:(lia)) as [E3 E4].
  destruct (divmod_unique i 31 (yoe * 12 + (m - 1)) (d - 1) ltac:(lia) ltac:(unfold i; lia)) as [_ E5].
  rewrite E1, E2, E3, E5 in C.
  replace (m - 1 + 1) with m in C by lia. replace (d - 1 + 1) with d in C by lia.
  fold y0 in C. rewrite Hv in C. cbn [negb orb] in C.
  rewrite !andb_true_iff in C. destruct C as [[C1 C2] C3]. apply eqb3_eq in C3. split; [lia | exact C3].
Qed.

(* ---- the theorems, for every day and every date ---- *)
Lemma era_split z : exists era doe, 0 <= doe < 146097 /\ z + 719468 = 146097 * era + doe /\
  (z + 719468) / 146097 = era /\ (z + 719468) mod 146097 = doe.
Proof.
  exists ((z + 719468) / 146097), ((z + 719468) mod 146097).
  pose proof (Z.mod_pos_bound (z + 719468) 146097 ltac:(lia)).
  pose proof (Z.div_mod (z + 719468) 146097 ltac:(lia)). repeat split; lia.
Qed.

Lemma civil_valid z : valid_date (civil_of_days z) = true.
Proof.
  destruct (era_split z) as (era & doe & Hd & _ & E1 & E2). unfold civil_of_days. rewrite E1, E2.
  destruct (era_day doe Hd) as (y0 & m & d & Ec & _ & _ & Hv & _). rewrite Ec, shift_valid. exact Hv.
Qed.

(* days -> date -> days *)
Lemma civil_roundtrip_days z : let '(y, m, d) := civil_of_days z in days_of_civil y m d = z.
Proof.
  destruct (era_split z) as (era & doe & Hd & Ez & E1 & E2). unfold civil_of_days. rewrite E1, E2.
  destruct (era_day doe Hd) as (y0 & m & d & Ec & Hy & Hdoe & _ & _). rewrite Ec. unfold shift_year, days_of_civil.
  cbv zeta in Hy, Hdoe.
  set (yoe := if m <=? 2 then y0 - 1 else y0) in *.
  replace (if m <=? 2 then y0 + era * 400 - 1 else y0 + era * 400) with (yoe + era * 400)
    by (unfold yoe; destruct (m <=? 2); lia).
  destruct (divmod_unique (yoe + era * 400) 400 era yoe ltac:(lia) ltac:(lia)) as [-> ->].
  rewrite Hdoe. lia.
Qed.

(* date -> days -> date *)
Lemma civil_roundtrip_date y m d :
  valid_date (y, m, d) = true -> civil_of_days (days_of_civil y m d) = (y, m, d).
Proof.
  intros Hv. pose proof Hv as Hv'. unfold valid_date in Hv'. rewrite !andb_true_iff in Hv'.
  destruct Hv' as [[[Hm1 Hm2] Hd1] Hd2]. pose proof (days_in_month_bounds y m).
  set (y' := if m <=? 2 then y - 1 else y).
  pose proof (Z.mod_pos_bound y' 400 ltac:(lia)) as Hyoe.
  pose proof (Z.div_mod y' 400 ltac:(lia)) as Ey.
  set (era := y' / 400) in *. set (yoe := y' mod 400) in *.
  assert (Hy0 : (if m <=? 2 then yoe + 1 else yoe) + era * 400 = y) by (unfold y' in Ey; destruct (m <=? 2); lia).
  assert (Hv0 : valid_date (if m <=? 2 then yoe + 1 else yoe, m, d) = true).
  { rewrite <- Hv, <- Hy0. symmetry. apply (shift_valid era (_, m, d)). }
  destruct (era_date yoe m d ltac:(lia) ltac:(lia) ltac:(lia) Hv0) as [Hb Ec].
  unfold days_of_civil. fold y' era yoe. unfold civil_of_days.
  destruct (divmod_unique (era * 146097 + doe_of_civil0 yoe m d - 719468 + 719468) 146097 era
              (doe_of_civil0 yoe m d) Hb ltac:(lia)) as [-> ->].
  rewrite Ec. unfold shift_year. rewrite Hy0. reflexivity.
Qed.

(* the conversion follows the calendar day by day, from the epoch 1970-01-01 *)
Lemma civil_epoch : civil_of_days 0 = (1970, 1, 1).
Proof. reflexivity. Qed.

Lemma civil_step z : civil_of_days (z + 1) = next_day (civil_of_days z).
Proof.
  destruct (era_split z) as (era & doe & Hd & Ez & E1 & E2). unfold civil_of_days at 2. rewrite E1, E2. clear E1 E2.
  destruct (era_day doe Hd) as (y0 & m & d & Ec & _ & _ & _ & Hn). rewrite shift_next_day, Ec.
  unfold civil_of_days. destruct (Z_lt_dec doe 146096) as [Hlt|Hge].
  - destruct (divmod_unique (z + 1 + 719468) 146097 era (doe + 1) ltac:(lia) ltac:(lia)) as [-> ->].
    rewrite (Hn Hlt). reflexivity.
  - assert (doe = 146096) by lia. subst doe.
    destruct (divmod_unique (z + 1 + 719468) 146097 (era + 1) 0 ltac:(lia) ltac:(lia)) as [-> ->].
    rewrite era_last in Ec. injection Ec as <- <- <-. rewrite era_first.
    unfold shift_year. simpl. f_equal. f_equal. lia.
Qed.

(* ---- weekday ---- *)
Lemma weekday_epoch : weekday 0 = 4. Proof. reflexivity. Qed.
Lemma weekday_range z : 0 <= weekday z <= 6.
Proof. unfold weekday. pose proof (Z.mod_pos_bound (z + 4) 7 ltac:(lia)). lia. Qed.
Lemma weekday_step z : weekday (z + 1) = (weekday z + 1) mod 7.
Proof.
  unfold weekday. rewrite Zplus_mod_idemp_l. f_equal. lia.
Qed.
Lemma weekday_period z : weekday (z + 7) = weekday z.
Proof. unfold weekday. replace (z + 7 + 4) with (z + 4 + 1 * 7) by lia. apply Z.mod_add. lia. Qed.

(* ---- civil fields of a local instant ---- *)
Lemma civil_fields_spec local :
  let c := civil_fields local in
  civil_of_days (local / 86400) = (c_year c, c_month c, c_day c) /\
  c_wday c = weekday (local / 86400) /\
  0 <= c_min c < 1440 /\
  (* Go: Hour()*60 + Minute() *)
  c_min c = ((local mod 86400) / 3600) * 60 + ((local mod 86400) mod 3600) / 60 /\
  exists sec, 0 <= sec < 60 /\ local = (local / 86400) * 86400 + c_min c * 60 + sec.
Proof.
  unfold civil_fields. destruct (civil_of_days (local / 86400)) as [[y m] d]. simpl.
  pose proof (Z.mod_pos_bound local 86400 ltac:(lia)) as Hs.
  pose proof (Z.div_mod local 86400 ltac:(lia)) as El.
  set (s := local mod 86400) in *.
  pose proof (Z.div_mod s 60 ltac:(lia)) as E60. pose proof (Z.mod_pos_bound s 60 ltac:(lia)) as H60.
  pose proof (Z.div_mod s 3600 ltac:(lia)) as E36. pose proof (Z.mod_pos_bound s 3600 ltac:(lia)) as H36.
  pose proof (Z.div_mod (s mod 3600) 60 ltac:(lia)) as Em. pose proof (Z.mod_pos_bound (s mod 3600) 60 ltac:(lia)) as Hm.
  assert (Hmin : s / 60 = s / 3600 * 60 + s mod 3600 / 60).
  { apply (proj1 (divmod_unique s 60 (s / 3600 * 60 + s mod 3600 / 60) ((s mod 3600) mod 60) ltac:(lia) ltac:(lia))). }
  repeat split; try lia.
  exists (s mod 60). split; lia.
Qed.

Lemma civil_fields_valid local :
  let c := civil_fields local in
  1 <= c_month c <= 12 /\ 1 <= c_day c <= days_in_month (c_year c) (c_month c) /\ 0 <= c_wday c <= 6.
Proof.
  cbv zeta. destruct (civil_fields_spec local) as (E & Ew & _).
  pose proof (civil_valid (local / 86400)) as V. rewrite E in V. unfold valid_date in V.
  rewrite !andb_true_iff in V. rewrite Ew. pose proof (weekday_range (local / 86400)). lia.
Qed.
