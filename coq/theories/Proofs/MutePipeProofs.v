(* Proofs about the generic product of a pure mute stage with the timed group model (Model/MutePipe.v): the muter's
   verdict at the flush decides what a flush may deliver, nothing else is withheld, and the product projects onto runs
   of both components. Instantiated for the Inhibitor (Properties/C03.v) and the time-interval stages (C15.v). *)
From AM Require Import Base.Prelude Model.Group Proofs.GroupProofs Model.MutePipe.

Section MP.
Context {M mop : Type}.
Variable mstep : M -> Z -> mop -> M.
Variable mverdict : M -> Z -> Z -> Z -> bool.
Variable cfg : gcfg.

Notation mpstep := (mpstep mstep mverdict cfg).
Notation mprun := (mprun mstep mverdict cfg).

(* ---------- two facts about one step of the group ---------- *)

Lemma tick_flight s t tau sup s' o :
  step cfg s t (ETick tau sup) = Some (s', o) ->
  exists g fl, s_group s = Some g /\ gr_flight g = None /\
    s_group s' = Some (mkGr (gr_alerts g) (t + g_interval cfg) (Some fl)) /\
    fl_tick fl = tau /\ fl_start fl = t /\ fl_all fl = sort_f (map (freeze t) (gr_alerts g)) /\
    fl_post fl = filter (fun f => negb (bool_decide (f_id f ∈ sup))) (fl_all fl) /\
    s_nflog s' = s_nflog s /\ o = [OFlush (fl_all fl)].
Proof.
  intros H. unfold step in H. destruct (time_ok s t); [|discriminate]. cbn [negb] in H.
  destruct (s_group s) as [g|] eqn:Hg; [|discriminate]. destruct (gr_flight g) eqn:Hf; [discriminate|].
  destruct (_ && _); [|discriminate]. cbn [negb] in H. inversion H; subst; clear H.
  exists g. eexists. split; [reflexivity|]. split; [exact Hf|]. cbn. repeat split; reflexivity.
Qed.

Lemma nontick_flight s t e s' o g' fl' :
  is_tick e = false -> step cfg s t e = Some (s', o) -> s_group s' = Some g' -> gr_flight g' = Some fl' ->
  exists g fl, s_group s = Some g /\ gr_flight g = Some fl /\
    fl_tick fl' = fl_tick fl /\ fl_start fl' = fl_start fl /\ fl_all fl' = fl_all fl /\ fl_post fl' = fl_post fl.
Proof.
  intros Hnt H Hg' Hf'. unfold step in H. destruct (time_ok s t); [|discriminate]. cbn [negb] in H.
  destruct e as [a|tau sup|i|i oc|i| | |i en|i en|]; [| discriminate Hnt | | | | | | | |].
  - destruct (s_group s) as [g|] eqn:Hg; inversion H; subst; cbn in Hg'; inversion Hg'; subst; cbn in Hf'.
    + exists g, fl'. repeat split; auto.
    + discriminate.
  - destruct (s_group s) as [g|] eqn:Hg; [|discriminate]. destruct (gr_flight g) as [fl|] eqn:Hf; [|discriminate].
    destruct (fl_chains fl !! i) as [ch|]; [|discriminate]. destruct ch; try discriminate.
    destruct (g_ints cfg !! i); [|discriminate]. destruct (s_nflog s !! i); [|discriminate].
    exists g, fl. split; [reflexivity|]. split; [exact Hf|].
    destruct (bool_decide _); [|destruct (_ && _)]; inversion H; subst; cbn in Hg'; inversion Hg'; subst;
      cbn in Hf'; inversion Hf'; subst; cbn; repeat split; auto.
  - destruct (s_group s) as [g|] eqn:Hg; [|discriminate]. destruct (gr_flight g) as [fl|] eqn:Hf; [|discriminate].
    destruct (fl_chains fl !! i) as [ch|]; [|discriminate]. destruct ch; try discriminate.
    destruct (g_ints cfg !! i); [|discriminate]. destruct (s_nflog s !! i); [|discriminate].
    exists g, fl. split; [reflexivity|]. split; [exact Hf|].
    destruct oc; inversion H; subst; cbn in Hg'; inversion Hg'; subst; cbn in Hf'; inversion Hf'; subst; cbn; repeat split; auto.
  - destruct (s_group s) as [g|] eqn:Hg; [|discriminate]. destruct (gr_flight g) as [fl|] eqn:Hf; [|discriminate].
    exists g, fl. split; [reflexivity|]. split; [exact Hf|].
    destruct (fl_chains fl !! i) as [ch|]; [|discriminate].
    destruct ch; try discriminate; (destruct (t <? fl_deadline fl); [discriminate|]); inversion H; subst;
      cbn in Hg'; inversion Hg'; subst; cbn in Hf'; inversion Hf'; subst; cbn; repeat split; auto.
  - destruct (s_group s) as [g|] eqn:Hg; [|discriminate]. destruct (gr_flight g) as [fl|] eqn:Hf; [|discriminate].
    destruct (negb _); [discriminate|]. destruct (forallb chain_ok _); [destruct (is_nil _)|];
      inversion H; subst; cbn in Hg'; try discriminate; inversion Hg'; subst; cbn in Hf'; discriminate.
  - inversion H; subst. cbn in Hg'. destruct (s_group s) as [g|] eqn:Hg; [|discriminate].
    inversion Hg'; subst. exists g', fl'. repeat split; auto.
  - destruct (s_nflog s !! i); [|discriminate]. inversion H; subst. cbn in Hg'.
    destruct (s_group s) as [g|] eqn:Hg; [|discriminate]. inversion Hg'; subst. exists g', fl'. repeat split; auto.
  - destruct (s_nflog s !! i); [|discriminate]. inversion H; subst. cbn in Hg'.
    destruct (s_group s) as [g|] eqn:Hg; [|discriminate]. inversion Hg'; subst. exists g', fl'. repeat split; auto.
  - inversion H; subst. cbn in Hg'. destruct (s_group s) as [g|] eqn:Hg; [|discriminate].
    inversion Hg'; subst. exists g', fl'. repeat split; auto.
Qed.

(* ---------- the invariant ---------- *)

Definition MInv (P : mstate) : Prop :=
  wf_state cfg (mp_g P) /\
  forall g fl, s_group (mp_g P) = Some g -> gr_flight g = Some fl ->
    fl_start fl <= s_clock (mp_g P) /\
    exists Mf, mp_flush P = Some (fl_tick fl, fl_start fl, Mf) /\
      forall f, In f (fl_post fl) -> mverdict Mf (fl_tick fl) (fl_start fl) (f_id f) = false.

Lemma MInv_init m0 t0 : MInv (mpinit cfg m0 t0).
Proof. split; [apply wf_init|]. intros g fl H. discriminate. Qed.

Lemma flight_clause_nontick g t e g' o (fo : option (Z * Z * M)) :
  is_tick e = false -> step cfg g t e = Some (g', o) ->
  (forall gr fl, s_group g = Some gr -> gr_flight gr = Some fl ->
     fl_start fl <= s_clock g /\
     exists Mf, fo = Some (fl_tick fl, fl_start fl, Mf) /\ forall f, In f (fl_post fl) -> mverdict Mf (fl_tick fl) (fl_start fl) (f_id f) = false) ->
  forall gr fl, s_group g' = Some gr -> gr_flight gr = Some fl ->
     fl_start fl <= s_clock g' /\
     exists Mf, fo = Some (fl_tick fl, fl_start fl, Mf) /\ forall f, In f (fl_post fl) -> mverdict Mf (fl_tick fl) (fl_start fl) (f_id f) = false.
Proof.
  intros Hnt Hs Hold gr fl Hgr Hfl. pose proof (step_time _ _ _ _ _ _ Hs) as [Hle Hclk].
  destruct (nontick_flight _ _ _ _ _ _ _ Hnt Hs Hgr Hfl) as (gr0 & fl0 & Hg0 & Hf0 & E0 & E1 & E2 & E3).
  destruct (Hold gr0 fl0 Hg0 Hf0) as (Hst & Mf & Hfo & Hsil). rewrite E0, E1, E3. split; [lia|]. exists Mf. auto.
Qed.

Lemma mpstep_inv P t e P' o : MInv P -> mpstep P t e = Some (P', o) -> MInv P'.
Proof.
  destruct P as [m g fo]. intros (Hwf & Hfl) H. cbn [mp_m mp_g mp_flush] in *.
  destruct e as [so|tau other|e]; cbn [MutePipe.mpstep mp_m mp_g mp_flush] in H.
  - destruct (step cfg g t EEnd) as [[g' o']|] eqn:Hs; [|discriminate]. inversion H; subst; clear H.
    split; cbn [mp_m mp_g mp_flush]; [eapply wf_step; eauto|].
    exact (flight_clause_nontick g t EEnd _ _ fo eq_refl Hs Hfl).
  - destruct (step cfg g t (ETick tau _)) as [[g' o']|] eqn:Hs; [|discriminate]. inversion H; subst; clear H.
    pose proof (step_time _ _ _ _ _ _ Hs) as [Hle Hclk].
    destruct (tick_flight _ _ _ _ _ _ Hs) as (g0 & fl & Hg0 & Hf0 & Hg' & Htk & Hst & Hall & Hpost & _ & _).
    split; cbn [mp_m mp_g mp_flush]; [eapply wf_step; eauto|].
    intros gr fl1 Hgr Hfl1. rewrite Hg' in Hgr. injection Hgr as <-. cbn in Hfl1. injection Hfl1 as <-.
    rewrite Htk, Hst, Hclk. split; [lia|]. exists m. split; [reflexivity|]. intros f Hin.
    rewrite Hpost in Hin. apply In_filter_b in Hin as [Hin Hns].
    apply negb_true_iff, bool_decide_eq_false in Hns.
    destruct (mverdict m tau t (f_id f)) eqn:Hv; [|reflexivity]. exfalso. apply Hns.
    apply elem_of_app. left. apply elem_of_list_filter. split; [rewrite Hv; exact I|].
    unfold flush_ids. rewrite Hg0, <- Hall. apply elem_of_list_In, in_map. exact Hin.
  - destruct (is_tick e) eqn:Hnt; [discriminate|].
    destruct (step cfg g t e) as [[g' o']|] eqn:Hs; [|discriminate]. inversion H; subst; clear H.
    split; cbn [mp_m mp_g mp_flush]; [eapply wf_step; eauto|].
    exact (flight_clause_nontick g t e _ _ fo Hnt Hs Hfl).
Qed.

Lemma mprun_inv h : forall P P' outs, MInv P -> mprun P h = Some (P', outs) -> MInv P'.
Proof.
  induction h as [|[t e] h IH]; intros P P' outs HI H; cbn [MutePipe.mprun] in H.
  - inversion H; subst. exact HI.
  - destruct (mpstep P t e) as [[P1 o1]|] eqn:Hs; [|discriminate].
    destruct (mprun P1 h) as [[P2 o2]|] eqn:Hrun; [|discriminate]. inversion H; subst.
    eapply IH; [|exact Hrun]. eapply mpstep_inv; eauto.
Qed.

Lemma mprun_origin h : forall P P' outs y,
  MInv P -> mprun P h = Some (P', outs) -> In y outs ->
  exists h1 t e h2 P1 o1 P2 o, h = h1 ++ (t, e) :: h2 /\ mprun P h1 = Some (P1, o1) /\ MInv P1 /\
    mpstep P1 t e = Some (P2, o) /\ In y o.
Proof.
  induction h as [|[t e] h IH]; intros P P' outs y HI H Hin; cbn [MutePipe.mprun] in H.
  - inversion H; subst. destruct Hin.
  - destruct (mpstep P t e) as [[P1 o1]|] eqn:Hs; [|discriminate].
    destruct (mprun P1 h) as [[P2 o2]|] eqn:Hrun; [|discriminate]. inversion H; subst.
    apply in_app_or in Hin as [Hin|Hin].
    + exists [], t, e, h, P, [], P1, o1. cbn [MutePipe.mprun app]. auto.
    + destruct (IH P1 P' o2 y (mpstep_inv _ _ _ _ _ HI Hs) Hrun Hin)
        as (h1 & t' & e' & h2 & Pa & oa & Pb & ob & -> & Hra & HIa & Hsa & Hy).
      exists ((t, e) :: h1), t', e', h2, Pa, (o1 ++ oa), Pb, ob. cbn [MutePipe.mprun app]. rewrite Hs, Hra. auto.
Qed.

(* ---------- what the muter mutes at a flush is never notified ---------- *)

Theorem muted_never_notified m0 t0 h P outs i r sent oc :
  mprun (mpinit cfg m0 t0) h = Some (P, outs) -> In (ONotify i r sent oc) outs ->
  exists h1 ta h2 P1 o1 tauf tf Mf,
    h = h1 ++ (ta, MGrp (EAttempt i oc)) :: h2 /\ mprun (mpinit cfg m0 t0) h1 = Some (P1, o1) /\
    mp_flush P1 = Some (tauf, tf, Mf) /\ tf <= ta /\ forall f, In f sent -> mverdict Mf tauf tf (f_id f) = false.
Proof.
  intros Hrun Hin.
  destruct (mprun_origin h _ _ _ _ (MInv_init m0 t0) Hrun Hin) as (h1 & ta & e & h2 & P1 & o1 & P2 & o & -> & Hr1 & HI1 & Hs & Hy).
  destruct HI1 as (Hwf & Hfl). destruct e as [so|tau other|e]; cbn [MutePipe.mpstep] in Hs.
  - destruct (step cfg (mp_g P1) ta EEnd) as [[g' o']|]; [|discriminate]. inversion Hs; subst. destruct Hy.
  - destruct (step cfg (mp_g P1) ta (ETick tau _)) as [[g' o']|] eqn:Hg; [|discriminate].
    inversion Hs; subst. destruct (tick_flight _ _ _ _ _ _ Hg) as (g0 & fl & _ & _ & _ & _ & _ & _ & _ & _ & ->).
    destruct Hy as [Hy|[]]. discriminate.
  - destruct (is_tick e); [discriminate|].
    destruct (step cfg (mp_g P1) ta e) as [[g' o']|] eqn:Hg; [|discriminate]. inversion Hs; subst; clear Hs.
    pose proof (notify_origin _ _ _ _ _ _ _ _ _ _ Hg Hy) as ->.
    destruct (attempt_outputs _ _ _ _ _ _ _ Hwf Hg) as (g & fl & r' & sent' & F & R & n & ic & ent & Hgr & Hf & Hc & _ & _ & _ & _ & _ & _ & _ & _ & Ho).
    assert (Heq : sent = sent').
    { destruct oc; destruct Ho as [-> _]; cbn in Hy;
        repeat match goal with H : _ \/ _ |- _ => destruct H end; try contradiction; try discriminate;
        match goal with H : ONotify _ _ _ _ = ONotify _ _ _ _ |- _ => inversion H; subst; auto end. }
    subst sent'. destruct Hwf as [_ Hwf]. destruct (Hwf g fl Hgr Hf) as (_ & _ & _ & Hret).
    destruct (Hret i r' sent F R n Hc) as (_ & _ & _ & Hsent & _).
    destruct (Hfl g fl Hgr Hf) as (Hst & Mf & Hfo & Hsil). pose proof (step_time _ _ _ _ _ _ Hg) as [Hle _].
    exists h1, ta, h2, P1, o1, (fl_tick fl), (fl_start fl), Mf. split; [reflexivity|]. split; [exact Hr1|]. split; [exact Hfo|].
    split; [lia|]. intros f Hf'. apply Hsil, Hsent, Hf'.
Qed.

(* ---------- the history variable, the muter's state, the clock ---------- *)

Definition no_tick (h : list (Z * mev (mop := mop))) : Prop := forall t tau other, ~ In (t, MTick tau other) h.

Lemma mpstep_parts P t e P' o :
  mpstep P t e = Some (P', o) ->
  mp_flush P' = match e with MTick tau _ => Some (tau, t, mp_m P) | _ => mp_flush P end /\
  mp_m P' = match e with MOp so => mstep (mp_m P) t so | _ => mp_m P end /\
  s_clock (mp_g P) <= t /\ s_clock (mp_g P') = t.
Proof.
  intros H. destruct e as [so|tau other|e]; cbn [MutePipe.mpstep] in H.
  - destruct (step cfg (mp_g P) t EEnd) as [[g' o']|] eqn:Hs; [|discriminate]. inversion H; subst.
    pose proof (step_time _ _ _ _ _ _ Hs). cbn. tauto.
  - destruct (step cfg (mp_g P) t (ETick tau _)) as [[g' o']|] eqn:Hs; [|discriminate]. inversion H; subst.
    pose proof (step_time _ _ _ _ _ _ Hs). cbn. tauto.
  - destruct (is_tick e); [discriminate|]. destruct (step cfg (mp_g P) t e) as [[g' o']|] eqn:Hs; [|discriminate].
    inversion H; subst. pose proof (step_time _ _ _ _ _ _ Hs). cbn. tauto.
Qed.

Lemma flush_ghost h : forall P0 P outs, mprun P0 h = Some (P, outs) ->
  (mp_flush P = mp_flush P0 /\ no_tick h) \/
  exists h1 tf tau other h2 P1 o1, h = h1 ++ (tf, MTick tau other) :: h2 /\
    mprun P0 h1 = Some (P1, o1) /\ mp_flush P = Some (tau, tf, mp_m P1) /\ no_tick h2 /\ s_clock (mp_g P1) <= tf.
Proof.
  induction h as [|[t e] h IH]; intros P0 P outs H; cbn [MutePipe.mprun] in H.
  - inversion H; subst. left. split; [reflexivity|]. intros ? ? ? [].
  - destruct (mpstep P0 t e) as [[P1 o1]|] eqn:Hs; [|discriminate].
    destruct (mprun P1 h) as [[P2 o2]|] eqn:Hr; [|discriminate]. inversion H; subst.
    pose proof (mpstep_parts _ _ _ _ _ Hs) as (Hfl1 & _ & Hle1 & _).
    destruct (IH P1 P o2 Hr) as [[Hf Hn]|(h1 & tf & tau & other & h2 & Pa & oa & -> & Hra & Hfl & Hn & Hck)].
    + destruct e as [so|tau other|e].
      * left. split; [congruence|]. intros t' tau' o' [Hc|Hc]; [discriminate|]. eapply Hn; eauto.
      * right. exists [], t, tau, other, h, P0, []. cbn [MutePipe.mprun app]. split; [reflexivity|]. split; [reflexivity|].
        split; [congruence|]. split; [exact Hn|exact Hle1].
      * left. split; [congruence|]. intros t' tau' o' [Hc|Hc]; [discriminate|]. eapply Hn; eauto.
    + right. exists ((t, e) :: h1), tf, tau, other, h2, Pa, (o1 ++ oa). cbn [MutePipe.mprun app]. rewrite Hs, Hra. auto.
Qed.

(* the muter's state is its own operations folded, in order, at non-decreasing instants that the group's clock has
   reached *)
Lemma mprun_muter h : forall P P' outs, mprun P h = Some (P', outs) ->
  mp_m P' = mfold mstep (mp_m P) (mview h) /\ mono (s_clock (mp_g P)) (mview h) /\
  mlast (s_clock (mp_g P)) (mview h) <= s_clock (mp_g P').
Proof.
  induction h as [|[t e] h IH]; intros P P' outs H; cbn [MutePipe.mprun] in H.
  - inversion H; subst. cbn. split; [reflexivity|]. split; [exact I|lia].
  - destruct (mpstep P t e) as [[P1 o1]|] eqn:Hs; [|discriminate].
    destruct (mprun P1 h) as [[P2 o2]|] eqn:Hr; [|discriminate]. inversion H; subst.
    pose proof (mpstep_parts _ _ _ _ _ Hs) as (_ & Hm & Hle & Hclk).
    destruct (IH _ _ _ Hr) as (IH1 & IH2 & IH3). rewrite Hclk in IH2, IH3.
    destruct e as [so|tau other|e]; cbn [mview mfold foldl mono mlast fst snd].
    + rewrite IH1, Hm. split; [reflexivity|]. split; [split; [exact Hle|exact IH2]|exact IH3].
    + rewrite IH1, Hm. split; [reflexivity|]. split.
      * clear -IH2 Hle. destruct (mview h) as [|[t1 o1] r]; [exact I|]. cbn in *. split; [lia|tauto].
      * clear -IH3 Hle IH2. destruct (mview h) as [|[t1 o1] r]; cbn in *; lia.
    + rewrite IH1, Hm. split; [reflexivity|]. split.
      * clear -IH2 Hle. destruct (mview h) as [|[t1 o1] r]; [exact I|]. cbn in *. split; [lia|tauto].
      * clear -IH3 Hle IH2. destruct (mview h) as [|[t1 o1] r]; cbn in *; lia.
Qed.

Lemma mview_app h1 h2 : mview (mop := mop) (h1 ++ h2) = mview h1 ++ mview h2.
Proof.
  induction h1 as [|[t e] h1 IH]; [reflexivity|]. destruct e; cbn [app mview]; rewrite IH; reflexivity.
Qed.

(* ---------- a flush drops exactly what the muter mutes (or the other stages drop) ---------- *)

Theorem tick_post_exact P t tau other P' o :
  mpstep P t (MTick tau other) = Some (P', o) ->
  exists g' fl', s_group (mp_g P') = Some g' /\ gr_flight g' = Some fl' /\ fl_start fl' = t /\
    mp_flush P' = Some (tau, t, mp_m P) /\ mp_m P' = mp_m P /\ o = [OFlush (fl_all fl')] /\
    forall f, In f (fl_post fl') <->
              In f (fl_all fl') /\ mverdict (mp_m P) tau t (f_id f) = false /\ ~ In (f_id f) other.
Proof.
  destruct P as [m g fo]. intros H. cbn [MutePipe.mpstep mp_m mp_g mp_flush] in *.
  destruct (step cfg g t (ETick tau _)) as [[g' o']|] eqn:Hs; [|discriminate]. inversion H; subst; clear H.
  destruct (tick_flight _ _ _ _ _ _ Hs) as (g0 & fl & Hg0 & Hf0 & Hg' & Htk & Hst & Hall & Hpost & _ & Ho).
  eexists. exists fl. cbn [mp_g mp_m mp_flush]. split; [exact Hg'|]. split; [reflexivity|]. split; [exact Hst|].
  split; [reflexivity|]. split; [reflexivity|]. split; [exact Ho|]. intros f. rewrite Hpost, In_filter_b.
  rewrite negb_true_iff, bool_decide_eq_false, elem_of_app, elem_of_list_filter.
  assert (Hid : In f (fl_all fl) -> f_id f ∈ flush_ids g t).
  { intros Hin. unfold flush_ids. rewrite Hg0, <- Hall. apply elem_of_list_In, in_map. exact Hin. }
  split.
  - intros [Hin Hn]. split; [exact Hin|]. split.
    + destruct (mverdict m tau t (f_id f)) eqn:E; [|reflexivity]. exfalso. apply Hn. left. split; [exact I|auto].
    + intros Ho'. apply Hn. right. apply elem_of_list_In. exact Ho'.
  - intros (Hin & Hsil & Hno). split; [exact Hin|]. intros [[Hc _]|Hc]; [|apply elem_of_list_In in Hc; contradiction].
    rewrite Hsil in Hc. exact Hc.
Qed.

(* ---------- the product is an accepted run of the group model ---------- *)

Lemma mprun_proj h : forall P P' outs,
  mprun P h = Some (P', outs) -> run cfg (mp_g P) (gview mstep mverdict cfg P h) = Some (mp_g P', outs).
Proof.
  induction h as [|[t e] h IH]; intros P P' outs H; cbn [MutePipe.mprun gview] in *.
  - inversion H; subst. reflexivity.
  - destruct (mpstep P t e) as [[P1 o1]|] eqn:Hs; [|discriminate].
    destruct (mprun P1 h) as [[P2 o2]|] eqn:Hr; [|discriminate]. inversion H; subst.
    cbn [run]. specialize (IH _ _ _ Hr).
    destruct e as [so|tau other|e]; cbn [MutePipe.mpstep] in Hs.
    + destruct (step cfg (mp_g P) t EEnd) as [[g' o']|] eqn:Hg; [|discriminate]. inversion Hs; subst.
      assert (o' = []) as ->.
      { unfold step in Hg. destruct (negb _); [discriminate|]. inversion Hg; reflexivity. }
      cbn [mp_g] in IH. rewrite IH. reflexivity.
    + destruct (step cfg (mp_g P) t (ETick tau _)) as [[g' o']|] eqn:Hg; [|discriminate].
      inversion Hs; subst. cbn [mp_g] in IH. rewrite IH. reflexivity.
    + destruct (is_tick e); [discriminate|].
      destruct (step cfg (mp_g P) t e) as [[g' o']|] eqn:Hg; [|discriminate]. inversion Hs; subst.
      cbn [mp_g] in IH. rewrite IH. reflexivity.
Qed.

End MP.
