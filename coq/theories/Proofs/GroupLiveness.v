(* Bounded response for one aggregation group (C01's headline clause, composed from the step lemmas).

   For ANY accepted run of the timed group model: if an alert x is in the group, stays firing and unsuppressed, the
   integration i accepts deliveries (every attempt of i in the run succeeds) and its chain is not cut off by the
   flush's context expiring, then once the run's clock has passed

        max(armed deadline, [context deadline of the flush in flight,] now) + flush timeout

   the outputs contain a successful notification of integration i whose batch lists x as firing — or, at the moment
   the chain consulted the notification log, the entry already listed x as firing (somebody — this instance earlier,
   or a peer through gossip — has told the receiver; then C04 governs the repeats).

   The trace acceptor makes this a safety statement: time cannot pass the deadlines unless the tick / the flush end
   are in the run ([tick_must_happen], [flush_must_end]); here the phases are chained:
   idle -> tick -> chain waiting -> dedup decision -> retry loop -> successful attempt. *)
From AM Require Import Base.Prelude Model.Group Proofs.GroupProofs.

Definition firing_until (T : Z) (a : alert) : Prop := a_ends a = 0 \/ T < a_ends a.

Lemma firing_until_not_resolved T a t : firing_until T a -> t <= T -> resolved_at a t = false.
Proof. unfold firing_until, resolved_at. intros [H|H] Ht; destruct (a_ends a =? 0) eqn:E; cbn; lia. Qed.

Lemma store_set_keeps (P : alert -> Prop) x b : forall l,
  (exists a, In a l /\ a_id a = x /\ P a) -> (a_id b = x -> P b) ->
  exists a, In a (store_set l b) /\ a_id a = x /\ P a.
Proof.
  induction l as [|c l IH]; intros (a & Hin & Hid & HP) Hb; [destruct Hin|].
  cbn [store_set]. destruct (a_id c =? a_id b) eqn:Hc.
  - destruct Hin as [->|Hin].
    + destruct (a_upd b <? a_upd a).
      * exists a. split; [left; reflexivity|auto].
      * exists b. split; [left; reflexivity|]. assert (a_id b = x) by lia. auto.
    + exists a. split; [right; exact Hin|auto].
  - destruct Hin as [->|Hin].
    + exists a. split; [left; reflexivity|auto].
    + destruct (IH (ex_intro _ a (conj Hin (conj Hid HP))) Hb) as (a' & Hin' & H').
      exists a'. split; [right; exact Hin'|exact H'].
Qed.

Lemma chain_not_done_blocks_end (chains : list chain) i c :
  chains !! i = Some c -> chain_done c = false -> forallb chain_done chains = false.
Proof.
  intros Hl Hc. destruct (forallb chain_done chains) eqn:E; [|reflexivity].
  rewrite forallb_forall in E. apply elem_of_list_lookup_2 in Hl. apply elem_of_list_In in Hl.
  rewrite (E _ Hl) in Hc. discriminate.
Qed.

Lemma needs_update_no_lists ent F R sr rep now x :
  needs_update ent F R sr rep now = RNo -> In x F -> exists en, ent = Some en /\ In x (n_firing en).
Proof.
  intros H Hx. assert (Hnil : is_nil F = false) by (destruct F; [destruct Hx|reflexivity]).
  unfold needs_update in H. destruct ent as [en|].
  - exists en. split; [reflexivity|]. destruct (subset F (n_firing en)) eqn:Hs.
    + apply (proj1 (subset_spec _ _) Hs). exact Hx.
    + cbn in H. destruct (is_nil (n_firing en)); discriminate.
  - rewrite Hnil in H. discriminate.
Qed.

Section Liveness.
Context (cfg : gcfg) (x : Z) (i : nat) (T : Z).

(* integration i was sent, successfully, a batch listing x as firing *)
Definition notified (outs : list out) : Prop :=
  exists r sent f, In (ONotify i r sent OK) outs /\ In f sent /\ f_id f = x /\ f_res f = false.
(* the notification-log entry of integration i lists x as firing *)
Definition listed (s : gstate) : Prop :=
  exists en, s_nflog s !! i = Some (Some en) /\ In x (n_firing en).
(* P holds in some state the run goes through *)
Fixpoint ever (P : gstate -> Prop) (s : gstate) (h : list (Z * ev)) : Prop :=
  P s \/ match h with
         | [] => False
         | (t, e) :: r => match step cfg s t e with Some (s1, _) => ever P s1 r | None => False end
         end.

(* what "continuously firing, not suppressed, integration accepting deliveries" means for a run *)
Definition fair (h : list (Z * ev)) : Prop :=
  (forall t b, In (t, EInsert b) h -> a_id b = x -> firing_until T b) /\
  (forall t tau sup, In (t, ETick tau sup) h -> ~ In x sup) /\
  (forall t oc, In (t, EAttempt i oc) h -> oc = OK) /\
  (forall t, ~ In (t, ECtxDone i) h).

Lemma fair_tail d h : fair (d :: h) -> fair h.
Proof.
  intros (H1 & H2 & H3 & H4). repeat split.
  - intros t b Hin. apply (H1 t). right. exact Hin.
  - intros t tau sup Hin. apply (H2 t tau). right. exact Hin.
  - intros t oc Hin. apply (H3 t). right. exact Hin.
  - intros t Hin. apply (H4 t). right. exact Hin.
Qed.

Lemma notified_app_r o1 o2 : notified o2 -> notified (o1 ++ o2).
Proof. intros (r & sent & f & Hin & H). exists r, sent, f. split; [apply in_or_app; right; exact Hin|exact H]. Qed.
Lemma notified_app_l o1 o2 : notified o1 -> notified (o1 ++ o2).
Proof. intros (r & sent & f & Hin & H). exists r, sent, f. split; [apply in_or_app; left; exact Hin|exact H]. Qed.

Lemma ever_step P s t e s1 o1 h : step cfg s t e = Some (s1, o1) -> ever P s1 h -> ever P s ((t, e) :: h).
Proof. intros Hs H. cbn [ever]. right. rewrite Hs. exact H. Qed.

Definition targets (e : ev) : Prop := e = EDedup i \/ (exists oc, e = EAttempt i oc) \/ e = ECtxDone i.

(* what one step does to a flush in flight *)
Lemma flight_frame s t e s' o g fl :
  step cfg s t e = Some (s', o) -> s_group s = Some g -> gr_flight g = Some fl ->
  e = EFlushEnd \/
  exists g' fl', s_group s' = Some g' /\ gr_flight g' = Some fl' /\ fl_post fl' = fl_post fl /\ fl_all fl' = fl_all fl /\
     fl_deadline fl' = fl_deadline fl /\ gr_deadline g' = gr_deadline g /\
     (gr_alerts g' = gr_alerts g \/ exists a, e = EInsert a /\ gr_alerts g' = store_set (gr_alerts g) a) /\
     (targets e \/ fl_chains fl' !! i = fl_chains fl !! i).
Proof.
  intros H Hg Hf. unfold step in H. destruct (time_ok s t); [|discriminate]. cbn [negb] in H. rewrite Hg in H.
  destruct e as [a|tau sup|j|j oc|j| | |j en|j en|]; try rewrite Hf in H.
  - inversion H; subst. right. do 2 eexists. cbn [s_group gr_flight fl_post fl_all fl_deadline gr_deadline gr_alerts with_flight with_chain fl_chains]. repeat (split; [reflexivity|]).
    split; [right; exists a; split; reflexivity|right; reflexivity].
  - discriminate.
  - destruct (fl_chains fl !! j) as [c|] eqn:Hc; [|discriminate]. destruct c; try discriminate.
    destruct (g_ints cfg !! j); [|discriminate]. destruct (s_nflog s !! j); [|discriminate].
    right. destruct (decide (j = i)) as [->|Hne].
    + destruct (bool_decide _); [|destruct (_ && _)]; inversion H; subst; do 2 eexists; cbn [s_group gr_flight fl_post fl_all fl_deadline gr_deadline gr_alerts with_flight with_chain fl_chains];
        repeat (split; [reflexivity|]); (split; [left; reflexivity|left; left; reflexivity]).
    + destruct (bool_decide _); [|destruct (_ && _)]; inversion H; subst; do 2 eexists; cbn [s_group gr_flight fl_post fl_all fl_deadline gr_deadline gr_alerts with_flight with_chain fl_chains];
        repeat (split; [reflexivity|]); (split; [left; reflexivity|right]);
        cbn [fl_chains with_chain]; rewrite set_nth_lookup; (destruct (decide (j = i)); [contradiction|reflexivity]).
  - destruct (fl_chains fl !! j) as [c|] eqn:Hc; [|discriminate]. destruct c; try discriminate.
    destruct (g_ints cfg !! j); [|discriminate]. destruct (s_nflog s !! j); [|discriminate].
    right. destruct (decide (j = i)) as [->|Hne].
    + destruct oc; inversion H; subst; do 2 eexists; cbn [s_group gr_flight fl_post fl_all fl_deadline gr_deadline gr_alerts with_flight with_chain fl_chains];
        repeat (split; [reflexivity|]); (split; [left; reflexivity|left; right; left; eexists; reflexivity]).
    + destruct oc; inversion H; subst; do 2 eexists; cbn [s_group gr_flight fl_post fl_all fl_deadline gr_deadline gr_alerts with_flight with_chain fl_chains];
        repeat (split; [reflexivity|]); (split; [left; reflexivity|right]);
        cbn [fl_chains with_chain]; rewrite set_nth_lookup; (destruct (decide (j = i)); [contradiction|reflexivity]).
  - destruct (fl_chains fl !! j) as [c|] eqn:Hc; [|discriminate].
    right. destruct (decide (j = i)) as [->|Hne].
    + destruct c; try discriminate; (destruct (t <? fl_deadline fl); [discriminate|]); inversion H; subst;
        do 2 eexists; cbn [s_group gr_flight fl_post fl_all fl_deadline gr_deadline gr_alerts with_flight with_chain fl_chains]; repeat (split; [reflexivity|]); (split; [left; reflexivity|left; right; right; reflexivity]).
    + destruct c; try discriminate; (destruct (t <? fl_deadline fl); [discriminate|]); inversion H; subst;
        do 2 eexists; cbn [s_group gr_flight fl_post fl_all fl_deadline gr_deadline gr_alerts with_flight with_chain fl_chains]; repeat (split; [reflexivity|]); (split; [left; reflexivity|right]);
        cbn [fl_chains with_chain]; rewrite set_nth_lookup; (destruct (decide (j = i)); [contradiction|reflexivity]).
  - left. reflexivity.
  - inversion H; subst. right. exists g, fl. cbn [s_group gr_flight fl_post fl_all fl_deadline gr_deadline gr_alerts with_flight with_chain fl_chains]. repeat (split; [first [exact Hf|reflexivity]|]).
    split; [left; reflexivity|right; reflexivity].
  - destruct (s_nflog s !! j); [|discriminate]. inversion H; subst. right. exists g, fl. cbn [s_group gr_flight fl_post fl_all fl_deadline gr_deadline gr_alerts with_flight with_chain fl_chains].
    repeat (split; [first [exact Hf|reflexivity]|]). split; [left; reflexivity|right; reflexivity].
  - destruct (s_nflog s !! j); [|discriminate]. inversion H; subst. right. exists g, fl. cbn [s_group gr_flight fl_post fl_all fl_deadline gr_deadline gr_alerts with_flight with_chain fl_chains].
    repeat (split; [first [exact Hf|reflexivity]|]). split; [left; reflexivity|right; reflexivity].
  - inversion H; subst. right. exists g, fl. cbn [s_group gr_flight fl_post fl_all fl_deadline gr_deadline gr_alerts with_flight with_chain fl_chains]. repeat (split; [first [exact Hf|reflexivity]|]).
    split; [left; reflexivity|right; reflexivity].
Qed.

(* ---- phase 3: the chain is in the retry loop with a batch listing x as firing ---- *)
Lemma retry_phase h : forall s s' outs g fl r sent F R n f,
  run cfg s h = Some (s', outs) -> fair h ->
  s_group s = Some g -> gr_flight g = Some fl -> fl_chains fl !! i = Some (CRetry r sent F R n) ->
  In f sent -> f_id f = x -> f_res f = false ->
  s_clock s <= fl_deadline fl -> fl_deadline fl < s_clock s' -> notified outs.
Proof.
  induction h as [|[t e] h IH]; intros s s' outs g fl r sent F R n f H Hfair Hg Hf Hc Hin Hid Hres Hle Hlt;
    cbn [run] in H.
  - inversion H; subst. lia.
  - destruct (step cfg s t e) as [[s1 o1]|] eqn:Hs; [|discriminate].
    destruct (run cfg s1 h) as [[s2 o2]|] eqn:Hr; [|discriminate]. inversion H; subst.
    pose proof (flight_bounded _ _ _ _ _ _ _ _ Hs Hg Hf) as Hb.
    pose proof (step_time _ _ _ _ _ _ Hs) as [_ Hclk].
    destruct (retry_chain_persists _ _ _ _ _ _ _ _ _ _ _ _ _ _ Hs Hg Hf Hc)
      as [(oc & ->)|[(-> & _)|(g' & fl' & n' & Hg' & Hf' & Hc' & Hd')]].
    + assert (oc = OK) as ->.
      { destruct Hfair as (_ & _ & H3 & _). apply (H3 t). left. reflexivity. }
      apply notified_app_l. unfold step in Hs. destruct (time_ok s t); [|discriminate]. cbn [negb] in Hs.
      rewrite Hg, Hf, Hc in Hs. destruct (g_ints cfg !! i); [|discriminate]. destruct (s_nflog s !! i); [|discriminate].
      inversion Hs; subst. exists r, sent, f. split; [left; reflexivity|auto].
    + exfalso. destruct Hfair as (_ & _ & _ & H4). apply (H4 t). left. reflexivity.
    + apply notified_app_r.
      apply (IH s1 s' o2 g' fl' r sent F R n' f Hr (fair_tail _ _ Hfair) Hg' Hf' Hc' Hin Hid Hres); lia.
Qed.

(* ---- phase 2: the flush is in flight, the chain of integration i has not consulted the log yet ---- *)
Lemma wait_phase h : forall s s' outs g fl f,
  run cfg s h = Some (s', outs) -> fair h ->
  s_group s = Some g -> gr_flight g = Some fl -> fl_chains fl !! i = Some CWait ->
  In f (fl_post fl) -> f_id f = x -> f_res f = false ->
  s_clock s <= fl_deadline fl -> fl_deadline fl < s_clock s' -> notified outs \/ ever listed s h.
Proof.
  induction h as [|[t e] h IH]; intros s s' outs g fl f H Hfair Hg Hf Hc Hin Hid Hres Hle Hlt; cbn [run] in H.
  - inversion H; subst. lia.
  - destruct (step cfg s t e) as [[s1 o1]|] eqn:Hs; [|discriminate].
    destruct (run cfg s1 h) as [[s2 o2]|] eqn:Hr; [|discriminate]. inversion H; subst.
    pose proof (flight_bounded _ _ _ _ _ _ _ _ Hs Hg Hf) as Hb.
    pose proof (step_time _ _ _ _ _ _ Hs) as [_ Hclk].
    destruct (flight_frame _ _ _ _ _ _ _ Hs Hg Hf)
      as [->|(g' & fl' & Hg' & Hf' & Hpost & _ & Hd' & _ & _ & Htg)].
    { (* EFlushEnd is refused while chain i is waiting *)
      exfalso. unfold step in Hs. destruct (time_ok s t); [|discriminate]. cbn [negb] in Hs. rewrite Hg, Hf in Hs.
      rewrite (chain_not_done_blocks_end _ _ _ Hc eq_refl) in Hs. discriminate. }
    destruct Htg as [[->|[(oc & ->)| ->]]|Hsame].
    + (* the dedup decision of integration i *)
      assert (HxF : In x (ids_of false (fl_post fl))).
      { apply In_ids_of. exists f. auto. }
      unfold step in Hs. destruct (time_ok s t); [|discriminate]. cbn [negb] in Hs.
      rewrite Hg, Hf, Hc in Hs. destruct (g_ints cfg !! i) as [ic|]; [|discriminate].
      destruct (s_nflog s !! i) as [ent|] eqn:Hent; [|discriminate].
      destruct (bool_decide _) eqn:Hno.
      * apply bool_decide_eq_true in Hno.
        destruct (needs_update_no_lists _ _ _ _ _ _ _ Hno HxF) as (en & -> & Hl).
        right. cbn [ever]. left. exists en. auto.
      * assert (Hnil : is_nil (ids_of false (fl_post fl)) = false).
        { destruct (ids_of false (fl_post fl)); [destruct HxF|reflexivity]. }
        rewrite Hnil, andb_false_r in Hs. injection Hs as <- <-. left. apply notified_app_r.
        match goal with Hr' : run cfg ?s1 h = Some _ |- _ =>
          match s1 with context [with_chain fl i (CRetry ?r ?sent ?F ?R 0)] =>
            apply (retry_phase h s1 s' o2 (with_flight g (with_chain fl i (CRetry r sent F R 0)))
                     (with_chain fl i (CRetry r sent F R 0)) r sent F R 0%nat f Hr' (fair_tail _ _ Hfair) eq_refl eq_refl)
          end end.
        -- cbn [fl_chains with_chain]. rewrite set_nth_lookup. destruct (decide (i = i)); [|congruence].
           destruct (decide _) as [_|Hn]; [reflexivity|].
           exfalso. apply Hn. apply lookup_lt_Some in Hc. exact Hc.
        -- destruct (i_send_resolved ic); [exact Hin|]. apply In_filter_b. split; [exact Hin|]. rewrite Hres. reflexivity.
        -- exact Hid.
        -- exact Hres.
        -- cbn. lia.
        -- cbn. lia.
    + (* an attempt of i is refused while its chain is waiting *)
      exfalso. unfold step in Hs. destruct (time_ok s t); [|discriminate]. cbn [negb] in Hs.
      rewrite Hg, Hf, Hc in Hs. discriminate.
    + exfalso. destruct Hfair as (_ & _ & _ & H4). apply (H4 t). left. reflexivity.
    + rewrite Hc in Hsame. rewrite <- Hpost in Hin.
      destruct (IH s1 s' o2 g' fl' f Hr (fair_tail _ _ Hfair) Hg' Hf' Hsame Hin Hid Hres) as [Hn|He]; try lia.
      * left. apply notified_app_r. exact Hn.
      * right. eapply ever_step; eauto.
Qed.

(* ---- phase 1: the group is idle with x in its store ---- *)
Definition has_x (g : group) : Prop := exists a, In a (gr_alerts g) /\ a_id a = x /\ firing_until T a.

Lemma idle_phase h : forall s s' outs g M,
  run cfg s h = Some (s', outs) -> wf_state cfg s -> fair h ->
  s_group s = Some g -> gr_flight g = None -> has_x g ->
  Z.max (gr_deadline g) (s_clock s) <= M -> M <= T -> (i < length (g_ints cfg))%nat -> 0 <= g_timeout cfg ->
  M + g_timeout cfg < s_clock s' -> notified outs \/ ever listed s h.
Proof.
  induction h as [|[t e] h IH]; intros s s' outs g M H Hwf Hfair Hg Hf Hx HM HT Hi Hto Hlt; cbn [run] in H.
  - inversion H; subst. lia.
  - destruct (step cfg s t e) as [[s1 o1]|] eqn:Hs; [|discriminate].
    destruct (run cfg s1 h) as [[s2 o2]|] eqn:Hr; [|discriminate]. inversion H; subst.
    pose proof (overdue_impossible _ _ _ _ _ _ _ Hs Hg Hf) as Hb.
    pose proof (step_time _ _ _ _ _ _ Hs) as [Hge Hclk].
    pose proof (wf_step _ _ _ _ _ _ Hwf Hs) as Hwf1.
    destruct (idle_step _ _ _ _ _ _ _ Hs Hg Hf) as [(sup & ->)|(g' & Hg' & Hf' & Hd')].
    + (* the tick: x is handed to the pipeline as firing, every chain starts waiting *)
      assert (Hnsup : ~ In x sup).
      { destruct Hfair as (_ & H2 & _). apply (H2 t (gr_deadline g)). left. reflexivity. }
      destruct Hx as (a & Hina & Hida & Hfa). pose proof Hs as Hs0.
      unfold step in Hs. destruct (time_ok s t); [|discriminate]. cbn [negb] in Hs. rewrite Hg, Hf in Hs.
      destruct (_ && _); [|discriminate]. cbn [negb] in Hs.
      set (all := sort_f (map (freeze t) (gr_alerts g))) in *.
      set (post := filter (fun f => negb (bool_decide (f_id f ∈ sup))) all) in *.
      assert (Hfr : In (freeze t a) post).
      { apply In_filter_b. split.
        - apply In_sort_f. apply in_map. exact Hina.
        - cbn. rewrite Hida. apply negb_true_iff. apply bool_decide_eq_false. intros Hel.
          apply Hnsup. apply elem_of_list_In. exact Hel. }
      assert (Hnil : is_nil post = false) by (destruct post; [destruct Hfr|reflexivity]).
      rewrite Hnil in Hs. injection Hs as <- <-.
      destruct (wait_phase h _ s' o2 _ _ (freeze t a) Hr (fair_tail _ _ Hfair) eq_refl eq_refl) as [Hn|He].
      * cbn. rewrite list_lookup_fmap. destruct (g_ints cfg !! i) eqn:Hl; [reflexivity|].
        apply lookup_ge_None in Hl. lia.
      * exact Hfr.
      * exact Hida.
      * cbn. apply (firing_until_not_resolved T); [exact Hfa|lia].
      * cbn. pose proof (proj1 Hwf) as _. lia.
      * cbn. lia.
      * left. apply notified_app_r. exact Hn.
      * right. eapply ever_step; [exact Hs0|exact He].
    + (* any other event keeps the group idle with the same deadline and a firing version of x *)
      assert (Hx' : has_x g').
      { destruct e as [b|tau sup|j|j oc|j| | |j en|j en|];
          unfold step in Hs; (destruct (time_ok s t); [|discriminate]); cbn [negb] in Hs; rewrite Hg in Hs;
          try (rewrite Hf in Hs; discriminate).
        - injection Hs as <- <-. cbn in Hg'. injection Hg' as <-. cbn.
          apply store_set_keeps; [exact Hx|]. intros Hb'.
          destruct Hfair as (H1 & _). apply (H1 t). { left. reflexivity. } exact Hb'.
        - rewrite Hf in Hs. destruct (_ && _); [|discriminate]. cbn [negb] in Hs. injection Hs as <- <-.
          cbn in Hg'. injection Hg' as <-. cbn in Hf'. discriminate.
        - injection Hs as <- <-. cbn in Hg'. injection Hg' as <-. exact Hx.
        - destruct (s_nflog s !! j); [|discriminate]. injection Hs as <- <-. cbn in Hg'. injection Hg' as <-. exact Hx.
        - destruct (s_nflog s !! j); [|discriminate]. injection Hs as <- <-. cbn in Hg'. injection Hg' as <-. exact Hx.
        - injection Hs as <- <-. cbn in Hg'. injection Hg' as <-. exact Hx. }
      destruct (IH s1 s' o2 g' M Hr Hwf1 (fair_tail _ _ Hfair) Hg' Hf' Hx') as [Hn|He]; try lia; try assumption.
      * left. apply notified_app_r. exact Hn.
      * right. eapply ever_step; eauto.
Qed.

(* ---- phase 0: a flush is in flight when x joins; it ends by its context deadline, x stays in the group ---- *)
Lemma flight_phase h : forall s s' outs g fl M,
  run cfg s h = Some (s', outs) -> wf_state cfg s -> fair h ->
  s_group s = Some g -> gr_flight g = Some fl -> has_x g ->
  (forall f, In f (fl_all fl) -> f_id f = x -> f_res f = false) ->
  Z.max (Z.max (gr_deadline g) (fl_deadline fl)) (s_clock s) <= M -> M <= T ->
  (i < length (g_ints cfg))%nat -> 0 <= g_timeout cfg ->
  M + g_timeout cfg < s_clock s' -> notified outs \/ ever listed s h.
Proof.
  induction h as [|[t e] h IH]; intros s s' outs g fl M H Hwf Hfair Hg Hf Hx Hfr HM HT Hi Hto Hlt; cbn [run] in H.
  - inversion H; subst. lia.
  - destruct (step cfg s t e) as [[s1 o1]|] eqn:Hs; [|discriminate].
    destruct (run cfg s1 h) as [[s2 o2]|] eqn:Hr; [|discriminate]. inversion H; subst.
    pose proof (flight_bounded _ _ _ _ _ _ _ _ Hs Hg Hf) as Hb.
    pose proof (step_time _ _ _ _ _ _ Hs) as [Hge Hclk].
    pose proof (wf_step _ _ _ _ _ _ Hwf Hs) as Hwf1.
    destruct (flight_frame _ _ _ _ _ _ _ Hs Hg Hf)
      as [->|(g' & fl' & Hg' & Hf' & _ & Hall & Hd' & Hgd & Hal & _)].
    + (* the flush ends: x is still in the group (it was not frozen as resolved), the group is idle again *)
      pose proof Hs as Hs0. unfold step in Hs. destruct (time_ok s t); [|discriminate]. cbn [negb] in Hs.
      rewrite Hg, Hf in Hs. destruct (negb _); [discriminate|].
      destruct Hx as (a & Hina & Hida & Hfa).
      destruct (forallb chain_ok (fl_chains fl)).
      * assert (Hrest : In a (delete_if_not_modified (gr_alerts g) (fl_all fl))).
        { apply In_delete_if_not_modified. split; [exact Hina|]. intros (f & Hfin & Hr1 & Hr2 & _).
          rewrite (Hfr f Hfin) in Hr1; [discriminate|congruence]. }
        assert (Hnn : is_nil (delete_if_not_modified (gr_alerts g) (fl_all fl)) = false).
        { destruct (delete_if_not_modified _ _); [destruct Hrest|reflexivity]. }
        rewrite Hnn in Hs. injection Hs as <- <-.
        destruct (idle_phase h _ s' o2 _ M Hr Hwf1 (fair_tail _ _ Hfair) eq_refl eq_refl) as [Hn|He]; try assumption.
        -- exists a. cbn. auto.
        -- cbn. lia.
        -- left. apply notified_app_r. exact Hn.
        -- right. eapply ever_step; [exact Hs0|exact He].
      * injection Hs as <- <-.
        destruct (idle_phase h _ s' o2 _ M Hr Hwf1 (fair_tail _ _ Hfair) eq_refl eq_refl) as [Hn|He]; try assumption.
        -- exists a. cbn. auto.
        -- cbn. lia.
        -- left. apply notified_app_r. exact Hn.
        -- right. eapply ever_step; [exact Hs0|exact He].
    + assert (Hx' : has_x g').
      { unfold has_x. destruct Hal as [->|(b & -> & ->)]; [exact Hx|].
        apply store_set_keeps; [exact Hx|]. intros Hb'.
        destruct Hfair as (H1 & _). apply (H1 t). { left. reflexivity. } exact Hb'. }
      destruct (IH s1 s' o2 g' fl' M Hr Hwf1 (fair_tail _ _ Hfair) Hg' Hf' Hx') as [Hn|He]; try assumption; try lia.
      * rewrite Hall. exact Hfr.
      * left. apply notified_app_r. exact Hn.
      * right. eapply ever_step; eauto.
Qed.

(* ---- THE BOUND, from the moment the alert is handed to the group ---- *)
(* the instant by which the flush that will carry x has started, seen from the state x is inserted into *)
Definition flush_by (s : gstate) (t0 : Z) (a : alert) : Z :=
  match s_group s with
  | None => if a_starts a + g_wait cfg <? t0 then t0 else t0 + g_wait cfg
  | Some g => match gr_flight g with
              | None => Z.max (gr_deadline g) t0
              | Some fl => Z.max (Z.max (gr_deadline g) (fl_deadline fl)) t0
              end
  end.

Theorem bounded_response s t0 a h s' outs :
  run cfg s ((t0, EInsert a) :: h) = Some (s', outs) -> wf_state cfg s ->
  a_id a = x -> firing_until T a -> fair h ->
  (* no newer version of x is already stored (otherwise the insert is a stale update and is ignored) *)
  (forall g c, s_group s = Some g -> In c (gr_alerts g) -> a_id c = x -> a_upd c <= a_upd a) ->
  (* if a flush is in flight it did not freeze x as resolved (x is new to the group, or was firing at the tick) *)
  (forall g fl f, s_group s = Some g -> gr_flight g = Some fl -> In f (fl_all fl) -> f_id f = x -> f_res f = false) ->
  flush_by s t0 a <= T -> (i < length (g_ints cfg))%nat -> 0 <= g_timeout cfg -> 0 <= g_wait cfg ->
  flush_by s t0 a + g_timeout cfg < s_clock s' ->
  notified outs \/ ever listed s ((t0, EInsert a) :: h).
Proof.
  intros H Hwf Hid Hfa Hfair Hnew Hfr HT Hi Hto Hgw Hlt. cbn [run] in H.
  destruct (step cfg s t0 (EInsert a)) as [[s1 o1]|] eqn:Hs; [|discriminate].
  destruct (run cfg s1 h) as [[s2 o2]|] eqn:Hr; [|discriminate]. inversion H; subst.
  pose proof (wf_step _ _ _ _ _ _ Hwf Hs) as Hwf1. pose proof Hs as Hs0.
  pose proof (step_time _ _ _ _ _ _ Hs) as [Hge _].
  unfold step in Hs. destruct (time_ok s t0); [|discriminate]. cbn [negb] in Hs. unfold flush_by in *.
  destruct (s_group s) as [g|] eqn:Hg.
  - injection Hs as <- <-.
    assert (Hx' : has_x (mkGr (store_set (gr_alerts g) a) (gr_deadline g) (gr_flight g))).
    { exists a. cbn. split; [|auto]. apply store_set_has. intros c Hc Hidc. apply (Hnew g c eq_refl Hc). congruence. }
    destruct (gr_flight g) as [fl|] eqn:Hf.
    + destruct (flight_phase h _ s' o2 _ fl (Z.max (Z.max (gr_deadline g) (fl_deadline fl)) t0) Hr Hwf1 Hfair eq_refl eq_refl Hx') as [Hn|He]; try eassumption.
      * intros f Hfin. apply (Hfr g fl f eq_refl Hf Hfin).
      * cbn. lia.
      * left. apply notified_app_r. exact Hn.
      * right. eapply ever_step; [exact Hs0|exact He].
    + destruct (idle_phase h _ s' o2 _ (Z.max (gr_deadline g) t0) Hr Hwf1 Hfair eq_refl eq_refl Hx') as [Hn|He]; try eassumption.
      * cbn. lia.
      * left. apply notified_app_r. exact Hn.
      * right. eapply ever_step; [exact Hs0|exact He].
  - injection Hs as <- <-.
    destruct (idle_phase h _ s' o2 _ (if a_starts a + g_wait cfg <? t0 then t0 else t0 + g_wait cfg) Hr Hwf1 Hfair eq_refl eq_refl) as [Hn|He]; try eassumption.
    + exists a. cbn. auto.
    + cbn. destruct (a_starts a + g_wait cfg <? t0); lia.
    + left. apply notified_app_r. exact Hn.
    + right. eapply ever_step; [exact Hs0|exact He].
Qed.

(* ------------------------------------------------------------------------------------------------------------ *)
(* C04: a due repeat is sent.  If the armed deadline of an idle group lies more than repeat_interval after the     *)
(* instant integration i's log entry was written, the flush at that deadline notifies i again (reason: repeat, or *)
(* any stronger one), by deadline + flush timeout — for any accepted run with no log GC / gossip merge in it.     *)
(* ------------------------------------------------------------------------------------------------------------ *)

Definition log_op (e : ev) : Prop :=
  e = ENflogGC \/ exists j en, e = ENflogMerge j en \/ e = ENflogLoad j en.
Definition no_log_ops (h : list (Z * ev)) : Prop := forall t e, In (t, e) h -> ~ log_op e.

Lemma no_log_ops_tail d h : no_log_ops (d :: h) -> no_log_ops h.
Proof. intros H t e Hin. apply (H t e). right. exact Hin. Qed.

(* the log slot of integration i is untouched by every event that is not its own dedup/attempt or a log operation *)
Lemma nflog_frame s t e s' o :
  step cfg s t e = Some (s', o) ->
  targets e \/ log_op e \/ s_nflog s' !! i = s_nflog s !! i.
Proof.
  intros H. unfold step in H. destruct (time_ok s t); [|discriminate]. cbn [negb] in H.
  destruct e as [a|tau sup|j|j oc|j| | |j en|j en|].
  - right; right. destruct (s_group s); inversion H; subst; reflexivity.
  - right; right. destruct (s_group s) as [g|]; [|discriminate]. destruct (gr_flight g); [discriminate|].
    destruct (_ && _); [|discriminate]. cbn [negb] in H. inversion H; subst. reflexivity.
  - destruct (decide (j = i)) as [->|Hne]; [left; left; reflexivity|]. right; right.
    destruct (s_group s) as [g|]; [|discriminate]. destruct (gr_flight g) as [fl|]; [|discriminate].
    destruct (fl_chains fl !! j) as [c|]; [|discriminate]. destruct c; try discriminate.
    destruct (g_ints cfg !! j); [|discriminate]. destruct (s_nflog s !! j); [|discriminate].
    destruct (bool_decide _); [|destruct (_ && _)]; inversion H; subst; cbn [s_nflog]; try reflexivity.
    rewrite set_nth_lookup. destruct (decide (j = i)); [contradiction|reflexivity].
  - destruct (decide (j = i)) as [->|Hne]; [left; right; left; eexists; reflexivity|]. right; right.
    destruct (s_group s) as [g|]; [|discriminate]. destruct (gr_flight g) as [fl|]; [|discriminate].
    destruct (fl_chains fl !! j) as [c|]; [|discriminate]. destruct c; try discriminate.
    destruct (g_ints cfg !! j); [|discriminate]. destruct (s_nflog s !! j); [|discriminate].
    destruct oc; inversion H; subst; cbn [s_nflog]; try reflexivity.
    rewrite set_nth_lookup. destruct (decide (j = i)); [contradiction|reflexivity].
  - right; right. destruct (s_group s) as [g|]; [|discriminate]. destruct (gr_flight g) as [fl|]; [|discriminate].
    destruct (fl_chains fl !! j) as [c|]; [|discriminate].
    destruct c; try discriminate; (destruct (t <? fl_deadline fl); [discriminate|]); inversion H; subst; reflexivity.
  - right; right. destruct (s_group s) as [g|]; [|discriminate]. destruct (gr_flight g) as [fl|]; [|discriminate].
    destruct (negb _); [discriminate|]. destruct (forallb chain_ok _); [destruct (is_nil _)|]; inversion H; subst; reflexivity.
  - right; left; left; reflexivity.
  - right; left; right; eauto.
  - right; left; right; eauto.
  - right; right. inversion H; subst. reflexivity.
Qed.

Lemma needs_update_due en F R sr rep now :
  F <> [] -> n_ts en < now - rep -> needs_update (Some en) F R sr rep now <> RNo.
Proof.
  intros HF Hdue. unfold needs_update.
  destruct (subset F (n_firing en)); cbn [negb]; [|destruct (is_nil (n_firing en)); discriminate].
  destruct F as [|f F]; [contradiction|]. cbn [is_nil].
  destruct (sr && _); [discriminate|].
  assert (Hd : n_ts en <? now - rep = true) by lia. rewrite Hd. discriminate.
Qed.

(* generalisation: the alert is listed with a given resolved flag (false: as firing; true: as resolved) *)
Definition notified_as (res : bool) (outs : list out) : Prop :=
  exists r sent f, In (ONotify i r sent OK) outs /\ In f sent /\ f_id f = x /\ f_res f = res.
Lemma notified_as_false outs : notified_as false outs <-> notified outs.
Proof. reflexivity. Qed.
Lemma notified_as_app_r res o1 o2 : notified_as res o2 -> notified_as res (o1 ++ o2).
Proof. intros (r & sent & f & Hin & H). exists r, sent, f. split; [apply in_or_app; right; exact Hin|exact H]. Qed.
Lemma notified_as_app_l res o1 o2 : notified_as res o1 -> notified_as res (o1 ++ o2).
Proof. intros (r & sent & f & Hin & H). exists r, sent, f. split; [apply in_or_app; left; exact Hin|exact H]. Qed.

Lemma retry_phase_as (res : bool) h : forall s s' outs g fl r sent F R n f,
  run cfg s h = Some (s', outs) -> fair h ->
  s_group s = Some g -> gr_flight g = Some fl -> fl_chains fl !! i = Some (CRetry r sent F R n) ->
  In f sent -> f_id f = x -> f_res f = res ->
  s_clock s <= fl_deadline fl -> fl_deadline fl < s_clock s' -> notified_as res outs.
Proof.
  induction h as [|[t e] h IH]; intros s s' outs g fl r sent F R n f H Hfair Hg Hf Hc Hin Hid Hres Hle Hlt;
    cbn [run] in H.
  - inversion H; subst. lia.
  - destruct (step cfg s t e) as [[s1 o1]|] eqn:Hs; [|discriminate].
    destruct (run cfg s1 h) as [[s2 o2]|] eqn:Hr; [|discriminate]. injection H as <- <-.
    pose proof (flight_bounded _ _ _ _ _ _ _ _ Hs Hg Hf) as Hb.
    pose proof (step_time _ _ _ _ _ _ Hs) as [_ Hclk].
    destruct (retry_chain_persists _ _ _ _ _ _ _ _ _ _ _ _ _ _ Hs Hg Hf Hc)
      as [(oc & ->)|[(-> & _)|(g' & fl' & n' & Hg' & Hf' & Hc' & Hd')]].
    + assert (oc = OK) as ->.
      { destruct Hfair as (_ & _ & H3 & _). apply (H3 t). left. reflexivity. }
      apply notified_as_app_l. unfold step in Hs. destruct (time_ok s t); [|discriminate]. cbn [negb] in Hs.
      rewrite Hg, Hf, Hc in Hs. destruct (g_ints cfg !! i); [|discriminate]. destruct (s_nflog s !! i); [|discriminate].
      inversion Hs; subst. exists r, sent, f. split; [left; reflexivity|auto].
    + exfalso. destruct Hfair as (_ & _ & _ & H4). apply (H4 t). left. reflexivity.
    + apply notified_as_app_r.
      apply (IH s1 _ o2 g' fl' r sent F R n' f Hr (fair_tail _ _ Hfair) Hg' Hf' Hc' Hin Hid Hres); lia.
Qed.

Lemma wait_phase_due h : forall s s' outs g fl f en,
  run cfg s h = Some (s', outs) -> fair h -> no_log_ops h ->
  s_group s = Some g -> gr_flight g = Some fl -> fl_chains fl !! i = Some CWait ->
  In f (fl_post fl) -> f_id f = x -> f_res f = false ->
  s_nflog s !! i = Some (Some en) -> n_ts en < fl_tick fl - g_repeat cfg ->
  s_clock s <= fl_deadline fl -> fl_deadline fl < s_clock s' -> notified outs.
Proof.
  induction h as [|[t e] h IH]; intros s s' outs g fl f en H Hfair Hnl Hg Hf Hc Hin Hid Hres Hen Hdue Hle Hlt;
    cbn [run] in H.
  - inversion H; subst. lia.
  - destruct (step cfg s t e) as [[s1 o1]|] eqn:Hs; [|discriminate].
    destruct (run cfg s1 h) as [[s2 o2]|] eqn:Hr; [|discriminate]. inversion H; subst.
    pose proof (flight_bounded _ _ _ _ _ _ _ _ Hs Hg Hf) as Hb.
    pose proof (step_time _ _ _ _ _ _ Hs) as [_ Hclk].
    pose proof (nflog_frame _ _ _ _ _ Hs) as Hfr.
    destruct (flight_frame _ _ _ _ _ _ _ Hs Hg Hf)
      as [->|(g' & fl' & Hg' & Hf' & Hpost & _ & Hd' & _ & _ & Htg)].
    { exfalso. unfold step in Hs. destruct (time_ok s t); [|discriminate]. cbn [negb] in Hs. rewrite Hg, Hf in Hs.
      rewrite (chain_not_done_blocks_end _ _ _ Hc eq_refl) in Hs. discriminate. }
    destruct Htg as [[->|[(oc & ->)| ->]]|Hsame].
    + assert (HxF : In x (ids_of false (fl_post fl))).
      { apply In_ids_of. exists f. auto. }
      unfold step in Hs. destruct (time_ok s t); [|discriminate]. cbn [negb] in Hs.
      rewrite Hg, Hf, Hc in Hs. destruct (g_ints cfg !! i) as [ic|]; [|discriminate]. rewrite Hen in Hs.
      assert (HF : ids_of false (fl_post fl) <> []) by (intros E; rewrite E in HxF; destruct HxF).
      pose proof (needs_update_due en _ (ids_of true (fl_post fl)) (i_send_resolved ic) _ _ HF Hdue) as Hne.
      destruct (bool_decide _) eqn:Hno; [apply bool_decide_eq_true in Hno; contradiction|].
      assert (Hnil : is_nil (ids_of false (fl_post fl)) = false).
      { destruct (ids_of false (fl_post fl)); [contradiction|reflexivity]. }
      rewrite Hnil, andb_false_r in Hs. injection Hs as <- <-. apply notified_app_r.
      match goal with Hr' : run cfg ?s1 h = Some _ |- _ =>
        match s1 with context [with_chain fl i (CRetry ?r ?sent ?F ?R 0)] =>
          apply (retry_phase h s1 s' o2 (with_flight g (with_chain fl i (CRetry r sent F R 0)))
                   (with_chain fl i (CRetry r sent F R 0)) r sent F R 0%nat f Hr' (fair_tail _ _ Hfair) eq_refl eq_refl)
        end end.
      * cbn [fl_chains with_chain]. rewrite set_nth_lookup. destruct (decide (i = i)); [|congruence].
        destruct (decide _) as [_|Hn]; [reflexivity|].
        exfalso. apply Hn. apply lookup_lt_Some in Hc. exact Hc.
      * destruct (i_send_resolved ic); [exact Hin|]. apply In_filter_b. split; [exact Hin|]. rewrite Hres. reflexivity.
      * exact Hid.
      * exact Hres.
      * cbn. lia.
      * cbn. lia.
    + exfalso. unfold step in Hs. destruct (time_ok s t); [|discriminate]. cbn [negb] in Hs.
      rewrite Hg, Hf, Hc in Hs. discriminate.
    + exfalso. destruct Hfair as (_ & _ & _ & H4). apply (H4 t). left. reflexivity.
    + rewrite Hc in Hsame. rewrite <- Hpost in Hin.
      assert (Hen' : s_nflog s1 !! i = Some (Some en)).
      { destruct Hfr as [Ht|[Hl|Heq]].
        - (* a targeting event would have changed chain i *)
          exfalso. destruct Ht as [->|[(oc & ->)| ->]]; unfold step in Hs;
            (destruct (time_ok s t); [|discriminate]); cbn [negb] in Hs; rewrite Hg, Hf, Hc in Hs.
          + destruct (g_ints cfg !! i); [|discriminate]. rewrite Hen in Hs.
            destruct (bool_decide _); [|destruct (_ && _)]; injection Hs as <- <-; cbn in Hg'; injection Hg' as <-;
              cbn in Hf'; injection Hf' as <-; cbn [fl_chains with_chain] in Hsame;
              rewrite set_nth_lookup in Hsame; (destruct (decide (i = i)); [|congruence]);
              (destruct (decide _) as [_|Hn]; [discriminate|apply Hn; apply lookup_lt_Some in Hc; exact Hc]).
          + discriminate.
          + destruct (t <? fl_deadline fl); [discriminate|]. injection Hs as <- <-. cbn in Hg'. injection Hg' as <-.
            cbn in Hf'. injection Hf' as <-. cbn [fl_chains with_chain] in Hsame.
            rewrite set_nth_lookup in Hsame. destruct (decide (i = i)); [|congruence].
            destruct (decide _) as [_|Hn]; [discriminate|apply Hn; apply lookup_lt_Some in Hc; exact Hc].
        - exfalso. apply (Hnl t e); [left; reflexivity|exact Hl].
        - rewrite Heq. exact Hen. }
      assert (Htick : fl_tick fl' = fl_tick fl).
      { clear -Hs Hg Hf Hg' Hf'. unfold step in Hs. destruct (time_ok s t); [|discriminate]. cbn [negb] in Hs.
        rewrite Hg in Hs.
        destruct e as [a|tau sup|j|j oc|j| | |j en'|j en'|]; try rewrite Hf in Hs; try discriminate.
        - injection Hs as <- <-. cbn in Hg'. injection Hg' as <-. cbn in Hf'. congruence.
        - destruct (fl_chains fl !! j) as [c|]; [|discriminate]. destruct c; try discriminate.
          destruct (g_ints cfg !! j); [|discriminate]. destruct (s_nflog s !! j); [|discriminate].
          destruct (bool_decide _); [|destruct (_ && _)]; injection Hs as <- <-; cbn in Hg'; injection Hg' as <-;
            cbn in Hf'; injection Hf' as <-; reflexivity.
        - destruct (fl_chains fl !! j) as [c|]; [|discriminate]. destruct c; try discriminate.
          destruct (g_ints cfg !! j); [|discriminate]. destruct (s_nflog s !! j); [|discriminate].
          destruct oc; injection Hs as <- <-; cbn in Hg'; injection Hg' as <-; cbn in Hf'; injection Hf' as <-; reflexivity.
        - destruct (fl_chains fl !! j) as [c|]; [|discriminate].
          destruct c; try discriminate; (destruct (t <? fl_deadline fl); [discriminate|]); injection Hs as <- <-;
            cbn in Hg'; injection Hg' as <-; cbn in Hf'; injection Hf' as <-; reflexivity.
        - destruct (negb _); [discriminate|]. destruct (forallb chain_ok _); [destruct (is_nil _)|];
            injection Hs as <- <-; cbn in Hg'; try discriminate; injection Hg' as <-; cbn in Hf'; discriminate.
        - injection Hs as <- <-. cbn in Hg'. try rewrite Hg in Hg'. injection Hg' as <-. congruence.
        - destruct (s_nflog s !! j); [|discriminate]. injection Hs as <- <-. cbn in Hg'. try rewrite Hg in Hg'.
          injection Hg' as <-. congruence.
        - destruct (s_nflog s !! j); [|discriminate]. injection Hs as <- <-. cbn in Hg'. try rewrite Hg in Hg'.
          injection Hg' as <-. congruence.
        - injection Hs as <- <-. cbn in Hg'. try rewrite Hg in Hg'. injection Hg' as <-. congruence. }
      apply notified_app_r.
      apply (IH s1 s' o2 g' fl' f en Hr (fair_tail _ _ Hfair) (no_log_ops_tail _ _ Hnl) Hg' Hf' Hsame Hin Hid Hres Hen');
        [rewrite Htick; exact Hdue|lia|lia].
Qed.

Lemma wait_phase_forced (res : bool) h : forall s s' outs g fl f en,
  run cfg s h = Some (s', outs) -> fair h -> no_log_ops h ->
  s_group s = Some g -> gr_flight g = Some fl -> fl_chains fl !! i = Some CWait ->
  In f (fl_post fl) -> f_id f = x -> f_res f = res ->
  s_nflog s !! i = Some (Some en) ->
  (forall ic, g_ints cfg !! i = Some ic ->
     needs_update (Some en) (ids_of false (fl_post fl)) (ids_of true (fl_post fl)) (i_send_resolved ic) (g_repeat cfg) (fl_tick fl) <> RNo /\
     (i_send_resolved ic = true \/ f_res f = false)) ->
  s_clock s <= fl_deadline fl -> fl_deadline fl < s_clock s' -> notified_as res outs.
Proof.
  induction h as [|[t e] h IH]; intros s s' outs g fl f en H Hfair Hnl Hg Hf Hc Hin Hid Hres Hen Hforce Hle Hlt;
    cbn [run] in H.
  - inversion H; subst. lia.
  - destruct (step cfg s t e) as [[s1 o1]|] eqn:Hs; [|discriminate].
    destruct (run cfg s1 h) as [[s2 o2]|] eqn:Hr; [|discriminate]. injection H as <- <-.
    pose proof (flight_bounded _ _ _ _ _ _ _ _ Hs Hg Hf) as Hb.
    pose proof (step_time _ _ _ _ _ _ Hs) as [_ Hclk].
    pose proof (nflog_frame _ _ _ _ _ Hs) as Hfr.
    destruct (flight_frame _ _ _ _ _ _ _ Hs Hg Hf)
      as [->|(g' & fl' & Hg' & Hf' & Hpost & _ & Hd' & _ & _ & Htg)].
    { exfalso. unfold step in Hs. destruct (time_ok s t); [|discriminate]. cbn [negb] in Hs. rewrite Hg, Hf in Hs.
      rewrite (chain_not_done_blocks_end _ _ _ Hc eq_refl) in Hs. discriminate. }
    destruct Htg as [[->|[(oc & ->)| ->]]|Hsame].
    + unfold step in Hs. destruct (time_ok s t); [|discriminate]. cbn [negb] in Hs.
      rewrite Hg, Hf, Hc in Hs. destruct (g_ints cfg !! i) as [ic|] eqn:Hic; [|discriminate]. rewrite Hen in Hs.
      destruct (Hforce ic eq_refl) as [Hne Hsr].
      destruct (bool_decide _) eqn:Hno; [apply bool_decide_eq_true in Hno; contradiction|].
      assert (Hnts : negb (i_send_resolved ic) && is_nil (ids_of false (fl_post fl)) = false).
      { destruct Hsr as [->|Hfr0]; [reflexivity|].
        assert (HxF : In x (ids_of false (fl_post fl))) by (apply In_ids_of; exists f; auto).
        destruct (ids_of false (fl_post fl)); [destruct HxF|]. apply andb_false_r. }
      rewrite Hnts in Hs. injection Hs as <- <-. apply notified_as_app_r.
      match goal with Hr' : run cfg ?s1 h = Some _ |- _ =>
        match s1 with context [with_chain fl i (CRetry ?r ?sent ?F ?R 0)] =>
          apply (retry_phase_as res h s1 _ o2 (with_flight g (with_chain fl i (CRetry r sent F R 0)))
                   (with_chain fl i (CRetry r sent F R 0)) r sent F R 0%nat f Hr' (fair_tail _ _ Hfair) eq_refl eq_refl)
        end end.
      * cbn [fl_chains with_chain]. rewrite set_nth_lookup. destruct (decide (i = i)); [|congruence].
        destruct (decide _) as [_|Hn]; [reflexivity|].
        exfalso. apply Hn. apply lookup_lt_Some in Hc. exact Hc.
      * destruct (i_send_resolved ic) eqn:Esr; [exact Hin|]. apply In_filter_b. split; [exact Hin|].
        destruct Hsr as [Hc'|Hfr0]; [discriminate|]. rewrite Hfr0. reflexivity.
      * exact Hid.
      * exact Hres.
      * cbn. lia.
      * cbn. lia.
    + exfalso. unfold step in Hs. destruct (time_ok s t); [|discriminate]. cbn [negb] in Hs.
      rewrite Hg, Hf, Hc in Hs. discriminate.
    + exfalso. destruct Hfair as (_ & _ & _ & H4). apply (H4 t). left. reflexivity.
    + rewrite Hc in Hsame. pose proof Hpost as Hpost'. rewrite <- Hpost in Hin.
      assert (Hen' : s_nflog s1 !! i = Some (Some en)).
      { destruct Hfr as [Ht|[Hl|Heq]].
        - (* a targeting event would have changed chain i *)
          exfalso. destruct Ht as [->|[(oc & ->)| ->]]; unfold step in Hs;
            (destruct (time_ok s t); [|discriminate]); cbn [negb] in Hs; rewrite Hg, Hf, Hc in Hs.
          + destruct (g_ints cfg !! i); [|discriminate]. rewrite Hen in Hs.
            destruct (bool_decide _); [|destruct (_ && _)]; injection Hs as <- <-; cbn in Hg'; injection Hg' as <-;
              cbn in Hf'; injection Hf' as <-; cbn [fl_chains with_chain] in Hsame;
              rewrite set_nth_lookup in Hsame; (destruct (decide (i = i)); [|congruence]);
              (destruct (decide _) as [_|Hn]; [discriminate|apply Hn; apply lookup_lt_Some in Hc; exact Hc]).
          + discriminate.
          + destruct (t <? fl_deadline fl); [discriminate|]. injection Hs as <- <-. cbn in Hg'. injection Hg' as <-.
            cbn in Hf'. injection Hf' as <-. cbn [fl_chains with_chain] in Hsame.
            rewrite set_nth_lookup in Hsame. destruct (decide (i = i)); [|congruence].
            destruct (decide _) as [_|Hn]; [discriminate|apply Hn; apply lookup_lt_Some in Hc; exact Hc].
        - exfalso. apply (Hnl t e); [left; reflexivity|exact Hl].
        - rewrite Heq. exact Hen. }
      assert (Htick : fl_tick fl' = fl_tick fl).
      { clear -Hs Hg Hf Hg' Hf'. unfold step in Hs. destruct (time_ok s t); [|discriminate]. cbn [negb] in Hs.
        rewrite Hg in Hs.
        destruct e as [a|tau sup|j|j oc|j| | |j en'|j en'|]; try rewrite Hf in Hs; try discriminate.
        - injection Hs as <- <-. cbn in Hg'. injection Hg' as <-. cbn in Hf'. congruence.
        - destruct (fl_chains fl !! j) as [c|]; [|discriminate]. destruct c; try discriminate.
          destruct (g_ints cfg !! j); [|discriminate]. destruct (s_nflog s !! j); [|discriminate].
          destruct (bool_decide _); [|destruct (_ && _)]; injection Hs as <- <-; cbn in Hg'; injection Hg' as <-;
            cbn in Hf'; injection Hf' as <-; reflexivity.
        - destruct (fl_chains fl !! j) as [c|]; [|discriminate]. destruct c; try discriminate.
          destruct (g_ints cfg !! j); [|discriminate]. destruct (s_nflog s !! j); [|discriminate].
          destruct oc; injection Hs as <- <-; cbn in Hg'; injection Hg' as <-; cbn in Hf'; injection Hf' as <-; reflexivity.
        - destruct (fl_chains fl !! j) as [c|]; [|discriminate].
          destruct c; try discriminate; (destruct (t <? fl_deadline fl); [discriminate|]); injection Hs as <- <-;
            cbn in Hg'; injection Hg' as <-; cbn in Hf'; injection Hf' as <-; reflexivity.
        - destruct (negb _); [discriminate|]. destruct (forallb chain_ok _); [destruct (is_nil _)|];
            injection Hs as <- <-; cbn in Hg'; try discriminate; injection Hg' as <-; cbn in Hf'; discriminate.
        - injection Hs as <- <-. cbn in Hg'. try rewrite Hg in Hg'. injection Hg' as <-. congruence.
        - destruct (s_nflog s !! j); [|discriminate]. injection Hs as <- <-. cbn in Hg'. try rewrite Hg in Hg'.
          injection Hg' as <-. congruence.
        - destruct (s_nflog s !! j); [|discriminate]. injection Hs as <- <-. cbn in Hg'. try rewrite Hg in Hg'.
          injection Hg' as <-. congruence.
        - injection Hs as <- <-. cbn in Hg'. try rewrite Hg in Hg'. injection Hg' as <-. congruence. }
      apply notified_as_app_r.
      apply (IH s1 _ o2 g' fl' f en Hr (fair_tail _ _ Hfair) (no_log_ops_tail _ _ Hnl) Hg' Hf' Hsame Hin Hid Hres Hen');
        [rewrite Htick, Hpost'; exact Hforce|lia|lia].
Qed.

Lemma idle_phase_due h : forall s s' outs g M en,
  run cfg s h = Some (s', outs) -> fair h -> no_log_ops h ->
  s_group s = Some g -> gr_flight g = None -> has_x g ->
  s_nflog s !! i = Some (Some en) -> n_ts en < gr_deadline g - g_repeat cfg ->
  Z.max (gr_deadline g) (s_clock s) <= M -> M <= T -> (i < length (g_ints cfg))%nat -> 0 <= g_timeout cfg ->
  M + g_timeout cfg < s_clock s' -> notified outs.
Proof.
  induction h as [|[t e] h IH]; intros s s' outs g M en H Hfair Hnl Hg Hf Hx Hen Hdue HM HT Hi Hto Hlt; cbn [run] in H.
  - inversion H; subst. lia.
  - destruct (step cfg s t e) as [[s1 o1]|] eqn:Hs; [|discriminate].
    destruct (run cfg s1 h) as [[s2 o2]|] eqn:Hr; [|discriminate]. inversion H; subst.
    pose proof (overdue_impossible _ _ _ _ _ _ _ Hs Hg Hf) as Hb.
    pose proof (step_time _ _ _ _ _ _ Hs) as [Hge Hclk].
    pose proof (nflog_frame _ _ _ _ _ Hs) as Hfr.
    destruct (idle_step _ _ _ _ _ _ _ Hs Hg Hf) as [(sup & ->)|(g' & Hg' & Hf' & Hd')].
    + assert (Hnsup : ~ In x sup).
      { destruct Hfair as (_ & H2 & _). apply (H2 t (gr_deadline g)). left. reflexivity. }
      destruct Hx as (a & Hina & Hida & Hfa).
      unfold step in Hs. destruct (time_ok s t); [|discriminate]. cbn [negb] in Hs. rewrite Hg, Hf in Hs.
      destruct (_ && _); [|discriminate]. cbn [negb] in Hs.
      set (all := sort_f (map (freeze t) (gr_alerts g))) in *.
      set (post := filter (fun f => negb (bool_decide (f_id f ∈ sup))) all) in *.
      assert (Hfrz : In (freeze t a) post).
      { apply In_filter_b. split.
        - apply In_sort_f. apply in_map. exact Hina.
        - cbn. rewrite Hida. apply negb_true_iff. apply bool_decide_eq_false. intros Hel.
          apply Hnsup. apply elem_of_list_In. exact Hel. }
      assert (Hnil : is_nil post = false) by (destruct post; [destruct Hfrz|reflexivity]).
      rewrite Hnil in Hs. injection Hs as <- <-. apply notified_app_r.
      apply (wait_phase_due h _ s' o2 _ _ (freeze t a) en Hr (fair_tail _ _ Hfair) (no_log_ops_tail _ _ Hnl) eq_refl eq_refl).
      * cbn. rewrite list_lookup_fmap. destruct (g_ints cfg !! i) eqn:Hl; [reflexivity|].
        apply lookup_ge_None in Hl. lia.
      * exact Hfrz.
      * exact Hida.
      * cbn. apply (firing_until_not_resolved T); [exact Hfa|lia].
      * cbn [s_nflog]. exact Hen.
      * cbn [fl_tick]. exact Hdue.
      * cbn. lia.
      * cbn. lia.
    + assert (Hx' : has_x g').
      { destruct e as [b|tau sup|j|j oc|j| | |j en'|j en'|];
          unfold step in Hs; (destruct (time_ok s t); [|discriminate]); cbn [negb] in Hs; rewrite Hg in Hs;
          try (rewrite Hf in Hs; discriminate).
        - injection Hs as <- <-. cbn in Hg'. injection Hg' as <-. cbn.
          apply store_set_keeps; [exact Hx|]. intros Hb'.
          destruct Hfair as (H1 & _). apply (H1 t). { left. reflexivity. } exact Hb'.
        - rewrite Hf in Hs. destruct (_ && _); [|discriminate]. cbn [negb] in Hs. injection Hs as <- <-.
          cbn in Hg'. injection Hg' as <-. cbn in Hf'. discriminate.
        - injection Hs as <- <-. cbn in Hg'. injection Hg' as <-. exact Hx.
        - destruct (s_nflog s !! j); [|discriminate]. injection Hs as <- <-. cbn in Hg'. injection Hg' as <-. exact Hx.
        - destruct (s_nflog s !! j); [|discriminate]. injection Hs as <- <-. cbn in Hg'. injection Hg' as <-. exact Hx.
        - injection Hs as <- <-. cbn in Hg'. injection Hg' as <-. exact Hx. }
      assert (Hen' : s_nflog s1 !! i = Some (Some en)).
      { destruct Hfr as [Ht|[Hl|Heq]].
        - exfalso. destruct Ht as [->|[(oc & ->)| ->]]; unfold step in Hs;
            (destruct (time_ok s t); [|discriminate]); cbn [negb] in Hs; rewrite Hg, Hf in Hs; discriminate.
        - exfalso. apply (Hnl t e); [left; reflexivity|exact Hl].
        - rewrite Heq. exact Hen. }
      apply notified_app_r.
      apply (IH s1 s' o2 g' M en Hr (fair_tail _ _ Hfair) (no_log_ops_tail _ _ Hnl) Hg' Hf' Hx' Hen'); try assumption; try lia.
Qed.

(* ------------------------------------------------------------------------------------------------------------ *)
(* C05: resolution is reported by the next flush.  The group is idle and holds x RESOLVED (its end time has        *)
(* passed); the log entry of integration i (send_resolved on) lists x as firing and not as resolved; nobody        *)
(* re-fires x: then the flush at the armed deadline notifies i with a batch listing x as resolved, by              *)
(* deadline + timeout.                                                                                              *)
(* ------------------------------------------------------------------------------------------------------------ *)
Lemma needs_update_resolved en F R rep now :
  In x R -> In x (n_firing en) -> ~ In x (n_resolved en) -> needs_update (Some en) F R true rep now <> RNo.
Proof.
  intros HR Hf Hnr. unfold needs_update.
  destruct (subset F (n_firing en)); cbn [negb]; [|destruct (is_nil (n_firing en)); discriminate].
  destruct (is_nil F).
  - destruct (n_firing en); [destruct Hf|discriminate].
  - assert (Hs : subset R (n_resolved en) = false).
    { destruct (subset R (n_resolved en)) eqn:E; [|reflexivity]. exfalso. apply Hnr.
      apply (proj1 (subset_spec _ _) E). exact HR. }
    rewrite Hs. cbn. discriminate.
Qed.

Definition has_x_resolved (s : gstate) (g : group) : Prop :=
  exists a, In a (gr_alerts g) /\ a_id a = x /\ a_ends a <> 0 /\ a_ends a <= s_clock s.
Definition no_update_of_x (h : list (Z * ev)) : Prop := forall t b, In (t, EInsert b) h -> a_id b <> x.

Lemma idle_phase_resolved h : forall s s' outs g M en,
  run cfg s h = Some (s', outs) -> fair h -> no_log_ops h -> no_update_of_x h ->
  s_group s = Some g -> gr_flight g = None -> has_x_resolved s g ->
  s_nflog s !! i = Some (Some en) -> In x (n_firing en) -> ~ In x (n_resolved en) ->
  (forall ic, g_ints cfg !! i = Some ic -> i_send_resolved ic = true) ->
  Z.max (gr_deadline g) (s_clock s) <= M -> (i < length (g_ints cfg))%nat -> 0 <= g_timeout cfg ->
  M + g_timeout cfg < s_clock s' -> notified_as true outs.
Proof.
  induction h as [|[t e] h IH]; intros s s' outs g M en H Hfair Hnl Hnu Hg Hf Hx Hen Hfi Hnr Hsr HM Hi Hto Hlt;
    cbn [run] in H.
  - inversion H; subst. lia.
  - destruct (step cfg s t e) as [[s1 o1]|] eqn:Hs; [|discriminate].
    destruct (run cfg s1 h) as [[s2 o2]|] eqn:Hr; [|discriminate]. inversion H; subst.
    pose proof (overdue_impossible _ _ _ _ _ _ _ Hs Hg Hf) as Hb.
    pose proof (step_time _ _ _ _ _ _ Hs) as [Hge Hclk].
    pose proof (nflog_frame _ _ _ _ _ Hs) as Hfr.
    assert (Hnu' : no_update_of_x h) by (intros t' b' Hin'; apply (Hnu t' b'); right; exact Hin').
    destruct (idle_step _ _ _ _ _ _ _ Hs Hg Hf) as [(sup & ->)|(g' & Hg' & Hf' & Hd')].
    + assert (Hnsup : ~ In x sup).
      { destruct Hfair as (_ & H2 & _). apply (H2 t (gr_deadline g)). left. reflexivity. }
      destruct Hx as (a & Hina & Hida & Hne0 & Hends).
      unfold step in Hs. destruct (time_ok s t); [|discriminate]. cbn [negb] in Hs. rewrite Hg, Hf in Hs.
      destruct (_ && _); [|discriminate]. cbn [negb] in Hs.
      set (all := sort_f (map (freeze t) (gr_alerts g))) in *.
      set (post := filter (fun f => negb (bool_decide (f_id f ∈ sup))) all) in *.
      assert (Hfrz : In (freeze t a) post).
      { apply In_filter_b. split.
        - apply In_sort_f. apply in_map. exact Hina.
        - cbn. rewrite Hida. apply negb_true_iff. apply bool_decide_eq_false. intros Hel.
          apply Hnsup. apply elem_of_list_In. exact Hel. }
      assert (Hresf : f_res (freeze t a) = true).
      { cbn. unfold resolved_at. destruct (a_ends a =? 0) eqn:E0; [lia|]. cbn. lia. }
      assert (Hnil : is_nil post = false) by (destruct post; [destruct Hfrz|reflexivity]).
      rewrite Hnil in Hs. injection Hs as <- <-. apply notified_as_app_r.
      apply (wait_phase_forced true h _ s' o2 _ _ (freeze t a) en Hr (fair_tail _ _ Hfair) (no_log_ops_tail _ _ Hnl) eq_refl eq_refl).
      * cbn. rewrite list_lookup_fmap. destruct (g_ints cfg !! i) eqn:Hl; [reflexivity|].
        apply lookup_ge_None in Hl. lia.
      * exact Hfrz.
      * exact Hida.
      * exact Hresf.
      * cbn [s_nflog]. exact Hen.
      * intros ic Hic. cbn [fl_post fl_tick]. rewrite (Hsr ic Hic). split; [|left; reflexivity].
        apply needs_update_resolved; [|exact Hfi|exact Hnr].
        apply In_ids_of. exists (freeze t a). auto.
      * cbn. lia.
      * cbn. lia.
    + assert (Hx' : has_x_resolved s1 g').
      { destruct Hx as (a & Hina & Hida & Hne0 & Hends).
        destruct e as [b|tau sup|j|j oc|j| | |j en'|j en'|];
          unfold step in Hs; (destruct (time_ok s t); [|discriminate]); cbn [negb] in Hs; rewrite Hg in Hs;
          try (rewrite Hf in Hs; discriminate).
        - injection Hs as <- <-. cbn in Hg'. injection Hg' as <-. exists a. cbn.
          split; [|split; [exact Hida|split; [exact Hne0|lia]]].
          apply store_set_others; [exact Hina|]. rewrite Hida. intros E. apply (Hnu t b); [left; reflexivity|congruence].
        - rewrite Hf in Hs. destruct (_ && _); [|discriminate]. cbn [negb] in Hs. injection Hs as <- <-.
          cbn in Hg'. injection Hg' as <-. cbn in Hf'. discriminate.
        - injection Hs as <- <-. cbn in Hg'. injection Hg' as <-. exists a. cbn. repeat split; auto; lia.
        - destruct (s_nflog s !! j); [|discriminate]. injection Hs as <- <-. cbn in Hg'. injection Hg' as <-.
          exists a. cbn. repeat split; auto; lia.
        - destruct (s_nflog s !! j); [|discriminate]. injection Hs as <- <-. cbn in Hg'. injection Hg' as <-.
          exists a. cbn. repeat split; auto; lia.
        - injection Hs as <- <-. cbn in Hg'. injection Hg' as <-. exists a. cbn. repeat split; auto; lia. }
      assert (Hen' : s_nflog s1 !! i = Some (Some en)).
      { destruct Hfr as [Ht|[Hl|Heq]].
        - exfalso. destruct Ht as [->|[(oc & ->)| ->]]; unfold step in Hs;
            (destruct (time_ok s t); [|discriminate]); cbn [negb] in Hs; rewrite Hg, Hf in Hs; discriminate.
        - exfalso. apply (Hnl t e); [left; reflexivity|exact Hl].
        - rewrite Heq. exact Hen. }
      apply notified_as_app_r.
      apply (IH s1 s' o2 g' M en Hr (fair_tail _ _ Hfair) (no_log_ops_tail _ _ Hnl) Hnu' Hg' Hf' Hx' Hen' Hfi Hnr Hsr); try assumption; try lia.
Qed.

End Liveness.
