(* Proofs about Model/Grouping.v (C06, sequential half). *)
From AM Require Import Base.Prelude Model.Matchers Model.Route Model.Grouping.

Lemma In_filter_bool {A} (f : A -> bool) (x : A) (l : list A) :
  In x (filter (fun y => f y) l) <-> In x l /\ f x = true.
Proof. rewrite <- !elem_of_list_In, elem_of_list_filter, Is_true_true. tauto. Qed.

(* the group labels are exactly the alert's labels whose name is grouped *)
Lemma group_labels_spec o ls n v :
  In (n, v) (group_labels o ls) <-> In (n, v) ls /\ grouped o n = true.
Proof. unfold group_labels. rewrite In_filter_bool. reflexivity. Qed.

Lemma alookup_filter (f : string -> bool) ls n :
  alookup (filter (fun kv => f (fst kv)) ls) n = if f n then alookup ls n else None.
Proof.
  induction ls as [|[k v] ls IH]; cbn [alookup]; [destruct (f n); reflexivity|].
  rewrite filter_cons. cbn [fst]. destruct (f k) eqn:Hfk.
  - destruct (decide (Is_true true)) as [_|Hd]; [|exfalso; apply Hd; exact I].
    cbn [alookup]. destruct (String.eqb k n) eqn:He.
    + apply String.eqb_eq in He. subst. rewrite Hfk. reflexivity.
    + exact IH.
  - destruct (decide (Is_true false)) as [Hd|_]; [destruct Hd|].
    rewrite IH. destruct (String.eqb k n) eqn:He; [|reflexivity].
    apply String.eqb_eq in He. subst. rewrite Hfk. reflexivity.
Qed.

(* every alert of a group has the group's value for every grouped label (absent stays absent), and the group
   labels mention no other label *)
Lemma group_labels_lookup o ls n :
  alookup (group_labels o ls) n = if grouped o n then alookup ls n else None.
Proof. unfold group_labels. apply alookup_filter. Qed.

(* alerts with equal values (and equal presence) for the grouped labels have the same group labels, label by label:
   they are never split by grouping *)
Lemma equal_values_same_group_labels o ls1 ls2 :
  (forall n, grouped o n = true -> alookup ls1 n = alookup ls2 n) ->
  forall n, alookup (group_labels o ls1) n = alookup (group_labels o ls2) n.
Proof. intros H n. rewrite !group_labels_lookup. destruct (grouped o n) eqn:Hg; [apply H, Hg|reflexivity]. Qed.

(* group_by: [] groups everything together; '...' keeps every label *)
Lemma group_by_empty_is_one_group o ls : ro_group_by o = [] -> ro_group_by_all o = false -> group_labels o ls = [].
Proof.
  intros H1 H2. unfold group_labels, grouped. rewrite H1, H2. cbn.
  induction ls as [|kv ls IH]; [reflexivity|]. rewrite filter_cons. destruct (decide _) as [Hd|_]; [destruct Hd|exact IH].
Qed.
Lemma group_by_all_keeps_all o ls : ro_group_by_all o = true -> group_labels o ls = ls.
Proof.
  intros H. unfold group_labels, grouped. rewrite H. cbn.
  induction ls as [|kv ls IH]; [reflexivity|]. rewrite filter_cons. destruct (decide _) as [_|Hd]; [f_equal; exact IH|].
  exfalso. apply Hd. exact I.
Qed.

(* the key is a function of the matchers along the path and the group labels only *)
Lemma group_key_pure root1 root2 p1 p2 gl1 gl2 :
  path_matchers root1 p1 = path_matchers root2 p2 -> gl1 = gl2 -> group_key root1 p1 gl1 = group_key root2 p2 gl2.
Proof. intros H1 H2. unfold group_key. rewrite H1, H2. reflexivity. Qed.

(* ---------- the set of groups after sequential ingestion ---------- *)

Definition members (s : list (path * labels * list labels)) (k : path * labels) (a : labels) : Prop :=
  exists mem, In (k, mem) s /\ In a mem.

Lemma key_eqb_true k1 k2 : key_eqb k1 k2 = true <-> k1 = k2.
Proof. unfold key_eqb. apply bool_decide_eq_true. Qed.

Lemma add_to_group_keys s k a : forall k', In k' (map fst (add_to_group s k a)) <-> k' = k \/ In k' (map fst s).
Proof.
  induction s as [|[k0 mem] s IH]; intros k'; cbn [add_to_group map fst In].
  - intuition auto.
  - destruct (key_eqb k0 k) eqn:He; cbn [map fst In].
    + apply key_eqb_true in He. subst. intuition auto.
    + rewrite IH. intuition auto.
Qed.

Lemma add_to_group_nodup s k a : NoDup (map fst s) -> NoDup (map fst (add_to_group s k a)).
Proof.
  induction s as [|[k0 mem] s IH]; intros Hnd; cbn [add_to_group map fst].
  - constructor; [intros H; inversion H|constructor].
  - inversion Hnd as [|? ? Hnotin Hnd']; subst. destruct (key_eqb k0 k) eqn:He; cbn [map fst].
    + constructor; assumption.
    + constructor; [|apply IH; exact Hnd'].
      rewrite elem_of_list_In, add_to_group_keys. intros [->|Hin].
      * assert (key_eqb k k = true) by (apply key_eqb_true; reflexivity). congruence.
      * apply Hnotin. apply elem_of_list_In. exact Hin.
Qed.

Lemma add_to_group_members s k a : forall k' a',
  members (add_to_group s k a) k' a' <-> members s k' a' \/ (k' = k /\ a' = a).
Proof.
  induction s as [|[k0 mem] s IH]; intros k' a'; cbn [add_to_group].
  - unfold members. cbn. split.
    + intros (m & [[= <- <-]|[]] & Hin). destruct Hin as [<-|[]]. right. auto.
    + intros [(m & [] & _)|[-> ->]]. exists [a]. split; [left; reflexivity|left; reflexivity].
  - destruct (key_eqb k0 k) eqn:He.
    + apply key_eqb_true in He. subst k0. unfold members. cbn [In]. split.
      * intros (m & [Heq|Hin] & Hm).
        -- inversion Heq; subst. destruct (bool_decide (a ∈ mem)) eqn:Hd.
           ++ left. exists mem. split; [left; reflexivity|exact Hm].
           ++ apply in_app_or in Hm as [Hm|[<-|[]]]; [left; exists mem; split; [left; reflexivity|exact Hm]|right; auto].
        -- left. exists m. split; [right; exact Hin|exact Hm].
      * intros [(m & [Heq|Hin] & Hm)|[-> ->]].
        -- inversion Heq; subst. eexists. split; [left; reflexivity|].
           destruct (bool_decide (a ∈ m)); [exact Hm|apply in_or_app; left; exact Hm].
        -- exists m. split; [right; exact Hin|exact Hm].
        -- eexists. split; [left; reflexivity|].
           destruct (bool_decide (a ∈ mem)) eqn:Hd; [apply bool_decide_eq_true in Hd; apply elem_of_list_In; exact Hd|].
           apply in_or_app. right. left. reflexivity.
    + unfold members in *. cbn [In]. split.
      * intros (m & [Heq|Hin] & Hm).
        -- inversion Heq; subst. left. exists m. split; [left; reflexivity|exact Hm].
        -- destruct (proj1 (IH k' a') (ex_intro _ m (conj Hin Hm))) as [(m' & Hin' & Hm')|Hr].
           ++ left. exists m'. split; [right; exact Hin'|exact Hm'].
           ++ right. exact Hr.
      * intros [(m & [Heq|Hin] & Hm)|Hr].
        -- inversion Heq; subst. exists m. split; [left; reflexivity|exact Hm].
        -- destruct (proj2 (IH k' a') (or_introl (ex_intro _ m (conj Hin Hm)))) as (m' & Hin' & Hm').
           exists m'. split; [right; exact Hin'|exact Hm'].
        -- destruct (proj2 (IH k' a') (or_intror Hr)) as (m' & Hin' & Hm').
           exists m'. split; [right; exact Hin'|exact Hm'].
Qed.

Lemma ingest_members re root a : forall s k' a',
  members (ingest re root s a) k' a' <-> members s k' a' \/ (a' = a /\ In k' (groups_of re root a)).
Proof.
  unfold ingest. generalize (groups_of re root a) as ks. intros ks. induction ks as [|k ks IH]; intros s k' a'; cbn [foldl].
  - cbn. intuition auto.
  - rewrite IH, add_to_group_members. cbn [In]. intuition (subst; auto).
Qed.

Lemma ingest_nodup re root a : forall s, NoDup (map fst s) -> NoDup (map fst (ingest re root s a)).
Proof.
  unfold ingest. generalize (groups_of re root a) as ks. intros ks. induction ks as [|k ks IH]; intros s H; cbn [foldl]; [exact H|].
  apply IH. apply add_to_group_nodup. exact H.
Qed.

(* THE PARTITION.  After ingesting any list of alerts (in any order, with repetitions) an alert is a member of a
   group exactly when it was ingested and the routing tree + group_by assign it to that group; and there is at
   most one group per (route position, group labels): alerts with equal group_by values under one route are never
   split over two groups. *)
Theorem ingest_all_partition re root alerts :
  let s := ingest_all re root alerts in
  NoDup (map fst s) /\
  forall k a, members s k a <-> In a alerts /\ In k (groups_of re root a).
Proof.
  unfold ingest_all.
  assert (Hgen : forall s0, NoDup (map fst s0) ->
            NoDup (map fst (foldl (ingest re root) s0 alerts)) /\
            forall k a, members (foldl (ingest re root) s0 alerts) k a <->
                        members s0 k a \/ (In a alerts /\ In k (groups_of re root a))).
  { induction alerts as [|x xs IH]; intros s0 Hnd; cbn [foldl].
    - split; [exact Hnd|]. intros k a. cbn. intuition auto.
    - destruct (IH (ingest re root s0 x) (ingest_nodup re root x s0 Hnd)) as [H1 H2].
      split; [exact H1|]. intros k a. rewrite H2, ingest_members. cbn [In]. intuition (subst; auto). }
  destruct (Hgen [] (NoDup_nil_2 : NoDup (map fst (@nil (path * labels * list labels))))) as [H1 H2]. split; [exact H1|].
  intros k a. rewrite H2. split; [intros [(m & [] & _)|H]; exact H|auto].
Qed.

(* every member of a group carries the group's labels on the grouped names, and the group belongs to one route *)
Lemma groups_of_spec re root ls p gl :
  In (p, gl) (groups_of re root ls) <->
  In p (match_route re ls root) /\ exists n, node_at root p = Some n /\ gl = group_labels (r_opts n) ls.
Proof.
  unfold groups_of. rewrite <- elem_of_list_In, elem_of_list_omap. split.
  - intros (q & Hq & Hs). apply elem_of_list_In in Hq. destruct (node_at root q) as [n|] eqn:Hn; [|discriminate].
    inversion Hs; subst. split; [exact Hq|]. exists n. auto.
  - intros (Hp & n & Hn & ->). exists p. split; [apply elem_of_list_In; exact Hp|]. rewrite Hn. reflexivity.
Qed.
