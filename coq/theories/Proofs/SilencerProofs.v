(* Proofs about Model/Silencer.v (C02): the per-alert cache of Silencer.Mutes is sound for every history.
   Structure:
     A. sorted version index, vi_since / vi_remove facts
     B. SInv: the store invariant Mutes relies on (Inv of SilenceProofs + sorted positive versions + mi = matchers
        of st + one matcher-set list per id [msf])
     C. CI: the cache-entry invariant; stable under time and under the three atomic store updates (ustep)
     D. every store operation is a chain of usteps (Set / Expire / Merge), or GC, or restart
     E. the two Queries of Mutes, decide_mutes, and mutes_correct: verdict = brute, marked = brute_ids, CI re-established
     F. reachable states, the history theorems, MuteStage, API status, late cache write *)
From AM Require Import Base.Prelude Gen.Consts Model.Matchers Model.Silence Model.Silencer
  Proofs.SilenceProofs Proofs.SilenceLwwProofs.

(* ---------- A. version index ---------- *)

Fixpoint vsorted (l : list (Z * string)) : Prop :=
  match l with [] => True | a :: r => Forall (fun b => fst a <= fst b) r /\ vsorted r end.

Lemma vsorted_snoc l v id : vsorted l -> Forall (fun b => fst b <= v) l -> vsorted (l ++ [(v, id)]).
Proof.
  induction l as [|a r IH]; intros Hs Hf; cbn; [split; [constructor|exact I]|].
  destruct Hs as [Ha Hr]. apply Forall_cons in Hf as [Hav Hf]. split.
  - apply Forall_app. split; [exact Ha|]. constructor; [cbn; exact Hav|constructor].
  - apply IH; assumption.
Qed.

Lemma vsorted_filter (P : Z * string -> Prop) `{forall a, Decision (P a)} l : vsorted l -> vsorted (filter P l).
Proof.
  induction l as [|a r IH]; intros Hs; [exact I|]. destruct Hs as [Ha Hr]. rewrite filter_cons.
  destruct (decide (P a)).
  - cbn. split; [|apply IH; exact Hr]. apply Forall_forall. intros b Hb. apply elem_of_list_filter in Hb as [_ Hb].
    rewrite Forall_forall in Ha. apply Ha. exact Hb.
  - apply IH. exact Hr.
Qed.

Lemma vi_since_spec v l : vsorted l -> forall sv, sv ∈ vi_since v l <-> sv ∈ l /\ v < fst sv.
Proof.
  induction l as [|a r IH]; intros Hs sv; cbn [vi_since].
  - split; [intros H; inversion H|intros [H _]; inversion H].
  - destruct Hs as [Ha Hr]. destruct (fst a <=? v) eqn:E.
    + rewrite (IH Hr), elem_of_cons. split; [intros [? ?]; auto|].
      intros [[->|?] ?]; [lia|auto].
    + split; [|intros [? _]; assumption]. intros Hin. split; [exact Hin|].
      apply elem_of_cons in Hin as [->|Hin]; [lia|]. rewrite Forall_forall in Ha. specialize (Ha _ Hin). lia.
Qed.

Lemma vi_remove_none id l : vi_remove id l = None -> id ∉ map snd l.
Proof.
  induction l as [|sv r IH]; cbn [vi_remove map]; intros H Hin; [inversion Hin|].
  destruct (String.eqb_spec (snd sv) id) as [Heq|Hne]; [discriminate|].
  destruct (vi_remove id r) as [r'|]; [discriminate|].
  apply elem_of_cons in Hin as [Heq|Hin]; [congruence|]. exact (IH eq_refl Hin).
Qed.

Lemma vi_remove_elem id l l' : vi_remove id l = Some l' -> forall sv, sv ∈ l -> snd sv <> id -> sv ∈ l'.
Proof.
  revert l'. induction l as [|a r IH]; intros l' H sv Hin Hne; [inversion Hin|]. cbn [vi_remove] in H.
  destruct (String.eqb_spec (snd a) id) as [Heq|Hna].
  - injection H as <-. apply elem_of_cons in Hin as [->|Hin]; [congruence|exact Hin].
  - destruct (vi_remove id r) as [r'|]; [|discriminate]. injection H as <-.
    apply elem_of_cons in Hin as [->|Hin]; [left|right; apply (IH r' eq_refl); assumption].
Qed.

Lemma vi_remove_sub id l l' : vi_remove id l = Some l' -> forall sv, sv ∈ l' -> sv ∈ l.
Proof.
  revert l'. induction l as [|a r IH]; intros l' H sv Hin; [discriminate|]. cbn [vi_remove] in H.
  destruct (String.eqb_spec (snd a) id) as [Heq|Hna].
  - injection H as <-. right. exact Hin.
  - destruct (vi_remove id r) as [r'|]; [|discriminate]. injection H as <-.
    apply elem_of_cons in Hin as [->|Hin]; [left|right; apply (IH r' eq_refl); assumption].
Qed.

Lemma vi_remove_sorted id l l' : vi_remove id l = Some l' -> vsorted l -> vsorted l'.
Proof.
  revert l'. induction l as [|a r IH]; intros l' H Hs; [discriminate|]. cbn [vi_remove] in H. destruct Hs as [Ha Hr].
  destruct (String.eqb_spec (snd a) id) as [Heq|Hna].
  - injection H as <-. exact Hr.
  - destruct (vi_remove id r) as [r'|] eqn:Hr'; [|discriminate]. injection H as <-. cbn. split; [|apply IH; auto].
    apply Forall_forall. intros b Hb. rewrite Forall_forall in Ha. apply Ha. eapply vi_remove_sub; eauto.
Qed.

(* ---------- B. the store invariant ---------- *)

Section WithOracle.
Variable x : ext.
(* the matcher sets of an id: versions of one id share their matchers *)
Variable msf : string -> list (list matcher).

Record SInv (S : store) : Prop := mkSInv {
  si_inv : Inv x S;
  si_sorted : vsorted (vi S);
  si_pos : Forall (fun sv => 0 < fst sv) (vi S);
  si_ver : 0 <= ver S;
  si_mi : forall k e, st S !! k = Some e -> mi S !! k = Some (s_ms (m_sil e));
  si_ms : forall k e, st S !! k = Some e -> s_ms (m_sil e) = msf k }.

Lemma SInv_empty : SInv empty_store.
Proof.
  constructor; cbn; try (intros k e H; rewrite lookup_empty in H; discriminate).
  - apply Inv_empty.
  - exact I.
  - constructor.
  - lia.
Qed.

(* a record that may enter the store *)
Definition okrec (e : msil) : Prop :=
  compiles x (s_ms (m_sil e)) = true /\ marshal_ok x (m_sil e) = true /\ s_ms (m_sil e) = msf (m_id e).

(* the three atomic updates of the store: a NEW id is indexed; a local edit replaces a not-yet-expired version in place
   (no index change); a merge replaces any version and re-indexes it *)
Inductive ustep (now : Z) (S : store) : store -> Prop :=
| us_add e : st S !! m_id e = None -> okrec e ->
    ustep now S (index_silence x (with_st S (<[m_id e := e]> (st S))) (m_sil e))
| us_local e p : st S !! m_id e = Some p -> sil_state (m_sil p) now <> SExpired -> okrec e ->
    ustep now S (with_st S (<[m_id e := e]> (st S)))
| us_merge e p : st S !! m_id e = Some p -> okrec e ->
    ustep now S (reindex_silence (with_st S (<[m_id e := e]> (st S))) (m_id e)).

Lemma ustep_sinv now S S' : SInv S -> ustep now S S' -> Inv x S' -> SInv S'.
Proof.
  intros HS Hu HI'. destruct Hu as [e Hnone (Hc & Hm & Hms)|e p Hp Hne (Hc & Hm & Hms)|e p Hp (Hc & Hm & Hms)].
  - constructor; [exact HI'| | | | |]; unfold index_silence, with_st; cbn [st mi vi ver].
    + apply vsorted_snoc; [apply (si_sorted _ HS)|].
      eapply Forall_impl; [apply (inv_ver _ _ (si_inv _ HS))|]. cbn. intros; lia.
    + apply Forall_app. split; [apply (si_pos _ HS)|]. constructor; [cbn; pose proof (si_ver _ HS); lia|constructor].
    + pose proof (si_ver _ HS). lia.
    + intros k q Hq. rewrite Hc. change (s_id (m_sil e)) with (m_id e).
      apply lookup_insert_Some in Hq as [[<- <-]|[Hne Hq]].
      * rewrite lookup_insert. reflexivity.
      * rewrite lookup_insert_ne by exact Hne. apply (si_mi _ HS _ _ Hq).
    + intros k q Hq. apply lookup_insert_Some in Hq as [[<- <-]|[Hne Hq]]; [exact Hms|apply (si_ms _ HS _ _ Hq)].
  - constructor; [exact HI'| | | | |]; unfold with_st; cbn [st mi vi ver]; try apply HS.
    + intros k q Hq. apply lookup_insert_Some in Hq as [[<- <-]|[Hne' Hq]]; [|apply (si_mi _ HS _ _ Hq)].
      rewrite (si_mi _ HS _ _ Hp), (si_ms _ HS _ _ Hp), Hms. reflexivity.
    + intros k q Hq. apply lookup_insert_Some in Hq as [[<- <-]|[Hne' Hq]]; [exact Hms|apply (si_ms _ HS _ _ Hq)].
  - assert (Hmi : forall k q, <[m_id e := e]> (st S) !! k = Some q -> mi S !! k = Some (s_ms (m_sil q))).
    { intros k q Hq. apply lookup_insert_Some in Hq as [[<- <-]|[Hne' Hq]]; [|apply (si_mi _ HS _ _ Hq)].
      rewrite (si_mi _ HS _ _ Hp), (si_ms _ HS _ _ Hp), Hms. reflexivity. }
    assert (Hmsf : forall k q, <[m_id e := e]> (st S) !! k = Some q -> s_ms (m_sil q) = msf k).
    { intros k q Hq. apply lookup_insert_Some in Hq as [[<- <-]|[Hne' Hq]]; [exact Hms|apply (si_ms _ HS _ _ Hq)]. }
    pose proof (si_ver _ HS) as Hv.
    constructor; [exact HI'| | | | |]; unfold reindex_silence, with_st; cbn [st mi vi ver]; try assumption; try lia.
    + destruct (vi_remove (m_id e) (vi S)) as [l|] eqn:Hr; [|apply (si_sorted _ HS)].
      apply vsorted_snoc; [eapply vi_remove_sorted; [exact Hr|apply (si_sorted _ HS)]|].
      apply Forall_forall. intros b Hb. pose proof (inv_ver _ _ (si_inv _ HS)) as Hf. rewrite Forall_forall in Hf.
      assert (b.1 <= ver S) by (apply Hf; eapply vi_remove_sub; eauto). lia.
    + destruct (vi_remove (m_id e) (vi S)) as [l|] eqn:Hr; [|apply (si_pos _ HS)].
      apply Forall_app. split; [|constructor; [cbn; lia|constructor]].
      apply Forall_forall. intros b Hb. pose proof (si_pos _ HS) as Hf. rewrite Forall_forall in Hf.
      apply Hf. eapply vi_remove_sub; eauto.
Qed.

(* ---------- C. the cache-entry invariant ---------- *)

Definition matches_ls (k : string) (ls : labels) : bool := mset_matches (x_re x) (msf k) ls.

Record CI (S : store) (now : Z) (ls : labels) (e : centry) : Prop := mkCI {
  ci_ver : ce_ver e <= ver S;
  (* every stored silence that matches and is not expired is cached or was (re-)indexed after the entry's version *)
  ci_cover : forall k p, st S !! k = Some p -> matches_ls k ls = true -> sil_state (m_sil p) now <> SExpired ->
             k ∈ ce_ids e \/ exists vv, (vv, k) ∈ vi S /\ ce_ver e < vv;
  (* the cached ids match the label set *)
  ci_match : forall k, k ∈ ce_ids e -> matches_ls k ls = true }.

Lemma not_expired_mono s t t' : t <= t' -> sil_state s t' <> SExpired -> sil_state s t <> SExpired.
Proof. rewrite !sil_state_expired. lia. Qed.

Lemma ci_time S now now' ls e : CI S now ls e -> now <= now' -> CI S now' ls e.
Proof.
  intros [H1 H2 H3] Hle. constructor; [exact H1| |exact H3].
  intros k p Hp Hm Hs. apply (H2 k p Hp Hm). eapply not_expired_mono; eauto.
Qed.

Lemma ci_empty S now ls : SInv S -> CI S now ls (mkCE 0 []).
Proof.
  intros HS. constructor; cbn.
  - apply (si_ver _ HS).
  - intros k p Hp _ _. right. assert (Hin : k ∈ map snd (vi S)) by (apply (inv_vi _ _ (si_inv _ HS)); rewrite Hp; eauto).
    apply elem_of_list_fmap in Hin as ([vv k'] & -> & Hin). exists vv. split; [exact Hin|].
    pose proof (si_pos _ HS) as Hf. rewrite Forall_forall in Hf. apply (Hf _ Hin).
  - intros k H. inversion H.
Qed.

Lemma ustep_ci now S S' ls e : SInv S -> CI S now ls e -> ustep now S S' -> CI S' now ls e.
Proof.
  intros HS [H1 H2 H3] Hu. destruct Hu as [r Hnone (Hc & Hm & Hms)|r p Hp Hne (Hc & Hm & Hms)|r p Hp (Hc & Hm & Hms)].
  - constructor; unfold index_silence, with_st; cbn [st mi vi ver]; [lia| |exact H3].
    intros k q Hq Hmt Hs. apply lookup_insert_Some in Hq as [[<- <-]|[Hne Hq]].
    + right. exists (ver S + 1). split; [|lia]. apply elem_of_app. right. apply elem_of_list_singleton. reflexivity.
    + destruct (H2 k q Hq Hmt Hs) as [?|(vv & Hin & Hlt)]; [left; assumption|right].
      exists vv. split; [apply elem_of_app; left; exact Hin|exact Hlt].
  - constructor; unfold with_st; cbn [st mi vi ver]; [exact H1| |exact H3].
    intros k q Hq Hmt Hs. apply lookup_insert_Some in Hq as [[<- <-]|[Hne' Hq]]; [|apply (H2 k q Hq Hmt Hs)].
    apply (H2 _ p Hp Hmt Hne).
  - constructor; unfold reindex_silence, with_st; cbn [st mi vi ver]; [lia| |exact H3].
    intros k q Hq Hmt Hs. destruct (vi_remove (m_id r) (vi S)) as [l|] eqn:Hr.
    + apply lookup_insert_Some in Hq as [[<- <-]|[Hne' Hq]].
      * right. exists (ver S + 1). split; [|lia]. apply elem_of_app. right. apply elem_of_list_singleton. reflexivity.
      * destruct (H2 k q Hq Hmt Hs) as [?|(vv & Hin & Hlt)]; [left; assumption|right].
        exists vv. split; [|exact Hlt]. apply elem_of_app. left. eapply vi_remove_elem; eauto.
    + apply vi_remove_none in Hr. apply lookup_insert_Some in Hq as [[<- <-]|[Hne' Hq]].
      * exfalso. apply Hr. apply (inv_vi _ _ (si_inv _ HS)). rewrite Hp. eauto.
      * apply (H2 k q Hq Hmt Hs).
Qed.

(* chains of atomic updates at one instant *)
Inductive usteps (now : Z) : store -> store -> Prop :=
| uss_refl S : usteps now S S
| uss_step S S1 S2 : ustep now S S1 -> Inv x S1 -> usteps now S1 S2 -> usteps now S S2.

Lemma usteps_one now S S' : ustep now S S' -> Inv x S' -> usteps now S S'.
Proof. intros H HI. eapply uss_step; [exact H|exact HI|constructor]. Qed.

Lemma usteps_trans now S1 S2 S3 : usteps now S1 S2 -> usteps now S2 S3 -> usteps now S1 S3.
Proof. induction 1; [auto|]. intros H3. eapply uss_step; eauto. Qed.

Lemma usteps_sinv now S S' : SInv S -> usteps now S S' -> SInv S'.
Proof. intros HS H. induction H; [exact HS|]. apply IHusteps. eapply ustep_sinv; eauto. Qed.

Lemma usteps_ci now S S' ls e : SInv S -> CI S now ls e -> usteps now S S' -> CI S' now ls e.
Proof.
  intros HS HC H. induction H; [exact HC|]. apply IHusteps; [eapply ustep_sinv; eauto|eapply ustep_ci; eauto].
Qed.

(* ---------- D. store operations as chains ---------- *)

Lemma with_st_id S : with_st S (st S) = S.
Proof. destruct S; reflexivity. Qed.

(* setSilence (the local path): the replaced version, if any, must not be expired *)
Lemma set_silence_usteps now S e S' ch ad :
  SInv S -> set_silence x now S e = Some (S', ch, ad) -> okrec e ->
  (forall p, st S !! m_id e = Some p -> sil_state (m_sil p) now <> SExpired) ->
  usteps now S S'.
Proof.
  intros HS Hset Hok Hloc. assert (HI' : Inv x S') by (eapply set_silence_inv; [apply HS|exact Hset|apply Hok]).
  revert Hset HI'. rewrite set_silence_spec. destruct Hok as (Hc & Hm & Hms). rewrite Hm. cbn [negb]. cbn zeta.
  intros [= <- _ _].
  destruct (mad (st_merge now (st S) e)) eqn:Had.
  - pose proof (st_merge_added _ _ _ Had) as [Hnone _]. rewrite (st_merge_added_eq _ _ _ Had).
    intros HI'. apply usteps_one; [|exact HI']. apply us_add; [exact Hnone|repeat split; assumption].
  - destruct (st_merge_not_added_eq _ _ _ Had) as [->|(p & Hp & ->)].
    + rewrite with_st_id. intros _. constructor.
    + intros HI'. apply usteps_one; [|exact HI']. eapply us_local; [exact Hp|apply Hloc; exact Hp|repeat split; assumption].
Qed.

Lemma merge_one_usteps now ov S n e : SInv S -> okrec e -> usteps now S (fst (merge_one x now ov (S, n) e)).
Proof.
  intros HS Hok. assert (HI' : Inv x (fst (merge_one x now ov (S, n) e))).
  { apply merge_one_inv; [apply HS|split; apply Hok]. }
  revert HI'. unfold merge_one, st_merge. destruct (m_exp e <? now).
  - cbn. rewrite with_st_id. intros _. constructor.
  - destruct (st S !! m_id e) as [p|] eqn:Hp.
    + destruct (m_upd p <? m_upd e); cbn.
      * intros HI'. apply usteps_one; [|exact HI']. eapply us_merge; eauto.
      * rewrite with_st_id. intros _. constructor.
    + cbn. intros HI'. apply usteps_one; [|exact HI']. apply us_add; assumption.
Qed.

Lemma merge_fold_usteps now ov es : forall S n,
  SInv S -> Forall okrec es -> usteps now S (fst (foldl (merge_one x now ov) (S, n) es)).
Proof.
  induction es as [|e es IH]; intros S n HS Hf; [constructor|]. apply Forall_cons in Hf as [He Hf]. cbn [foldl].
  destruct (merge_one x now ov (S, n) e) as [S1 n1] eqn:E.
  pose proof (merge_one_usteps now ov S n e HS He) as H1. rewrite E in H1. cbn [fst] in H1.
  eapply usteps_trans; [exact H1|]. apply IH; [eapply usteps_sinv; eauto|exact Hf].
Qed.

Lemma merge_op_usteps now S batch order blen :
  SInv S -> Forall okrec (decoded batch order) -> usteps now S (fst (merge_op x now S batch order blen)).
Proof.
  intros HS Hf. unfold merge_op, decoded in *. destruct (decode_batch batch ∅) as [m|]; [|constructor].
  destruct (foldl _ _ _) as [S' n] eqn:E. cbn [fst]. change S' with (fst (S', n)). rewrite <- E.
  apply merge_fold_usteps; assumption.
Qed.

Lemma expired_version_okrec c p now : okrec p -> m_id p = m_id p -> okrec (mesh c (expired_version (m_sil p) now)).
Proof.
  intros (Hc & Hm & Hms) _. unfold okrec, mesh, m_id. cbn [m_sil].
  rewrite expired_version_ms, expired_version_marshal, expired_version_id. auto.
Qed.

Lemma stored_okrec S k p : SInv S -> st S !! k = Some p -> okrec p.
Proof.
  intros HS Hp. repeat split.
  - apply (inv_comp _ _ (si_inv _ HS) _ _ Hp).
  - apply (inv_marshal _ _ (si_inv _ HS) _ _ Hp).
  - rewrite (inv_key _ _ (si_inv _ HS) _ _ Hp). apply (si_ms _ HS _ _ Hp).
Qed.

Lemma expire_usteps c now S id S' bc : SInv S -> expire c x now S id = Ok (S', bc) -> usteps now S S'.
Proof.
  intros HS. unfold expire. destruct (st S !! id) as [p|] eqn:Hp; [|discriminate].
  pose proof (inv_key _ _ (si_inv _ HS) _ _ Hp) as Hid.
  destruct (sil_state (m_sil p) now) eqn:Est.
  3: { intros [= <- _]. constructor. }
  all: destruct (set_silence x now S (mesh c (expired_version (m_sil p) now))) as [[[S1 ch] ad]|] eqn:Hset; [|discriminate];
    intros [= <- _]; eapply set_silence_usteps; [exact HS|exact Hset| |].
  all: try (apply expired_version_okrec; [eapply stored_okrec; eauto|reflexivity]).
  all: intros q Hq; unfold m_id, mesh in Hq; cbn [m_sil] in Hq; rewrite expired_version_id in Hq;
    fold (m_id p) in Hq; rewrite Hid, Hp in Hq; injection Hq as <-; rewrite Est; discriminate.
Qed.

Lemma expire_fresh c now S id S' bc k : SInv S -> expire c x now S id = Ok (S', bc) -> st S !! k = None -> st S' !! k = None.
Proof.
  intros HS. unfold expire. destruct (st S !! id) as [p|] eqn:Hp; [|discriminate].
  pose proof (inv_key _ _ (si_inv _ HS) _ _ Hp) as Hid.
  destruct (sil_state (m_sil p) now) eqn:Est.
  3: { intros [= <- _] Hk. exact Hk. }
  all: destruct (set_silence x now S (mesh c (expired_version (m_sil p) now))) as [[[S1 ch] ad]|] eqn:Hset; [|discriminate];
    intros [= <- _] Hk; apply set_silence_st in Hset as (Hst & _ & _); rewrite Hst, st_merge_lookup;
    destruct (decide _) as [Heq|Hne]; [|exact Hk];
    exfalso; unfold m_id, mesh in Heq; cbn [m_sil] in Heq; rewrite expired_version_id in Heq; fold (m_id p) in Heq;
    rewrite Hid in Heq; subst k; congruence.
Qed.

Lemma expire_op_usteps c now S id : SInv S -> usteps now S (fst (expire_op c x now S id)).
Proof.
  intros HS. unfold expire_op. destruct (expire c x now S id) as [[S' bc]|code|] eqn:E; cbn [fst]; try constructor.
  eapply expire_usteps; eauto.
Qed.

Lemma can_update_ms a b now : can_update a b now = true -> s_ms a = s_ms b.
Proof. unfold can_update. intros H. apply andb_true_iff in H as [H _]. apply (proj1 (beq_true _ _)) in H. exact H. Qed.

Lemma can_update_not_expired a b now : can_update a b now = true -> sil_state a now <> SExpired.
Proof.
  unfold can_update. intros H. apply andb_true_iff in H as [_ H]. destruct (sil_state a now); [discriminate..|discriminate H].
Qed.

Lemma norm_ms s now : s_ms (norm s now) = s_ms s.
Proof. unfold norm. destruct (_ =? _); reflexivity. Qed.
Lemma norm_id s now : s_id (norm s now) = s_id s.
Proof. unfold norm. destruct (_ =? _); reflexivity. Qed.

Lemma set_op_usteps c now S s0 fresh sz :
  SInv S -> st S !! fresh = None -> s_ms s0 = msf fresh -> usteps now S (fst (set_op c x now S s0 fresh sz)).
Proof.
  intros HS Hfresh Hmsf. rewrite set_op_eq. cbn zeta. set (s := norm s0 now).
  destruct (negb (validate x s)) eqn:Hval; [constructor|]. apply negb_false_iff in Hval.
  pose proof (validate_compiles _ _ Hval) as Hcomp.
  assert (Hcreate : forall prev, (forall p, prev = Some p -> st S !! m_id p = Some p) ->
            usteps now S (fst (create_path c x now S s prev fresh sz))).
  { intros prev Hprev. unfold create_path. destruct (over_count c S); [constructor|].
    destruct (over_size c sz); [constructor|].
    destruct (negb (marshal_ok x _)) eqn:Hmar; [constructor|]. apply negb_false_iff in Hmar.
    set (e := mesh c (created_version s fresh now)) in *.
    assert (Hoke : okrec e).
    { split; [|split]; [exact Hcomp|exact Hmar|]. change (s_ms (m_sil e)) with (s_ms s). change (m_id e) with fresh.
      unfold s. rewrite norm_ms. exact Hmsf. }
    assert (Hide : m_id e = fresh) by reflexivity.
    assert (Hfin : forall S1, SInv S1 -> st S1 !! fresh = None -> usteps now S S1 ->
              usteps now S (fst (match set_silence x now S1 e with
                                 | None => (S1, RErr "marshal")
                                 | Some (S2, changed, _) => (S2, RSetOk fresh (if changed then [e] else []))
                                 end))).
    { intros S1 HS1 Hf1 H01. destruct (set_silence x now S1 e) as [[[S2 ch] ad]|] eqn:Hset; cbn [fst]; [|exact H01].
      eapply usteps_trans; [exact H01|]. eapply set_silence_usteps; [exact HS1|exact Hset|exact Hoke|].
      intros q Hq. rewrite Hide, Hf1 in Hq. discriminate. }
    destruct prev as [p|].
    - specialize (Hprev p eq_refl). destruct (sil_state (m_sil p) now) eqn:Est.
      3: { specialize (Hfin S HS Hfresh (uss_refl _ _)).
           destruct (set_silence x now S e) as [[[S2 ch] ad]|]; cbn [fst] in *; exact Hfin. }
      all: destruct (expire c x now S (m_id p)) as [[S1 bc1]|code|] eqn:Hexp; cbn [fst]; try constructor.
      all: pose proof (expire_usteps _ _ _ _ _ _ HS Hexp) as H01.
      all: pose proof (expire_fresh _ _ _ _ _ _ _ HS Hexp Hfresh) as Hf1.
      all: specialize (Hfin S1 (usteps_sinv _ _ _ HS H01) Hf1 H01).
      all: destruct (set_silence x now S1 e) as [[[S2 ch] ad]|]; cbn [fst] in *; exact Hfin.
    - specialize (Hfin S HS Hfresh (uss_refl _ _)).
      destruct (set_silence x now S e) as [[[S2 ch] ad]|]; cbn [fst] in *; exact Hfin. }
  destruct (st S !! s_id s) as [p|] eqn:Hp.
  - destruct (can_update (m_sil p) s now) eqn:Hcu.
    + unfold update_path. destruct (over_size c sz); [constructor|].
      set (e := mesh c (with_times s (s_start s) (s_end s) now)).
      destruct (set_silence x now S e) as [[[S' ch] ad]|] eqn:Hset; cbn [fst]; [|constructor].
      assert (Hide : m_id e = s_id s) by reflexivity.
      assert (Hmar : marshal_ok x (m_sil e) = true).
      { destruct (marshal_ok x (m_sil e)) eqn:E; [reflexivity|]. rewrite set_silence_spec, E in Hset. discriminate. }
      eapply set_silence_usteps; [exact HS|exact Hset| |].
      * repeat split; [exact Hcomp|exact Hmar|]. rewrite Hide. cbn.
        rewrite <- (can_update_ms _ _ _ Hcu). apply (si_ms _ HS _ _ Hp).
      * intros q Hq. rewrite Hide, Hp in Hq. injection Hq as <-. eapply can_update_not_expired; eauto.
    + apply Hcreate. intros q [= <-]. rewrite (inv_key _ _ (si_inv _ HS) _ _ Hp). exact Hp.
  - destruct (negb (String.eqb (s_id s) "")); [constructor|]. apply Hcreate. intros q H; discriminate.
Qed.


(* ---------- D2. GC and restart ---------- *)

Lemma gc_sinv now S : SInv S -> SInv (fst (gc_op now S)).
Proof.
  intros HS. pose proof (si_inv _ HS) as HI.
  destruct (gc_op_spec now S (inv_key _ _ HI)) as (H1 & H2 & H3 & H4).
  constructor.
  - apply gc_preserves_inv. exact HI.
  - rewrite H3. apply vsorted_filter. apply (si_sorted _ HS).
  - rewrite H3. apply Forall_forall. intros sv Hin. apply elem_of_list_filter in Hin as [_ Hin].
    pose proof (si_pos _ HS) as Hf. rewrite Forall_forall in Hf. apply Hf. exact Hin.
  - rewrite H4. apply (si_ver _ HS).
  - intros k e He. rewrite H1 in He. rewrite H2. destruct (gc_dead _ _ _ _); [discriminate|]. cbn.
    apply (si_mi _ HS _ _ He).
  - intros k e He. rewrite H1 in He. destruct (gc_dead _ _ _ _); [discriminate|]. apply (si_ms _ HS _ _ He).
Qed.

Lemma gc_ci now S t ls e : SInv S -> CI S t ls e -> CI (fst (gc_op now S)) t ls e.
Proof.
  intros HS [C1 C2 C3]. pose proof (si_inv _ HS) as HI.
  destruct (gc_op_spec now S (inv_key _ _ HI)) as (H1 & H2 & H3 & H4).
  constructor; [rewrite H4; exact C1| |exact C3].
  intros k p Hp Hm Hs. rewrite H1 in Hp. destruct (gc_dead now (st S) (map snd (vi S)) k) eqn:Hd; [discriminate|].
  destruct (C2 k p Hp Hm Hs) as [?|(vv & Hin & Hlt)]; [left; assumption|right]. exists vv. split; [|exact Hlt].
  rewrite H3. apply elem_of_list_filter. split; [|exact Hin]. cbn.
  unfold gc_dead in Hd. rewrite bool_decide_eq_true_2 in Hd.
  - cbn in Hd. apply negb_false_iff in Hd. exact Hd.
  - apply elem_of_list_fmap. exists (vv, k). split; [reflexivity|exact Hin].
Qed.

Lemma vsorted_const {A} (v : Z) (f : A -> string) l : vsorted (map (fun e => (v, f e)) l).
Proof.
  induction l as [|a r IH]; [exact I|]. cbn. split; [|exact IH].
  apply Forall_forall. intros b Hb. apply elem_of_list_fmap in Hb as (e & -> & _). cbn. lia.
Qed.

Lemma foldl_insert_ms (m : gmap string msil) k e es : forall m0 : gmap string (list (list matcher)),
  (forall e', e' ∈ es -> m !! m_id e' = Some e') -> m !! k = Some e ->
  m0 !! k = Some (s_ms (m_sil e)) \/ k ∈ map m_id es ->
  foldl (fun a e => <[m_id e := s_ms (m_sil e)]> a) m0 es !! k = Some (s_ms (m_sil e)).
Proof.
  induction es as [|e' r IH]; intros m0 Hall Hk H.
  - destruct H as [H|H]; [exact H|inversion H].
  - cbn [foldl]. apply IH; [intros e'' Hin; apply Hall; right; exact Hin|exact Hk|].
    destruct (decide (m_id e' = k)) as [Heq|Hne].
    + left. rewrite Heq, lookup_insert. pose proof (Hall e' ltac:(left)) as He'. rewrite Heq, Hk in He'.
      injection He' as ->. reflexivity.
    + destruct H as [H|H].
      * left. rewrite lookup_insert_ne by exact Hne. exact H.
      * cbn [map] in H. apply elem_of_cons in H as [H|H]; [congruence|right; exact H].
Qed.

Lemma reload_sinv S order : SInv S -> exists S', reload_op x S order = (S', RReloaded) /\ SInv S' /\ st S' = st S.
Proof.
  intros HS. pose proof (si_inv _ HS) as HI.
  destruct (reload_spec x S order HI) as (S' & Hr & Hst & HI' & Hv).
  exists S'. split; [exact Hr|]. split; [|exact Hst].
  revert Hr. unfold reload_op, load_snapshot. rewrite (decode_snapshot S (inv_key _ _ HI)).
  destruct (ordered_vals_spec order (st S) (inv_key _ _ HI)) as [Hids Hvals].
  destruct (ordered_ids_spec order (st S)) as [Hnd Hin].
  assert (Hc : Forall (fun e => compiles x (s_ms (m_sil e)) = true) (ordered_vals order (st S))).
  { apply Forall_forall. intros e He. apply (inv_comp _ _ HI _ _ (Hvals e He)). }
  rewrite load_fold by exact Hc. intros [= HS']. subst S'. cbn [st mi vi ver empty_store app] in *.
  constructor; cbn [st mi vi ver]; [exact HI'| | | | |].
  - apply vsorted_const.
  - apply Forall_forall. intros sv Hsv. apply elem_of_list_fmap in Hsv as (e & -> & _). cbn. lia.
  - lia.
  - intros k e He. apply (foldl_insert_ms (st S)); [exact Hvals|exact He|]. right. rewrite Hids. apply Hin. rewrite He. eauto.
  - apply (si_ms _ HS).
Qed.

(* ---------- E. the two queries of Mutes ---------- *)

Lemma ap_states_iff s now : sil_state s now ∈ ap_states <-> sil_state s now <> SExpired.
Proof.
  unfold ap_states. destruct (sil_state s now); split; intros H; try congruence.
  - right. left.
  - left.
  - apply elem_of_cons in H as [H|H]; [discriminate|]. apply elem_of_cons in H as [H|H]; [discriminate|inversion H].
Qed.

Lemma read_old_spec S now ids :
  exists l, read_old x S now ids = Some l /\
    forall s, s ∈ l <-> exists k e, k ∈ ids /\ st S !! k = Some e /\ m_sil e = s /\ sil_state s now <> SExpired.
Proof.
  destruct ids as [|id ids].
  - exists []. split; [reflexivity|]. intros s. split; [intros H; inversion H|intros (k & e & H & _); inversion H].
  - unfold read_old, query_op. cbn [build_query q_ids q_since q_filters app].
    rewrite scan_state by auto. eexists. split; [reflexivity|]. intros s. rewrite elem_of_list_omap. split.
    + intros (k & Hk & Hs). destruct (st S !! k) as [e|] eqn:He; [|discriminate].
      unfold in_states in Hs. destruct (bool_decide _) eqn:Hb; [|discriminate]. injection Hs as <-.
      apply bool_decide_eq_true in Hb. apply ap_states_iff in Hb. exists k, e. auto.
    + intros (k & e & Hk & He & <- & Hs). exists k. split; [exact Hk|]. rewrite He. unfold in_states.
      rewrite bool_decide_eq_true_2 by (apply ap_states_iff; exact Hs). reflexivity.
Qed.

Lemma scan_state_matches S now sts ls ids :
  SInv S -> (forall k, k ∈ ids -> is_Some (st S !! k)) ->
  scan x S now [FState sts; FMatches ls] false ids =
  Ok (omap (fun k => match st S !! k with
                     | Some e => if in_states sts now (m_sil e) && mset_matches (x_re x) (s_ms (m_sil e)) ls
                                 then Some (m_sil e) else None
                     | None => None end) ids).
Proof.
  intros HS. induction ids as [|k ids IH]; intros H; [reflexivity|]. cbn [scan].
  destruct (H k ltac:(left)) as [e He]. rewrite He. cbn [passes].
  assert (Hid : s_id (m_sil e) = k) by (apply (inv_key _ _ (si_inv _ HS) _ _ He)).
  rewrite Hid, (si_mi _ HS _ _ He). rewrite IH by (intros; apply H; right; assumption).
  cbn. rewrite He. unfold in_states. destruct (bool_decide _); cbn; [|reflexivity].
  destruct (mset_matches _ _ _); reflexivity.
Qed.

Lemma read_new_spec S now v ls :
  SInv S ->
  exists l, read_new x S now v ls = Some (l, ver S) /\
    forall s, s ∈ l <-> exists k e vv, (vv, k) ∈ vi S /\ v < vv /\ st S !! k = Some e /\ m_sil e = s /\
                                      sil_state s now <> SExpired /\ matches_ls k ls = true.
Proof.
  intros HS. unfold read_new, query_op. cbn [build_query q_ids q_since q_filters app].
  assert (Hall : forall k, k ∈ map snd (vi_since v (vi S)) -> is_Some (st S !! k)).
  { intros k Hk. apply elem_of_list_fmap in Hk as ([vv k'] & -> & Hin). cbn.
    apply (vi_since_spec _ _ (si_sorted _ HS)) in Hin as [Hin _]. apply (inv_vi _ _ (si_inv _ HS)).
    apply elem_of_list_fmap. exists (vv, k'). auto. }
  rewrite scan_state_matches by assumption. eexists. split; [reflexivity|]. intros s. rewrite elem_of_list_omap. split.
  - intros (k & Hk & Hs). apply elem_of_list_fmap in Hk as ([vv k'] & -> & Hin). cbn in Hs.
    apply (vi_since_spec _ _ (si_sorted _ HS)) in Hin as [Hin Hlt]. cbn in Hlt.
    destruct (st S !! k') as [e|] eqn:He; [|discriminate].
    destruct (in_states ap_states now (m_sil e)) eqn:Hst; [|discriminate].
    destruct (mset_matches (x_re x) (s_ms (m_sil e)) ls) eqn:Hmt; [|discriminate]. injection Hs as <-.
    exists k', e, vv. repeat split; try assumption.
    + unfold in_states in Hst. apply bool_decide_eq_true in Hst. apply ap_states_iff. exact Hst.
    + unfold matches_ls. rewrite <- (si_ms _ HS _ _ He). exact Hmt.
  - intros (k & e & vv & Hin & Hlt & He & <- & Hs & Hmt). exists k. split.
    + apply elem_of_list_fmap. exists (vv, k). split; [reflexivity|].
      apply (vi_since_spec _ _ (si_sorted _ HS)). split; [exact Hin|exact Hlt].
    + rewrite He. unfold in_states. rewrite bool_decide_eq_true_2 by (apply ap_states_iff; exact Hs).
      unfold matches_ls in Hmt. rewrite <- (si_ms _ HS _ _ He) in Hmt. rewrite Hmt. reflexivity.
Qed.

(* ---------- dedup by id ---------- *)

Lemma dedup_id_sub l : forall seen s, s ∈ dedup_id seen l -> s ∈ l /\ s_id s ∉ seen.
Proof.
  induction l as [|a r IH]; intros seen s H; [inversion H|]. cbn [dedup_id] in H.
  destruct (bool_decide (s_id a ∈ seen)) eqn:Hb.
  - destruct (IH _ _ H) as [? ?]. split; [right; assumption|assumption].
  - apply bool_decide_eq_false in Hb. apply elem_of_cons in H as [->|H]; [split; [left|exact Hb]|].
    destruct (IH _ _ H) as [? Hn]. split; [right; assumption|]. intros Hin. apply Hn. right. exact Hin.
Qed.

Lemma dedup_id_complete l : forall seen s, s ∈ l -> s_id s ∉ seen -> exists s', s' ∈ dedup_id seen l /\ s_id s' = s_id s.
Proof.
  induction l as [|a r IH]; intros seen s H Hn; [inversion H|]. cbn [dedup_id].
  destruct (bool_decide (s_id a ∈ seen)) eqn:Hb.
  - apply bool_decide_eq_true in Hb. apply elem_of_cons in H as [->|H]; [contradiction|]. apply IH; assumption.
  - apply elem_of_cons in H as [->|H]; [exists a; split; [left|reflexivity]|].
    destruct (decide (s_id s = s_id a)) as [Heq|Hne]; [exists a; split; [left|congruence]|].
    destruct (IH (s_id a :: seen) s H) as (s' & Hin & Hid).
    + intros Hin. apply elem_of_cons in Hin as [?|?]; contradiction.
    + exists s'. split; [right; exact Hin|exact Hid].
Qed.

Lemma dedup_id_nodup l : forall seen, NoDup (map s_id (dedup_id seen l)).
Proof.
  induction l as [|a r IH]; intros seen; [constructor|]. cbn [dedup_id].
  destruct (bool_decide (s_id a ∈ seen)); [apply IH|]. cbn [map]. apply NoDup_cons. split; [|apply IH].
  intros Hin. apply elem_of_list_fmap in Hin as (s' & Heq & Hin). apply dedup_id_sub in Hin as [_ Hn].
  apply Hn. rewrite <- Heq. left.
Qed.

Lemma NoDup_map_filter {A B} (f : A -> B) (P : A -> Prop) `{forall a, Decision (P a)} l :
  NoDup (map f l) -> NoDup (map f (filter P l)).
Proof.
  induction l as [|a r IH]; intros Hn; [constructor|]. cbn [map] in Hn. apply NoDup_cons in Hn as [Hnin Hn].
  rewrite filter_cons. destruct (decide (P a)); [|apply IH; exact Hn]. cbn [map]. apply NoDup_cons. split; [|apply IH; exact Hn].
  intros Hin. apply Hnin. apply elem_of_list_fmap in Hin as (b & -> & Hb). apply elem_of_list_filter in Hb as [_ Hb].
  apply elem_of_list_fmap. eauto.
Qed.

(* ---------- the specification ---------- *)

Definition Brute (S : store) (ls : labels) (now : Z) (k : string) : Prop :=
  exists p, st S !! k = Some p /\ sil_state (m_sil p) now = SActive /\ mset_matches (x_re x) (s_ms (m_sil p)) ls = true.

Lemma brute_ids_spec S ls now k : k ∈ brute_ids x S ls now <-> Brute S ls now k.
Proof.
  unfold brute_ids, Brute. rewrite elem_of_list_fmap. split.
  - intros ([k' p] & -> & Hin). apply elem_of_list_filter in Hin as [Hm Hin]. apply elem_of_map_to_list in Hin.
    cbn in *. exists p. unfold mutes_now, is_active in Hm. apply andb_true_iff in Hm as [Ha Hm].
    apply (proj1 (beq_true _ _)) in Ha. auto.
  - intros (p & Hp & Ha & Hm). exists (k, p). split; [reflexivity|]. apply elem_of_list_filter. split.
    + cbn. unfold mutes_now, is_active. rewrite Ha, Hm. reflexivity.
    + apply elem_of_map_to_list. exact Hp.
Qed.

Lemma brute_ids_nodup S ls now : NoDup (brute_ids x S ls now).
Proof. unfold brute_ids. apply NoDup_map_filter. apply NoDup_fst_map_to_list. Qed.

(* ---------- mutes is correct ---------- *)

Lemma decide_mutes_correct S now ls L nv olds news :
  SInv S -> L = olds ++ news -> nv = ver S ->
  (forall s, s ∈ L -> exists k p, st S !! k = Some p /\ m_sil p = s /\ sil_state s now <> SExpired /\ matches_ls k ls = true) ->
  (forall k p, st S !! k = Some p -> matches_ls k ls = true -> sil_state (m_sil p) now <> SExpired -> m_sil p ∈ L) ->
  exists b ids e', decide_mutes now olds news nv = (e', MOk b ids) /\
    NoDup ids /\ (forall k, k ∈ ids <-> Brute S ls now k) /\ (b = true <-> ids <> []) /\ CI S now ls e'.
Proof.
  intros HS HL Hnv L1 L2. unfold decide_mutes. rewrite <- HL.
  pose proof (inv_key _ _ (si_inv _ HS)) as Hkey.
  destruct L as [|s0 L'] eqn:EL.
  - exists false, [], (mkCE nv []). split; [reflexivity|]. split; [constructor|]. split; [|split].
    + intros k. split; [intros H; inversion H|]. intros (p & Hp & Ha & Hm). exfalso.
      assert (Hin : m_sil p ∈ []).
      { apply (L2 k p Hp); [unfold matches_ls; rewrite <- (si_ms _ HS _ _ Hp); exact Hm|rewrite Ha; discriminate]. }
      inversion Hin.
    + split; [discriminate|congruence].
    + constructor; cbn; [lia| |intros k H; inversion H].
      intros k p Hp Hm Hs. exfalso. specialize (L2 k p Hp Hm Hs). inversion L2.
  - rewrite <- EL in *. clear EL s0 L'. set (all := dedup_id [] L).
    assert (A1 : forall s, s ∈ all <-> s ∈ L).
    { intros s. split; [intros H; apply dedup_id_sub in H as [H _]; exact H|]. intros Hin.
      destruct (dedup_id_complete L [] s Hin) as (s' & Hin' & Hid); [intros H; inversion H|].
      replace s with s'; [exact Hin'|].
      destruct (L1 s Hin) as (k & p & Hp & <- & _). pose proof (dedup_id_sub _ _ _ Hin') as [HinL _].
      destruct (L1 s' HinL) as (k' & p' & Hp' & <- & _).
      change (s_id (m_sil p')) with (m_id p') in Hid. change (s_id (m_sil p)) with (m_id p) in Hid.
      rewrite (Hkey _ _ Hp), (Hkey _ _ Hp') in Hid. subst k'. congruence. }
    assert (A2 : NoDup (map s_id all)) by apply dedup_id_nodup.
    eexists _, _, _. split; [reflexivity|]. split; [apply NoDup_map_filter; exact A2|]. split; [|split].
    + intros k. rewrite elem_of_list_fmap. split.
      * intros (s & -> & Hin). apply elem_of_list_filter in Hin as [Ha Hin]. apply A1 in Hin.
        destruct (L1 s Hin) as (k & p & Hp & <- & Hs & Hm). unfold is_active in Ha. apply (proj1 (beq_true _ _)) in Ha.
        change (s_id (m_sil p)) with (m_id p). rewrite (Hkey _ _ Hp). exists p. split; [exact Hp|]. split; [exact Ha|].
        rewrite (si_ms _ HS _ _ Hp). exact Hm.
      * intros (p & Hp & Ha & Hm). exists (m_sil p). split; [symmetry; apply (Hkey _ _ Hp)|].
        apply elem_of_list_filter. split; [unfold is_active; rewrite Ha; reflexivity|]. apply A1.
        apply (L2 k p Hp); [unfold matches_ls; rewrite <- (si_ms _ HS _ _ Hp); exact Hm|rewrite Ha; discriminate].
    + destruct (map s_id (filter _ all)); split; congruence.
    + constructor; cbn [ce_ver ce_ids]; [lia| |].
      * intros k p Hp Hm Hs. left. apply elem_of_list_fmap. exists (m_sil p). split; [symmetry; apply (Hkey _ _ Hp)|].
        apply elem_of_list_filter. split; [|apply A1; apply (L2 k p Hp Hm Hs)].
        unfold not_expired_b. destruct (sil_state (m_sil p) now); [reflexivity..|congruence].
      * intros k Hk. apply elem_of_list_fmap in Hk as (s & -> & Hin). apply elem_of_list_filter in Hin as [_ Hin].
        apply A1 in Hin. destruct (L1 s Hin) as (k & p & Hp & <- & _ & Hm).
        change (s_id (m_sil p)) with (m_id p). rewrite (Hkey _ _ Hp). exact Hm.
Qed.

Theorem mutes_correct S now C ls :
  SInv S -> CI S now ls (C ls) ->
  exists b ids C', mutes x S now C ls = (C', MOk b ids) /\
    NoDup ids /\ (forall k, k ∈ ids <-> Brute S ls now k) /\ (b = true <-> ids <> []) /\
    CI S now ls (C' ls) /\ (forall ls', ls' <> ls -> C' ls' = C ls').
Proof.
  intros HS HC. pose proof HC as [C1 C2 C3]. unfold mutes, mutes_at.
  assert (Hnov : forall k vv, (vv, k) ∈ vi S -> ver S < vv -> False).
  { intros k vv Hin Hlt. pose proof (inv_ver _ _ (si_inv _ HS)) as Hf. rewrite Forall_forall in Hf.
    specialize (Hf _ Hin). cbn in Hf. lia. }
  destruct (ce_ids (C ls)) as [|id0 ids0] eqn:Eids; [destruct (ce_ver (C ls) =? ver S) eqn:Eup|].
  - (* very fast path *)
    apply Z.eqb_eq in Eup. exists false, [], C. split; [reflexivity|]. split; [constructor|]. split; [|split; [|split]].
    + intros k. split; [intros H; inversion H|]. intros (p & Hp & Ha & Hm). exfalso.
      destruct (C2 k p Hp) as [Hin|(vv & Hin & Hlt)].
      * unfold matches_ls. rewrite <- (si_ms _ HS _ _ Hp). exact Hm.
      * rewrite Ha. discriminate.
      * try rewrite Eids in Hin. inversion Hin.
      * apply (Hnov k vv Hin). lia.
    + split; [discriminate|congruence].
    + exact HC.
    + reflexivity.
  - (* no cached ids, new silences since the cached version *)
    cbn [read_old]. destruct (read_new_spec S now (ce_ver (C ls)) ls HS) as (news & -> & Hnews).
    destruct (decide_mutes_correct S now ls ([] ++ news) (ver S) [] news HS eq_refl eq_refl) as (b & ids & e' & Hd & Hrest).
    + intros s Hs. cbn in Hs. apply Hnews in Hs as (k & e & vv & _ & _ & He & <- & Hs & Hm). exists k, e. auto.
    + intros k p Hp Hm Hs. cbn. apply Hnews. destruct (C2 k p Hp Hm Hs) as [Hin|(vv & Hin & Hlt)].
      * try rewrite Eids in Hin. inversion Hin.
      * exists k, p, vv. repeat split; assumption.
    + rewrite Hd. exists b, ids, (cache_set C ls e'). split; [reflexivity|].
      destruct Hrest as (R1 & R2 & R3 & R4). split; [exact R1|]. split; [exact R2|]. split; [exact R3|]. split.
      * unfold cache_set. rewrite decide_True by reflexivity. exact R4.
      * intros ls' Hne. unfold cache_set. rewrite decide_False by exact Hne. reflexivity.
  - (* cached ids *)
    destruct (read_old_spec S now (id0 :: ids0)) as (olds & -> & Holds).
    assert (Hnew : exists news nv, (if ce_ver (C ls) =? ver S then Some ([], ce_ver (C ls)) else read_new x S now (ce_ver (C ls)) ls)
                                   = Some (news, nv) /\ nv = ver S /\
              (forall s, s ∈ news -> exists k p, st S !! k = Some p /\ m_sil p = s /\ sil_state s now <> SExpired /\ matches_ls k ls = true) /\
              (forall k p vv, st S !! k = Some p -> matches_ls k ls = true -> sil_state (m_sil p) now <> SExpired ->
                              (vv, k) ∈ vi S -> ce_ver (C ls) < vv -> m_sil p ∈ news)).
    { destruct (ce_ver (C ls) =? ver S) eqn:Eup.
      - apply Z.eqb_eq in Eup. exists [], (ce_ver (C ls)). split; [reflexivity|]. split; [exact Eup|]. split.
        + intros s H; inversion H.
        + intros k p vv _ _ _ Hin Hlt. exfalso. apply (Hnov k vv Hin). lia.
      - destruct (read_new_spec S now (ce_ver (C ls)) ls HS) as (news & Hr & Hnews). exists news, (ver S).
        split; [exact Hr|]. split; [reflexivity|]. split.
        + intros s Hs. apply Hnews in Hs as (k & e & vv & _ & _ & He & <- & Hs & Hm). exists k, e. auto.
        + intros k p vv Hp Hm Hs Hin Hlt. apply Hnews. exists k, p, vv. repeat split; assumption. }
    destruct Hnew as (news & nv & -> & Hnv & N1 & N2).
    destruct (decide_mutes_correct S now ls (olds ++ news) nv olds news HS eq_refl Hnv) as (b & ids & e' & Hd & Hrest).
    + intros s Hs. apply elem_of_app in Hs as [Hs|Hs]; [|apply N1; exact Hs].
      apply Holds in Hs as (k & e & Hk & He & <- & Hs). exists k, e. repeat split; try assumption.
      apply C3. try rewrite Eids. exact Hk.
    + intros k p Hp Hm Hs. apply elem_of_app. destruct (C2 k p Hp Hm Hs) as [Hin|(vv & Hin & Hlt)].
      * left. apply Holds. exists k, p. try rewrite Eids in Hin. auto.
      * right. eapply N2; eauto.
    + rewrite Hd. exists b, ids, (cache_set C ls e'). split; [reflexivity|].
      destruct Hrest as (R1 & R2 & R3 & R4). split; [exact R1|]. split; [exact R2|]. split; [exact R3|]. split.
      * unfold cache_set. rewrite decide_True by reflexivity. exact R4.
      * intros ls' Hne. unfold cache_set. rewrite decide_False by exact Hne. reflexivity.
Qed.


(* ---------- F. histories ---------- *)

(* hypotheses on one store operation: uuid uniqueness and "one matcher-set list per id" for Set / POST, well-formed
   (compiling, marshallable, matchers of their id) records for Merge. A store restart WITHOUT a new Silencer is not
   something the program does (CReload is the restart). *)
Definition wf_sop (S : store) (o : op) : Prop :=
  match o with
  | OSet s fresh _ | OApiPost s fresh _ => st S !! fresh = None /\ s_ms s = msf fresh
  | OMerge b order _ => Forall okrec (decoded b order)
  | OReload _ => False
  | _ => True
  end.

(* every store operation keeps SInv and keeps ANY valid cache entry valid (also one not yet written: late write) *)
Lemma store_step_inv c S t now o :
  SInv S -> t <= now -> wf_sop S o ->
  SInv (fst (step c x S now o)) /\
  forall ls e, CI S t ls e -> CI (fst (step c x S now o)) now ls e.
Proof.
  intros HS Hle Hwf.
  assert (Hchain : forall S', usteps now S S' -> SInv S' /\ forall ls e, CI S t ls e -> CI S' now ls e).
  { intros S' Hu. split; [eapply usteps_sinv; eauto|]. intros ls e HC. eapply usteps_ci; eauto. eapply ci_time; eauto. }
  assert (Hsame : SInv S /\ forall ls e, CI S t ls e -> CI S now ls e).
  { split; [exact HS|]. intros ls e HC. eapply ci_time; eauto. }
  destruct o as [s fresh sz|id|b order blen| |ps|order|s fresh sz|id|id]; cbn [step wf_sop] in *.
  - destruct Hwf as [Hf Hm]. apply Hchain. apply set_op_usteps; assumption.
  - apply Hchain. apply expire_op_usteps. exact HS.
  - apply Hchain. apply merge_op_usteps; assumption.
  - split; [apply gc_sinv; exact HS|]. intros ls e HC. apply gc_ci; [exact HS|]. eapply ci_time; eauto.
  - exact Hsame.
  - contradiction.
  - destruct Hwf as [Hf Hm]. unfold api_post. destruct (_ <=? _); [exact Hsame|]. destruct (_ <? _); [exact Hsame|].
    apply Hchain. apply set_op_usteps; assumption.
  - apply Hchain. apply expire_op_usteps. exact HS.
  - exact Hsame.
Qed.

(* a sequence of store operations at one instant (those injected into a Mutes call) *)
Fixpoint wf_ops (c : cfg) (S : store) (now : Z) (ops : list op) : Prop :=
  match ops with
  | [] => True
  | o :: r => wf_sop S o /\ wf_ops c (fst (step c x S now o)) now r
  end.

Definition wf_cop (c : cfg) (S : store) (now : Z) (o : cop) : Prop :=
  match o with CStore so => wf_sop S so | CMutesI _ _ ops => wf_ops c S now ops | _ => True end.

Definition CInv (t : Z) (SC : store * cache) : Prop :=
  SInv (fst SC) /\ forall ls, CI (fst SC) t ls (snd SC ls).

Lemma brute_perm S ls now ids :
  NoDup ids -> (forall k, k ∈ ids <-> Brute S ls now k) -> ids ≡ₚ brute_ids x S ls now.
Proof.
  intros Hn Hk. apply NoDup_Permutation; [exact Hn|apply brute_ids_nodup|]. intros k. rewrite Hk, brute_ids_spec. reflexivity.
Qed.

Lemma brute_bool S ls now b ids :
  ids ≡ₚ brute_ids x S ls now -> (b = true <-> ids <> []) -> b = brute x S ls now.
Proof.
  intros Hp Hb. unfold brute. destruct (brute_ids x S ls now) as [|k r].
  - apply Permutation_nil_r in Hp. subst ids. destruct b; [|reflexivity]. exfalso. apply (proj1 Hb); reflexivity.
  - destruct ids as [|k' r']; [apply Permutation_nil_l in Hp; discriminate|]. apply Hb. discriminate.
Qed.

(* MUTES = BRUTE in any state that satisfies the invariants *)
Theorem mutes_brute t S C now ls :
  CInv t (S, C) -> t <= now ->
  exists b ids C', mutes x S now C ls = (C', MOk b ids) /\
    b = brute x S ls now /\ ids ≡ₚ brute_ids x S ls now /\ CInv now (S, C').
Proof.
  intros [HS HC] Hle. cbn [fst snd] in *.
  destruct (mutes_correct S now C ls HS (ci_time _ _ _ _ _ (HC ls) Hle)) as (b & ids & C' & Hm & Hn & Hk & Hb & HC' & Hoth).
  exists b, ids, C'. split; [exact Hm|]. pose proof (brute_perm _ _ _ _ Hn Hk) as Hp.
  split; [eapply brute_bool; eauto|]. split; [exact Hp|]. split; [exact HS|]. cbn [fst snd]. intros ls'.
  destruct (decide (ls' = ls)) as [->|Hne]; [exact HC'|]. rewrite (Hoth _ Hne). eapply ci_time; eauto.
Qed.

(* MuteStage: exactly the alerts that brute says are muted are dropped, order kept *)
Theorem mute_stage_correct alerts : forall t S C now,
  CInv t (S, C) -> t <= now ->
  exists C', mute_stage x S now C alerts = (C', Some (filter (fun a => brute x S a now = false) alerts)) /\ CInv now (S, C').
Proof.
  induction alerts as [|a r IH]; intros t S C now HI Hle.
  - exists C. split; [reflexivity|]. destruct HI as [HS HC]. split; [exact HS|]. intros ls. eapply ci_time; eauto.
  - cbn [mute_stage]. destruct (mutes_brute t S C now a HI Hle) as (b & ids & C1 & -> & Hb & _ & HI1).
    destruct (IH now S C1 now HI1 ltac:(lia)) as (C2 & -> & HI2). exists C2. split; [|exact HI2].
    rewrite filter_cons. rewrite <- Hb. destruct b.
    + rewrite decide_False by discriminate. reflexivity.
    + rewrite decide_True by reflexivity. reflexivity.
Qed.

(* the API's alert status (fresh marker + Mutes) *)
Theorem api_status_correct t S C now ls :
  CInv t (S, C) -> t <= now ->
  exists ids C', api_silenced_by x S now C ls = (C', Some ids) /\ ids ≡ₚ brute_ids x S ls now /\ CInv now (S, C').
Proof.
  intros HI Hle. unfold api_silenced_by. destruct (mutes_brute t S C now ls HI Hle) as (b & ids & C' & -> & _ & Hp & HI').
  exists ids, C'. unfold set_silenced. rewrite decide_True by reflexivity. auto.
Qed.

(* ---------- late cache write (the sequentially consistent part of the concurrency claim) ---------- *)

(* store-only histories between the moment an entry is computed and the moment it is written *)
Inductive sreach (c : cfg) : Z -> store -> Z -> store -> Prop :=
| sr_refl t S : sreach c t S t S
| sr_step t S now o t' S' : t <= now -> wf_sop S o -> sreach c now (fst (step c x S now o)) t' S' -> sreach c t S t' S'
| sr_wait t S now t' S' : t <= now -> sreach c now S t' S' -> sreach c t S t' S'.

Lemma sreach_inv c t S t' S' : sreach c t S t' S' -> SInv S ->
  SInv S' /\ forall ls e, CI S t ls e -> CI S' t' ls e.
Proof.
  induction 1 as [t S|t S now o t' S' Hle Hwf _ IH|t S now t' S' Hle _ IH]; intros HS.
  - split; [exact HS|auto].
  - destruct (store_step_inv c S t now o HS Hle Hwf) as [HS1 HC1]. destruct (IH HS1) as [HS' HC']. split; [exact HS'|].
    intros ls e HC. apply HC', HC1, HC.
  - destruct (IH HS) as [HS' HC']. split; [exact HS'|]. intros ls e HC. apply HC'. eapply ci_time; eauto.
Qed.

(* ---------- Mutes interleaved with store operations ---------- *)

Lemma ci_ext S now ls v ids1 ids2 :
  (forall k, k ∈ ids1 <-> k ∈ ids2) -> CI S now ls (mkCE v ids1) -> CI S now ls (mkCE v ids2).
Proof.
  intros Heq [H1 H2 H3]. cbn in *. constructor; cbn; [exact H1| |].
  - intros k p Hp Hm Hs. destruct (H2 k p Hp Hm Hs) as [Hin|Hr]; [left; apply Heq; exact Hin|right; exact Hr].
  - intros k Hk. apply H3. apply Heq. exact Hk.
Qed.

Definition live_at (now : Z) (s : silence) : Prop := sil_state s now <> SExpired.

(* after the Query of the cached ids, (cached version, ids returned) is itself a valid entry *)
Lemma read_old_ci S now ls e :
  SInv S -> CI S now ls e ->
  exists olds, read_old x S now (ce_ids e) = Some olds /\
    CI S now ls (mkCE (ce_ver e) (map s_id olds)) /\ Forall (live_at now) olds.
Proof.
  intros HS [C1 C2 C3]. destruct (read_old_spec S now (ce_ids e)) as (olds & Hr & Hl). exists olds. split; [exact Hr|].
  pose proof (inv_key _ _ (si_inv _ HS)) as Hkey. split.
  - constructor; cbn; [exact C1| |].
    + intros k p Hp Hm Hs. destruct (C2 k p Hp Hm Hs) as [Hin|Hr']; [left|right; exact Hr'].
      apply elem_of_list_fmap. exists (m_sil p). split; [symmetry; apply (Hkey _ _ Hp)|]. apply Hl. exists k, p. auto.
    + intros k Hk. apply elem_of_list_fmap in Hk as (s0 & -> & Hin). apply Hl in Hin as (k & p & Hk & Hp & <- & _).
      change (s_id (m_sil p)) with (m_id p). rewrite (Hkey _ _ Hp). apply C3. exact Hk.
  - apply Forall_forall. intros s0 Hin. apply Hl in Hin as (k & p & _ & _ & <- & Hs). exact Hs.
Qed.

(* after the QSince query, (store version, previous ids + ids returned) is a valid entry *)
Lemma read_new_ci S now ls e :
  SInv S -> CI S now ls e ->
  exists news, read_new x S now (ce_ver e) ls = Some (news, ver S) /\
    CI S now ls (mkCE (ver S) (ce_ids e ++ map s_id news)) /\ Forall (live_at now) news.
Proof.
  intros HS [C1 C2 C3]. destruct (read_new_spec S now (ce_ver e) ls HS) as (news & Hr & Hl). exists news. split; [exact Hr|].
  pose proof (inv_key _ _ (si_inv _ HS)) as Hkey. split.
  - constructor; cbn; [lia| |].
    + intros k p Hp Hm Hs. left. apply elem_of_app. destruct (C2 k p Hp Hm Hs) as [Hin|(vv & Hin & Hlt)]; [left; exact Hin|right].
      apply elem_of_list_fmap. exists (m_sil p). split; [symmetry; apply (Hkey _ _ Hp)|]. apply Hl. exists k, p, vv.
      repeat split; assumption.
    + intros k Hk. apply elem_of_app in Hk as [Hk|Hk]; [apply C3; exact Hk|].
      apply elem_of_list_fmap in Hk as (s0 & -> & Hin). apply Hl in Hin as (k & p & vv & _ & _ & Hp & <- & _ & Hm).
      change (s_id (m_sil p)) with (m_id p). rewrite (Hkey _ _ Hp). exact Hm.
  - apply Forall_forall. intros s0 Hin. apply Hl in Hin as (k & p & vv & _ & _ & _ & <- & Hs & _). exact Hs.
Qed.

(* the entry decide_mutes writes: the given version and, as a set, the ids of everything read (all of it is live at
   the instant of the reads, so the state filter drops nothing) *)
Lemma decide_mutes_entry now olds news nv :
  Forall (live_at now) olds -> Forall (live_at now) news ->
  exists ids r, decide_mutes now olds news nv = (mkCE nv ids, r) /\
    forall k, k ∈ ids <-> k ∈ map s_id olds ++ map s_id news.
Proof.
  intros Ho Hn. unfold decide_mutes. destruct (olds ++ news) as [|s0 L'] eqn:EL.
  - apply app_eq_nil in EL as [-> ->]. exists [], (MOk false []). split; reflexivity.
  - rewrite <- EL. clear EL s0 L'. eexists _, _. split; [reflexivity|]. intros k. rewrite <- map_app.
    assert (HL : Forall (live_at now) (olds ++ news)) by (apply Forall_app; auto). rewrite Forall_forall in HL.
    rewrite !elem_of_list_fmap. split.
    + intros (s0 & -> & Hin). apply elem_of_list_filter in Hin as [_ Hin]. apply dedup_id_sub in Hin as [Hin _]. eauto.
    + intros (s0 & -> & Hin). destruct (dedup_id_complete _ [] s0 Hin) as (s' & Hin' & Hid); [intros H; inversion H|].
      exists s'. split; [symmetry; exact Hid|]. apply elem_of_list_filter. split; [|exact Hin'].
      pose proof (dedup_id_sub _ _ _ Hin') as [HinL _]. specialize (HL _ HinL). unfold live_at in HL. unfold not_expired_b.
      destruct (sil_state s' now); [reflexivity..|congruence].
Qed.

(* THE CACHE INVARIANT SURVIVES ANY INTERLEAVING OF STORE OPERATIONS WITH ONE MUTES CALL (reads at one clock value):
   Cr = cache at the cache read, Sv / So / Sn = store at the Version() read / at the Query of the cached ids / at the
   QSince query, (Se, te, Cw) = store, instant and cache at the cache write. Sv is arbitrary: the version comparison
   only selects the branch. *)
Theorem mutes_at_inv now Cr Sv So Sn Cw ls Se te :
  SInv So -> SInv Sn -> CI So now ls (Cr ls) ->
  (forall e, CI So now ls e -> CI Sn now ls e) ->
  (forall e, CI Sn now ls e -> CI Se te ls e) ->
  (forall ls', CI Se te ls' (Cw ls')) ->
  forall ls', CI Se te ls' (fst (mutes_at x now Cr Sv So Sn Cw ls) ls').
Proof.
  intros HSo HSn HC Hon Hne HCw.
  assert (Hslow : forall upto : bool, forall ls',
    CI Se te ls' (fst (match read_old x So now (ce_ids (Cr ls)) with
                       | None => (Cw, MPanic)
                       | Some olds =>
                           match (if upto then Some ([], ce_ver (Cr ls)) else read_new x Sn now (ce_ver (Cr ls)) ls) with
                           | None => (Cw, MPanic)
                           | Some (news, nv) => let '(e', r) := decide_mutes now olds news nv in (cache_set Cw ls e', r)
                           end
                       end) ls')).
  { intros upto ls'. destruct (read_old_ci So now ls (Cr ls) HSo HC) as (olds & -> & HC1 & Holds).
    assert (Hfin : forall news nv, Forall (live_at now) news -> CI Sn now ls (mkCE nv (map s_id olds ++ map s_id news)) ->
              CI Se te ls' (fst (let '(e', r) := decide_mutes now olds news nv in (cache_set Cw ls e', r)) ls')).
    { intros news nv Hnews HC2. destruct (decide_mutes_entry now olds news nv Holds Hnews) as (ids & r & -> & Hids).
      cbn [fst]. unfold cache_set. destruct (decide (ls' = ls)) as [->|Hne']; [|apply HCw].
      apply Hne. eapply ci_ext; [|exact HC2]. intros k. symmetry. apply Hids. }
    destruct upto.
    - apply Hfin; [constructor|]. rewrite app_nil_r. apply Hon. exact HC1.
    - destruct (read_new_ci Sn now ls _ HSn (Hon _ HC1)) as (news & Hr & HC2 & Hnews). cbn [ce_ver ce_ids] in Hr, HC2.
      rewrite Hr. apply Hfin; assumption. }
  intros ls'. unfold mutes_at. destruct (ce_ids (Cr ls)) as [|id0 ids0] eqn:Eids.
  - destruct (ce_ver (Cr ls) =? ver Sv); [apply HCw|]. specialize (Hslow false ls'). try rewrite Eids in Hslow. exact Hslow.
  - specialize (Hslow (ce_ver (Cr ls) =? ver Sv) ls'). try rewrite Eids in Hslow. exact Hslow.
Qed.

Lemma run_store_sreach c now ops : forall S,
  wf_ops c S now ops -> sreach c now S now (run_store c x S (map (fun o => (now, o)) ops)).
Proof.
  induction ops as [|o r IH]; intros S Hwf; [constructor|]. destruct Hwf as [Ho Hr]. cbn [map]. rewrite run_store_cons.
  eapply (sr_step c now S now o); [lia|exact Ho|]. apply IH. exact Hr.
Qed.

(* one step of an instance keeps the invariants *)
Theorem cstep_inv c t SC now o :
  CInv t SC -> t <= now -> wf_cop c (fst SC) now o -> CInv now (fst (cstep c x SC now o)).
Proof.
  intros HI Hle Hwf. destruct SC as [S C]. pose proof HI as [HS HC]. cbn [fst snd] in *.
  assert (Hsame : CInv now (S, C)).
  { split; [exact HS|]. intros ls. eapply ci_time; eauto. }
  destruct o as [so|order|ls|ls pt ops|ls|alerts|fps|]; cbn [cstep fst snd wf_cop] in *.
  4: { (* Mutes with store operations landing inside the call *)
    pose proof (run_store_sreach c now ops S Hwf) as Hr. unfold run_store in Hr.
    destruct (run c x S (map (fun o => (now, o)) ops)) as [S1 outs]. cbn [fst] in Hr.
    destruct (sreach_inv c now S now S1 Hr HS) as [HS1 Hk].
    assert (HCn : forall ls', CI S now ls' (C ls')) by (intros ls'; eapply ci_time; eauto).
    assert (HC1 : forall ls', CI S1 now ls' (C ls')) by (intros ls'; apply Hk, HCn).
    assert (Hgoal : forall Sv So Sn, SInv So -> SInv Sn -> CI So now ls (C ls) ->
              (forall e, CI So now ls e -> CI Sn now ls e) -> (forall e, CI Sn now ls e -> CI S1 now ls e) ->
              CInv now (S1, fst (mutes_at x now C Sv So Sn C ls))).
    { intros Sv So Sn H1 H2 H3 H4 H5. split; [exact HS1|]. cbn [fst snd]. eapply mutes_at_inv; eauto. }
    destruct pt.
    - specialize (Hgoal S1 S1 S1 HS1 HS1 (HC1 ls) (fun e H => H) (fun e H => H)). destruct (mutes_at _ _ _ _ _ _ _ _); exact Hgoal.
    - specialize (Hgoal S S1 S1 HS1 HS1 (HC1 ls) (fun e H => H) (fun e H => H)). destruct (mutes_at _ _ _ _ _ _ _ _); exact Hgoal.
    - specialize (Hgoal S S S1 HS HS1 (HCn ls) (Hk ls) (fun e H => H)). destruct (mutes_at _ _ _ _ _ _ _ _); exact Hgoal.
    - specialize (Hgoal S S S HS HS (HCn ls) (fun e H => H) (Hk ls)). destruct (mutes_at _ _ _ _ _ _ _ _); exact Hgoal. }
  - destruct (store_step_inv c S t now so HS Hle Hwf) as [HS' HC']. destruct (step c x S now so) as [S' y].
    cbn [fst snd] in *. split; [exact HS'|]. intros ls. apply HC'. apply HC.
  - destruct (reload_sinv S order HS) as (S' & -> & HS' & _). cbn [fst snd]. split; [exact HS'|].
    intros ls. apply ci_empty. exact HS'.
  - destruct (mutes_brute t S C now ls HI Hle) as (b & ids & C' & -> & _ & _ & HI'). exact HI'.
  - destruct (api_status_correct t S C now ls HI Hle) as (ids & C' & -> & _ & HI'). exact HI'.
  - destruct (mute_stage_correct alerts t S C now HI Hle) as (C' & -> & HI'). exact HI'.
  - split; [exact HS|]. cbn [fst snd]. intros ls. unfold alert_gc. destruct (bool_decide _); [apply ci_empty; exact HS|].
    eapply ci_time; eauto.
  - exact Hsame.
Qed.

(* a store operation takes effect at the very next Mutes call (same instant or later), whatever the cache held *)
Theorem effect_immediate c t S C now o now' ls :
  CInv t (S, C) -> t <= now -> wf_sop S o -> now <= now' ->
  exists b ids C', mutes x (fst (step c x S now o)) now' C ls = (C', MOk b ids) /\
    b = brute x (fst (step c x S now o)) ls now' /\ ids ≡ₚ brute_ids x (fst (step c x S now o)) ls now'.
Proof.
  intros HI Hle Hwf Hle'. pose proof (cstep_inv c t (S, C) now (CStore o) HI Hle Hwf) as HI1.
  cbn [cstep fst snd] in HI1. destruct (step c x S now o) as [S' y]. cbn [fst] in *.
  destruct (mutes_brute now S' C now' ls HI1 Hle') as (b & ids & C' & Hm & Hb & Hp & _).
  exists b, ids, C'. split; [exact Hm|]. split; [exact Hb|exact Hp].
Qed.

(* what every judged step of a history must produce, given the state before it *)
Definition judged (SC : store * cache) (now : Z) (o : cop) (y : cout) : Prop :=
  match o with
  | CMutes ls => exists b ids cv cids, y = XMutes (MOk b ids) cv cids /\
                   b = brute x (fst SC) ls now /\ ids ≡ₚ brute_ids x (fst SC) ls now
  | CApi ls => exists ids, y = XApi (Some ids) /\ ids ≡ₚ brute_ids x (fst SC) ls now
  | CStage alerts => y = XStage (Some (filter (fun a => brute x (fst SC) a now = false) alerts))
  | _ => True
  end.

Lemma cstep_judged c t SC now o : CInv t SC -> t <= now -> judged SC now o (snd (cstep c x SC now o)).
Proof.
  intros HI Hle. destruct SC as [S C]. destruct o as [so|order|ls|ls pt ops|ls|alerts|fps|]; cbn [judged cstep fst snd]; try exact I.
  - destruct (mutes_brute t S C now ls HI Hle) as (b & ids & C' & -> & Hb & Hp & _). cbn [snd]. eauto 10.
  - destruct (api_status_correct t S C now ls HI Hle) as (ids & C' & -> & Hp & _). cbn [snd]. eauto.
  - destruct (mute_stage_correct alerts t S C now HI Hle) as (C' & -> & _). reflexivity.
Qed.

(* histories: monotone clock, well-formed operations *)
Fixpoint hist_ok (c : cfg) (SC : store * cache) (t : Z) (h : list (Z * cop)) : Prop :=
  match h with
  | [] => True
  | (now, o) :: r => t <= now /\ wf_cop c (fst SC) now o /\ hist_ok c (fst (cstep c x SC now o)) now r
  end.

Fixpoint all_judged (c : cfg) (SC : store * cache) (h : list (Z * cop)) : Prop :=
  match h with
  | [] => True
  | (now, o) :: r => judged SC now o (snd (cstep c x SC now o)) /\ all_judged c (fst (cstep c x SC now o)) r
  end.

Theorem hist_all_judged c h : forall SC t, CInv t SC -> hist_ok c SC t h -> all_judged c SC h.
Proof.
  induction h as [|[now o] r IH]; intros SC t HI Hh; [exact I|]. destruct Hh as (Hle & Hwf & Hr). cbn [all_judged].
  split; [eapply cstep_judged; eauto|]. eapply IH; [|exact Hr]. eapply cstep_inv; eauto.
Qed.

Lemma CInv_init t : CInv t (empty_store, empty_cache).
Proof. split; [apply SInv_empty|]. intros ls. apply ci_empty. apply SInv_empty. Qed.

Theorem hist_final_inv c h : forall SC t, CInv t SC -> hist_ok c SC t h ->
  exists t', CInv t' (fst (crun c x SC h)).
Proof.
  induction h as [|[now o] r IH]; intros SC t HI Hh; [exists t; exact HI|]. destruct Hh as (Hle & Hwf & Hr).
  cbn [crun]. destruct (cstep c x SC now o) as [SC1 y] eqn:E.
  assert (HI1 : CInv now SC1) by (change SC1 with (fst (SC1, y)); rewrite <- E; eapply cstep_inv; eauto).
  change SC1 with (fst (SC1, y)) in Hr. rewrite <- E in Hr. rewrite E in Hr. cbn [fst] in Hr.
  destruct (IH SC1 now HI1 Hr) as (t' & HI'). destruct (crun c x SC1 r) as [SC2 ys]. exists t'. exact HI'.
Qed.

(* ---------- concurrency: one Mutes call against arbitrary store traffic ---------- *)

(* The call starts in a state satisfying the invariants (cache read at (S0, C0)); store operations run before the
   Query of the cached ids (reaching So at instant now), between the two Queries (Sn, same clock value) and after
   them, for as long as one likes (Se at te); whatever the cache holds by then (Cw: other Mutes calls' entries, evicted
   entries) is overwritten for this label set. The invariants hold afterwards, so every later call is exact. *)
Theorem mutes_interleaved_inv c t0 S0 C0 now Sv So Sn te Se Cw ls :
  CInv t0 (S0, C0) ->
  sreach c t0 S0 now So -> sreach c now So now Sn -> sreach c now Sn te Se ->
  (forall ls', CI Se te ls' (Cw ls')) ->
  CInv te (Se, fst (mutes_at x now C0 Sv So Sn Cw ls)).
Proof.
  intros [HS0 HC0] H1 H2 H3 HCw. cbn [fst snd] in *.
  destruct (sreach_inv c _ _ _ _ H1 HS0) as [HSo K1]. destruct (sreach_inv c _ _ _ _ H2 HSo) as [HSn K2].
  destruct (sreach_inv c _ _ _ _ H3 HSn) as [HSe K3]. split; [exact HSe|]. cbn [fst snd].
  apply mutes_at_inv; auto.
Qed.

(* An entry computed by Mutes from an atomic view (S1, t1) of the store may be written arbitrarily late — after any
   number of store operations and over whatever entry the cache then holds for that label set (another Mutes call's,
   or none after an alert GC): the cache invariant still holds. *)
Theorem late_cache_write c t1 S1 C1 ls C1' r t2 S2 C2 :
  CInv t1 (S1, C1) -> mutes x S1 t1 C1 ls = (C1', r) ->
  sreach c t1 S1 t2 S2 -> (forall ls', CI S2 t2 ls' (C2 ls')) ->
  CInv t2 (S2, cache_set C2 ls (C1' ls)).
Proof.
  intros HI Hm Hr HC2. destruct (mutes_brute t1 S1 C1 t1 ls HI ltac:(lia)) as (b & ids & C' & Hm' & _ & _ & [_ HC']).
  rewrite Hm in Hm'. injection Hm' as -> _. cbn [fst snd] in HC'.
  destruct (sreach_inv c t1 S1 t2 S2 Hr (proj1 HI)) as [HS2 Hkeep]. split; [exact HS2|]. cbn [fst snd].
  intros ls'. unfold cache_set. destruct (decide (ls' = ls)) as [->|Hne]; [|apply HC2]. apply Hkeep. apply HC'.
Qed.

End WithOracle.

(* ---------- the defect of the unrepaired Merge (DESIGN F1), kept as a checked witness ---------- *)

(* Merge as it was before /repo commit 5c143bd: a replaced id is not re-indexed *)
Definition merge_one_unfixed (x : ext) (now : Z) (acc : store * nat) (e : msil) : store * nat :=
  let '(T, n) := acc in
  let '(s', merged, added) := st_merge now (st T) e in
  let S1 := with_st T s' in
  if merged then (if added then index_silence x S1 (m_sil e) else S1, S n) else (S1, n).
