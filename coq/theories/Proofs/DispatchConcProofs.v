(* Proofs about Model/DispatchConc.v.
   PART 1 (C14): the ingestion sub-machine. *)
From AM Require Import Base.Prelude Model.DispatchConc.

(* ---------- last_of / sorted_fp ---------- *)

Lemma last_of_in f l a : last_of f l = Some a -> a ∈ l /\ u_fp a = f.
Proof.
  induction l as [|x r IH]; simpl; [discriminate|].
  destruct (last_of f r) as [y|] eqn:E.
  - intros [= <-]. destruct (IH eq_refl) as [H1 H2]. split; [by apply elem_of_list_further|done].
  - case_bool_decide as Hx; [|discriminate]. intros [= <-]. split; [apply elem_of_list_here|done].
Qed.

Lemma last_of_none f l : last_of f l = None <-> (forall b, b ∈ l -> u_fp b <> f).
Proof.
  induction l as [|x r IH]; simpl.
  - split; [intros _ b Hb; by apply elem_of_nil in Hb|done].
  - destruct (last_of f r) as [y|] eqn:E.
    + split; [discriminate|]. intros H. destruct (last_of_in _ _ _ E) as [Hy1 Hy2].
      exfalso. apply (H y); [by apply elem_of_list_further|done].
    + case_bool_decide as Hx.
      * split; [discriminate|]. intros H. exfalso. apply (H x); [apply elem_of_list_here|done].
      * split; [|done]. intros _ b Hb. apply elem_of_cons in Hb as [->|Hb]; [done|].
        destruct IH as [IH _]. by apply IH.
Qed.

Lemma sorted_fp_cons a r :
  sorted_fp (a :: r) = true <->
  (forall b, b ∈ r -> u_fp b = u_fp a -> u_uat a < u_uat b) /\ sorted_fp r = true.
Proof.
  simpl. rewrite andb_true_iff, forallb_forall. split.
  - intros [H1 H2]. split; [|done]. intros b Hb Hf. apply elem_of_list_In in Hb.
    specialize (H1 b Hb). rewrite orb_true_iff, negb_true_iff, bool_decide_eq_false in H1.
    destruct H1 as [H1|H1]; [done|lia].
  - intros [H1 H2]. split; [|done]. intros b Hb. apply elem_of_list_In in Hb.
    rewrite orb_true_iff, negb_true_iff, bool_decide_eq_false.
    destruct (decide (u_fp b = u_fp a)) as [E|E]; [right|by left]. specialize (H1 b Hb E). lia.
Qed.

(* under strictly increasing UpdatedAt the last submitted version is THE version with maximal UpdatedAt *)
Lemma last_of_max f l a :
  sorted_fp l = true -> a ∈ l -> u_fp a = f ->
  (forall b, b ∈ l -> u_fp b = f -> u_uat b <= u_uat a) ->
  last_of f l = Some a.
Proof.
  induction l as [|x r IH]; intros Hs Ha Hf Hmax.
  - by apply elem_of_nil in Ha.
  - apply sorted_fp_cons in Hs as [Hx Hs]. simpl.
    destruct (last_of f r) as [y|] eqn:E.
    + destruct (last_of_in _ _ _ E) as [Hy1 Hy2].
      apply elem_of_cons in Ha as [->|Ha].
      * exfalso. assert (u_uat x < u_uat y) by (apply Hx; [done|congruence]).
        assert (u_uat y <= u_uat x) by (apply Hmax; [by apply elem_of_list_further|done]). lia.
      * apply IH; [done|done|done|]. intros b Hb. apply Hmax. by apply elem_of_list_further.
    + apply elem_of_cons in Ha as [->|Ha].
      * by rewrite bool_decide_eq_true_2.
      * exfalso. destruct (last_of_none f r) as [Hn _]. by apply (Hn E a).
Qed.

(* ---------- pointwise characterisation of the inserts ---------- *)

Lemma pick_idem m o a : pick m (Some (pick m o a)) a = pick m o a.
Proof.
  destruct m, o as [o|]; simpl; try reflexivity.
  - destruct (u_uat a <? u_uat o) eqn:E; simpl; [by rewrite E|]. by rewrite Z.ltb_irrefl.
  - by rewrite Z.ltb_irrefl.
Qed.

Lemma default_lookup (g : gstore) gid f : default ∅ (g !! gid) !! f = glook g gid f.
Proof. unfold glook. destruct (g !! gid); simpl; [done|apply lookup_empty]. Qed.

Lemma glook_ins1 m g a gid gid' f :
  glook (ins1 m g a gid) gid' f =
  if bool_decide (gid' = gid /\ f = u_fp a) then Some (pick m (glook g gid f) a) else glook g gid' f.
Proof.
  unfold ins1. destruct (decide (gid' = gid)) as [->|Hg].
  - unfold glook at 1. rewrite lookup_insert. simpl. unfold store_set.
    destruct (decide (f = u_fp a)) as [->|Hf].
    + rewrite lookup_insert, default_lookup. by rewrite bool_decide_eq_true_2.
    + rewrite lookup_insert_ne by done. rewrite default_lookup.
      rewrite bool_decide_eq_false_2; [done|]. intros [_ ?]. done.
  - unfold glook at 1. rewrite lookup_insert_ne by done.
    rewrite bool_decide_eq_false_2; [done|]. intros [? _]. done.
Qed.

Lemma glook_foldl_ins m a l : forall g gid' f,
  glook (foldl (fun g gid => ins1 m g a gid) g l) gid' f =
  if bool_decide (gid' ∈ l /\ f = u_fp a) then Some (pick m (glook g gid' f) a) else glook g gid' f.
Proof.
  induction l as [|gid l IH]; intros g gid' f; simpl.
  - first [reflexivity | rewrite bool_decide_eq_false_2; [done|]; intros [H _]; by apply elem_of_nil in H].
  - rewrite IH, glook_ins1.
    destruct (decide (f = u_fp a)) as [->|Hf].
    2:{ rewrite !bool_decide_eq_false_2; [done| | |]; intros [_ ?]; done. }
    destruct (decide (gid' = gid)) as [->|Hg].
    + rewrite (bool_decide_eq_true_2 (gid = gid /\ _)) by done.
      rewrite (bool_decide_eq_true_2 (gid ∈ gid :: l /\ _)) by (split; [apply elem_of_list_here|done]).
      case_bool_decide; [by rewrite pick_idem|done].
    + rewrite (bool_decide_eq_false_2 (gid' = gid /\ _)) by (intros [? _]; done).
      case_bool_decide as H1; case_bool_decide as H2; try done.
      * exfalso. apply H2. destruct H1 as [H1 _]. split; [by apply elem_of_list_further|done].
      * exfalso. apply H1. destruct H2 as [H2 _]. apply elem_of_cons in H2 as [?|?]; [done|]. by split.
Qed.

Lemma glook_ins_all m rt g a gid f :
  glook (ins_all m rt g a) gid f =
  if bool_decide (gid ∈ rt (u_fp a) /\ f = u_fp a) then Some (pick m (glook g gid f) a) else glook g gid f.
Proof. unfold ins_all. apply glook_foldl_ins. Qed.

Definition apply_done (m : setmode) (rt : Z -> list Z) (g : gstore) (done : list upd) : gstore :=
  foldl (ins_all m rt) g done.

(* SetIfNotOlder: whatever the insertion order, a group holds a version with maximal UpdatedAt among those inserted *)
Lemma apply_keepnewer_spec rt done : forall g gid f,
  match glook (apply_done KeepNewer rt g done) gid f with
  | Some a => (glook g gid f = Some a \/ (a ∈ done /\ u_fp a = f /\ gid ∈ rt f))
              /\ (forall b, b ∈ done -> u_fp b = f -> gid ∈ rt f -> u_uat b <= u_uat a)
              /\ (forall o, glook g gid f = Some o -> u_uat o <= u_uat a)
  | None => glook g gid f = None /\ (forall b, b ∈ done -> u_fp b = f -> gid ∈ rt f -> False)
  end.
Proof.
  induction done as [|a r IH]; intros g gid f; simpl.
  - destruct (glook g gid f) as [x|] eqn:E.
    + split; [by left|]. split; [intros b Hb; by apply elem_of_nil in Hb|]. intros o [= ->]. lia.
    + split; [done|]. intros b Hb. by apply elem_of_nil in Hb.
  - specialize (IH (ins_all KeepNewer rt g a) gid f). fold (apply_done KeepNewer rt (ins_all KeepNewer rt g a) r).
    rewrite glook_ins_all in IH.
    destruct (glook (apply_done KeepNewer rt (ins_all KeepNewer rt g a) r) gid f) as [x|] eqn:E.
    + destruct IH as (H1 & H2 & H3).
      case_bool_decide as Hc.
      * destruct Hc as [Hrt ->].
        assert (Hpa : u_uat a <= u_uat x).
        { specialize (H3 _ eq_refl). revert H3. simpl. destruct (glook g gid (u_fp a)) as [o|]; [|done].
          destruct (u_uat a <? u_uat o) eqn:El; lia. }
        assert (Hpo : forall o, glook g gid (u_fp a) = Some o -> u_uat o <= u_uat x).
        { intros o Ho. specialize (H3 _ eq_refl). revert H3. simpl. rewrite Ho.
          destruct (u_uat a <? u_uat o) eqn:El; lia. }
        split; [|split].
        -- destruct H1 as [H1|(H1 & H1' & H1'')].
           ++ revert H1. simpl. destruct (glook g gid (u_fp a)) as [o|] eqn:Eo.
              ** destruct (u_uat a <? u_uat o); intros [= <-]; [by left|].
                 right. split; [apply elem_of_list_here|done].
              ** intros [= <-]. right. split; [apply elem_of_list_here|done].
           ++ right. split; [by apply elem_of_list_further|done].
        -- intros b Hb Hf Hr. apply elem_of_cons in Hb as [->|Hb]; [done|]. by apply H2.
        -- done.
      * split; [|split].
        -- destruct H1 as [H1|(H1 & H1' & H1'')]; [by left|]. right. split; [by apply elem_of_list_further|done].
        -- intros b Hb Hf Hr. apply elem_of_cons in Hb as [->|Hb]; [|by apply H2].
           exfalso. apply Hc. split; [by rewrite Hf|done].
        -- done.
    + destruct IH as (H1 & H2).
      case_bool_decide as Hc; [discriminate|].
      split; [done|]. intros b Hb Hf Hr. apply elem_of_cons in Hb as [->|Hb]; [|by eapply H2].
      apply Hc. split; [by rewrite Hf|done].
Qed.

(* Set (unconditional): a group holds the version inserted LAST *)
Lemma apply_uncond_spec rt done : forall g gid f,
  glook (apply_done Unconditional rt g done) gid f =
  if bool_decide (gid ∈ rt f) then match last_of f done with Some a => Some a | None => glook g gid f end
  else glook g gid f.
Proof.
  induction done as [|x r IH]; intros g gid f; simpl.
  - by case_bool_decide.
  - fold (apply_done Unconditional rt (ins_all Unconditional rt g x) r). rewrite IH, glook_ins_all.
    case_bool_decide as Hr; [|].
    + destruct (last_of f r); [done|].
      destruct (decide (u_fp x = f)) as [<-|Hf].
      * rewrite !bool_decide_eq_true_2; done.
      * rewrite !bool_decide_eq_false_2; [done|done|]. intros [_ ?]. done.
    + rewrite bool_decide_eq_false_2; [done|]. intros [? ->]. done.
Qed.

(* ---------- the machine: every update is in the queue, in a slot, or inserted ---------- *)

Definition held (s : ist) : list upd := (map_to_list (i_slots s)).*2.

Definition i_inv (m : setmode) (rt : Z -> list Z) (ups : list upd) (s : ist) : Prop :=
  exists done, ups ≡ₚ done ++ held s ++ i_q s /\ i_groups s = apply_done m rt ∅ done.

Lemma i_inv_init m rt ups : i_inv m rt ups (i_init ups).
Proof. exists []. unfold held. simpl. rewrite map_to_list_empty. done. Qed.

Lemma i_inv_step m W rt ups s w : i_inv m rt ups s -> i_inv m rt ups (i_step m W rt s w).
Proof.
  intros (done & Hp & Hg). unfold i_step.
  destruct (negb (w <? W)%nat); [by exists done|].
  destruct (i_slots s !! w) as [a|] eqn:Ew.
  - exists (done ++ [a]). unfold held in *. simpl. split.
    + rewrite Hp. rewrite <- (insert_delete (i_slots s) w a) at 1 by done.
      rewrite map_to_list_insert by apply lookup_delete. simpl.
      rewrite <- !app_assoc. simpl. apply Permutation_app_head. done.
    + rewrite Hg. unfold apply_done. by rewrite foldl_app.
  - destruct (i_q s) as [|a q] eqn:Eq; [exists done; by rewrite Eq|].
    exists done. unfold held in *. simpl. split; [|done].
    rewrite Hp. rewrite map_to_list_insert by done. simpl.
    apply Permutation_app_head. by rewrite Permutation_middle.
Qed.

Lemma i_inv_exec m W rt ups sched : forall s, i_inv m rt ups s -> i_inv m rt ups (i_exec m W rt sched s).
Proof.
  induction sched as [|w r IH]; intros s H; simpl; [done|]. apply IH. by apply i_inv_step.
Qed.

Lemma i_drained_spec s : i_drained s = true -> i_q s = [] /\ held s = [].
Proof.
  unfold i_drained, held. rewrite andb_true_iff, !bool_decide_eq_true. intros [-> ->]. done.
Qed.

(* C14 (repaired code): for all W, all schedules, all update sequences with strictly increasing UpdatedAt per
   fingerprint, after the queue drained every group the fingerprint routes to holds the last submitted version,
   and no other group holds any version of it *)
Lemma final_is_latest_lemma W rt ups sched gid f :
  sorted_fp ups = true ->
  i_drained (i_exec KeepNewer W rt sched (i_init ups)) = true ->
  glook (i_groups (i_exec KeepNewer W rt sched (i_init ups))) gid f =
  if bool_decide (gid ∈ rt f) then last_of f ups else None.
Proof.
  intros Hs Hd. destruct (i_inv_exec KeepNewer W rt ups sched _ (i_inv_init _ _ _)) as (done & Hp & Hg).
  apply i_drained_spec in Hd as [Hq Hh]. rewrite Hq, Hh in Hp. simpl in Hp. rewrite app_nil_r in Hp.
  rewrite Hg. pose proof (apply_keepnewer_spec rt done ∅ gid f) as H.
  assert (Hemp : glook (∅ : gstore) gid f = None) by (unfold glook; by rewrite lookup_empty).
  destruct (glook (apply_done KeepNewer rt ∅ done) gid f) as [a|] eqn:E.
  - destruct H as (H1 & H2 & _). destruct H1 as [H1|(Ha & Hf & Hr)]; [congruence|].
    rewrite bool_decide_eq_true_2 by done. symmetry. apply last_of_max; [done| |done|].
    + by rewrite Hp.
    + intros b Hb Hbf. apply H2; [|done|done]. by rewrite <- Hp.
  - destruct H as (_ & H2). case_bool_decide as Hr; [|done].
    symmetry. apply last_of_none. intros b Hb Hbf. apply (H2 b); [|done|done]. by rewrite <- Hp.
Qed.

(* ---------- W = 1: inserts happen in submission order, whatever the store does ---------- *)

Definition slot0 (s : ist) : list upd := match i_slots s !! 0%nat with Some a => [a] | None => [] end.

Definition w1_inv (m : setmode) (rt : Z -> list Z) (ups : list upd) (s : ist) : Prop :=
  exists done, ups = done ++ slot0 s ++ i_q s /\ i_groups s = apply_done m rt ∅ done /\
               (forall w, w <> 0%nat -> i_slots s !! w = None).

Lemma w1_inv_step m rt ups s w : w1_inv m rt ups s -> w1_inv m rt ups (i_step m 1 rt s w).
Proof.
  intros (done & Hp & Hg & Hz). unfold i_step.
  destruct (w <? 1)%nat eqn:Ew; simpl; [|by exists done].
  assert (w = 0%nat) as -> by lia.
  unfold slot0 in *. destruct (i_slots s !! 0%nat) as [a|] eqn:E0.
  - exists (done ++ [a]). unfold slot0. simpl. rewrite lookup_delete. split; [by rewrite Hp, <- app_assoc|]. split.
    + rewrite Hg. unfold apply_done. by rewrite foldl_app.
    + intros w Hw. rewrite lookup_delete_ne by done. by apply Hz.
  - destruct (i_q s) as [|a q] eqn:Eq.
    + exists done. unfold slot0. by rewrite E0, Eq.
    + exists done. unfold slot0. simpl. rewrite lookup_insert. split; [by rewrite Hp|]. split; [done|].
      intros w Hw. rewrite lookup_insert_ne by done. by apply Hz.
Qed.

Lemma w1_inv_exec m rt ups sched : forall s, w1_inv m rt ups s -> w1_inv m rt ups (i_exec m 1 rt sched s).
Proof.
  induction sched as [|w r IH]; intros s H; simpl; [done|]. apply IH. by apply w1_inv_step.
Qed.

Lemma w1_in_order_lemma rt ups sched gid f :
  i_drained (i_exec Unconditional 1 rt sched (i_init ups)) = true ->
  glook (i_groups (i_exec Unconditional 1 rt sched (i_init ups))) gid f =
  if bool_decide (gid ∈ rt f) then last_of f ups else None.
Proof.
  intros Hd.
  assert (H0 : w1_inv Unconditional rt ups (i_init ups)).
  { exists []. unfold slot0. simpl. rewrite lookup_empty. split; [done|]. split; [done|]. intros w _. apply lookup_empty. }
  destruct (w1_inv_exec Unconditional rt ups sched _ H0) as (done & Hp & Hg & Hz).
  apply i_drained_spec in Hd as [Hq Hh].
  assert (Hs0 : slot0 (i_exec Unconditional 1 rt sched (i_init ups)) = []).
  { unfold slot0. destruct (i_slots _ !! 0%nat) as [a|] eqn:E; [|done].
    exfalso. unfold held in Hh. apply elem_of_map_to_list in E.
    destruct (map_to_list _) as [|p l]; [by apply elem_of_nil in E|discriminate]. }
  rewrite Hq, Hs0 in Hp. simpl in Hp. rewrite app_nil_r in Hp. subst done.
  rewrite Hg, apply_uncond_spec.
  assert (Hemp : glook (∅ : gstore) gid f = None) by (unfold glook; by rewrite lookup_empty).
  rewrite Hemp. case_bool_decide; [|done]. by destruct (last_of f ups).
Qed.

(* ---------- corollaries used by Properties/C14.v ---------- *)

Lemma holder_holds_latest_lemma W rt ups sched gid f a :
  sorted_fp ups = true ->
  i_drained (i_exec KeepNewer W rt sched (i_init ups)) = true ->
  glook (i_groups (i_exec KeepNewer W rt sched (i_init ups))) gid f = Some a ->
  last_of f ups = Some a /\ gid ∈ rt f.
Proof.
  intros Hs Hd. rewrite (final_is_latest_lemma W rt ups sched gid f Hs Hd).
  case_bool_decide; [|discriminate]. done.
Qed.

Lemma routed_group_holds_latest_lemma W rt ups sched gid f l :
  sorted_fp ups = true ->
  i_drained (i_exec KeepNewer W rt sched (i_init ups)) = true ->
  gid ∈ rt f -> last_of f ups = Some l ->
  glook (i_groups (i_exec KeepNewer W rt sched (i_init ups))) gid f = Some l.
Proof.
  intros Hs Hd Hr Hl. rewrite (final_is_latest_lemma W rt ups sched gid f Hs Hd).
  by rewrite bool_decide_eq_true_2.
Qed.

(* fire-then-resolve: if the last submitted version is resolved at `now`, no group still shows the alert firing *)
Lemma no_stale_firing_lemma W rt ups sched gid f l a now :
  sorted_fp ups = true ->
  i_drained (i_exec KeepNewer W rt sched (i_init ups)) = true ->
  last_of f ups = Some l -> resolved_at now l = true ->
  glook (i_groups (i_exec KeepNewer W rt sched (i_init ups))) gid f = Some a ->
  resolved_at now a = true /\ u_ends a = u_ends l.
Proof.
  intros Hs Hd Hl Hr Hg. destruct (holder_holds_latest_lemma _ _ _ _ _ _ _ Hs Hd Hg) as [Hl' _].
  rewrite Hl in Hl'. injection Hl' as <-. done.
Qed.

(* resolve-then-fire: if the last submitted version is firing at `now`, every group it routes to holds exactly that
   version (so a flush lists it firing, and DeleteIfNotModified of an older resolved snapshot, which compares
   UpdatedAt, does not remove it) *)
Lemma no_lost_refire_lemma W rt ups sched gid f l now :
  sorted_fp ups = true ->
  i_drained (i_exec KeepNewer W rt sched (i_init ups)) = true ->
  last_of f ups = Some l -> resolved_at now l = false -> gid ∈ rt f ->
  exists a, glook (i_groups (i_exec KeepNewer W rt sched (i_init ups))) gid f = Some a /\
            resolved_at now a = false /\ u_uat a = u_uat l /\ a = l.
Proof.
  intros Hs Hd Hl Hr Hg. exists l. split; [by eapply routed_group_holds_latest_lemma|done].
Qed.

(* step level, no hypothesis on the updates: an older version never overwrites a newer one, and a stored
   fingerprint never disappears (the ingestion sub-machine has no flush) *)
Lemma older_never_overwrites_newer_lemma W rt s w gid f o :
  glook (i_groups s) gid f = Some o ->
  exists o', glook (i_groups (i_step KeepNewer W rt s w)) gid f = Some o' /\ u_uat o <= u_uat o'.
Proof.
  intros Ho. unfold i_step. destruct (negb (w <? W)%nat); [exists o; split; [done|lia]|].
  destruct (i_slots s !! w) as [a|]; simpl.
  - rewrite glook_ins_all. case_bool_decide as Hc; [|exists o; split; [done|lia]].
    destruct Hc as [_ ->]. rewrite Ho. simpl. destruct (u_uat a <? u_uat o) eqn:E.
    + exists o. split; [done|lia].
    + exists a. split; [done|lia].
  - destruct (i_q s); simpl; exists o; (split; [done|lia]).
Qed.

Lemma older_never_overwrites_newer_exec W rt sched : forall s gid f o,
  glook (i_groups s) gid f = Some o ->
  exists o', glook (i_groups (i_exec KeepNewer W rt sched s)) gid f = Some o' /\ u_uat o <= u_uat o'.
Proof.
  induction sched as [|w r IH]; intros s gid f o Ho; simpl; [exists o; split; [done|lia]|].
  destruct (older_never_overwrites_newer_lemma W rt s w gid f o Ho) as (o1 & H1 & L1).
  destruct (IH _ gid f o1 H1) as (o2 & H2 & L2). exists o2. split; [done|lia].
Qed.

(* the schedule "worker 0 does everything" drains every queue (non-vacuity of the drained hypothesis) *)
Lemma drain_possible_lemma m W rt ups : forall g,
  (0 < W)%nat ->
  i_drained (i_exec m W rt (concat (map (fun _ => [0%nat; 0%nat]) ups)) (mkIst ups ∅ g)) = true.
Proof.
  induction ups as [|a q IH]; intros g HW; simpl.
  - unfold i_drained. simpl. by rewrite map_to_list_empty.
  - unfold i_step at 2. simpl. assert ((0 <? W)%nat = true) as -> by lia. simpl.
    rewrite lookup_empty. unfold i_step at 1. simpl. assert ((0 <? W)%nat = true) as -> by lia. simpl.
    rewrite lookup_insert. rewrite delete_insert by apply lookup_empty. by apply IH.
Qed.
